"""Shared by C08 / C09: program space for the formatter contract, AST features and diffs."""
import glob
import os

from lib import common, pipeline, render


def inputs(ctx, n_gen):
    """-> list of (name, source): TLC-generated programs (rendered), construct corpus, repository corpus"""
    rnd = common.rng(ctx, "fmt-inputs")
    out = []
    ge = common.tlc(ctx, "GenExpr", cfg="GenExpr_d1", workers=8, timeout=3000)
    common.require_tlc_ok(ctx, ge, "GenExpr")
    gp = common.tlc(ctx, "GenProg", cfg="GenProg_s2", workers=8, timeout=3000)
    common.require_tlc_ok(ctx, gp, "GenProg")
    er, pr = ge["cases"]["CASE"], gp["cases"]["CASE"]
    er = er if len(er) <= n_gen else rnd.sample(er, n_gen)
    pr = pr if len(pr) <= n_gen else rnd.sample(pr, n_gen)
    for k, r in enumerate(er):
        c = pipeline.expr_case(r, k)
        out.append((f"gen:expr:{k}", "def main() -> None:\n" + "".join("    " + l + "\n" for l in c["body"])))
    for k, r in enumerate(pr):
        c = pipeline.prog_case(r, k)
        out.append((f"gen:prog:{k}", pipeline.HELPER.replace("{N}", "") + "\ndef main() -> None:\n" +
                    "".join("    " + l.replace("{N}", "") + "\n" for l in c["body"])))
    # the other TLC-enumerated universes: data types / match / `?`, control-flow chains, collections / strings / closures / f-strings
    def main_of(c):
        return c["decls"].replace("{N}", "") + "\ndef main() -> None:\n" + "".join("    " + l.replace("{N}", "") + "\n" for l in c["body"])
    for mod, cfg, mk, tag in (("GenData", "GenData", pipeline.data_case, "data"), ("GenCtl", "GenCtl_quick", pipeline.ctl_case, "ctl"),
                              ("GenColl", "GenColl_2", pipeline.coll_case, "coll")):
        g = common.tlc(ctx, mod, cfg=cfg, workers=8, timeout=3000)
        common.require_tlc_ok(ctx, g, mod)
        rows = g["cases"]["CASE"]
        rows = rows if len(rows) <= n_gen else rnd.sample(rows, n_gen)
        for k, r in enumerate(rows):
            out.append((f"gen:{tag}:{k}", main_of(mk(r, k))))
    gj = common.tlc(ctx, "GenObj", cfg="GenObj_2", workers=8, timeout=3000, want_tags=("CASE", "DECLS"))
    common.require_tlc_ok(ctx, gj, "GenObj")
    jr = gj["cases"]["CASE"]
    for k, r in enumerate(jr if len(jr) <= n_gen else rnd.sample(jr, n_gen)):
        out.append((f"gen:obj:{k}", main_of(pipeline.obj_case(r, k, gj["cases"]["DECLS"][0]))))
    for f in sorted(glob.glob(os.path.join(common.VERIF, "corpus", "constructs", "*.incn"))):
        out.append(("construct:" + os.path.basename(f)[:-5], open(f, encoding="utf-8").read()))
    for f in sorted(glob.glob(os.path.join(common.VERIF, "corpus", "repo", "**", "*.incn"), recursive=True)):
        if "/invalid/" not in f:
            out.append(("repo:" + os.path.relpath(f, os.path.join(common.VERIF, "corpus", "repo")), open(f, encoding="utf-8").read()))
    return out


# ---------------------------------------------------------------- AST features (real projection encoding)
def ast_features(ast):
    """set of tags: node kinds, `<kind>.<field>` for present optional fields / true markers, a few value classes"""
    tags = set()

    def walk(n, parent=None):
        if isinstance(n, list):
            for x in n:
                walk(x, parent)
            return
        if not isinstance(n, dict):
            return
        k = n.get("k")
        if k:
            tags.add(k)
            for f, v in n.items():
                if f == "k":
                    continue
                if v is True:
                    tags.add(f"{k}.{f}")
                elif isinstance(v, list) and v and f in ("tparams", "decos", "traits", "extends", "guard", "default", "ty", "alias",
                                                        "methods", "elifs", "else", "filter", "start", "end", "step", "dargs", "mbody"):
                    tags.add(f"{k}.{f}")
                elif f in ("bk", "lk", "op", "recv", "ik", "abk") and isinstance(v, str):
                    tags.add(f"{k}.{f}={v}")
            if k == "lit" and n.get("lk") == "float":
                txt = n.get("ftxt", "")
                if txt.endswith(".0"):
                    tags.add("lit.float.integral")
                if "e" in txt:
                    tags.add("lit.float.exponent")
            if k == "lit" and n.get("lk") == "str" and ("{" in n.get("sv", "") or "}" in n.get("sv", "")):
                tags.add("lit.str.braces")
            if k == "fstr":
                for p in n.get("parts", []):
                    if p.get("pk") == "lit" and ("{" in p.get("sv", "") or "}" in p.get("sv", "")):
                        tags.add("fstr.literal-braces")
            if k == "pctor" and "." in n.get("name", ""):
                tags.add("pctor.dotted-name")
            if k == "pctor" and "::" in n.get("name", ""):
                tags.add("pctor.coloncolon-name")
            if k == "deco":
                for a in n.get("dargs", []):
                    tags.add("deco.arg." + a.get("ak", "") + ("." + a.get("vk", "") if a.get("vk") else ""))
            if k == "closure" and n.get("params"):
                tags.add("closure.params")
            if k == "doc" and "\n" in n.get("sv", ""):
                tags.add("doc.multiline")
            # value classes that GenSyntax showed to matter to the printer
            if k == "doc" and "\\" in n.get("sv", ""):
                tags.add("doc.backslash")
            if k == "lit" and n.get("lk") == "bytes" and (34 in n.get("bytes", []) or 92 in n.get("bytes", [])):
                tags.add("lit.bytes.quote-or-backslash")
            if k == "fstr":
                for p in n.get("parts", []):
                    if p.get("pk") == "lit" and '"' in p.get("sv", ""):
                        tags.add("fstr.literal-dquote")
                    if p.get("pk") == "lit" and any(c in p.get("sv", "") for c in "\n\t\r\\"):
                        tags.add("fstr.literal-escape")
                    if p.get("pk") == "expr" and p.get("e", {}).get("k") == "closure":
                        tags.add("fstr.hole-closure")
            if k == "pctor" and not n.get("pats") and "::" not in n.get("name", ""):
                tags.add("pctor.empty-unqualified")
            if k in ("fassign", "iassign") and n.get("e", {}).get("k") == "bin":
                # `t = t <op> <operator expression>`: the tree a compound assignment on a field / element target denotes
                tgt = {"k": "fieldx", "obj": n.get("obj"), "field": n.get("field")} if k == "fassign" else {"k": "index", "obj": n.get("obj"), "idx": n.get("idx")}
                rk = n["e"].get("r", {})
                if n["e"].get("l") == tgt and rk.get("k") in ("bin", "range"):
                    tags.add("target.self-op-operator-rhs")
                if n["e"].get("l") == tgt and rk.get("k") == "un" and rk.get("op") == "not":
                    tags.add("target.self-op-not-rhs")
        for v in n.values():
            walk(v, n)
    walk(ast)
    return tags


ALIASES = {"list": "List", "Vec": "List", "dict": "Dict", "HashMap": "Dict", "set": "Set", "tuple": "Tuple", "option": "Option",
           "result": "Result", "i64": "int", "i32": "int", "f64": "float", "f32": "float", "Unit": "None", "frozenstr": "FrozenStr",
           "frozenbytes": "FrozenBytes", "frozenlist": "FrozenList", "frozendict": "FrozenDict", "frozenset": "FrozenSet"}


def normalise(n):
    """documented spelling equivalences only: builtin type aliases, (A, B) == Tuple[A, B], unit spellings,
    docstring shape (surrounding whitespace of docstrings)"""
    if isinstance(n, list):
        return [normalise(x) for x in n]
    if not isinstance(n, dict):
        return n
    k = n.get("k")
    if k == "ttuple":
        return {"k": "tgeneric", "name": "Tuple", "targs": normalise(n["targs"])}
    if k == "tunit":
        return {"k": "tsimple", "name": "None"}
    if k == "tsimple":
        return {"k": "tsimple", "name": ALIASES.get(n["name"], n["name"])}
    if k == "tgeneric":
        return {"k": "tgeneric", "name": ALIASES.get(n["name"], n["name"]), "targs": normalise(n["targs"])}
    if k == "doc":
        return {"k": "doc", "sv": "\n".join(l.rstrip() for l in n["sv"].strip().split("\n"))}
    out = {kk: normalise(v) for kk, v in n.items()}
    # a docstring as first statement of a body is an expression statement holding a string literal
    return out


def first_diff(a, b, ctxk="program", field=""):
    """-> '<kind>.<field>' of the first difference between two projected ASTs, or None"""
    if type(a) != type(b):
        return f"{ctxk}.{field}"
    if isinstance(a, dict):
        ka, kb = a.get("k"), b.get("k")
        if ka != kb:
            return f"{ctxk}.{field}:{ka}->{kb}"
        here = ka or ctxk
        for f in a:
            if f not in b:
                return f"{here}.{f}"
            d = first_diff(a[f], b[f], here, f)
            if d:
                return d
        for f in b:
            if f not in a:
                return f"{here}.{f}"
        return None
    if isinstance(a, list):
        if len(a) != len(b):
            return f"{ctxk}.{field}#len"
        for x, y in zip(a, b):
            d = first_diff(x, y, ctxk, field)
            if d:
                return d
        return None
    return None if a == b else f"{ctxk}.{field}"


def line_trace(text, string_spans):
    """formatter output -> ([[tab, trail, instr]..], finalNl); string_spans = byte spans of multi-line string tokens"""
    b = text.encode("utf-8")
    final_nl = len(b) - len(b.rstrip(b"\n"))
    lines = []
    off = 0
    body = text[:len(text) - final_nl] if final_nl else text
    for ln in body.split("\n"):
        lb = ln.encode("utf-8")
        start, end = off, off + len(lb)
        instr = any(s < end and e > start and (s < start or e > end) for s, e in string_spans)
        # tabs / trailing blanks inside a single-line string literal are content as well
        code = ln
        lines.append(["\t" in strip_strings(code), ln != ln.rstrip(" \t\r"), bool(instr)])
        off = end + 1
    return lines, final_nl


def strip_strings(line):
    """remove the contents of simple quoted strings on one line (tabs inside literals are content)"""
    out, q, i = [], None, 0
    while i < len(line):
        ch = line[i]
        if q:
            if ch == "\\":
                i += 2
                continue
            if ch == q:
                q = None
        elif ch in "\"'":
            q = ch
        else:
            out.append(ch)
        i += 1
    return "".join(out)
