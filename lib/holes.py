"""Rendering + judging of spec/GenHole.tla cases (C03: an ill-typed expression is rejected wherever it stands)."""
from lib import common
from lib.common import ToolError

PRELUDE = '''model P:
    x: int
    y: int = 0

class Box:
    n: int

    def put(self, v: int) -> int:
        return self.n + v

def g(a: int) -> int:
    return a

def g2(a: int, b: int) -> int:
    return a + b

def pick(c: bool) -> int:
    if c:
        return 1
    return 0

def unwrap_some(o: Option[int]) -> int:
    match o:
        Some(v) => return v
        None => return 0

def unwrap_ok(r: Result[int, str]) -> int:
    match r:
        Ok(v) => return v
        Err(e) => return 0

'''
HOLDER_OLD = "def m(self, n: int, xs: list[int]) -> int:"
HOLDER_NEW = "def m(self, n: int, xs: list[int], p: P, bx: Box) -> int:"
DECL_LITERAL_TWIN = ("const KK", "def dflt", "model WithDefault")


def program(row):
    """-> (source, (start, end) byte span of the offender)"""
    decl = row["decl"].replace("<NL>", "\n").replace(HOLDER_OLD, HOLDER_NEW)
    body = row["body"].replace("<NL>", "\n").replace("Holder(k=1).m(n, xs)", "Holder(k=1).m(n, xs, p, bx)")
    if row["off"] == "twin" and decl.startswith(DECL_LITERAL_TWIN) and "@<n>@" in decl:
        decl = decl.replace("@<n>@", "@<1>@")
    src = PRELUDE + (decl + "\n" if decl else "") + "def c(n: int, xs: list[int], p: P, bx: Box) -> int:\n" + body + "    return 0\n\n" + \
        "def main() -> None:\n    println(c(1, [1, 2, 3], P(x=1), Box(n=1)))\n"
    b = src.encode("utf-8")
    s = b.find(b"@<")
    e = b.find(b">@")
    if s < 0 or e < 0:
        raise ToolError("GenHole case without offender markers")
    clean = (b[:s] + b[s + 2:e] + b[e + 2:]).decode("utf-8")
    return clean, (s, e - 2)


def ctx_key(row):
    return (row["stmt"], row["decl"].replace("@<" + _off_text(row) + ">@", "_"), row["body"].replace("@<" + _off_text(row) + ">@", "_"))


_OFF = {"unknown-name": "nope", "unknown-function": "nofn(1)", "str-operand": "(1 + \"s\")", "wrong-argument-type": "g(\"s\")",
        "unknown-field": "p.nofield", "unknown-method": "bx.nomethod()", "twin": "n"}


def _off_text(row):
    return _OFF[row["off"]]


def twin_of(row):
    t = dict(row)
    t["off"] = "twin"
    old = "@<" + _off_text(row) + ">@"
    t["decl"] = row["decl"].replace(old, "@<n>@")
    t["body"] = row["body"].replace(old, "@<n>@")
    return t


def judge(ctx, rows, timeout=3000):
    rows = [r for r in rows if r["off"] != "twin"]
    # the well-typed twin of every distinct context (computed here, so that sampled universes work too)
    twins = {}
    for r in rows:
        twins.setdefault(ctx_key(r), twin_of(r))
    tkeys = sorted(twins)
    tprogs = [program(twins[k]) for k in tkeys]
    touts = common.replay_batch([{"op": "check", "src": p[0]} for p in tprogs], timeout=timeout)
    ok_ctx, bad_ctx, unparsable = set(), {}, []
    for k, (src, span), o in zip(tkeys, tprogs, touts):
        ob = o.get("obs", {})
        if ob.get("stage") in ("lex", "parse"):
            # a composition of contexts that is not a program (a string literal inside an f-string hole ...): not a case
            unparsable.append(k)
            continue
        if ob.get("ok"):
            ok_ctx.add(k)
        else:
            bad_ctx[k] = [e.get("msg") for e in ob.get("errs", [])][:2]
    if not ok_ctx or len(unparsable) > len(tkeys) // 5:
        raise ToolError(f"GenHole: {len(ok_ctx)} contexts accepted with their well-typed twin, {len(unparsable)} of {len(tkeys)} do not parse")
    rows = [r for r in rows if ctx_key(r) in ok_ctx]
    progs = [program(r) for r in rows]
    outs = common.replay_batch([{"op": "check", "src": p[0]} for p in progs], timeout=timeout)
    st = {"judged": 0, "contexts_ok": len(ok_ctx), "contexts_twin_rejected": len(bad_ctx), "contexts_not_a_program": len(unparsable), "agree": 0,
          "twin_rejected_samples": [{"ctx": list(k)[1:], "msgs": v} for k, v in list(bad_ctx.items())[:8]]}
    for r, (src, span), o in zip(rows, progs, outs):
        st["judged"] += 1
        ob = o.get("obs", {})
        tags = ["off:" + r["off"], "stmt-ctx:" + r["stmt"].strip().split("<NL>")[-1][:40], "expr-ctx:" + r["inner"], "depth:" + str(r["depth"])] + (["in-fstring-hole"] if r.get("infstr") else [])
        payload = {"offender": r["off"], "src": src, "span": list(span)}
        if "crash" in o or "panic" in ob:
            ctx.fail("hole:checker-panic", dict(payload, panic=ob.get("panic") or str(o)[:300]), tags=tags)
            continue
        if ob.get("stage") in ("lex", "parse"):
            raise ToolError(f"GenHole case does not parse: {ob.get('errs')}\n{src}")
        if ob.get("ok"):
            ctx.fail("hole:ill-typed-expression-accepted:" + r["off"], payload,
                     "an ill-typed expression is accepted in this position (the twin with a well-typed expression is accepted too)", tags=tags)
            continue
        s, e = span
        errs = ob.get("errs", [])
        if any(d["start"] < e and max(d["end"], d["start"] + 1) > s for d in errs):
            st["agree"] += 1
        else:
            ctx.fail("hole:diagnostic-outside-offender:" + r["off"],
                     dict(payload, diagnostics=[(d["start"], d["end"], d["msg"]) for d in errs][:4]),
                     "the program is rejected but no diagnostic lies inside the offending expression", tags=tags)
    return st
