"""Concretisation / abstraction functions between the specification's AST encoding (spec/Core.tla,
GenExpr.tla, GenProg.tla) and Incan source text.

render_*     spec AST (JSON from TLC's ToJson) -> source text: a plain token walk; grouping is
             never invented here (the generators only build precedence-consistent trees with
             explicit Paren nodes).
to_project_* spec AST -> the harness's projection encoding of the real AST (harness/src/project.rs),
             used for the self-check  project(parse(render(t))) == to_project(t)  that runs on every
             generated program before any verdict: a renderer bug is a tool error, never a VIOLATION.
"""
from fractions import Fraction

SCALAR = {"a": "a", "b": "b", "c": "c", "d": "d", "e2": "é", "f2": "ß", "u3": "€", "v3": "中",
          "s4": "\U0001F600", "t4": "\U0001D11E", "sp": " ",
          # GenColl: upper-case images, separators, digits and the letters of true / false (f-strings)
          "A": "A", "B": "B", "C": "C", "D": "D", "E2": "É", "S": "S", "s": "s", "cm": ",", "da": "-",
          "t": "t", "r": "r", "u": "u", "e": "e", "f": "f", "l": "l",
          "dt": ".",        # GenIter: float("2.5")
          "0": "0", "1": "1", "2": "2", "3": "3", "4": "4", "5": "5", "6": "6", "7": "7", "8": "8", "9": "9"}


def scalars_to_str(seq):
    return "".join(SCALAR[x] for x in seq)


def float_text(fn, fd):
    fr = Fraction(fn, 2 ** fd)
    # exact finite decimal
    num, den = fr.numerator, fr.denominator
    sign = "-" if num < 0 else ""
    num = abs(num)
    ip, rem = divmod(num, den)
    digits = ""
    while rem:
        rem *= 10
        d, rem = divmod(rem, den)
        digits += str(d)
    return f"{sign}{ip}.{digits or '0'}"


def str_lit(seq):
    return '"' + scalars_to_str(seq).replace("\\", "\\\\").replace('"', '\\"') + '"'


def render_expr(e):
    k = e["k"]
    if k == "lit":
        lk = e["lk"]
        if lk == "int":
            return str(e["iv"])
        if lk == "float":
            return float_text(e["fn"], e["fd"])
        if lk == "bool":
            return "true" if e["bv"] else "false"
        if lk == "str":
            return str_lit(e["sv"])
        if lk == "none":
            return "None"
    if k == "ident":
        return e["name"]
    if k == "paren":
        return "(" + render_expr(e["e"]) + ")"
    if k == "un":
        return ("not " if e["op"] == "not" else "-") + render_expr(e["e"])
    if k == "bin":
        return f"{render_expr(e['l'])} {e['op']} {render_expr(e['r'])}"
    if k == "call":
        return f"{e['f']}(" + ", ".join(render_expr(a) for a in e["args"]) + ")"
    if k == "index":
        return f"{render_expr(e['obj'])}[{render_expr(e['idx'])}]"
    if k == "slice":
        a = render_expr(e["start"][0]) if e["start"] else ""
        b = render_expr(e["end"][0]) if e["end"] else ""
        s = f"{render_expr(e['obj'])}[{a}:{b}"
        if e["step"]:
            s += ":" + render_expr(e["step"][0])
        return s + "]"
    if k == "list":
        return "[" + ", ".join(render_expr(a) for a in e["items"]) + "]"
    if k == "field":
        return f"{render_expr(e['obj'])}.{e['field']}"
    if k == "variant":
        return f"{e['ty']}{{N}}.{e['name']}" + ("(" + ", ".join(render_expr(a) for a in e["args"]) + ")" if e["args"] else "")
    if k == "some":
        return f"Some({render_expr(e['e'])})"
    if k == "nonelit":
        return "None"
    if k == "ok":
        return f"Ok({render_expr(e['e'])})"
    if k == "errx":
        return f"Err({render_expr(e['e'])})"
    if k == "try":
        return render_expr(e["e"]) + "?"
    if k == "mcall":
        return f"{render_expr(e['recv'])}.{e['name']}(" + ", ".join(render_expr(a) for a in e["args"]) + ")"
    if k == "ctor":
        return f"{e['name']}{{N}}(" + ", ".join(f"{n}={render_expr(v)}" for n, v in zip(e["fnames"], e["args"])) + ")"
    if k == "ctord":
        return f"{e['name']}{{N}}(" + ", ".join(f"{n}={render_expr(v)}" for n, v in zip(e["fnames"], e["args"])) + ")"
    if k == "tuple":
        return "(" + ", ".join(render_expr(a) for a in e["items"]) + ("," if len(e["items"]) == 1 else "") + ")"
    if k == "tfield":
        return f"{render_expr(e['obj'])}.{e['idx']}"
    if k == "dict":
        return "{" + ", ".join(f"{render_expr(a)}: {render_expr(b)}" for a, b in zip(e["keys"], e["vals"])) + "}"
    if k == "listcomp":
        c = f" if {render_expr(e['cond'][0])}" if e["cond"] else ""
        return f"[{render_expr(e['elem'])} for {e['var']} in {render_expr(e['iter'])}{c}]"
    if k == "dictcomp":
        c = f" if {render_expr(e['cond'][0])}" if e["cond"] else ""
        return "{" + f"{render_expr(e['key'])}: {render_expr(e['val'])} for {e['var']} in {render_expr(e['iter'])}{c}" + "}"
    if k == "closure":
        return "(" + ", ".join(e["params"]) + ") => " + render_expr(e["body"])
    if k == "callv":
        return f"{e['f']}(" + ", ".join(render_expr(a) for a in e["args"]) + ")"
    if k == "range":
        return "range(" + ", ".join(render_expr(a) for a in e["args"]) + ")"
    if k == "enumerate":
        return f"enumerate({render_expr(e['e'])})"
    if k == "zip":
        return f"zip({render_expr(e['a'])}, {render_expr(e['b'])})"
    if k == "setlit":
        return "{" + ", ".join(render_expr(a) for a in e["items"]) + "}"
    if k == "fstr":
        out = ""
        for p in e["parts"]:
            out += scalars_to_str(p["sv"]) if p["pk"] == "s" else "{" + render_expr(p["e"]) + "}"
        return 'f"' + out + '"'
    raise ValueError(f"render_expr: unknown kind {k}")


TY = {"int": "int", "float": "float", "bool": "bool", "str": "str", "list[int]": "List[int]", "list[str]": "List[str]",
      "none": "None", "opt[int]": "Option[int]", "res[int,str]": "Result[int, str]"}


ENUM_OF = {"Dot": "Shape", "Circle": "Shape", "Rect": "Shape"}


def render_pat(p):
    k = p["k"]
    if k == "pwild":
        return "_"
    if k == "pbind":
        return p["name"]
    if k == "plit":
        return render_expr(p["lit"])
    if k == "pctor":
        head = p["name"] if p["name"] in ("Some", "None", "Ok", "Err") else f"{ENUM_OF[p['name']]}{{N}}.{p['name']}"
        return head + ("(" + ", ".join(render_pat(x) for x in p["pats"]) + ")" if p["pats"] else "")
    raise ValueError(k)


def render_match_lines(e, ind):
    """arms in `pattern => expr` form; a match with a guarded arm is written in the `case pattern if guard: expr` form
    (guards are only part of the `case` syntax)"""
    pad = " " * (4 * ind)
    out = []
    guarded = any(a["guard"] for a in e["arms"])
    for a in e["arms"]:
        g = f" if {render_expr(a['guard'][0])}" if a["guard"] else ""
        if guarded:
            out.append(f"{pad}case {render_pat(a['pat'])}{g}: {render_expr(a['e'])}")
        else:
            out.append(f"{pad}{render_pat(a['pat'])} => {render_expr(a['e'])}")
    return out


def render_block(stmts, ind):
    out = []
    for s in stmts:
        out += render_stmt(s, ind)
    return out or [" " * (4 * ind) + "pass"]


def render_stmt(s, ind):
    pad = " " * (4 * ind)
    k = s["k"]
    if k == "print":
        return [f"{pad}println({render_expr(s['e'])})"]
    if k == "pass":
        return [pad + "pass"]
    if k == "break":
        return [pad + "break"]
    if k == "continue":
        return [pad + "continue"]
    if k == "return":
        return [pad + "return" + (" " + render_expr(s["e"][0]) if s["e"] else "")]
    if k == "expr":
        return [pad + render_expr(s["e"])]
    if k == "assign":
        kw = {"let": "let ", "mut": "mut ", "inferred": ""}[s["bk"]]
        ann = f": {TY[s['ty']]}" if s.get("ty") else ""
        if s["e"]["k"] == "match":
            return [f"{pad}{kw}{s['name']}{ann} = match {render_expr(s['e']['subj'])}:"] + render_match_lines(s["e"], ind + 1)
        return [f"{pad}{kw}{s['name']}{ann} = {render_expr(s['e'])}"]
    if k == "compound":
        return [f"{pad}{s['name']} {s['op']}= {render_expr(s['e'])}"]
    if k == "if":
        out = [f"{pad}if {render_expr(s['cond'])}:"] + render_block(s["then"], ind + 1)
        for el in s["elifs"]:
            out += [f"{pad}elif {render_expr(el['cond'])}:"] + render_block(el["body"], ind + 1)
        for b in s["else"]:
            out += [f"{pad}else:"] + render_block(b, ind + 1)
        return out
    if k == "while":
        return [f"{pad}while {render_expr(s['cond'])}:"] + render_block(s["body"], ind + 1)
    if k == "for":
        return [f"{pad}for {s['var']} in {render_expr(s['iter'])}:"] + render_block(s["body"], ind + 1)
    if k == "forun":
        return [f"{pad}for {', '.join(s['vars'])} in {render_expr(s['iter'])}:"] + render_block(s["body"], ind + 1)
    if k == "unpack":
        return [f"{pad}{', '.join(s['names'])} = {render_expr(s['e'])}"]
    if k == "setidx":
        return [f"{pad}{s['name']}[{render_expr(s['idx'])}] {s.get('op', '')}= {render_expr(s['e'])}"]
    if k == "setfield":
        return [f"{pad}{render_expr(s['target'])} {s['op']}= {render_expr(s['e'])}"]
    if k == "matchs":
        out = [f"{pad}match {render_expr(s['subj'])}:"]
        for a in s["arms"]:
            g = f" if {render_expr(a['guard'][0])}" if a["guard"] else ""
            if s["form"] == "case":
                out.append(f"{pad}    case {render_pat(a['pat'])}{g}:")
            else:
                out.append(f"{pad}    {render_pat(a['pat'])} =>")
            out += render_block(a["body"], ind + 2)
        return out
    raise ValueError(f"render_stmt: unknown kind {k}")


def render_typedecls(decls):
    """GenObj's DECLS record (types + traits) -> source text; type names carry the per-case suffix {N}"""
    out = []
    tyname = lambda t: t if t in ("int", "float", "bool", "str") else t + "{N}"

    def method(m, ind):
        pad = " " * (4 * ind)
        recv = "mut self" if m["recv"] == "mutself" else "self"
        ps = ", ".join([recv] + [f"{p['name']}: {TY[p['ty']]}" for p in m["params"]])
        head = f"{pad}def {m['name']}({ps}) -> {TY[m['ret']]}"
        if not m["body"]:
            return [head]
        return [head + ":"] + render_block(m["body"], ind + 1)
    for t in decls["traits"]:
        out.append(f"trait {t['name']}{{N}}:")
        for m in t["methods"]:
            out += method(m, 1) + [""]
    for t in decls["types"]:
        head = f"{t['kind']} {t['name']}{{N}}"
        if t["parent"]:
            head += f" extends {t['parent']}{{N}}"
        if t["traits"]:
            head += " with " + ", ".join(x + "{N}" for x in t["traits"])
        out.append(head + ":")
        dflt = {d["name"]: d["e"] for d in t["defaults"]}
        for f in t["fields"]:
            out.append(f"    {f['name']}: {tyname(f['ty'])}" + (f" = {render_expr(dflt[f['name']])}" if f["name"] in dflt else ""))
        out.append("")
        for m in t["methods"]:
            out += method(m, 1) + [""]
    return "\n".join(out) + "\n"


def render_fn(f):
    ps = ", ".join(("mut " if p.get("mut") else "") + f"{p['name']}: {TY[p['ty']]}" for p in f["params"])
    return [f"def {f['name']}({ps}) -> {TY[f['ret']]}:"] + render_block(f["body"], 1)


# ---------------------------------------------------------------- spec AST -> projection encoding
def P_opt(o, f):
    return [f(o[0])] if o else []


def to_project_expr(e):
    k = e["k"]
    if k == "lit":
        lk = e["lk"]
        if lk == "int":
            return {"k": "lit", "lk": "int", "iv": e["iv"]}
        if lk == "float":
            return {"k": "lit", "lk": "float", "val": str(Fraction(e["fn"], 2 ** e["fd"]))}
        if lk == "bool":
            return {"k": "lit", "lk": "bool", "bv": e["bv"]}
        if lk == "str":
            return {"k": "lit", "lk": "str", "sv": scalars_to_str(e["sv"])}
    if k == "ident":
        return {"k": "self"} if e["name"] == "self" else {"k": "ident", "name": e["name"]}
    if k == "paren":
        return {"k": "paren", "e": to_project_expr(e["e"])}
    if k == "un":
        return {"k": "un", "op": e["op"], "e": to_project_expr(e["e"])}
    if k == "bin":
        return {"k": "bin", "op": e["op"], "l": to_project_expr(e["l"]), "r": to_project_expr(e["r"])}
    if k == "call":
        return {"k": "call", "f": {"k": "ident", "name": e["f"]},
                "args": [{"ak": "pos", "e": to_project_expr(a)} for a in e["args"]]}
    if k == "index":
        return {"k": "index", "obj": to_project_expr(e["obj"]), "idx": to_project_expr(e["idx"])}
    if k == "slice":
        return {"k": "slice", "obj": to_project_expr(e["obj"]), "start": P_opt(e["start"], to_project_expr),
                "end": P_opt(e["end"], to_project_expr), "step": P_opt(e["step"], to_project_expr)}
    if k == "list":
        return {"k": "list", "items": [to_project_expr(a) for a in e["items"]]}
    if k == "ctor":
        return {"k": "call", "f": {"k": "ident", "name": e["name"]},
                "args": [{"ak": "named", "name": n, "e": to_project_expr(a)} for n, a in zip(e["fnames"], e["args"])]}
    if k == "field":
        return {"k": "fieldx", "obj": to_project_expr(e["obj"]), "field": e["field"]}
    if k == "variant":
        if e["args"]:
            return {"k": "mcall", "recv": {"k": "ident", "name": e["ty"]}, "name": e["name"],
                    "args": [{"ak": "pos", "e": to_project_expr(a)} for a in e["args"]]}
        return {"k": "fieldx", "obj": {"k": "ident", "name": e["ty"]}, "field": e["name"]}
    if k in ("some", "ok", "errx"):
        return {"k": "call", "f": {"k": "ident", "name": {"some": "Some", "ok": "Ok", "errx": "Err"}[k]},
                "args": [{"ak": "pos", "e": to_project_expr(e["e"])}]}
    if k == "nonelit":
        return {"k": "lit", "lk": "none"}
    if k == "try":
        return {"k": "try", "e": to_project_expr(e["e"])}
    if k == "ctord":
        return {"k": "call", "f": {"k": "ident", "name": e["name"]},
                "args": [{"ak": "named", "name": n, "e": to_project_expr(a)} for n, a in zip(e["fnames"], e["args"])]}
    if k == "tuple":
        return {"k": "tuple", "items": [to_project_expr(a) for a in e["items"]]}
    if k == "tfield":
        return {"k": "fieldx", "obj": to_project_expr(e["obj"]), "field": str(e["idx"])}
    if k == "dict":
        return {"k": "dict", "pairs": [{"key": to_project_expr(a), "val": to_project_expr(b)} for a, b in zip(e["keys"], e["vals"])]}
    if k == "mcall":
        return {"k": "mcall", "recv": to_project_expr(e["recv"]), "name": e["name"],
                "args": [{"ak": "pos", "e": to_project_expr(a)} for a in e["args"]]}
    if k == "listcomp":
        return {"k": "listcomp", "e": to_project_expr(e["elem"]), "var": e["var"], "iter": to_project_expr(e["iter"]),
                "filter": P_opt(e["cond"], to_project_expr)}
    if k == "dictcomp":
        return {"k": "dictcomp", "key": to_project_expr(e["key"]), "val": to_project_expr(e["val"]), "var": e["var"],
                "iter": to_project_expr(e["iter"]), "filter": P_opt(e["cond"], to_project_expr)}
    if k == "closure":
        return {"k": "closure", "params": [{"k": "param", "mut": False, "name": p, "ty": {"k": "tsimple", "name": "_"}, "default": []} for p in e["params"]],
                "e": to_project_expr(e["body"])}
    if k in ("callv", "range"):
        return {"k": "call", "f": {"k": "ident", "name": e["f"] if k == "callv" else "range"},
                "args": [{"ak": "pos", "e": to_project_expr(a)} for a in e["args"]]}
    if k in ("enumerate", "zip"):
        return {"k": "call", "f": {"k": "ident", "name": k},
                "args": [{"ak": "pos", "e": to_project_expr(a)} for a in ([e["e"]] if k == "enumerate" else [e["a"], e["b"]])]}
    if k == "setlit":
        return {"k": "set", "items": [to_project_expr(a) for a in e["items"]]}
    if k == "fstr":
        parts = []
        for p in e["parts"]:
            if p["pk"] == "s":
                if parts and parts[-1]["pk"] == "lit":
                    parts[-1]["sv"] += scalars_to_str(p["sv"])
                else:
                    parts.append({"pk": "lit", "sv": scalars_to_str(p["sv"])})
            else:
                parts.append({"pk": "expr", "e": to_project_expr(p["e"])})
        return {"k": "fstr", "parts": parts}
    if k == "match":
        guarded = any(a["guard"] for a in e["arms"])     # rendered in `case` form: the parser stores `case p: e` as a one-statement block
        return {"k": "match", "subj": to_project_expr(e["subj"]),
                "arms": [{"k": "arm", "pat": to_project_pat(a["pat"]), "guard": [to_project_expr(a["guard"][0])] if a["guard"] else [],
                          "abk": "block" if guarded else "expr",
                          "e": [] if guarded else [to_project_expr(a["e"])],
                          "body": [{"k": "expr", "e": to_project_expr(a["e"])}] if guarded else []} for a in e["arms"]]}
    raise ValueError(f"to_project_expr: {k}")


def to_project_pat(p):
    k = p["k"]
    if k == "pwild":
        return {"k": "pwild"}
    if k == "pbind":
        return {"k": "pbind", "name": p["name"]}
    if k == "plit":
        return {"k": "plit", "lit": to_project_expr(p["lit"])}
    if k == "pctor":
        if p["name"] == "None" and not p["pats"]:
            return {"k": "plit", "lit": {"k": "lit", "lk": "none"}}      # the parser reads `None` in a pattern as a literal
        name = p["name"] if p["name"] in ("Some", "None", "Ok", "Err") else f"{ENUM_OF[p['name']]}::{p['name']}"
        return {"k": "pctor", "name": name, "pats": [to_project_pat(x) for x in p["pats"]]}
    raise ValueError(k)


def P_ty(t):
    if t in ("int", "float", "bool", "str"):
        return {"k": "tsimple", "name": t}
    if t == "none":
        return {"k": "tsimple", "name": "None"}
    if t.startswith("list["):
        return {"k": "tgeneric", "name": "List", "targs": [P_ty(t[5:-1])]}
    if t == "opt[int]":
        return {"k": "tgeneric", "name": "Option", "targs": [P_ty("int")]}
    if t == "res[int,str]":
        return {"k": "tgeneric", "name": "Result", "targs": [P_ty("int"), P_ty("str")]}
    raise ValueError(t)


def to_project_block(b):
    return [to_project_stmt(s) for s in b] or [{"k": "pass"}]


def to_project_stmt(s):
    k = s["k"]
    if k == "print":
        return {"k": "expr", "e": {"k": "call", "f": {"k": "ident", "name": "println"},
                                   "args": [{"ak": "pos", "e": to_project_expr(s["e"])}]}}
    if k in ("pass", "break", "continue"):
        return {"k": k}
    if k == "return":
        return {"k": "return", "e": P_opt(s["e"], to_project_expr)}
    if k == "expr":
        return {"k": "expr", "e": to_project_expr(s["e"])}
    if k == "assign":
        return {"k": "assign", "bk": s["bk"], "name": s["name"], "ty": [P_ty(s["ty"])] if s.get("ty") else [],
                "e": to_project_expr(s["e"])}
    if k == "compound":
        return {"k": "compound", "name": s["name"], "op": s["op"] + "=", "e": to_project_expr(s["e"])}
    if k == "if":
        return {"k": "if", "cond": to_project_expr(s["cond"]), "then": to_project_block(s["then"]),
                "elifs": [{"cond": to_project_expr(el["cond"]), "body": to_project_block(el["body"])} for el in s["elifs"]],
                "else": [to_project_block(b) for b in s["else"]]}
    if k == "while":
        return {"k": "while", "cond": to_project_expr(s["cond"]), "body": to_project_block(s["body"])}
    if k == "for":
        return {"k": "for", "var": s["var"], "iter": to_project_expr(s["iter"]), "body": to_project_block(s["body"])}
    if k == "unpack":
        return {"k": "unpack", "bk": "inferred", "names": list(s["names"]), "e": to_project_expr(s["e"])}
    if k == "forun":     # `for a, b in it:` (the projection of the real AST has a single `var`; kept apart on purpose)
        return {"k": "for", "vars": list(s["vars"]), "iter": to_project_expr(s["iter"]), "body": to_project_block(s["body"])}
    if k == "setfield":
        if s["op"]:      # the parser desugars `p.f op= e` into `p.f = p.f op e`
            return {"k": "fassign", "obj": to_project_expr(s["target"]["obj"]), "field": s["target"]["field"],
                    "e": {"k": "bin", "op": s["op"], "l": to_project_expr(s["target"]), "r": to_project_expr(s["e"])}}
        return {"k": "fassign", "obj": to_project_expr(s["target"]["obj"]), "field": s["target"]["field"], "e": to_project_expr(s["e"])}
    if k == "setidx":
        e = to_project_expr(s["e"])
        if s.get("op"):      # the parser desugars `xs[i] op= e` into `xs[i] = xs[i] op e`
            e = {"k": "bin", "op": s["op"], "l": {"k": "index", "obj": {"k": "ident", "name": s["name"]}, "idx": to_project_expr(s["idx"])}, "r": e}
        return {"k": "iassign", "obj": {"k": "ident", "name": s["name"]}, "idx": to_project_expr(s["idx"]), "e": e}
    if k == "matchs":
        return {"k": "expr", "e": {"k": "match", "subj": to_project_expr(s["subj"]),
                                   "arms": [{"k": "arm", "pat": to_project_pat(a["pat"]),
                                             "guard": [to_project_expr(a["guard"][0])] if a["guard"] else [],
                                             "abk": "block", "e": [], "body": to_project_block(a["body"])} for a in s["arms"]]}}
    raise ValueError(f"to_project_stmt: {k}")


def norm_real(node):
    """normalise the harness projection of the real AST for comparison: floats by value"""
    if isinstance(node, list):
        return [norm_real(x) for x in node]
    if isinstance(node, dict):
        if node.get("k") == "lit" and node.get("lk") == "float":
            import struct
            v = struct.unpack("<d", struct.pack("<Q", int(node["bits"])))[0]
            return {"k": "lit", "lk": "float", "val": str(Fraction(v))}
        return {k: norm_real(v) for k, v in node.items()}
    return node


# ---------------------------------------------------------------- values printed by compiled programs
def value_matches(v, line):
    """does the stdout line `line` show the spec value v?"""
    t = v["t"]
    if t == "int":
        return line.strip() == str(v["iv"])
    if t == "bool":
        return line.strip() == ("true" if v["bv"] else "false")
    if t == "str":
        return line == scalars_to_str(v["sv"])
    if t == "float":
        try:
            return Fraction(float(line.strip())) == Fraction(v["fn"], 2 ** v["fd"])
        except ValueError:
            return False
    if t == "list":
        return None   # printing of collections is not specified
    return False


def value_text(v):
    t = v["t"]
    if t == "int":
        return str(v["iv"])
    if t == "bool":
        return "true" if v["bv"] else "false"
    if t == "str":
        return scalars_to_str(v["sv"])
    if t == "float":
        return float_text(v["fn"], v["fd"])
    return str(v)
