"""Shared pipeline binding for the compiler properties (C01, C02, C06, C07, C13):
TLC-generated programs -> render -> self-check (parse(render(t)) == t) -> real checker / emitter
(in process) -> real `incan build` + run (batched) -> per-case observation -> judgement against
what the specification (spec/Core.tla) says about the case.
"""
import json

from lib import common, e2e, render
from lib.common import ToolError


def expr_case(row, k, prefix="e"):
    """GenExpr row -> e2e case: the fixed environment bindings, then println(<e>)."""
    body = [l for d in ENV_LINES for l in [d]] + [f"println({render.render_expr(row['e'])})"]
    return {"id": f"{prefix}{k}", "decls": "", "body": body, "aborts": row["status"] == "error",
            "expect": {"out": row["out"], "status": row["status"], "err": row["err"]},
            "tags": row.get("feats", []), "ast": row["e"], "kind": "expr"}


ENV_LINES = ['let x = 7', 'let y = -3', 'let z = 2', 'let f = 2.5', 'let g = -0.5', 'let s = "aé€\U0001F600b"', 'let t = "é"',
             'let p = true', 'let q = false', 'let xs = [3, 1, 4]']
ENV_AST_NAMES = ["x", "y", "z", "f", "g", "s", "t", "p", "q", "xs"]


def self_check_exprs(ctx, cases):
    """project(parse(render(t))) == t for the expression of every case (tool error otherwise, unless the
    parser itself rejects the text: that is returned as a finding candidate for the caller)."""
    reqs = [{"op": "parse", "src": "def main() -> None:\n    println(" + render.render_expr(c["ast"]) + ")\n"} for c in cases]
    outs = common.replay_batch(reqs, timeout=1800)
    parse_rejects = {}
    for c, q, o in zip(cases, reqs, outs):
        ob = o.get("obs", {})
        if "crash" in o or "panic" in ob:
            parse_rejects[c["id"]] = {"panic": ob.get("panic", str(o))}
            continue
        if not ob.get("ok"):
            parse_rejects[c["id"]] = ob.get("err")
            continue
        try:
            real = ob["ast"]["decls"][0]["body"][0]["e"]["args"][0]["e"]
        except (KeyError, IndexError):
            raise ToolError(f"self-check: unexpected AST shape for {q['src']!r}")
        if render.norm_real(real) != render.to_project_expr(c["ast"]):
            _selfcheck_mismatch(ctx, "renderer self-check failed (spec AST != parse(render(AST)))", q["src"] + "\n" +
                                json.dumps(render.norm_real(real)) + "\n" + json.dumps(render.to_project_expr(c["ast"])))
    return parse_rejects


def judge_run(case, ob):
    """compare a 'ran'/'abort' observation with the specification's Run; -> None or (symptom, detail)"""
    exp = case["expect"]
    out = ob.get("out", [])
    # printed prefix must match value by value
    n = len(exp["out"])
    for i, v in enumerate(exp["out"]):
        if i >= len(out):
            if ob["stage"] == "abort":
                return ("run:unexpected-abort", {"after_lines": len(out), "abort": ob.get("err"), "expected_next": render.value_text(v)})
            return ("run:missing-output", {"expected": [render.value_text(x) for x in exp["out"]], "observed": out})
        m = render.value_matches(v, out[i])
        if m is False:
            return ("run:wrong-output", {"line": i, "expected": render.value_text(v), "observed": out[i]})
    if len(out) > n:
        return ("run:extra-output", {"expected": [render.value_text(x) for x in exp["out"]], "observed": out})
    if exp["status"] == "done":
        if ob["stage"] == "abort":
            return ("run:unexpected-abort", {"abort": ob.get("err")})
        return None
    # specified error
    if ob["stage"] != "abort":
        return ("run:missing-abort", {"expected": exp["err"], "observed": out})
    if exp["err"].startswith(PANIC_ANY):
        return None          # documented to panic; the message is not documented
    if ob.get("err") != exp["err"]:
        return ("run:wrong-error-text", {"expected": exp["err"], "observed": ob.get("err")})
    return None


PANIC_ANY = "PANIC (message not specified)"      # spec/Core.tla PanicUnwrap


def run_cases(ctx, cases, per_batch=120):
    """-> list of observations aligned with cases (see lib/e2e.py)"""
    return e2e.run_cases(ctx, cases, per_batch=per_batch)


# ---------------------------------------------------------------- symptoms
import re as _re


def build_symptom(text):
    """rustc / generator diagnostic -> stable symptom string"""
    m = _re.search(r"error(\[E\d+\])?: ([^\n]*)", text or "")
    if not m:
        return "build:unclassified"
    code = (m.group(1) or "").strip("[]")
    msg = m.group(2)
    msg = _re.sub(r"`[^`]*`", "`_`", msg)          # identifiers / types out
    msg = _re.sub(r"\d+", "N", msg)
    return f"build:{code}:{msg[:80]}"


def evaluate(ctx, cases, per_batch=120):
    """run the cases through the real pipeline; -> list of {stage, symptom, detail} aligned with cases.
    symptom is None when the real behaviour equals the specification's."""
    obs = run_cases(ctx, cases, per_batch=per_batch)
    res = []
    for c, o in zip(cases, obs):
        st = o["stage"]
        if st in ("ran", "abort"):
            j = judge_run(c, o)
            res.append({"stage": st, "symptom": j[0] if j else None, "detail": j[1] if j else None, "obs": o})
        elif st == "check":
            errs = o.get("err") or []
            res.append({"stage": st, "symptom": "check:spec-accepts-checker-rejects",
                        "detail": [e.get("msg") for e in errs][:3] if isinstance(errs, list) else str(errs)})
        elif st == "parse":
            res.append({"stage": st, "symptom": "parse:rendered-program-rejected", "detail": o.get("err")})
        elif st == "emit":
            msg = str(o.get("err"))
            res.append({"stage": st, "symptom": "emit:" + _re.sub(r"'[^']*'", "'_'", msg)[:90], "detail": msg[:600]})
        elif st == "build":
            res.append({"stage": st, "symptom": build_symptom(o.get("err")), "detail": (o.get("err") or "")[:1500]})
        else:
            raise ToolError(f"e2e tool problem for case {c['id']}: {o.get('err')}")
    return res


def _selfcheck_mismatch(ctx, what, text):
    """parse(render(t)) != t. The renderer is validated on the unchanged tree, so on a changed tree this means the PARSER reads
    the documented form differently. It is not a verdict by itself: the case goes on to the real pipeline with the expectation
    the specification computed for t, and a wrong behaviour is then reported there. (VERIF_STRICT_SELFCHECK=1: stop - used while
    developing the renderer.)"""
    import os
    if os.environ.get("VERIF_STRICT_SELFCHECK") == "1":
        raise ToolError(what + ":\n" + text)
    ctx.stats["selfcheck_mismatches"] = ctx.stats.get("selfcheck_mismatches", 0) + 1
    if len(ctx.stats.setdefault("selfcheck_mismatch_samples", [])) < 3:
        ctx.stats["selfcheck_mismatch_samples"].append(text[:600])
    common.log("[self-check] " + what + " (case kept; judged by its behaviour)")


HELPER = "def h{N}(a: int) -> int:\n    println(a)\n    return a + 1\n"


def prog_case(row, k, prefix="p"):
    """GenProg row -> e2e case"""
    body = []
    for s in row["body"]:
        body += [_re.sub(r"\bh\(", "h{N}(", l) for l in render.render_stmt(s, 0)]
    return {"id": f"{prefix}{k}", "decls": HELPER, "body": body, "aborts": row["status"] == "error",
            "expect": {"out": row["out"], "status": row["status"], "err": row["err"]},
            "tags": row.get("feats", []), "ast": row["body"], "kind": "prog"}


CTL_HELPERS = ("def t{N}(k: int) -> bool:\n    println(k)\n    return true\n\n"
               "def f{N}(k: int) -> bool:\n    println(k)\n    return false\n\n")


def _suffix_fns(line, names):
    return _re.sub(r"\b(" + "|".join(names) + r")\(", r"\1{N}(", line)


def ctl_case(row, k, prefix="c"):
    """GenCtl row -> e2e case: helpers t / f, the generated function g, and `println(g(1))` as the case body"""
    g = row["g"]
    lines = [_suffix_fns(l, ["t", "f"]) for l in render.render_fn(g)]
    lines[0] = lines[0].replace("def g(", "def g{N}(")
    return {"id": f"{prefix}{k}", "decls": CTL_HELPERS + "\n".join(lines) + "\n", "body": ["println(g{N}(1))"],
            "aborts": row["status"] == "error", "expect": {"out": row["out"], "status": row["status"], "err": row["err"]},
            "tags": sorted(row.get("feats", [])), "ast": g["body"], "kind": "ctl"}


def coll_case(row, k, prefix="o"):
    """GenColl row -> e2e case (main body = prelude + operations + dump)"""
    c = prog_case(row, k, prefix=prefix)
    c["kind"] = "coll"
    c["tags"] = sorted(set(row.get("feats", [])) | ast_tags(row["body"][3:-4]))
    return c


def _calls_with(node, names):
    if isinstance(node, list):
        return any(_calls_with(x, names) for x in node)
    if isinstance(node, dict):
        if node.get("k") in ("call", "callv") and any(a.get("k") == "ident" and a.get("name") in names for a in node["args"]):
            return True
        return any(_calls_with(v, names) for v in node.values() if isinstance(v, (dict, list)))
    return False


def ast_tags(node, out=None, parent=None):
    """generic construct tags of a spec AST (known-finding signatures for the GenColl universe)"""
    out = set() if out is None else out
    if isinstance(node, list):
        for x in node:
            ast_tags(x, out, parent)
    elif isinstance(node, dict):
        k = node.get("k")
        if k:
            out.add("n:" + k)
            if k == "mcall":
                out.add("m:" + node["name"])
                out.add("m-recv:" + node["name"] + ":" + node["recv"].get("k", "?"))
            if k == "call":
                out.add("f:" + node["f"])
            if k == "bin":
                out.add("op:" + node["op"])
                for side in ("l", "r"):
                    out.add("op-operand:" + node["op"] + ":" + node[side].get("k", "?"))
            if k in ("listcomp", "dictcomp"):
                out.add(k + "-iter:" + node["iter"].get("k", "?"))
                out.add(k + ("-filter:" + node["cond"][0].get("k", "?") if node["cond"] else "-nofilter"))
                out.add(k + "-elem:" + (node.get("elem") or node.get("val")).get("k", "?"))
            if k == "closure":
                out.add("closure-body:" + node["body"].get("k", "?"))
                if _calls_with(node["body"], set(node["params"])):
                    out.add("closure-calls-with-param")
            if k in ("for", "forun"):
                out.add("for-iter:" + node["iter"].get("k", "?"))
                if node["iter"].get("k") == "mcall":
                    out.add("for-iter:m:" + node["iter"]["name"])
            if k in ("enumerate", "zip"):
                for a in ([node["e"]] if k == "enumerate" else [node["a"], node["b"]]):
                    out.add(k + "-arg:" + a.get("k", "?") + (":" + a["f"] if a.get("k") == "call" else ""))
            if k == "tuple":
                for it in node["items"]:
                    out.add("tuple-item:" + it.get("k", "?"))
            if k == "setidx":
                out.add("setidx:" + node["name"])
        for key, v in node.items():
            if isinstance(v, (dict, list)):
                ast_tags(v, out, node)
    return out


def obj_case(row, k, decls, prefix="j"):
    """GenObj row -> e2e case; `decls` = the DECLS record printed by the specification"""
    c = prog_case(row, k, prefix=prefix)
    c["kind"] = "obj"
    c["decls"] = HELPER + "\n" + render.render_typedecls(decls)
    c["body"] = [_re.sub(r"\b(Sq|Rect|Base|Derived|Q2)\(", r"\1{N}(", l) for l in c["body"]]
    c["tags"] = sorted(set(row.get("feats", [])) | ast_tags(row["body"][4:-8]))
    return c


def _fn_names(decls):
    return [f["name"] for f in decls["fns"]]


def iter_decls(decls, body_lines):
    """the helper functions of spec/GenIter.tla (its DECLS row) that the rendered lines use, transitively, as source text;
    every function name carries the per-case suffix {N}"""
    names = _fn_names(decls)
    rx = _re.compile(r"\b(" + "|".join(sorted(names, key=len, reverse=True)) + r")\(")
    text = {f["name"]: render.render_fn(f) for f in decls["fns"]}
    need, todo = [], list(dict.fromkeys(m for l in body_lines for m in rx.findall(l)))
    while todo:
        n = todo.pop(0)
        if n in need:
            continue
        need.append(n)
        todo += [m for l in text[n][1:] for m in rx.findall(l) if m not in need]
    out = []
    for f in decls["fns"]:          # declaration order of the specification
        if f["name"] in need:
            out.append("\n".join(rx.sub(r"\1{N}(", l) for l in text[f["name"]]) + "\n")
    return "\n".join(out), [f for f in decls["fns"] if f["name"] in need], rx


def iter_case(row, k, decls, prefix="i"):
    """GenIter row -> e2e case (main body = prelude + operations + dump; decls = the helper functions it uses)"""
    lines = []
    for s in row["body"]:
        lines += render.render_stmt(s, 0)
    text, fns, rx = iter_decls(decls, lines)
    return {"id": f"{prefix}{k}", "decls": text, "body": [rx.sub(r"\1{N}(", l) for l in lines], "aborts": row["status"] == "error",
            "expect": {"out": row["out"], "status": row["status"], "err": row["err"]},
            "tags": sorted(set(row.get("feats", [])) | ast_tags(row["body"][5:-5])), "ast": row["body"], "fns": fns, "kind": "iter"}


def self_check_iter(ctx, cases):
    """helper functions and main body must parse back to the ASTs the specification evaluated"""
    reqs = [{"op": "parse", "src": c["decls"].replace("{N}", "") + "\ndef main() -> None:\n" +
             "".join("    " + l.replace("{N}", "") + "\n" for l in c["body"])} for c in cases]
    outs = common.replay_batch(reqs, timeout=1800)
    rejects = {}
    for c, q, o in zip(cases, reqs, outs):
        ob = o.get("obs", {})
        if not ob.get("ok"):
            rejects[c["id"]] = ob.get("err") or ob
            continue
        real = [render.norm_real(d["body"]) for d in ob["ast"]["decls"] if d.get("k") == "fn"]
        want = [render.to_project_block(f["body"]) for f in c["fns"]] + [render.to_project_block(c["ast"])]
        if real != want:
            bad = next((i for i in range(min(len(real), len(want))) if real[i] != want[i]), -1)
            _selfcheck_mismatch(ctx, "renderer self-check failed for an iteration program", q["src"] + "\n" +
                                json.dumps(real[bad] if bad >= 0 else real)[:2500] + "\n" + json.dumps(want[bad] if bad >= 0 else want)[:2500])
    return rejects


def iter_rows(ctx, quick_cfg="GenIter_2"):
    """(rows, DECLS record) of the exhaustive GenIter universe"""
    g = common.tlc(ctx, "GenIter", cfg=quick_cfg, workers=8, timeout=6000, want_tags=("CASE", "DECLS"))
    common.require_tlc_ok(ctx, g, "GenIter / AllAccepted / Sound / OrderFree")
    return g["cases"]["CASE"], g["cases"]["DECLS"][0]


def iter_sources(ctx, n, rnd):
    """formatter inputs (C08 / C09): n GenIter programs as source text, named gen:iter:<k>"""
    rows, decls = iter_rows(ctx)
    rows = rows if len(rows) <= n else rnd.sample(rows, n)
    out = []
    for k, r in enumerate(rows):
        c = iter_case(r, k, decls)
        out.append((f"gen:iter:{k}", c["decls"].replace("{N}", "") + "\ndef main() -> None:\n" +
                    "".join("    " + l.replace("{N}", "") + "\n" for l in c["body"])))
    return out


def div_case(row, k, prefix="v"):
    """GenDiv row -> e2e case (class Cell + main body)"""
    c = prog_case(row, k, prefix=prefix)
    c["kind"] = "div"
    c["decls"] = render.render_typedecls({"types": row["types"], "traits": []})
    c["body"] = [_re.sub(r"\bCell\(", "Cell{N}(", l) for l in c["body"]]
    c["tags"] = sorted(row.get("feats", []))
    return c


def self_check_ctl(ctx, cases):
    """the rendered function g must parse back to the AST the specification evaluated"""
    reqs = [{"op": "parse", "src": c["decls"].replace("{N}", "")} for c in cases]
    outs = common.replay_batch(reqs, timeout=1800)
    rejects = {}
    for c, q, o in zip(cases, reqs, outs):
        ob = o.get("obs", {})
        if not ob.get("ok"):
            rejects[c["id"]] = ob.get("err") or ob
            continue
        real = render.norm_real(ob["ast"]["decls"][2]["body"])
        want = render.to_project_block(c["ast"])
        if real != want:
            _selfcheck_mismatch(ctx, "renderer self-check failed for a control-flow program", q["src"] + "\n" + json.dumps(real)[:2500] +
                                "\n" + json.dumps(want)[:2500])
    return rejects


def self_check_progs(ctx, cases):
    reqs = [{"op": "parse", "src": "def main() -> None:\n" + "".join("    " + l.replace("{N}", "") + "\n" for l in c["body"])} for c in cases]
    outs = common.replay_batch(reqs, timeout=1800)
    rejects = {}
    for c, q, o in zip(cases, reqs, outs):
        ob = o.get("obs", {})
        if not ob.get("ok"):
            rejects[c["id"]] = ob.get("err") or ob
            continue
        real = render.norm_real(ob["ast"]["decls"][0]["body"])
        want = render.to_project_block(c["ast"])
        if real != want:
            _selfcheck_mismatch(ctx, "renderer self-check failed for a statement program", q["src"] + "\n" + json.dumps(real)[:1500] +
                                "\n" + json.dumps(want)[:1500])
    return rejects


DATA_DECLS = """model P{N}:
    x: int
    y: int

model Q{N}:
    p: P{N}
    z: int

enum Shape{N}:
    Dot
    Circle(int)
    Rect(int, int)

def h{N}(a: int) -> int:
    println(a)
    return a + 1

def safe_div{N}(a: int, b: int) -> Result[int, str]:
    if b == 0:
        return Err("bad")
    return Ok(a // b)

def maybe{N}(a: int) -> Option[int]:
    if a <= 0:
        return None
    return Some(a)

def twice{N}(a: int, b: int) -> Result[int, str]:
    let q = safe_div{N}(a, b)?
    println(q)
    return Ok(q * 2)
"""


def data_case(row, k, prefix="d"):
    """GenData row -> e2e case"""
    body = []
    for s in row["body"]:
        body += [_re.sub(r"\b(h|safe_div|twice|maybe)\(", r"\1{N}(", l) for l in render.render_stmt(s, 0)]
    return {"id": f"{prefix}{k}", "decls": DATA_DECLS, "body": body, "aborts": row["status"] == "error",
            "expect": {"out": row["out"], "status": row["status"], "err": row["err"]},
            "tags": row.get("feats", []), "ast": row["body"], "kind": "data"}


def self_check_data(ctx, cases):
    def strip(t):
        return t.replace("{N}", "")
    reqs = [{"op": "parse", "src": "def main() -> None:\n" + "".join("    " + strip(l) + "\n" for l in c["body"])} for c in cases]
    outs = common.replay_batch(reqs, timeout=1800)
    rejects = {}
    for c, q, o in zip(cases, reqs, outs):
        ob = o.get("obs", {})
        if not ob.get("ok"):
            rejects[c["id"]] = ob.get("err") or ob
            continue
        real = render.norm_real(ob["ast"]["decls"][0]["body"])
        want = render.to_project_block(c["ast"])
        if real != want:
            _selfcheck_mismatch(ctx, "renderer self-check failed for a data program", q["src"] + "\n" + json.dumps(real)[:2500] +
                                "\n" + json.dumps(want)[:2500])
    return rejects
