"""GenSyntax (spec/GenSyntax.tla) -> Incan source text, the tree the row states, coverage of the option space.

A row of the generator is {ast, tags, depth, root, last}: `ast` is the abstract syntax tree the case DENOTES in the
JSON shape of harness/src/project.rs plus surface hints (fields named sx*), `tags` are the feature tags the specification
computes from the derivation (node:<production>, opt:<production>.<option>=<value>, ctx:<parent>.<slot>,
sub:<parent>.<slot>=<production>).
  render(ast)    the canonical layout of the case (4-space indentation, one blank line between members), honouring the
                 surface hints - the printer is deliberately dumb: operators are written as they stand, grouping is
                 the Paren nodes of the tree (the specification inserts the necessary ones)
  expected(ast)  the tree without the hints = what `parse` must return for render(ast), field by field
  cases(ctx)     rows of the tier's configurations, with names that are stable across runs
  coverage(..)   every (production, option, value) of the domains the specification declares occurs in a row; rows and
                 texts pairwise distinct
"""
import json

from lib import common
from lib.common import ToolError

IND = "    "
SUBST = (("<E>", "é"), ("<BS>", "\\"))


def subst(x):
    if isinstance(x, str):
        for a, b in SUBST:
            x = x.replace(a, b)
        return x
    if isinstance(x, list):
        return [subst(v) for v in x]
    if isinstance(x, dict):
        return {k: subst(v) for k, v in x.items()}
    return x


def expected(n):
    """the tree the row states: surface hints removed"""
    if isinstance(n, list):
        return [expected(x) for x in n]
    if isinstance(n, dict):
        return {k: expected(v) for k, v in n.items() if not k.startswith("sx")}
    return n


# ---------------------------------------------------------------- literals
def _str_lit(s):
    out = ['"']
    for ch in s:
        out.append({"\n": "\\n", "\t": "\\t", "\r": "\\r", "\\": "\\\\", '"': '\\"'}.get(ch, ch))
    out.append('"')
    return "".join(out)


def r_lit(l):
    if "sxtxt" in l:
        return l["sxtxt"]
    lk = l["lk"]
    if lk == "int":
        return str(l["iv"])
    if lk == "float":
        return l["ftxt"]
    if lk == "str":
        return _str_lit(l["sv"])
    if lk == "bool":
        return "true" if l["bv"] else "false"
    if lk == "none":
        return "None"
    if lk == "bytes":
        return 'b"' + "".join(chr(b) if 32 <= b < 127 and b not in (34, 92) else "\\x%02x" % b for b in l["bytes"]) + '"'
    raise ToolError(f"gensyntax: literal kind {lk}")


# ---------------------------------------------------------------- types, patterns
def r_type(t):
    k = t["k"]
    if k == "tsimple":
        return t["name"]
    if k == "tgeneric":
        return t["name"] + "[" + ", ".join(r_type(x) for x in t["targs"]) + "]"
    if k == "tfn":
        return "(" + ", ".join(r_type(x) for x in t["targs"]) + ") -> " + r_type(t["ret"])
    if k == "tunit":
        return "()"
    if k == "ttuple":
        xs = [r_type(x) for x in t["targs"]]
        return "(" + xs[0] + ",)" if len(xs) == 1 else "(" + ", ".join(xs) + ")"
    if k == "tself":
        return "Self"
    raise ToolError(f"gensyntax: type kind {k}")


def r_pat(p):
    k = p["k"]
    if k == "pwild":
        return "_"
    if k == "pbind":
        return p["name"]
    if k == "plit":
        return r_lit(p["lit"])
    if k == "pctor":
        name = p["name"].replace("::", ".")
        if p["pats"]:
            return name + "(" + ", ".join(r_pat(x) for x in p["pats"]) + ")"
        return name + ("()" if p.get("sxparens") else "")
    if k == "ptuple":
        return "(" + ", ".join(r_pat(x) for x in p["pats"]) + ")"
    raise ToolError(f"gensyntax: pattern kind {k}")


# ---------------------------------------------------------------- expressions
def r_args(args, tc=False):
    xs = [(a["name"] + "=" + r_expr(a["e"], 0)) if a["ak"] == "named" else r_expr(a["e"], 0) for a in args]
    return ", ".join(xs) + ("," if tc and xs else "")


def r_expr(e, ind):
    """ind = indentation level of the statement the expression belongs to (block expressions continue below it)"""
    k = e["k"]
    if k == "ident":
        return e["name"]
    if k == "lit":
        return r_lit(e)
    if k == "self":
        return "self"
    if k == "bin":
        return r_expr(e["l"], ind) + " " + e["op"] + " " + r_expr(e["r"], ind)
    if k == "un":
        return ("not " if e["op"] == "not" else "-") + r_expr(e["e"], ind)
    if k == "call":
        return r_expr(e["f"], ind) + "(" + r_args(e["args"], e.get("sxtc")) + ")"
    if k == "mcall":
        return r_expr(e["recv"], ind) + "." + e["name"] + "(" + r_args(e["args"], e.get("sxtc")) + ")"
    if k == "index":
        return r_expr(e["obj"], ind) + "[" + r_expr(e["idx"], ind) + "]"
    if k == "slice":
        s = r_expr(e["obj"], ind) + "[" + "".join(r_expr(x, ind) for x in e["start"]) + ":" + "".join(r_expr(x, ind) for x in e["end"])
        if e["step"]:
            s += ":" + r_expr(e["step"][0], ind)
        elif e.get("sxc2"):
            s += ":"
        return s + "]"
    if k == "fieldx":
        return r_expr(e["obj"], ind) + "." + e["field"]
    if k == "await":
        return "await " + r_expr(e["e"], ind)
    if k == "try":
        return r_expr(e["e"], ind) + "?"
    if k == "paren":
        return "(" + r_expr(e["e"], ind) + ")"
    if k in ("tuple", "list", "set"):
        xs = [r_expr(x, ind) for x in e["items"]]
        body = ", ".join(xs) + ("," if (e.get("sxtc") and xs) or (k == "tuple" and len(xs) == 1) else "")
        o, c = {"tuple": "()", "list": "[]", "set": "{}"}[k]
        return o + body + c
    if k == "dict":
        xs = [r_expr(p["key"], ind) + ": " + r_expr(p["val"], ind) for p in e["pairs"]]
        return "{" + ", ".join(xs) + ("," if e.get("sxtc") and xs else "") + "}"
    if k == "listcomp":
        return "[" + r_expr(e["e"], ind) + " for " + e["var"] + " in " + r_expr(e["iter"], ind) + "".join(" if " + r_expr(f, ind) for f in e["filter"]) + "]"
    if k == "dictcomp":
        return "{" + r_expr(e["key"], ind) + ": " + r_expr(e["val"], ind) + " for " + e["var"] + " in " + r_expr(e["iter"], ind) + \
            "".join(" if " + r_expr(f, ind) for f in e["filter"]) + "}"
    if k == "closure":
        return "(" + ", ".join(p["name"] for p in e["params"]) + ") => " + r_expr(e["e"], ind)
    if k == "fstr":
        if "sxtxt" in e:
            return e["sxtxt"]
        out = 'f"'
        for p in e["parts"]:
            out += p["sv"] if p["pk"] == "lit" else "{" + r_expr(p["e"], ind) + "}"
        return out + '"'
    if k == "yield":
        return "yield" + "".join(" " + r_expr(x, ind) for x in e["e"])
    if k == "range":
        return r_expr(e["start"], ind) + ("..=" if e["incl"] else "..") + r_expr(e["end"], ind)
    if k == "match":
        lines = ["match " + r_expr(e["subj"], ind) + ":"]
        for a in e["arms"]:
            lines += r_arm(a, ind + 1)
        return "\n".join(lines)
    if k == "ifx":
        lines = ["if " + r_expr(e["cond"], ind) + ":"] + r_block(e["then"], ind + 1)
        for b in e["else"]:
            lines += [IND * ind + "else:"] + r_block(b, ind + 1)
        return "\n".join(lines)
    raise ToolError(f"gensyntax: expression kind {k}")


def r_arm(a, ind):
    head = ("case " if a["sxcase"] else "") + r_pat(a["pat"]) + "".join(" if " + r_expr(g, ind) for g in a["guard"]) + (":" if a["sxcase"] else " =>")
    if a["abk"] == "expr":
        return [IND * ind + head + " " + r_expr(a["e"][0], ind)]
    if a["sxinline"]:
        body = r_stmt(a["body"][0], 0)
        if len(body) != 1:
            raise ToolError("gensyntax: inline arm body of several lines")
        return [IND * ind + head + " " + body[0]]
    return [IND * ind + head] + r_block(a["body"], ind + 1)


# ---------------------------------------------------------------- statements
def r_block(b, ind):
    out = []
    for s in b:
        out += r_stmt(s, ind)
    return out


BK = {"inferred": "", "let": "let ", "mut": "mut ", "REASSIGN": ""}


def r_stmt(s, ind):
    k = s["k"]
    p = IND * ind

    def line(text):
        return [p + text]           # a block expression continues on further (already indented) lines of the same string
    if k == "assign":
        return line(BK[s["bk"]] + s["name"] + "".join(": " + r_type(t) for t in s["ty"]) + " = " + r_expr(s["e"], ind))
    if k in ("fassign", "iassign"):
        tgt = r_expr(s["obj"], ind) + ("." + s["field"] if k == "fassign" else "[" + r_expr(s["idx"], ind) + "]")
        if "sxcompound" in s:
            return line(tgt + " " + s["sxcompound"] + " " + r_expr(s["e"]["r"], ind))
        return line(tgt + " = " + r_expr(s["e"], ind))
    if k == "compound":
        return line(s["name"] + " " + s["op"] + " " + r_expr(s["e"], ind))
    if k == "return":
        return line("return" + "".join(" " + r_expr(x, ind) for x in s["e"]))
    if k == "expr":
        return line(r_expr(s["e"], ind))
    if k == "pass":
        return line(s.get("sxtxt", "pass"))
    if k in ("break", "continue"):
        return line(k)
    if k == "unpack":
        return line(BK[s["bk"]] + ", ".join(s["names"]) + " = " + r_expr(s["e"], ind))
    if k == "tassign":
        return line(", ".join(r_expr(t, ind) for t in s["targets"]) + " = " + r_expr(s["e"], ind))
    if k == "chained":
        return line(BK[s["bk"]] + " = ".join(s["targets"]) + " = " + r_expr(s["e"], ind))
    if k == "if":
        out = [p + "if " + r_expr(s["cond"], ind) + ":"] + r_block(s["then"], ind + 1)
        for el in s["elifs"]:
            out += [p + "elif " + r_expr(el["cond"], ind) + ":"] + r_block(el["body"], ind + 1)
        for b in s["else"]:
            out += [p + "else:"] + r_block(b, ind + 1)
        return out
    if k == "while":
        return [p + "while " + r_expr(s["cond"], ind) + ":"] + r_block(s["body"], ind + 1)
    if k == "for":
        return [p + "for " + s["var"] + " in " + r_expr(s["iter"], ind) + ":"] + r_block(s["body"], ind + 1)
    raise ToolError(f"gensyntax: statement kind {k}")


# ---------------------------------------------------------------- declarations
def r_deco(d, ind):
    args = []
    for a in d["dargs"]:
        if a["ak"] == "pos":
            args.append(r_expr(a["e"], ind))
        elif a["vk"] == "type":
            args.append(a["name"] + ": " + r_type(a["ty"]))
        else:
            args.append(a["name"] + "=" + r_expr(a["e"], ind))
    return IND * ind + "@" + d["name"] + ("(" + ", ".join(args) + ")" if args or d.get("sxparens") else "")


def r_param(p):
    return ("mut " if p["mut"] else "") + p["name"] + ": " + r_type(p["ty"]) + "".join(" = " + r_expr(x, 0) for x in p["default"])


def r_method(m, ind):
    out = [r_deco(d, ind) for d in m["decos"]]
    recv = {"none": [], "self": ["self"], "mutself": ["mut self"]}[m["recv"]]
    head = IND * ind + ("async " if m["async"] else "") + "def " + m["name"] + "(" + ", ".join(recv + [r_param(p) for p in m["params"]]) + ") -> " + r_type(m["ret"])
    if not m["mbody"]:
        return out + [head + (": ..." if m.get("sxbodyless", "ellipsis") == "ellipsis" else "")]
    return out + [head + ":"] + r_block(m["mbody"][0], ind + 1)


def r_field(f, ind):
    pub = f.get("sxpub", f["pub"])
    return IND * ind + ("pub " if pub else "") + f["name"] + ": " + r_type(f["ty"]) + "".join(" = " + r_expr(x, ind) for x in f["default"])


def r_path(d):
    p = d["path"]
    sep = d.get("sxsep", "::")
    if p["abs"]:
        return sep.join(["crate"] + p["segs"])
    if p["parents"] and d.get("sxdots"):
        return {1: "..", 2: "..."}[p["parents"]] + sep.join(p["segs"])
    return sep.join(["super"] * p["parents"] + p["segs"])


def r_items(items):
    return ", ".join(i["name"] + "".join(" as " + a for a in i["alias"]) for i in items)


def _members(fields, methods, ind):
    out = [r_field(f, ind) for f in fields]
    for m in methods:
        if out:
            out.append("")
        out += r_method(m, ind)
    return out


def r_decl(d):
    k = d["k"]
    pub = "pub " if d.get("pub") else ""
    if k == "import":
        alias = "".join(" as " + a for a in d["alias"])
        ik = d["ik"]
        if ik == "module":
            return ["import " + r_path(d) + alias]
        if ik == "from":
            return ["from " + r_path(d) + " import " + r_items(d["items"])]
        if ik == "python":
            return ["import python " + _str_lit(d["sv"]) + alias]
        if ik == "rustcrate":
            return ["import rust::" + "::".join([d["crate"]] + d["segs"]) + alias]
        if ik == "rustfrom":
            return ["from rust::" + "::".join([d["crate"]] + d["segs"]) + " import " + r_items(d["items"])]
    if k == "const":
        return [pub + "const " + d["name"] + "".join(": " + r_type(t) for t in d["ty"]) + " = " + r_expr(d["e"], 0)]
    if k in ("model", "class"):
        head = pub + k + " " + d["name"] + ("[" + ", ".join(d["tparams"]) + "]" if d["tparams"] else "")
        if k == "class":
            head += "".join(" extends " + b for b in d["extends"])
        if d["traits"]:
            head += " with " + ", ".join(d["traits"])
        return [r_deco(x, 0) for x in d["decos"]] + [head + ":"] + _members(d["fields"], d["methods"], 1)
    if k == "trait":
        head = pub + "trait " + d["name"] + ("[" + ", ".join(d["tparams"]) + "]" if d["tparams"] else "") + ":"
        return [r_deco(x, 0) for x in d["decos"]] + [head] + (_members([], d["methods"], 1) or [IND + "pass"])
    if k == "newtype":
        head = pub + ("newtype " + d["name"] + " = " if d.get("sxalt") else "type " + d["name"] + " = newtype ") + r_type(d["ty"])
        if d["methods"]:
            return [head + ":"] + _members([], d["methods"], 1)
        return [head]
    if k == "enum":
        out = [pub + "enum " + d["name"] + ("[" + ", ".join(d["tparams"]) + "]" if d["tparams"] else "") + ":"]
        for v in d["variants"]:
            out.append(IND + v["name"] + ("(" + ", ".join(r_type(t) for t in v["tys"]) + ")" if v["tys"] or v.get("sxparens") else ""))
        return out
    if k == "fn":
        head = pub + ("async " if d["async"] else "") + "def " + d["name"] + ("[" + ", ".join(d["tparams"]) + "]" if d["tparams"] else "") + \
            "(" + ", ".join(r_param(p) for p in d["params"]) + ") -> " + r_type(d["ret"]) + ":"
        return [r_deco(x, 0) for x in d["decos"]] + [head] + r_block(d["body"], 1)
    if k == "doc":
        return [d["sxtxt"]] if "sxtxt" in d else ['"""' + d["sv"] + '"""']
    raise ToolError(f"gensyntax: declaration kind {k}")


def render(ast):
    """program tree (with surface hints) -> source text"""
    out = []
    for i, d in enumerate(ast["decls"]):
        if i:
            out.append("")
        out += r_decl(d)
    return "\n".join(out) + "\n"


# ---------------------------------------------------------------- rows of the tier
def _name(r):
    """stable name of a row: the derivation, i.e. productions, option values and positions"""
    parts = []
    for t in r["tags"]:
        if t.startswith("node:"):
            parts.append(t[5:])
        elif t.startswith("in:"):
            parts[-1] += "(" + t[3:] + ")"
        elif t.startswith("opt:"):
            parts[-1] += "." + t.rsplit("=", 1)[1]
        elif t.startswith("ctx:"):
            parts[-1] += "@" + t.split(".", 1)[1]
    return "syntax:" + "/".join(parts)


def cases(ctx, deep=None):
    """-> (items, info): items = [{name, src, want, tags, row}], info = domains / TLC numbers.
    quick: Depth 1, the ancestors in their poorest form and with one option raised (GenSyntax_q); thorough: + the ancestors in
    their richest form (GenSyntax_max) + simulated derivations to depth 4 with free ancestors (GenSyntax_sim)"""
    deep = (not ctx.quick) if deep is None else deep
    runs = [("GenSyntax_q", None)] if not deep else [("GenSyntax_q", None), ("GenSyntax_max", None), ("GenSyntax_sim", 6000)]
    rows, domains = [], None
    for cfg, sim in runs:
        if sim:
            res = common.tlc(ctx, "GenSyntax", cfg=cfg, workers=1, timeout=1500, simulate=sim, depth=40, want_tags=("CASE", "DOMAINS"))
            if res["errors"]:
                common.log(res["text_tail"])
                raise ToolError(f"TLC reported an error in GenSyntax ({cfg}): {res['errors'][:3]}")
        else:
            res = common.tlc(ctx, "GenSyntax", cfg=cfg, workers=8, timeout=3000, want_tags=("CASE", "DOMAINS"))
            common.require_tlc_ok(ctx, res, "GenSyntax")
        domains = domains or (res["cases"]["DOMAINS"][0] if res["cases"]["DOMAINS"] else None)
        rows += res["cases"]["CASE"]
    items, seen = [], set()
    for r in rows:
        r = subst(r)
        key = json.dumps(r["ast"], sort_keys=True)
        if key in seen:
            continue                      # the same derivation reached by two configurations / simulation runs
        seen.add(key)
        items.append({"name": _name(r), "src": render(r["ast"]), "want": expected(r["ast"]), "tags": r["tags"], "row": r})
    items.sort(key=lambda c: c["name"])
    return items, {"domains": domains, "rows_printed": len(rows)}


def coverage(items, info):
    """measured: option coverage against the declared domains, node kinds, positions, distinctness"""
    have = set()
    for c in items:
        have.update(c["tags"])
    missing = []
    n_vals = 0
    for d in info["domains"] or []:
        for name, mx in d["opts"]:
            for v in range(mx + 1):
                n_vals += 1
                if f"opt:{d['id']}.{name}={v}" not in have:
                    missing.append(f"{d['id']}.{name}={v}")
        if f"node:{d['id']}" not in have:
            missing.append("node:" + d["id"])
    texts = {}
    dup = 0
    for c in items:
        if c["src"] in texts:
            dup += 1
        texts[c["src"]] = c["name"]
    return {"option_values_declared": n_vals, "option_values_missing": missing, "productions": len(info["domains"] or []),
            "positions": len({t for t in have if t.startswith("ctx:")}), "position_x_production": len({t for t in have if t.startswith("sub:")}),
            "rows": len(items), "duplicate_texts": dup}


def judge_parse(ctx, items, outs, fail):
    """the oracle of the specification: parse(render(row)) = the tree the row states. outs = answers to {"op":"parse"}"""
    from lib import fmtcommon
    n_ok = 0
    for c, o in zip(items, outs):
        ob = o.get("obs", {})
        if "crash" in o or "panic" in ob:
            fail("syntax:parser-panic", {"name": c["name"], "src": c["src"], "detail": str(ob or o)[:600]}, "the parser panics on a generated case", c["tags"])
        elif not ob.get("ok"):
            fail("syntax:case-does-not-parse", {"name": c["name"], "src": c["src"], "error": ob.get("err")},
                 "a form of the documented grammar is rejected by the parser", c["tags"])
        elif ob["ast"] != c["want"]:
            fail("syntax:tree-differs:" + str(fmtcommon.first_diff(c["want"], ob["ast"])), {"name": c["name"], "src": c["src"], "want": c["want"], "got": ob["ast"]},
                 "the parser returns another tree than the one the grammar assigns to the text", c["tags"])
        else:
            n_ok += 1
    return n_ok


# ---------------------------------------------------------------- grouped evaluation
# One request of the replay process costs a thread hand-over (watchdog); a row is one declaration, and both the parser
# and the formatter treat the declarations of a file one after the other. So rows are evaluated as FILES of GROUP rows;
# a file that fails in any way is split (4 parts, then single rows) and every failure is reported for the single row.
GROUP = 32


class Unit:
    """a file of consecutive rows (or one row)"""

    def __init__(self, members):
        self.members = members
        self.single = len(members) == 1
        self.name = members[0]["name"] if self.single else f"syntax-group:{members[0]['name'][7:]}..+{len(members) - 1}"
        self.src = members[0]["src"] if self.single else "\n".join(m["src"] for m in members)
        self.tags = sorted({t for m in members for t in m["tags"]})


def _split(members):
    """32 -> 4 x 8 -> single rows"""
    if len(members) <= 1:
        return []
    step = 8 if len(members) > 8 else 1
    return [members[i:i + step] for i in range(0, len(members), step)]


def grouped(items, judge):
    """judge(units) -> list of booleans `unit passed`. Returns (passed units, failed SINGLE units) after splitting."""
    # rows that end in the same production stand together: a printer defect of that production then fills whole files
    items = sorted(items, key=lambda c: (c["row"]["last"], c["name"].rsplit("/", 1)[-1], c["name"]))
    todo = [Unit(items[i:i + GROUP]) for i in range(0, len(items), GROUP)]
    passed, failed = [], []
    n_req = 0
    while todo:
        oks = judge(todo)
        n_req += len(todo)
        nxt = []
        for u, ok in zip(todo, oks):
            if ok:
                passed.append(u)
            elif u.single:
                failed.append(u)
            else:
                nxt += [Unit(p) for p in _split(u.members)]
        todo = nxt
    return passed, failed, n_req


def check_trees(ctx, items, fail):
    """the specification's oracle on every row: parse(render(row)) = the tree the row states.
    -> (rows whose tree is the stated one, requests)"""
    def judge(units):
        outs = common.replay_batch([{"op": "parse", "src": u.src} for u in units], timeout=6000)
        res = []
        for u, o in zip(units, outs):
            ob = o.get("obs", {})
            want = [d for m in u.members for d in m["want"]["decls"]]
            ok = "crash" not in o and ob.get("ok") and ob["ast"]["decls"] == want
            u.out = o
            res.append(bool(ok))
        return res
    passed, failed, n_req = grouped(items, judge)
    judge_parse(ctx, [u.members[0] for u in failed], [u.out for u in failed], fail)
    return sum(len(u.members) for u in passed), n_req


def crude_canonical(unit, r):
    """C09's line hygiene, crudely (no token spans): used only to decide whether a FILE of rows must be split"""
    t = r.get("fmt1") or ""
    if not t.endswith("\n") or t.endswith("\n\n"):
        return False
    return not any("\t" in ln or ln != ln.rstrip() for ln in t.split("\n"))


def formatter_units(ctx, items, evaluate, extra_ok=None):
    """C08 / C09: evaluate = c08.evaluate (parse -> fmt -> re-parse -> fmt). -> [(unit, result)]: files of rows that pass
    completely, and single rows for everything else (their result carries the failure)."""
    def judge(units):
        res = evaluate(ctx, [(u.name, u.src) for u in units])
        oks = []
        for u, r in zip(units, res):
            ok = r["stage"] == "ok" and r["parse2"] and r["ast_equal"] and r["idempotent"]
            if ok and extra_ok and not u.single:
                ok = extra_ok(u, r)
            u.res = r
            oks.append(ok)
        return oks
    passed, failed, n_req = grouped(items, judge)
    return [(u, u.res) for u in passed + failed], n_req


def sample_sources(ctx, n, salt):
    """a seeded sample of rendered rows (C10: bases of the layout edits; C11: seeds of the damaging mutations)"""
    items, _ = cases(ctx, deep=False)
    rnd = common.rng(ctx, salt)
    pick = items if len(items) <= n else rnd.sample(items, n)
    return [(c["name"], c["src"]) for c in pick]
