"""Multi-module projects (spec/GenMod.tla): materialise, check, build, run.

GenMod enumerates PROJECTS: a declaration universe (GenObj's or GenData's declarations) split over main + two modules,
with the imports the documented linker needs (style from / mod / mixed, relative or crate paths), `pub` exactly on what is
imported, optionally one seeded fault (a `pub` dropped, an import dropped). The specification's verdict per project:
links (meaning = the flat program, whose behaviour is Core's Run: the `out` of GenObj / GenData rows) or does not link
(and where). This module renders a project to files, runs the real CLI on it and returns observations; the checks judge:

  C01  a linked project that builds prints exactly what the flat program prints            (mod:run:*)
  C02  a linked project the checker accepts builds                                         (mod:build:*, mod:emit:*)
  C14  a linked project is accepted (every import denotes the intended file);              (mod:check-rejects-linked-project)
       a project whose link breaks on a non-`pub` declaration is rejected                  (mod:private-import-accepted)
  C03  a project whose link breaks on an unknown name is rejected, in the right file       (mod:unknown-name-accepted)
"""
import concurrent.futures
import json
import os
import queue
import re
import shutil
import subprocess

from lib import common, e2e, pipeline, render
from lib.common import ToolError

NSLOTS = 8


# ---------------------------------------------------------------- rows
def gen_rows(ctx, n_sim):
    """exhaustive invariants on the data universe + a seeded simulation sample of projects of both universes"""
    inv = common.tlc(ctx, "GenMod", cfg="GenMod_data_inv_quick" if ctx.quick else "GenMod_data_inv", workers=8, timeout=3000)
    common.require_tlc_ok(ctx, inv, "GenMod / ResolvesRight / PubExactly / PositiveLinks (every placement of the data universe)")
    sim = common.tlc(ctx, "GenMod", cfg="GenMod_sim", workers=1, timeout=1500, simulate=n_sim, depth=12)
    common.require_tlc_ok(ctx, sim, "GenMod simulation / NegativeBreaks")
    # aliased imports (`from m import f as f_x`): the data universe in the flat layout (the region that works today)
    ali = common.tlc(ctx, "GenMod", cfg="GenMod_alias", workers=1, timeout=900, simulate=max(n_sim // 5, 20), depth=12)
    common.require_tlc_ok(ctx, ali, "GenMod simulation (aliased imports)")
    seen, rows = set(), []
    for r in sim["cases"]["CASE"] + ali["cases"]["CASE"]:
        k = json.dumps(r, sort_keys=True)
        if k not in seen:
            seen.add(k)
            rows.append(r)
    rows.sort(key=lambda r: json.dumps(r, sort_keys=True))
    return inv, rows


# ---------------------------------------------------------------- sources of the declarations
def item_sources(universe, obj_decls):
    """name -> source text (no `pub`, no per-case suffix)"""
    out = {}
    if universe == "obj":
        for t in obj_decls["traits"]:
            out[t["name"]] = render.render_typedecls({"traits": [t], "types": []}).replace("{N}", "")
        for t in obj_decls["types"]:
            out[t["name"]] = render.render_typedecls({"traits": [], "types": [t]}).replace("{N}", "")
        out["h"] = pipeline.HELPER.replace("{N}", "")
    else:
        for block in pipeline.DATA_DECLS.replace("{N}", "").strip("\n").split("\n\n"):
            m = re.match(r"(?:model|enum|def) (\w+)", block)
            out[m.group(1)] = block + "\n"
    return {k: v.strip("\n") + "\n" for k, v in out.items()}


def import_lines(imports):
    lines = []
    for i in sorted(imports, key=lambda x: json.dumps(x, sort_keys=True)):
        names = sorted(i["names"])
        if i["style"] == "from":
            pre = "crate." if i["abs"] else ("." * (i["levels"] + 1) if i["levels"] else "")
            items = [f"{n} as {n}_x" for n in names] if i.get("aliased") else names
            lines.append(f"from {pre}{'.'.join(i['segs'])} import {', '.join(items)}")
        else:
            pre = "crate::" if i["abs"] else "super::" * i["levels"]
            for n in names:
                lines.append(f"import {pre}{'::'.join(i['segs'])}::{n}")
    return lines


def apply_aliases(text, names, kinds):
    """refer to every aliased import by its local name N_x: calls of functions, every use of a type / trait name
    (not a field access `.h`, not a field declaration / named argument `h:` / `h=`)"""
    for n in names:
        if kinds.get(n) == "fn":
            text = re.sub(r"(?<![A-Za-z0-9_.])" + re.escape(n) + r"\(", n + "_x(", text)
        else:
            text = re.sub(r"(?<![A-Za-z0-9_.])" + re.escape(n) + r"(?![A-Za-z0-9_])(?!\s*[:=][^=])", n + "_x", text)
    return text


KINDS = {"obj": {"Shape": "trait", "Tagged": "trait", "HasV": "trait", "Sq": "model", "Rect": "class", "Base": "class", "Derived": "class",
                 "Q2": "model", "h": "fn"},
         "data": {"P": "model", "Q": "model", "Shape": "enum", "h": "fn", "safe_div": "fn", "maybe": "fn", "twice": "fn"}}


def project_files(row, srcs, case_fns, main_calls):
    """-> {relative path: text}; main.incn also holds the case functions and main()"""
    files = {}
    for m in row["mods"]:
        imps = import_lines(m["imports"])
        aliased = sorted({n for i in m["imports"] if i.get("aliased") for n in i["names"]})
        parts = []
        for n in m["items"]:
            if n:
                parts.append(("pub " if n in m["pubs"] else "") + srcs[n])
        if m["mod"] == "main":
            parts += case_fns
            parts.append("def main() -> None:")
            parts += main_calls
        body = "\n".join(parts) + "\n"
        if aliased:
            body = apply_aliases(body, aliased, KINDS[row["u"]])
        files["/".join(m["file"])] = "\n".join(imps + ([""] if imps else [])) + ("\n" if imps else "") + body
    if row["cargo"]:
        files["Cargo.toml"] = "[package]\nname = \"proj\"\nversion = \"0.1.0\"\n"
    return files


# ---------------------------------------------------------------- base cases (flat programs with Core's Run)
def base_cases(ctx, rnd, n_each):
    gj = common.tlc(ctx, "GenObj", cfg="GenObj_2", workers=8, timeout=6000, want_tags=("CASE", "DECLS"))
    common.require_tlc_ok(ctx, gj, "GenObj / Sound")
    gd = common.tlc(ctx, "GenData", cfg="GenData", workers=8, timeout=3000)
    common.require_tlc_ok(ctx, gd, "GenData / Sound")
    decls = gj["cases"]["DECLS"][0]

    def pick(rows):
        rows = [r for r in rows if r["status"] == "done"]
        rows.sort(key=lambda r: json.dumps(r, sort_keys=True))
        return rnd.sample(rows, min(n_each, len(rows)))
    obj = [pipeline.obj_case(r, k, decls) for k, r in enumerate(pick(gj["cases"]["CASE"]))]
    data = [pipeline.data_case(r, k) for k, r in enumerate(pick(gd["cases"]["CASE"]))]
    # control: only flat programs that the real compiler builds and runs as specified are used as bases, so that
    # whatever goes wrong in a project is due to the module split (single-file defects are C01 / C02's business)
    with ctx.timed("modproj_flat_controls"):
        ev = pipeline.evaluate(ctx, obj + data)
    ok = [c for c, e in zip(obj + data, ev) if e["symptom"] is None]
    ctx.stats["modproj_flat_controls"] = {"tried": len(obj + data), "kept": len(ok)}
    return decls, {"obj": [c for c in ok if c["kind"] == "obj"], "data": [c for c in ok if c["kind"] == "data"]}


def case_functions(cases):
    fns, calls = [], []
    for k, c in enumerate(cases):
        fns.append(f"def case_{k}() -> None:")
        fns += ["    " + l.replace("{N}", "") for l in c["body"]] or ["    pass"]
        fns.append("")
        calls += [f'    println("@@{k}")', f"    case_{k}()"]
    calls.append('    println("@@END")')
    return fns, calls


# ---------------------------------------------------------------- running a project
def _env():
    env = dict(os.environ, CARGO_NET_OFFLINE="true", CARGO_TERM_COLOR="never", RUST_BACKTRACE="0", NO_COLOR="1")
    env.pop("RUSTFLAGS", None)
    return env


def write_project(root, files):
    shutil.rmtree(root, ignore_errors=True)
    for rel, text in files.items():
        p = os.path.join(root, rel)
        os.makedirs(os.path.dirname(p), exist_ok=True)
        with open(p, "w") as fh:
            fh.write(text)


def check_project(root, timeout=120):
    cli = common.harness_bin("incan_cli")
    try:
        p = subprocess.run([cli, "--check", "main.incn"], cwd=root, env=_env(), stdout=subprocess.PIPE, stderr=subprocess.PIPE, timeout=timeout)
    except subprocess.TimeoutExpired:
        return {"rc": "timeout", "stderr": "", "stdout": ""}
    return {"rc": p.returncode, "stderr": p.stderr.decode("utf-8", "replace"), "stdout": p.stdout.decode("utf-8", "replace")}


def build_run_project(slot, root, timeout=900, run_timeout=60):
    """the real `incan build main.incn <slot>/out` (the slot keeps cargo's target directory warm), then run"""
    cli = common.harness_bin("incan_cli")
    out_dir = os.path.join(slot, "out")
    shutil.rmtree(os.path.join(out_dir, "src"), ignore_errors=True)
    res = {"build_ok": False, "build_out": "", "rc": None, "stdout": "", "stderr": ""}
    try:
        p = subprocess.run([cli, "build", "main.incn", out_dir], cwd=root, env=_env(), stdout=subprocess.PIPE, stderr=subprocess.STDOUT, timeout=timeout)
    except subprocess.TimeoutExpired:
        res["build_out"] = "TIMEOUT"
        return res
    res["build_out"] = p.stdout.decode("utf-8", "replace")
    if p.returncode != 0:
        return res
    res["build_ok"] = True
    binp = os.path.join(out_dir, "target", "release", "main")
    try:
        r = subprocess.run([binp], cwd=root, stdout=subprocess.PIPE, stderr=subprocess.PIPE, timeout=run_timeout, env=_env())
        res["rc"], res["stdout"], res["stderr"] = r.returncode, r.stdout.decode("utf-8", "replace"), r.stderr.decode("utf-8", "replace")
    except subprocess.TimeoutExpired:
        res["rc"] = "timeout"
    return res


def split_outputs(stdout):
    outs, cur = {}, None
    for line in stdout.splitlines():
        m = re.match(r"^@@(\d+|END)$", line)
        if m:
            cur = m.group(1)
            if cur != "END":
                cur = int(cur)
                outs[cur] = []
            continue
        if cur is not None and cur != "END":
            outs[cur].append(line)
    return outs, cur == "END"


def diag_files(stderr):
    """files named by the diagnostics' `--> file:line:col` markers"""
    return sorted(set(re.findall(r"-->\s*(?:\x1b\[[0-9;]*m)*\s*([^\s:]+):\d+", re.sub(r"\x1b\[[0-9;]*m", "", stderr))))


def rustc_symptom(text):
    """first rustc / generator error -> stable symptom, identifiers abstracted"""
    m = re.search(r"error(\[E\d+\])?: ([^\n]*)", text or "")
    if not m:
        m2 = re.search(r"(?i)(lowering error|emission error|codegen error|error)[^\n]*", text or "")
        return "unclassified:" + re.sub(r"`[^`]*`|'[^']*'", "_", m2.group(0))[:80] if m2 else "unclassified"
    msg = re.sub(r"`[^`]*`", "`_`", m.group(2))
    return f"{(m.group(1) or '').strip('[]')}:{re.sub(r'[0-9]+', 'N', msg)[:70]}"


def all_rustc_symptoms(text):
    """every distinct rustc / code-generation error of a failed build, identifiers abstracted"""
    out = []
    for m in re.finditer(r"error(\[E\d+\])?: ([^\n]*)", text or ""):
        msg = m.group(2)
        if "could not compile" in msg or "aborting due to" in msg or re.fullmatch(r"\d+ lowering errors:", msg.strip()):
            continue
        msg = re.sub(r"^(lowering|emission|codegen) error: ", "", msg)
        msg = re.sub(r"`[^`]*`", "`_`", msg)
        msg = re.sub(r"'[^']*'", "'_'", msg)
        s = f"{(m.group(1) or '').strip('[]')}:{re.sub(r'[0-9]+', 'N', msg)[:70]}"
        if s not in out:
            out.append(s)
    # the numbered list under "N lowering errors:"
    for m in re.finditer(r"^\s+\d+: (?:lowering|emission) error: ([^\n]*)", text or "", re.M):
        msg = re.sub(r"'[^']*'", "'_'", re.sub(r"`[^`]*`", "`_`", m.group(1)))
        s = f":{re.sub(r'[0-9]+', 'N', msg)[:70]}"
        if s not in out:
            out.append(s)
    return out


def evaluate(ctx, rows, decls, bases, n_build):
    """-> list of observations aligned with rows:
       {row, files, check: {rc, stderr}, build: None | {...}, outs, finished}
    Negative rows and rows beyond the build budget are checked only."""
    common.build_harness()
    srcs = {u: item_sources(u, decls) for u in ("obj", "data")}
    fns = {u: case_functions(bases[u]) for u in bases}
    obs = [None] * len(rows)
    slots = queue.Queue()
    for k in range(NSLOTS):
        slots.put(os.path.join(common.WORK, "modproj", f"s{k}"))
    built = {"n": 0}
    positives = [i for i, r in enumerate(rows) if r["neg"]["k"] == "none"]
    to_build = set(positives[:n_build])

    def work(i):
        row = rows[i]
        slot = slots.get()
        try:
            root = os.path.join(slot, "proj")
            files = project_files(row, srcs[row["u"]], *fns[row["u"]])
            write_project(root, files)
            o = {"files": files, "check": check_project(root), "build": None, "outs": None, "finished": None}
            if i in to_build and o["check"]["rc"] == 0:
                b = build_run_project(slot, root)
                o["build"] = {k: (v[-6000:] if isinstance(v, str) else v) for k, v in b.items()}
                if b["build_ok"]:
                    o["outs"], o["finished"] = split_outputs(b["stdout"])
            obs[i] = o
        finally:
            slots.put(slot)

    with ctx.timed("modproj_run"):
        with concurrent.futures.ThreadPoolExecutor(max_workers=NSLOTS) as ex:
            list(ex.map(work, range(len(rows))))
    return obs


def stratified(rows, rnd, n):
    """positive rows first, covering every feature tag combination class early (round robin over tag sets)"""
    pos = [r for r in rows if r["neg"]["k"] == "none"]
    neg = [r for r in rows if r["neg"]["k"] != "none"]
    buckets = {}
    for r in pos:
        key = tuple(sorted(t for t in r["feats"] if t.startswith(("u:", "layout:", "istyle:", "pstyle:")) or t in ("cohesive", "closed")))
        buckets.setdefault(key, []).append(r)
    keys = sorted(buckets)
    rnd.shuffle(keys)
    out = []
    while keys and len(out) < n:
        for k in list(keys):
            if buckets[k]:
                out.append(buckets[k].pop(rnd.randrange(len(buckets[k]))))
            else:
                keys.remove(k)
            if len(out) >= n:
                break
    return out, neg


def cleanup():
    shutil.rmtree(os.path.join(common.WORK, "modproj"), ignore_errors=True)


# ---------------------------------------------------------------- judging (one entry point for C01 / C02 / C03 / C14)
def uses_name(text, name):
    return re.search(r"(?<![A-Za-z0-9_])" + re.escape(name) + r"(?![A-Za-z0-9_])", text) is not None


def negative_is_visible(row, files):
    """A dropped import only matters if the module's text really uses the name (main imports every declaration it
    could use; with `closed` imports a module also imports the traits / parents of the types it names)."""
    neg = row["neg"]
    if neg["k"] == "noimport":
        f = ["/".join(m["file"]) for m in row["mods"] if m["mod"] == neg["m"]][0]
        body = "\n".join(l for l in files[f].splitlines() if not l.startswith(("from ", "import ")))
        return uses_name(body, neg["name"])
    return True


def run(ctx, n_sim=None, n_build=None, n_neg=None):
    """Generate, run and judge. Only the symptoms that belong to ctx.prop are reported:
       C01 mod:run:*   C02 mod:build:* / mod:emit:*   C14 mod:check-rejects-linked-project, mod:private-import-accepted,
       mod:cyclic:*    C03 mod:unknown-name-accepted, mod:unknown-name-diagnostic-elsewhere"""
    if os.environ.get("VERIF_SKIP_MODPROJ") == "1":      # development aid only; the registered commands never set it
        ctx.assumptions.append("multi-module projects skipped (VERIF_SKIP_MODPROJ=1)")
        return {}
    quick = ctx.quick
    # thorough sizes = the sizes of the exploration runs the catalogue of multi-module defects was drawn from
    n_sim = n_sim or (160 if quick else 500)
    n_build = n_build if n_build is not None else ((20 if quick else 70) if ctx.prop in ("C01", "C02") else 0)
    n_neg = n_neg if n_neg is not None else ((60 if quick else 300) if ctx.prop in ("C03", "C14") else 0)
    rnd = common.rng(ctx, "modproj")
    inv, rows = gen_rows(ctx, n_sim)
    decls, bases = base_cases(ctx, rnd, 10 if quick else 14)
    # most of the build budget goes to projects that carry no root-cause tag of a catalogued multi-module defect
    # (that is where a NEW defect is visible); the rest keeps the catalogued ones under observation
    bad = [f["tags"] for f in ctx.findings.get("findings", []) if str(f.get("signature", "")).startswith("mod:") and "tags" in f]
    benign = [r for r in rows if not any(all(common.tag_in(t, r["feats"]) for t in ts) for ts in bad)]
    other = [r for r in rows if r not in benign]
    n_pos = max(n_build, 40 if quick else 100)
    pb, neg_b = stratified(benign, rnd, n_pos)
    po, neg_o = stratified(other, rnd, n_pos)
    k = (n_build * 7) // 10
    pos = pb[:k] + po[:max(n_build - min(k, len(pb)), 0)]
    pos += [r for r in pb[k:] + po if r not in pos][:max(n_pos - len(pos), 0)]
    neg = neg_b + neg_o
    ctx.stats["modproj_benign_rows"] = {"benign": len(benign), "other": len(other)}
    if ctx.prop in ("C03", "C14"):
        want = "noimport" if ctx.prop == "C03" else "unpub"
        neg = [r for r in neg if r["neg"]["k"] == want]
        rnd.shuffle(neg)
        neg = neg[:n_neg]
    else:
        neg = []
    sel = pos + neg
    obs = evaluate(ctx, sel, decls, bases, n_build)
    st = {"projects": len(sel), "positive": len(pos), "negative": len(neg), "built": 0, "ran_as_specified": 0, "case_runs_compared": 0,
          "cyclic": 0, "cyclic_diagnosed": 0, "negatives_not_visible_in_main": 0, "negatives_rejected": 0,
          "tlc_states_exhaustive": inv.get("states"), "simulated_rows": len(rows)}
    feats_seen = set()
    outcome = {}

    def note(row, what):
        key = f"{row['u']}/{'cohesive' if 'cohesive' in row['feats'] else 'free'}/{[t for t in row['feats'] if t.startswith('layout:')][0][7:]}/{what}"
        outcome[key] = outcome.get(key, 0) + 1
    for row, o in zip(sel, obs):
        tags = sorted(row["feats"])
        feats_seen.update(t for t in tags if t.startswith(("imp:", "layout:", "dep:", "ximp:")))
        payload = {"row": row, "files": o["files"], "check": o["check"], "build": o["build"]}
        chk = o["check"]
        if chk["rc"] not in (0, 1) or "panicked" in chk["stderr"]:
            if ctx.prop == "C14":
                ctx.fail("mod:check-crash", payload, "`incan --check` of a multi-module project crashed / hung", tags=tags)
            continue
        if row["neg"]["k"] == "none":
            if row["cyc"]:
                st["cyclic"] += 1
                if chk["rc"] != 0:
                    st["cyclic_diagnosed"] += 1
                    continue
            if chk["rc"] != 0:
                note(row, "check-rejects")
                if ctx.prop == "C14":
                    msg = re.sub(r"\x1b\[[0-9;]*m", "", chk["stderr"])
                    m = re.search(r"(?:type error|error|syntax error): ([^\n]*)", msg)
                    sym = re.sub(r"'[^']*'|`[^`]*`", "_", m.group(1))[:60] if m else "unclassified"
                    ctx.fail("mod:check-rejects-linked-project:" + sym, payload,
                             "every import denotes the intended file and every imported declaration is pub, yet the checker rejects the project", tags=tags)
                continue
            b = o["build"]
            if b is None:
                continue
            st["built"] += 1
            note(row, "builds" if b["build_ok"] else "build-fails")
            if not b["build_ok"]:
                if ctx.prop == "C02":
                    syms = all_rustc_symptoms(b["build_out"]) or [rustc_symptom(b["build_out"])]
                    for s in syms[:6]:
                        ctx.fail("mod:build:" + s, payload, "accepted by the checker, but the generated project does not build", tags=tags)
                continue
            ok = True
            for k, c in enumerate(bases[row["u"]]):
                ob = {"stage": "ran", "out": (o["outs"] or {}).get(k, [])}
                if k not in (o["outs"] or {}):
                    j = ("run:case-not-reached", {"rc": b["rc"], "stderr": b["stderr"][-300:]})
                else:
                    j = pipeline.judge_run(c, ob)
                    st["case_runs_compared"] += 1
                if j:
                    ok = False
                    if ctx.prop == "C01":
                        ctx.fail("mod:" + j[0], dict(payload, case=c["id"], detail=j[1]),
                                 "a program split into modules does not behave like the flat program", tags=tags + sorted(c.get("tags", [])))
            if not o["finished"] and ctx.prop == "C01" and ok:
                ctx.fail("mod:run:did-not-finish", payload, "the project's binary stopped early", tags=tags)
            st["ran_as_specified"] += 1 if ok and o["finished"] else 0
        else:
            if not negative_is_visible(row, o["files"]):
                st["negatives_not_visible_in_main"] += 1
                continue
            if chk["rc"] != 0:
                st["negatives_rejected"] += 1
                if row["neg"]["k"] == "noimport" and ctx.prop == "C03":
                    # the diagnostic must be located in the module where the specification says the link breaks
                    want_files = {"/".join(m["file"]) for m in row["mods"] if m["mod"] in {b["m"] for b in row["breaks"]}}
                    got = set(diag_files(chk["stderr"]))
                    if not re.search(r"(?i)unknown[^\n]*['`]" + re.escape(row["neg"]["name"]) + r"['`]", chk["stderr"]):
                        # rejected, but not for this name (e.g. a catalogued defect rejects the fault-free twin too)
                        st["negatives_rejected_for_another_reason"] = st.get("negatives_rejected_for_another_reason", 0) + 1
                        continue
                    if got and not (got & want_files) and not any(g.endswith(tuple(want_files)) for g in got):
                        ctx.fail("mod:unknown-name-diagnostic-elsewhere", dict(payload, want=sorted(want_files), got=sorted(got)),
                                 "the unknown name is reported, but not in the module that uses it", tags=tags)
                continue
            if row["neg"]["k"] == "unpub" and ctx.prop == "C14":
                ctx.fail("mod:private-import-accepted", payload, "a module imports a declaration that is not pub and the checker accepts", tags=tags)
            if row["neg"]["k"] == "noimport" and ctx.prop == "C03":
                where = "main" if row["neg"]["m"] == "main" else "dep"
                ctx.fail("mod:unknown-name-accepted:" + where, payload, "a module uses a name it neither declares nor imports and the checker accepts", tags=tags)
    st["feature_tags_covered"] = len(feats_seen)
    st["outcomes"] = dict(sorted(outcome.items()))
    ctx.stats["modproj"] = st
    return st
