"""End-to-end runner: generated cases -> one Incan program per batch -> real `incan build`
(the CLI rebuilt from /repo's working tree) -> run -> per-case observation.

A case is a dict:
  id       unique string
  decls    top-level declarations text ('' if none); `{N}` is replaced by a per-case suffix
  body     list of source lines of the case function body (4-space relative indentation)
  aborts   True when the specification says the case ends in an error (placed last, alone)
Observation per case: {"stage": "ran"|"abort"|"check"|"emit"|"build"|"tool", "out": [lines],
                       "err": "Kind: message" | rustc text | diagnostics, "rust": generated fn text (on demand)}
"""
import concurrent.futures
import os
import re
import shutil
import subprocess
import time

from lib import common
from lib.common import ToolError

NSLOTS = 8
_slot_lock = None


def case_source(case, n):
    sfx = f"_{n}"
    decls = case.get("decls", "").replace("{N}", sfx)
    body = [l.replace("{N}", sfx) for l in case["body"]] or ["pass"]
    src = decls + ("\n" if decls and not decls.endswith("\n") else "")
    src += f"def case{sfx}() -> None:\n" + "".join("    " + l + "\n" for l in body)
    return src


def standalone(case):
    return case_source(case, 0) + "\ndef main() -> None:\n    case_0()\n"


def batch_source(cases, idxs):
    parts, ranges = [], {}
    line = 1
    for n in idxs:
        s = case_source(cases[n], n)
        nl = s.count("\n")
        ranges[n] = (line, line + nl)
        parts.append(s + "\n")
        line += nl + 1
    main = "def main() -> None:\n"
    for n in idxs:
        main += f'    println("@@{n}")\n    case_{n}()\n'
    main += '    println("@@END")\n'
    return "".join(parts) + main, ranges


def precheck(ctx, cases):
    """In-process: checker verdict and single-file emission for every case (cheap)."""
    reqs = []
    for c in cases:
        reqs.append({"op": "emit", "src": standalone(c)})
    outs = common.replay_batch(reqs, timeout=1800)
    res = []
    for c, o in zip(cases, outs):
        if "crash" in o:
            res.append({"stage": "tool", "err": f"front end crashed: {o}"})
            continue
        ob = o["obs"]
        if "panic" in ob:
            res.append({"stage": "emit", "err": "panic: " + ob["panic"] + " at " + ob.get("at", "")})
        elif ob.get("ok"):
            res.append(None)
        elif ob.get("stage") in ("lex", "parse"):
            res.append({"stage": "parse", "err": ob.get("errs")})
        elif ob.get("stage") == "check":
            res.append({"stage": "check", "err": ob.get("errs")})
        else:
            res.append({"stage": "emit", "err": ob.get("msg") or str(ob)})
    return res


def _cli():
    common.build_harness()
    return common.harness_bin("incan_cli")


def build_run(slot_dir, source, name="batch", timeout=900, run_timeout=60, extra_files=None):
    """Write source into slot_dir/<name>.incn, run the real CLI build, run the binary.
    Returns dict(build_ok, build_out, rc, stdout, stderr, main_rs)."""
    os.makedirs(slot_dir, exist_ok=True)
    src_path = os.path.join(slot_dir, name + ".incn")
    with open(src_path, "w") as fh:
        fh.write(source)
    for rel, text in (extra_files or {}).items():
        p = os.path.join(slot_dir, rel)
        os.makedirs(os.path.dirname(p), exist_ok=True)
        with open(p, "w") as fh:
            fh.write(text)
    out_dir = os.path.join(slot_dir, "out")
    env = dict(os.environ, CARGO_NET_OFFLINE="true", CARGO_TERM_COLOR="never", RUST_BACKTRACE="0", NO_COLOR="1")
    env.pop("RUSTFLAGS", None)
    res = {"build_ok": False, "build_out": "", "rc": None, "stdout": "", "stderr": "", "main_rs": ""}
    for attempt in (1, 2):
        try:
            p = subprocess.run([_cli(), "build", src_path, out_dir], cwd=slot_dir, env=env, stdout=subprocess.PIPE,
                               stderr=subprocess.STDOUT, timeout=timeout)
        except subprocess.TimeoutExpired:
            res["build_out"] = "TIMEOUT"
            return res
        text = p.stdout.decode("utf-8", "replace")
        res["build_out"] = text
        if p.returncode == 0:
            res["build_ok"] = True
            break
        # cargo-level infrastructure failures are retried once; rustc diagnostics never
        if attempt == 1 and re.search(r"Blocking waiting for file lock|failed to open|No space left|Resource temporarily unavailable|could not acquire", text) \
                and "error[E" not in text and "error: " not in text.replace("error: could not compile", ""):
            time.sleep(1)
            continue
        break
    mr = os.path.join(out_dir, "src", "main.rs")
    if os.path.exists(mr):
        res["main_rs"] = open(mr).read()
    if not res["build_ok"]:
        return res
    binp = os.path.join(out_dir, "target", "release", name)
    try:
        r = subprocess.run([binp], cwd=slot_dir, stdout=subprocess.PIPE, stderr=subprocess.PIPE, timeout=run_timeout, env=env)
        res["rc"], res["stdout"], res["stderr"] = r.returncode, r.stdout.decode("utf-8", "replace"), r.stderr.decode("utf-8", "replace")
    except subprocess.TimeoutExpired as e:
        res["rc"] = "timeout"
        res["stdout"] = (e.stdout or b"").decode("utf-8", "replace")
    return res


def classify_abort(stderr):
    """panic text -> 'Kind: message' (first line after the 'panicked at' header)."""
    lines = stderr.splitlines()
    for i, l in enumerate(lines):
        if "panicked at" in l:
            # message may be on the same line (old format) or the next
            m = re.search(r"panicked at '(.*)'", l)
            if m:
                return m.group(1)
            if i + 1 < len(lines):
                return lines[i + 1].strip()
    return "other: " + stderr.strip()[:200]


def fn_ranges_rust(main_rs):
    """line -> case index map for the generated Rust: items named *_<n> or fn case_<n>."""
    owner = {}
    cur = None
    for i, l in enumerate(main_rs.splitlines(), 1):
        m = re.match(r"^(?:pub )?(?:fn|struct|enum|impl|const|static|type|trait)\b[^\n]*?_(\d+)\b", l)
        if m and not l.startswith(" "):
            cur = int(m.group(1))
        elif re.match(r"^(?:pub )?fn main\b", l):
            cur = None
        owner[i] = cur
    return owner


def blame_rustc(build_out, main_rs, idxs):
    owner = fn_ranges_rust(main_rs)
    blamed = {}
    # split cargo output into diagnostics
    chunks = re.split(r"\n(?=error(?:\[E\d+\])?:)", build_out)
    for ch in chunks:
        if not ch.startswith("error"):
            continue
        m = re.search(r"--> src/main\.rs:(\d+):(\d+)", ch)
        if not m:
            continue
        n = owner.get(int(m.group(1)))
        if n is not None and n in idxs:
            blamed.setdefault(n, ch.strip()[:1500])
    return blamed


def _run_batch(slot, cases, idxs, results, depth=0):
    """Build+run the batch made of cases[idxs]; fills results[n]. Recurses on failures."""
    if not idxs:
        return
    src, _ = batch_source(cases, idxs)
    r = build_run(slot, src)
    if r["build_out"] == "TIMEOUT":
        for n in idxs:
            results[n] = {"stage": "tool", "err": "build timeout"}
        return
    if not r["build_ok"]:
        text = r["build_out"]
        blamed = blame_rustc(text, r["main_rs"], set(idxs)) if r["main_rs"] else {}
        if not blamed:
            if "error" not in text and "Error" not in text:
                for n in idxs:
                    results[n] = {"stage": "tool", "err": "build failed without diagnostics: " + text[-500:]}
                return
            if len(idxs) == 1:
                results[idxs[0]] = {"stage": "build", "err": text[-3000:], "rust": r["main_rs"][-6000:]}
                return
            # not attributable: bisect
            mid = len(idxs) // 2
            _run_batch(slot, cases, idxs[:mid], results, depth + 1)
            _run_batch(slot, cases, idxs[mid:], results, depth + 1)
            return
        for n, msg in blamed.items():
            results[n] = {"stage": "build", "err": msg}
        rest = [n for n in idxs if n not in blamed]
        _run_batch(slot, cases, rest, results, depth + 1)
        return
    # parse stdout by markers
    cur = None
    outs = {}
    for line in r["stdout"].splitlines():
        m = re.match(r"^@@(\d+|END)$", line)
        if m:
            cur = m.group(1)
            if cur != "END":
                cur = int(cur)
                outs[cur] = []
            continue
        if cur is not None and cur != "END":
            outs[cur].append(line)
    finished = (cur == "END" and r["rc"] == 0)
    order = idxs
    for k, n in enumerate(order):
        if n in outs:
            last_started = n
    if finished:
        for n in order:
            results[n] = {"stage": "ran", "out": outs.get(n, [])}
        return
    # aborted inside case `cur`
    if cur is None or cur == "END":
        for n in idxs:
            results[n] = {"stage": "tool", "err": f"binary failed outside any case rc={r['rc']} {r['stderr'][-300:]}"}
        return
    pos = order.index(cur)
    for n in order[:pos]:
        results[n] = {"stage": "ran", "out": outs.get(n, [])}
    if r["rc"] == "timeout":
        results[cur] = {"stage": "abort", "out": outs.get(cur, []), "err": "TIMEOUT (non-terminating?)"}
    else:
        results[cur] = {"stage": "abort", "out": outs.get(cur, []), "err": classify_abort(r["stderr"]), "rc": r["rc"]}
    _run_batch(slot, cases, order[pos + 1:], results, depth + 1)


def run_cases(ctx, cases, per_batch=100, nslots=NSLOTS, do_precheck=True):
    """Returns list of observations aligned with cases."""
    results = [None] * len(cases)
    todo = list(range(len(cases)))
    if do_precheck:
        with ctx.timed("e2e_precheck"):
            pre = precheck(ctx, cases)
        todo = []
        for n, p in enumerate(pre):
            if p is None:
                todo.append(n)
            else:
                results[n] = p
    normal = [n for n in todo if not cases[n].get("aborts")]
    aborting = [n for n in todo if cases[n].get("aborts")]
    batches = [normal[i:i + per_batch] for i in range(0, len(normal), per_batch)]
    # distribute the expected-abort cases: one at the end of each batch, extras in their own batches
    for k, n in enumerate(aborting):
        if k < len(batches):
            batches[k].append(n)
        else:
            batches.append([n])
    slots = [os.path.join(common.WORK, "e2e", f"s{k}") for k in range(nslots)]
    import queue
    free = queue.Queue()
    for s in slots:
        free.put(s)

    def work(b):
        s = free.get()
        try:
            _run_batch(s, cases, b, results)
        finally:
            free.put(s)

    with ctx.timed("e2e_build_run"):
        with concurrent.futures.ThreadPoolExecutor(max_workers=nslots) as ex:
            list(ex.map(work, batches))
    for n, r in enumerate(results):
        if r is None:
            results[n] = {"stage": "tool", "err": "no result"}
    return results


def cleanup_slots():
    shutil.rmtree(os.path.join(common.WORK, "e2e"), ignore_errors=True)
