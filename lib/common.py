"""Shared machinery of the /verif checks: harness build, replay process, TLC/Apalache
wrappers, trace validation, known findings, evidence, VIOLATION reporting.

Exit codes of ./check: 0 = property held on everything explored (KNOWN-FINDING lines allowed),
1 = at least one `VIOLATION property=<id> replay=<path>` line was printed,
2 = tool error / timeout (never a VIOLATION line).
"""
import glob
import hashlib
import json
import os
import re
import shutil
import subprocess
import sys
import time

VERIF = os.path.dirname(os.path.dirname(os.path.abspath(__file__)))
SPEC = os.path.join(VERIF, "spec")
HARNESS = os.path.join(VERIF, "harness")
WORK = os.path.join(VERIF, "work")
REPO = os.environ.get("VERIF_REPO", "/repo")
TLA_JAR = "/opt/veriftools/tla/tla2tools.jar:/opt/veriftools/tla/CommunityModules-deps.jar"


class ToolError(Exception):
    pass


def log(*a):
    print(*a, file=sys.stderr, flush=True)


# ------------------------------------------------------------------ context
class Ctx:
    def __init__(self, prop, tier, seed, replay=None):
        self.prop = prop
        self.tier = tier
        self.seed = seed
        self.replay = replay
        self.t0 = time.time()
        self.work = os.path.join(WORK, prop)
        os.makedirs(self.work, exist_ok=True)
        self.replay_dir = os.path.join(WORK, "replay", prop)
        if not replay:
            shutil.rmtree(self.replay_dir, ignore_errors=True)      # replay files of earlier runs are stale
        os.makedirs(self.replay_dir, exist_ok=True)
        self.violations = []
        self.known_hit = {}
        self.findings = load_findings()
        self.stats = {}          # free-form measured numbers
        self.samples = []
        self.tlc_runs = []       # dicts from tlc()
        self.assumptions = []
        self.stage_times = {}
        self._nrep = 0

    @property
    def quick(self):
        return self.tier == "quick"

    def timed(self, name):
        return _Timer(self, name)

    # a failing case: either catalogued (KNOWN-FINDING) or a VIOLATION
    def fail(self, signature, payload, what=None, tags=None):
        """signature: stable symptom string. With `tags` (the case's feature tags computed by the
        specification) a finding matches when its symptom equals `signature` and its `tags` are a
        subset of the case's tags (DESIGN §7); without, by (property, signature)."""
        for f in self.findings.get("findings", []):
            if f.get("property") != self.prop:
                continue
            if tags is not None and "tags" in f:
                sym_ok = (f.get("symptom") == signature) or \
                    ("symptom_prefix" in f and signature.startswith(f["symptom_prefix"]))
                hit = sym_ok and all(tag_in(t, tags) for t in f["tags"])
            else:
                hit = sig_match(f, signature)
            if hit:
                key = f["signature"]
                if key not in self.known_hit:
                    self.known_hit[key] = 0
                    print(f"KNOWN-FINDING: property={self.prop} {key} :: {f.get('witness', '')}", flush=True)
                self.known_hit[key] += 1
                return False
        self._nrep += 1
        path = os.path.join(self.replay_dir, f"{self._nrep:04d}.json")
        with open(path, "w") as fh:
            json.dump({"property": self.prop, "signature": signature, "what": what, "tags": sorted(tags) if tags else None,
                       "tier": self.tier, "seed": self.seed, "case": payload}, fh, indent=1, default=str)
        self.violations.append({"signature": signature, "replay": path})
        if len(self.violations) <= 20:
            print(f"VIOLATION property={self.prop} replay={path}", flush=True)
            log(f"  signature: {signature}" + (f" -- {what}" if what else ""))
        return True

    def sample(self, s, cap=6):
        if len(self.samples) < cap:
            self.samples.append(s)


class _Timer:
    def __init__(self, ctx, name):
        self.ctx, self.name = ctx, name

    def __enter__(self):
        self.t = time.time()

    def __exit__(self, *a):
        self.ctx.stage_times[self.name] = round(self.ctx.stage_times.get(self.name, 0) + time.time() - self.t, 2)


def tag_in(t, tags):
    """finding tag t (a trailing * makes it a prefix pattern) present among the case's tags?"""
    if t.endswith("*"):
        return any(x.startswith(t[:-1]) for x in tags)
    return t in tags


def sig_match(finding, signature):
    s = finding.get("signature", "")
    if finding.get("match") == "prefix":
        return signature.startswith(s)
    return signature == s


def load_findings():
    p = os.path.join(VERIF, "known_findings.json")
    if os.path.exists(p):
        with open(p) as fh:
            return json.load(fh)
    return {"findings": [], "fixed": []}


# ------------------------------------------------------------------ harness
_built = False


def build_harness():
    """cargo build the harness against /repo's current working tree (hooks on)."""
    global _built
    if _built:
        return
    t = time.time()
    env = dict(os.environ, CARGO_NET_OFFLINE="true")
    # serialise concurrent checks on the same target dir
    lock = os.path.join(WORK, "harness.lock")
    os.makedirs(WORK, exist_ok=True)
    import fcntl
    with open(lock, "w") as lf:
        fcntl.flock(lf, fcntl.LOCK_EX)
        r = subprocess.run(["cargo", "build", "--offline", "--quiet"], cwd=HARNESS, env=env,
                           stdout=subprocess.PIPE, stderr=subprocess.STDOUT, text=True)
    if r.returncode != 0:
        log(r.stdout[-4000:])
        raise ToolError("harness build failed")
    _built = True
    log(f"[harness] built in {time.time() - t:.1f}s")


def harness_bin(name):
    return os.path.join(HARNESS, "target", "debug", name)


def replay_batch(reqs, timeout=600, binary="replay", env=None):
    """Send requests (list of dicts; ids are assigned) to the replay binary; returns list of
    responses aligned with reqs. A request that killed the process yields
    {"crash": <signal/exit>, "stderr": ...}; requests after it are re-run in a new process."""
    build_harness()
    out = [None] * len(reqs)
    start = 0
    os.makedirs(os.path.join(WORK, "tmp"), exist_ok=True)
    while start < len(reqs):
        inp = os.path.join(WORK, "tmp", f"in_{os.getpid()}_{start}.ndjson")
        with open(inp, "w") as fh:
            for i in range(start, len(reqs)):
                r = dict(reqs[i])
                r["id"] = i
                fh.write(json.dumps(r) + "\n")
        try:
            with open(inp) as fin:
                p = subprocess.run([harness_bin(binary)], stdin=fin, stdout=subprocess.PIPE,
                                   stderr=subprocess.PIPE, timeout=timeout, env=env)
            stdout, stderr, rc = p.stdout.decode("utf-8", "replace"), p.stderr.decode("utf-8", "replace"), p.returncode
        except subprocess.TimeoutExpired as e:
            stdout = (e.stdout or b"").decode("utf-8", "replace")
            stderr, rc = "TIMEOUT", "timeout"
        finally:
            try:
                os.remove(inp)
            except OSError:
                pass
        last = start - 1
        for line in stdout.splitlines():
            line = line.strip()
            if not line:
                continue
            try:
                v = json.loads(line)
            except ValueError:
                continue
            i = v.get("id")
            if isinstance(i, int) and 0 <= i < len(reqs):
                out[i] = v
                last = max(last, i)
        if last + 1 >= len(reqs) and rc == 0:
            break
        if rc == 0:
            raise ToolError(f"replay produced {last + 1 - start} of {len(reqs) - start} answers but exited 0")
        # request last+1 killed the process
        out[last + 1] = {"id": last + 1, "crash": rc, "stderr": stderr[-2000:]}
        start = last + 2
    for i, v in enumerate(out):
        if v is None:
            raise ToolError(f"no answer for request {i}")
        if "tool_error" in v:
            raise ToolError(f"harness: {v['tool_error']} for {reqs[i]}")
    return out


# ------------------------------------------------------------------ TLC
_CASE_RE = re.compile(r'^<<"([A-Z]+)", "(.*)">>$')


def _unescape_tla(s):
    # TLC prints strings with \" and \\ escaped
    return json.loads('"' + s + '"')


def tlc(ctx, module, cfg=None, workers=8, timeout=900, simulate=None, depth=None, extra=(), env_extra=None,
        want_tags=("CASE",), java_opts="", coverage=False, quiet=False):
    """Run TLC on spec/<module>.tla with spec/<cfg>.cfg. Returns dict:
    ok, states, distinct, depth, errors, cases {tag: [json...]}, wall_s, cmd, coverage {action: count}"""
    cfg = cfg or module
    # exhaustive runs are a function of the specification text alone: reuse the parsed result of an identical earlier run
    # (same module, config, options and the same bytes in every spec/*.tla + the .cfg); never used for simulation or traces
    cache_file = None
    if not simulate and not env_extra and not coverage and os.environ.get("VERIF_NO_TLC_CACHE") != "1":
        h = hashlib.sha256()
        for f in sorted(glob.glob(os.path.join(SPEC, "*.tla"))) + [os.path.join(SPEC, cfg + ".cfg")]:
            h.update(f.encode())
            h.update(open(f, "rb").read())
        h.update(json.dumps([module, cfg, list(extra), list(want_tags), java_opts]).encode())
        cache_dir = os.path.join(VERIF, "work", "tlc_cache")
        os.makedirs(cache_dir, exist_ok=True)
        cache_file = os.path.join(cache_dir, h.hexdigest()[:32] + ".json")
        if os.path.exists(cache_file):
            try:
                res = json.load(open(cache_file))
                res["cached"] = True
                ctx.tlc_runs.append({k: res[k] for k in ("module", "cfg", "states", "distinct", "depth", "wall_s", "ok", "cmd")} | {"cached": True})
                log(f"[tlc] {cfg}: {res['states']} states, {res['distinct']} distinct, "
                    f"{sum(len(v) for v in res['cases'].values())} cases (cached result of an identical run, {res['wall_s']}s)")
                return res
            except (ValueError, KeyError):
                pass
    meta = os.path.join(ctx.work, "tlc_" + cfg + "_" + str(os.getpid()))
    cmd = ["java", "-XX:+UseParallelGC"]
    if java_opts:
        cmd += java_opts.split()
    cmd += ["-cp", TLA_JAR, "tlc2.TLC", "-workers", str(workers), "-metadir", meta, "-cleanup",
            "-noGenerateSpecTE", "-config", cfg + ".cfg"]
    if simulate:
        cmd += ["-simulate", f"num={simulate}", "-depth", str(depth or 100), "-seed", str(ctx.seed)]
    if coverage:
        cmd += ["-coverage", "1"]
    cmd += list(extra) + [module + ".tla"]
    env = dict(os.environ)
    if env_extra:
        env.update(env_extra)
    t = time.time()
    try:
        p = subprocess.run(cmd, cwd=SPEC, stdout=subprocess.PIPE, stderr=subprocess.STDOUT, timeout=timeout, env=env)
        text = p.stdout.decode("utf-8", "replace")
        rc = p.returncode
    except subprocess.TimeoutExpired as e:
        shutil.rmtree(meta, ignore_errors=True)
        if simulate:
            text = (e.stdout or b"").decode("utf-8", "replace")
            rc = "timeout"
        else:
            raise ToolError(f"TLC timeout after {timeout}s on {cfg}")
    shutil.rmtree(meta, ignore_errors=True)
    wall = time.time() - t
    res = {"module": module, "cfg": cfg, "rc": rc, "wall_s": round(wall, 1), "cmd": " ".join(cmd[3:]),
           "cases": {k: [] for k in want_tags}, "errors": [], "states": 0, "distinct": 0, "depth": 0,
           "coverage": {}, "other_lines": []}
    for line in text.splitlines():
        m = _CASE_RE.match(line)
        if m:
            tag = m.group(1)
            if tag in res["cases"]:
                try:
                    res["cases"][tag].append(json.loads(_unescape_tla(m.group(2))))
                except ValueError as ex:
                    raise ToolError(f"cannot parse TLC case line: {line[:200]} ({ex})")
            continue
        m = re.match(r"^(\d+) states generated, (\d+) distinct states found", line)
        if m:
            res["states"], res["distinct"] = int(m.group(1)), int(m.group(2))
        m = re.match(r"^The depth of the complete state graph search is (\d+)", line)
        if m:
            res["depth"] = int(m.group(1))
        if line.startswith("Error:") or "is violated" in line or "Assumption" in line and "is false" in line:
            res["errors"].append(line)
        m = re.match(r"^<(\w+) line \d+, col \d+ to line \d+, col \d+ of module (\w+)>: (\d+):(\d+)", line)
        if m:
            res["coverage"][m.group(1)] = int(m.group(3))
        if not quiet and len(res["other_lines"]) < 400:
            res["other_lines"].append(line)
    # TLC's workers print cases in a nondeterministic order: sort them, so that the universe order (and with it every
    # seeded sample) is a function of the seed alone
    if not simulate:
        for tag in res["cases"]:
            res["cases"][tag].sort(key=lambda r: json.dumps(r, sort_keys=True))
    res["ok"] = (rc == 0 and not res["errors"])
    res["text_tail"] = ""
    if not res["ok"]:
        ls = [x for x in text.splitlines() if not re.match(r"^\d+\. Line \d+", x)]
        first = next((i for i, x in enumerate(ls) if x.startswith("Error:")), max(0, len(ls) - 40))
        res["text_tail"] = "\n".join(ls[first:first + 60])
    ctx.tlc_runs.append({k: res[k] for k in ("module", "cfg", "states", "distinct", "depth", "wall_s", "ok", "cmd")})
    log(f"[tlc] {cfg}: {res['states']} states, {res['distinct']} distinct, "
        f"{sum(len(v) for v in res['cases'].values())} cases, {wall:.1f}s, ok={res['ok']}")
    if cache_file and res["ok"]:
        tmp = cache_file + f".{os.getpid()}.tmp"
        with open(tmp, "w") as fh:
            json.dump(res, fh)
        os.replace(tmp, cache_file)
    return res


def require_tlc_ok(ctx, res, what):
    """A failed model-level check is a violation of the specification itself = tool/spec problem
    unless the check is the trace validation of a recorded execution."""
    if not res["ok"]:
        log(res["text_tail"])
        raise ToolError(f"TLC reported an error in {what} ({res['cfg']}): {res['errors'][:3]}")


def validate_trace(ctx, module, trace_path, cfg=None, timeout=600, extra_env=None):
    """Run a trace spec (POSTCONDITION-based acceptance) on an ndjson trace.
    Returns (accepted: bool, res). The trace spec prints <<"REJECT", json>> for the first
    unmatched event."""
    env = {"TRACE": trace_path}
    if extra_env:
        env.update(extra_env)
    res = tlc(ctx, module, cfg=cfg, workers=1, timeout=timeout, env_extra=env, want_tags=("REJECT", "ACCEPT"),
              java_opts="-Xss1g -Dtlc2.tool.queue.IStateQueue=StateDeque")
    return res["ok"], res


# ------------------------------------------------------------------ Apalache
def apalache(ctx, module, args, timeout=600):
    out_dir = os.path.join(ctx.work, "apalache")
    cmd = ["apalache-mc", "check", f"--out-dir={out_dir}"] + list(args) + [module + ".tla"]
    t = time.time()
    try:
        p = subprocess.run(cmd, cwd=SPEC, stdout=subprocess.PIPE, stderr=subprocess.STDOUT, timeout=timeout)
    except subprocess.TimeoutExpired:
        shutil.rmtree(out_dir, ignore_errors=True)
        raise ToolError(f"Apalache timeout after {timeout}s on {module}")
    text = p.stdout.decode("utf-8", "replace")
    ok = "The outcome is: NoError" in text and p.returncode == 0
    cex = None
    if not ok:
        m = re.search(r"Check the trace in: ([^,\s]+)", text)
        if m and os.path.exists(m.group(1)):
            cex = open(m.group(1)).read()[:4000]
    res = {"module": module, "ok": ok, "wall_s": round(time.time() - t, 1), "cmd": " ".join(cmd),
           "cex": cex, "tail": "\n".join(text.splitlines()[-15:]),
           "error_outcome": "The outcome is: Error" in text}
    shutil.rmtree(out_dir, ignore_errors=True)
    log(f"[apalache] {module} {' '.join(args)}: ok={ok} {res['wall_s']}s")
    ctx.tlc_runs.append({"module": module, "cfg": "apalache " + " ".join(args), "ok": ok, "wall_s": res["wall_s"],
                         "states": 0, "distinct": 0, "depth": 0, "cmd": res["cmd"]})
    return res


# ------------------------------------------------------------------ evidence
def write_evidence(ctx, level, coverage, assumptions=()):
    os.makedirs(os.path.join(VERIF, "evidence"), exist_ok=True)
    cov = dict(coverage)
    cov.setdefault("samples", ctx.samples[:6] or ["(no sample recorded)"])
    cov["tlc_runs"] = ctx.tlc_runs
    cov["stage_wall_s"] = ctx.stage_times
    cov["known_findings_hit"] = ctx.known_hit
    cov.update({k: v for k, v in ctx.stats.items() if k not in cov})
    ev = {"property_id": ctx.prop, "tier": ctx.tier, "seed": ctx.seed, "level": level, "coverage": cov,
          "assumptions": list(assumptions) + ctx.assumptions, "wall_s": round(time.time() - ctx.t0, 1),
          "violations": len(ctx.violations)}
    p = os.path.join(VERIF, "evidence", ctx.prop + ".json")
    with open(p, "w") as fh:
        json.dump(ev, fh, indent=1, default=str)
    return p


def digest(x):
    return hashlib.sha1(json.dumps(x, sort_keys=True, default=str).encode()).hexdigest()[:12]


def rng(ctx, salt=""):
    import random
    return random.Random(f"{ctx.seed}:{ctx.prop}:{salt}")
