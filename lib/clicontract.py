"""Real CLI invocations (--parse / --check / --emit-rust) against spec/Cli.tla (B2: CliTrace)."""
import json
import os
import re
import subprocess

from lib import common
from lib.common import ToolError

ANSI = re.compile(r"\x1b\[[0-9;]*m")


def run_sessions(ctx, sources, label, modes=("parse", "check", "emit")):
    """sources: list of (name, text). Observes the library's verdicts in process, runs the real CLI in each mode,
    validates the recording with TLC. Returns stats; calls ctx.fail on the first rejected event."""
    cli = common.harness_bin("incan_cli")
    common.build_harness()
    outs = common.replay_batch([{"op": "emit", "src": t} for _, t in sources], timeout=1800)
    wdir = os.path.join(ctx.work, "cli_" + label)
    os.makedirs(wdir, exist_ok=True)
    events, meta = [], []
    for k, ((name, text), o) in enumerate(zip(sources, outs)):
        ob = o.get("obs", {})
        if "crash" in o or "panic" in ob:
            continue                      # totality failures are reported by the monitor, not here
        stage = None if ob.get("ok") else ob.get("stage")
        facts = {"parses": stage not in ("lex", "parse"), "accepted": stage not in ("lex", "parse", "check"), "emits": stage is None}
        path = os.path.join(wdir, f"f{k}.incn")
        with open(path, "w", encoding="utf-8", newline="") as fh:
            fh.write(text)
        for mode in modes:
            flag = {"parse": "--parse", "check": "--check", "emit": "--emit-rust"}[mode]
            try:
                p = subprocess.run([cli, "--no-banner", "--color", "never", flag, path], stdout=subprocess.PIPE, stderr=subprocess.PIPE, timeout=120)
                rc, so, se = p.returncode, p.stdout, p.stderr
            except subprocess.TimeoutExpired:
                rc, so, se = 124, b"", b"TIMEOUT"
            err = ANSI.sub("", se.decode("utf-8", "replace"))
            diag = bool(re.search(r"error", err, re.I))
            events.append(dict(facts, mode=mode, exit=rc, stdout=bool(so.strip()), diag=diag))
            meta.append({"name": name, "mode": mode, "src": text[:2000], "stderr": err[:600], "facts": facts, "exit": rc})
    if not events:
        return {"invocations": 0}
    tpath = os.path.join(ctx.work, f"cli_trace_{label}.ndjson")
    with open(tpath, "w") as fh:
        for e in events:
            fh.write(json.dumps(e) + "\n")
    ok, tres = common.validate_trace(ctx, "CliTrace", tpath, timeout=1200)
    validated = len(events)
    if not ok:
        rej = tres["cases"].get("REJECT")
        if not rej:
            common.log(tres["text_tail"])
            raise ToolError("CliTrace failed without a REJECT line")
        at = rej[0]["at"]
        validated = at - 1
        m = meta[at - 1]
        ctx.fail(f"cli:{m['mode']}:exit-or-output-contradicts-the-library-verdict",
                 m, "the exit status / output of a real `incan` invocation is not the one the contract derives from the library's verdicts",
                 tags=["cli-mode:" + m["mode"], "exit:" + str(m["exit"])])
    return {"invocations": len(events), "validated_by_tlc": validated}
