"""C05 — indexing, slicing and range follow Python for every argument.

Model: spec/PySeq.tla (CPython's slice adjustment + walk, an independent set characterisation,
transcription of the two slice copies, saturation and translation lemmas, canonical errors),
spec/PySeqI64.tla (Apalache: the saturating-cursor step lemma for ALL i64 cursor/end/step).
Binding:
 B1  every TLC table row against every copy (core str, stdlib str, stdlib list, list_get/_mut,
     dict_get, range) on sequences of scalars with byte widths 1..4; i64 extremes substituted
     for window-edge arguments (justified by SaturationOK / translation / big-step lemmas).
 B2  calls recorded on random arguments validated by TLC against PySeqTrace.
 QA  the spec tables are compared with CPython.
"""
import json
import os

from lib import common
from lib.common import ToolError

SCAL = ["a", "e2", "u3", "s4", "b", "f2", "v3", "t4"]
I64MIN, I64MAX = -2**63, 2**63 - 1
BIGP = [I64MAX, I64MAX - 1, 2**62, 2**31, 2**32 + 1]
BIGN = [I64MIN, I64MIN + 1, -2**62, -2**31 - 1, -2**32]


def opt(o):
    return o[0] if o else None


def seq(n):
    return SCAL[:n]


def py_slice_idx(n, a, b, c):
    return list(range(n))[slice(a, b, c)]


def check_slice(ctx, req, out, exp_idx, exp_err, tag):
    n_eval = 0
    s = req["s"]
    want = [s[i] for i in exp_idx]
    for copy, val in out["obs"].items():
        n_eval += 1
        if exp_err:
            got = val.get("err") if copy == "core_str" else val.get("panic")
            if got != exp_err:
                ctx.fail(f"slice-error-text:{copy}{tag}", {"req": req, "copy": copy, "obs": val, "expected": exp_err})
        else:
            if "panic" in val:
                ctx.fail(f"slice-failure:{copy}{tag}", {"req": req, "copy": copy, "obs": val, "expected": want},
                         "slice raised instead of returning")
            elif val.get("val") != want:
                ctx.fail(f"slice-wrong:{copy}{tag}", {"req": req, "copy": copy, "obs": val, "expected": want})
    return n_eval


def run(ctx):
    cfg = "MC_PySeq_quick" if ctx.quick else "MC_PySeq"
    with ctx.timed("tlc"):
        res = common.tlc(ctx, "MC_PySeq", cfg=cfg, workers=8, timeout=1800)
    common.require_tlc_ok(ctx, res, "PySeq window check")
    rows = res["cases"]["CASE"]
    W = 5 if ctx.quick else 8
    with ctx.timed("apalache_step_lemma"):
        ap = common.apalache(ctx, "PySeqI64", ["--init=Init", "--next=Next", "--inv=StepLemma", "--length=0"])
        if not ap["ok"]:
            raise ToolError("Apalache: saturating-cursor step lemma failed: " + (ap["cex"] or ap["tail"])[:600])
        neg = common.apalache(ctx, "PySeqI64", ["--init=Init", "--next=Next", "--inv=WrapLemma", "--length=0"])
        if neg["ok"] or not neg["error_outcome"]:
            raise ToolError("Apalache: the wrapping-add regression obligation did not fail (lemma would be vacuous)")

    # QA: spec vs CPython
    for r in rows:
        if r["m"] == "slice" and not r["err"]:
            if r["idx"] != py_slice_idx(r["n"], opt(r["start"]), opt(r["stop"]), opt(r["step"])):
                raise ToolError(f"spec/PySeq disagrees with CPython on {r}")
        if r["m"] == "range" and not r["err"]:
            if r["val"] != list(range(r["a"], r["b"], r["c"])):
                raise ToolError(f"spec/PySeq disagrees with CPython on {r}")

    rnd = common.rng(ctx, "c05")
    reqs, exps = [], []
    for r in rows:
        if r["m"] == "slice":
            reqs.append({"op": "slice", "s": seq(r["n"]), "start": opt(r["start"]), "end": opt(r["stop"]), "step": opt(r["step"])})
            exps.append(("slice", r, ""))
            # extremes for window-edge arguments (SaturationOK needs |edge| > n + 1)
            edge = [k for k in ("start", "stop", "step") if r[k] and abs(r[k][0]) == W]
            if edge and W > r["n"] + 1 and (not ctx.quick or rnd.random() < 0.25):
                q = {"op": "slice", "s": seq(r["n"]), "start": opt(r["start"]), "end": opt(r["stop"]), "step": opt(r["step"])}
                for k in edge:
                    big = rnd.choice(BIGP if r[k][0] > 0 else BIGN)
                    q["end" if k == "stop" else k] = big
                reqs.append(q)
                exps.append(("slice", r, ":extreme"))
        elif r["m"] == "index":
            reqs.append({"op": "index", "s": seq(r["n"]), "i": r["i"]})
            exps.append(("index", r, ""))
            if abs(r["i"]) == W:
                reqs.append({"op": "index", "s": seq(r["n"]), "i": rnd.choice(BIGP if r["i"] > 0 else BIGN)})
                exps.append(("index", r, ":extreme"))
        elif r["m"] == "dict":
            reqs.append({"op": "dict_get", "keys": list(range(r["n"])), "key": r["key"]})
            exps.append(("dict", r, ""))
        elif r["m"] == "range":
            reqs.append({"op": "range", "a": r["a"], "b": r["b"], "c": r["c"], "limit": 64})
            exps.append(("range", r, ""))
            if r["c"] != 0 and (not ctx.quick or rnd.random() < 0.3):
                # translation lemma: anchor the triple at the i64 limits
                for t in (I64MAX - max(r["a"], r["b"]), I64MIN - min(r["a"], r["b"])):
                    reqs.append({"op": "range", "a": r["a"] + t, "b": r["b"] + t, "c": r["c"], "limit": 64})
                    exps.append(("range", dict(r, val=[v + t for v in r["val"]], a=r["a"] + t, b=r["b"] + t), ":translated"))
                # big-step lemma: a step at least as large as the distance yields exactly <<a>>
                if len(r["val"]) == 1:
                    t = I64MAX - max(r["a"], r["b"]) if r["c"] > 0 else I64MIN - min(r["a"], r["b"])
                    big = rnd.choice(BIGP if r["c"] > 0 else BIGN)
                    reqs.append({"op": "range", "a": r["a"] + t, "b": r["b"] + t, "c": big, "limit": 64})
                    exps.append(("range", dict(r, val=[r["a"] + t], a=r["a"] + t, b=r["b"] + t, c=big), ":bigstep"))
    with ctx.timed("replay_b1"):
        outs = common.replay_batch(reqs, timeout=1200)
    n_eval = 0
    distinct = set()
    for (kind, r, tag), q, o in zip(exps, reqs, outs):
        if "crash" in o:
            ctx.fail(f"{kind}-crash{tag}", {"req": q, "out": o})
            continue
        if kind == "slice":
            n_eval += check_slice(ctx, q, o, r["idx"], r["err"], tag)
            if r["idx"] and (opt(r["step"]) or 1) != 1:
                distinct.add(("slice", r["n"], str(r["start"]), str(r["stop"]), str(r["step"]), tag))
        elif kind == "index":
            s = q["s"]
            for copy, val in o["obs"].items():
                n_eval += 1
                if r["j"] == -1:
                    if copy in ("core_str", "std_str"):
                        exp = r["errs"]
                    else:
                        exp = f"IndexError: index {q['i']} out of range for list of length {r['n']}"
                    got = val.get("err") if copy == "core_str" else val.get("panic")
                    if got != exp:
                        ctx.fail(f"index-error-text:{copy}{tag}", {"req": q, "copy": copy, "obs": val, "expected": exp})
                elif val.get("val") != [s[r["j"]]]:
                    ctx.fail(f"index-wrong:{copy}{tag}", {"req": q, "copy": copy, "obs": val, "expected": s[r["j"]]})
            if r["i"] < 0:
                distinct.add(("index", r["n"], r["i"], tag))
        elif kind == "dict":
            val = o["obs"]["std_dict"]
            n_eval += 1
            if r["found"]:
                if val.get("val") != r["key"] * 10:
                    ctx.fail("dict-wrong", {"req": q, "obs": val})
            elif val.get("panic") != r["err"]:
                ctx.fail("dict-error-text", {"req": q, "obs": val, "expected": r["err"]})
            distinct.add(("dict", r["n"], r["key"]))
        elif kind == "range":
            val = o["obs"]["std_range"]
            n_eval += 1
            if r["err"]:
                if val.get("panic") != r["err"]:
                    ctx.fail(f"range-error-text{tag}", {"req": q, "obs": val, "expected": r["err"]})
            elif "panic" in val:
                ctx.fail(f"range-failure{tag}", {"req": q, "obs": val, "expected": r["val"]},
                         "TIMEOUT = non-terminating" if val["panic"] == "TIMEOUT" else None)
            elif val.get("too_long") or val.get("val") != r["val"]:
                ctx.fail(f"range-wrong{tag}", {"req": q, "obs": val, "expected": r["val"]})
            if len(r["val"]) >= 2 or tag:
                distinct.add(("range", q["a"], q["b"], q["c"]))
    ctx.sample({"case": rows[len(rows) // 2], "req": reqs[len(reqs) // 2], "obs": outs[len(reqs) // 2]["obs"]})

    # ---------------------------------------------------------------- B2: record random calls, validate with TLC
    ntrace = 600 if ctx.quick else 6000
    treqs = []
    for _ in range(ntrace):
        c = rnd.random()
        n = rnd.randint(0, 8)
        def o():
            return None if rnd.random() < 0.25 else rnd.randint(-12, 12)
        if c < 0.6:
            treqs.append({"op": "slice", "s": seq(n), "start": o(), "end": o(), "step": o()})
        elif c < 0.8:
            treqs.append({"op": "index", "s": seq(n), "i": rnd.randint(-12, 12)})
        else:
            treqs.append({"op": "range", "a": rnd.randint(-20, 20), "b": rnd.randint(-20, 20), "c": rnd.randint(-6, 6), "limit": 64})
    with ctx.timed("record_b2"):
        touts = common.replay_batch(treqs)
    events = []
    for q, o in zip(treqs, touts):
        if "crash" in o:
            ctx.fail("crash-b2", {"req": q, "out": o})
            continue
        ob = o["obs"]
        wrap = lambda v: [] if v is None else [v]
        if q["op"] == "slice":
            s = q["s"]
            vals = {}
            for copy, val in ob.items():
                if "val" in val:
                    try:
                        vals[copy] = ("", [s.index(e) for e in val["val"]])
                    except ValueError:
                        vals[copy] = ("?", val["val"])
                else:
                    vals[copy] = (val.get("err") or val.get("panic"), [])
            if len(set(json.dumps(v) for v in vals.values())) != 1:
                ctx.fail("slice-copies-disagree", {"req": q, "obs": ob})
                continue
            err, idx = vals["core_str"]
            events.append({"m": "slice", "n": len(s), "start": wrap(q["start"]), "stop": wrap(q["end"]), "step": wrap(q["step"]),
                           "err": err, "idx": idx})
        elif q["op"] == "index":
            s = q["s"]
            js = set()
            for copy, val in ob.items():
                js.add(s.index(val["val"][0]) if "val" in val else -1)
            if len(js) != 1:
                ctx.fail("index-copies-disagree", {"req": q, "obs": ob})
                continue
            events.append({"m": "index", "n": len(s), "i": q["i"], "j": js.pop()})
        else:
            val = ob["std_range"]
            events.append({"m": "range", "a": q["a"], "b": q["b"], "c": q["c"],
                           "err": val.get("panic", ""), "val": val.get("val", [])})
    validated = 0
    tpath = os.path.join(ctx.work, "pyseq_trace.ndjson")
    with open(tpath, "w") as fh:
        for e in events:
            fh.write(json.dumps(e) + "\n")
    with ctx.timed("tlc_trace"):
        ok, tres = common.validate_trace(ctx, "PySeqTrace", tpath)
    if ok:
        validated = len(events)
    else:
        rej = tres["cases"].get("REJECT") or [{}]
        if not tres["cases"].get("REJECT"):
            common.log(tres["text_tail"])
            raise ToolError("PySeqTrace failed without a REJECT line")
        validated = rej[0].get("at", 1) - 1
        ctx.fail("trace-rejected:" + str(rej[0].get("ev", {}).get("m")), {"rejected_event": rej[0]},
                 "a recorded real call is not a behaviour of PySeq")
    if events:
        ctx.sample({"recorded_event": events[0]})

    common.write_evidence(ctx, "model_checking", {
        "states": sum(r["states"] for r in ctx.tlc_runs),
        "transitions": sum(r["states"] for r in ctx.tlc_runs),
        "traces_validated_against_impl": validated,
        "evaluations": n_eval,
        "distinct_nontrivial": len(distinct),
        "rule": "B1: every TLC row (slice: n<=MaxN, start/stop/step in window or absent; index; dict; range) x every copy, "
                "plus i64 extremes substituted for window-edge arguments (saturation/translation/big-step lemmas); "
                "non-trivial = slices with a non-unit step selecting >=1 element, negative indices, dict lookups, ranges with "
                ">=2 elements or anchored at the i64 limits; distinct by arguments",
        "table_rows": len(rows),
        "b1_requests": len(reqs),
        "b2_events": len(events),
        "apalache": "StepLemma (saturating cursor == unbounded cursor, all i64): NoError; WrapLemma (pre-fix behaviour): counterexample, as required",
        "exhaustive": True,
    }, assumptions=[
        "strings are built from 8 distinct scalars of byte widths 1..4; other scalars behave the same (char-based code)",
        "the induction from the one-step lemma to whole iterations is an argument in DESIGN.md, not a mechanised proof",
    ])


def replay(ctx, path):
    case = json.load(open(path))["case"]
    req = case.get("req")
    out = common.replay_batch([req])[0]
    print(json.dumps({"req": req, "obs": out}, indent=1))
    print("recorded:", json.dumps(case, default=str)[:2000])
