"""C17 — a validated newtype can never hold an invalid value.

Model: spec/Newtype.tla — the lowering walk as a state machine (pre-pass registering the selected
hook; current_impl_type saved / set / restored around a type's methods; the Call-arm rewrite) and the
property's MustValidate(site, declaration). TLC: for every declaration order and every hook kind,
exactly the sites that must validate are rewritten (RewrittenIffMust).
Binding:
 B1 cheap (in process, every scenario x underlying type): the generated Rust of the rendered program
    must contain the rewrite `T::<hook>(..).expect("validated newtype construction failed: T::<hook>")`
    at exactly the functions the machine says (each site lives in its own function, so the emitted
    function bodies can be inspected one by one).
 B1 e2e (sampled): the compiled program stops with the validation failure on a rejected argument at
    every non-exempt site, and prints normally on an accepted one.
 Nominal typing: mixing two newtypes over the same underlying type must be rejected by the checker.
"""
import json
import re

from lib import common, pipeline
from lib.common import ToolError

UNDER = {"int": {"ty": "int", "good": "5", "bad": "-5", "cond": "v < 0", "show": "{N}"},
         "str": {"ty": "str", "good": '"ok"', "bad": '""', "cond": "len(v) == 0", "show": "{N}"},
         # generic underlying types: the hook's parameter type is then a type APPLICATION (compared structurally)
         "list": {"ty": "List[int]", "good": "[5]", "bad": "[]", "cond": "len(v) == 0", "show": "{N}"},
         "dict": {"ty": "Dict[str, int]", "good": '{"a": 1}', "bad": "{}", "cond": "len(v) == 0", "show": "{N}"}}


def hook_methods(hook, u):
    ty = UNDER[u]["ty"]
    cond = UNDER[u]["cond"]

    def m(name, params=f"v: {ty}", ret="Result[T{N}, str]", body=None, recv=None):
        ps = (recv + ", " if recv else "") + params
        b = body or [f"if {cond}:", '    return Err("rejected")', "return Ok(T{N}(v))"]
        return [f"    def {name}({ps}) -> {ret}:"] + ["        " + l for l in b]
    if hook == "none":
        return []
    if hook == "from_underlying":
        return m("from_underlying")
    if hook == "from_x":
        return m("from_x")
    if hook == "two_from":
        return m("from_x") + [""] + m("from_y")
    if hook == "from_x_plus_other_shape":
        other = "s: str" if ty != "str" else "k: int"
        return m("from_x") + [""] + m("from_t", params=other, body=['return Err("unused")'])
    if hook == "from_x_arity2":
        return m("from_x", params=f"v: {ty}, w: {ty}")
    if hook == "from_x_bad_return":
        return m("from_x", ret=f"Option[T{{N}}]", body=[f"if {cond}:", "    return None", "return Some(T{N}(v))"])
    if hook == "from_x_receiver":
        return m("from_x", recv="self", body=[f"if {cond}:", '    return Err("rejected")', "return Ok(T{N}(v))"])
    raise ValueError(hook)


def render(case, u, arg):
    """-> decls text with {N}; the site functions are named site_<id>{N}; `arg` is the construction argument"""
    ty = UNDER[u]["ty"]
    parts = []
    for unit in case["units"]:
        if unit == "NT":
            hm = hook_methods(case["hook"], u)
            own = ["    def own_method(self) -> T{N}:", f"        return T{{N}}({arg})"]
            parts.append("\n".join([f"type T{{N}} = newtype {ty}:"] + hm + ([""] if hm else []) + own) + "\n")
        elif unit == "OT":
            parts.append("\n".join(["model O{N}:", "    z: int", "", "    def other_type_method(self) -> T{N}:", f"        return T{{N}}({arg})"]) + "\n")
        elif unit == "FN":
            k = case["units"].index("FN")
            sfx = "" if case["units"].count("FN") == 1 or case["units"][:case["units"].index(unit) + 1].count("FN") == 1 else "b"
            parts.append("\n".join([
                f"model Holder{sfx}{{N}}:", "    t: T{N}", "",
                f"def take{sfx}{{N}}(t: T{{N}}) -> int:", "    return 1", "",
                f"def ident{sfx}{{N}}(t: T{{N}}) -> T{{N}}:", "    return t", "",
                f"def site_let{sfx}{{N}}() -> int:", f"    let t = T{{N}}({arg})", "    return 1", "",
                f"def site_argument{sfx}{{N}}() -> int:", f"    return take{sfx}{{N}}(T{{N}}({arg}))", "",
                f"def site_return{sfx}{{N}}() -> T{{N}}:", f"    return T{{N}}({arg})", "",
                f"def site_field_init{sfx}{{N}}() -> int:", f"    let h = Holder{sfx}{{N}}(t=T{{N}}({arg}))", "    return 1", "",
                f"def site_list_element{sfx}{{N}}() -> int:", f"    let xs = [T{{N}}({arg})]", "    return len(xs)", "",
                f"def site_nested_call{sfx}{{N}}() -> int:", f"    return take{sfx}{{N}}(ident{sfx}{{N}}(T{{N}}({arg})))", ""]))
    return "\n".join(parts)


def fn_bodies(rust):
    """generated Rust -> {fn name: body text} (top-level fns and methods)"""
    out = {}
    for m in re.finditer(r"fn (\w+)\s*\([^)]*\)[^{]*\{", rust):
        name = m.group(1)
        i = m.end()
        depth = 1
        j = i
        while j < len(rust) and depth:
            depth += rust[j] == "{"
            depth -= rust[j] == "}"
            j += 1
        out.setdefault(name, rust[i:j])
    return out


SITE_FN = {"let": "site_let", "argument": "site_argument", "return": "site_return", "field-init": "site_field_init",
           "list-element": "site_list_element", "nested-call": "site_nested_call", "other-type-method": "other_type_method",
           "own-method": "own_method"}


def run(ctx):
    rnd = common.rng(ctx, "c17")
    with ctx.timed("tlc"):
        res = common.tlc(ctx, "MC_Newtype", cfg="MC_Newtype", workers=4, timeout=600)
    common.require_tlc_ok(ctx, res, "Newtype / RewrittenIffMust")
    rows = res["cases"]["CASE"]
    # ---------------------------------------------------------------- B1 cheap: emitted text, every scenario x underlying
    reqs, meta = [], []
    for r in rows:
        for u in tuple(UNDER):
            src = render(r, u, UNDER[u]["good"]).replace("{N}", "") + "\ndef main() -> None:\n    println(1)\n"
            reqs.append({"op": "emit", "src": src})
            meta.append((r, u, src))
    with ctx.timed("emit"):
        outs = common.replay_batch(reqs, timeout=1800)
    n = 0
    distinct = set()
    emitted_ok = []
    for (r, u, src), o in zip(meta, outs):
        ob = o.get("obs", {})
        tags = ["hook:" + r["hook"], "underlying:" + u, "order:" + "-".join(r["units"])]
        if "crash" in o or "panic" in ob:
            ctx.fail("emit-crash", {"src": src, "out": ob.get("panic") or str(o)}, tags=tags)
            continue
        if not ob.get("ok"):
            if ob.get("stage") in ("lex", "parse"):
                raise ToolError(f"C17 program does not parse: {ob}\n{src}")
            # a declaration the checker / generator refuses: counted, not judged (e.g. from_x with a receiver may be rejected)
            ctx.stats.setdefault("not_generated", {})
            key = f"{r['hook']}:{ob.get('stage')}"
            ctx.stats["not_generated"][key] = ctx.stats["not_generated"].get(key, 0) + 1
            continue
        n += 1
        bodies = fn_bodies(ob["rust"])
        want = set(r["rewritten"])
        units = r["units"]
        for site, fn in SITE_FN.items():
            present = (site == "own-method" and "NT" in units) or (site == "other-type-method" and "OT" in units) or \
                (site not in ("own-method", "other-type-method") and "FN" in units)
            if not present:
                continue
            body = bodies.get(fn)
            if body is None:
                raise ToolError(f"function {fn} not found in the generated Rust")
            marker = f'validated newtype construction failed: T::{r["hookname"]}' if r["hookname"] else "validated newtype construction failed"
            has = marker in body and ".expect(" in body
            if has != (site in want):
                ctx.fail("rewrite-" + ("missing" if site in want else "unexpected") + ":" + site,
                         {"src": src, "site": site, "hook": r["hook"], "generated_fn": body[:600]},
                         "the hook is bypassed at a construction site" if site in want else "a site that must not be rewritten was rewritten",
                         tags=tags + ["site:" + site])
        distinct.add((r["hook"], u, tuple(units)))
        if r["hookname"]:
            emitted_ok.append((r, u))
    ctx.sample({"scenario": rows[len(rows) // 2], "program": meta[len(meta) // 2][2][:900]})

    # ---------------------------------------------------------------- B1 e2e: behaviour on accepted / rejected arguments
    n_e2e = 6 if ctx.quick else 40
    chosen = rnd.sample(emitted_ok, min(len(emitted_ok), n_e2e))
    cases = []
    for k, (r, u) in enumerate(chosen):
        for which in ("good", "bad"):
            decls = render(r, u, UNDER[u][which])
            sites = [s for s in ("let", "argument", "field-init", "list-element", "nested-call") if "FN" in r["units"]]
            for site in sites + (["other-type-method"] if "OT" in r["units"] else []):
                if site == "other-type-method":
                    body = ["let o = O{N}(z=1)", "let t = o.other_type_method()", "println(1)"]
                else:
                    body = [f"println({SITE_FN[site]}{{N}}())"]
                must = site in r["rewritten"]
                aborts = which == "bad" and must
                cases.append({"id": f"w{k}{which}{site}", "decls": decls, "body": body, "aborts": aborts,
                              "expect": {"out": [] if aborts else [{"t": "int", "iv": 1}], "status": "error" if aborts else "done",
                                         "err": ""}, "tags": ["hook:" + r["hook"], "underlying:" + u, "site:" + site, "arg:" + which],
                              "row": r, "u": u, "site": site, "which": which})
    if ctx.quick and len(cases) > 40:
        cases = rnd.sample(cases, 40)
    with ctx.timed("e2e"):
        obs = pipeline.run_cases(ctx, cases, per_batch=12)
    n_run = 0
    for c, o in zip(cases, obs):
        st = o["stage"]
        info = {"hook": c["row"]["hook"], "underlying": c["u"], "site": c["site"], "arg": c["which"], "body": c["body"]}
        if st in ("check", "emit", "build"):
            ctx.stats.setdefault("e2e_not_built", {})
            key = st + ":" + (pipeline.build_symptom(o.get("err")) if st == "build" else "")
            ctx.stats["e2e_not_built"][key] = ctx.stats["e2e_not_built"].get(key, 0) + 1
            continue
        n_run += 1
        if c["aborts"]:
            if st != "abort" or "validated newtype construction failed" not in (o.get("err") or ""):
                ctx.fail("invalid-value-constructed:" + c["site"], dict(info, observed=o),
                         "a rejected argument produced a T instead of stopping with the validation failure", tags=c["tags"])
        else:
            if st == "abort":
                ctx.fail("valid-construction-aborts:" + c["site"], dict(info, observed=o), tags=c["tags"])
            elif o.get("out") != ["1"]:
                ctx.fail("valid-construction-wrong-output:" + c["site"], dict(info, observed=o), tags=c["tags"])

    # ---------------------------------------------------------------- cross-module construction (real CLI, stub cargo)
    import os
    import subprocess
    xdir = os.path.join(ctx.work, "xmod")
    stub = os.path.join(ctx.work, "stubbin")
    os.makedirs(stub, exist_ok=True)
    with open(os.path.join(stub, "cargo"), "w") as fh:
        fh.write("#!/bin/sh\nexit 97\n")
    os.chmod(os.path.join(stub, "cargo"), 0o755)
    common.build_harness()
    for hook in ("from_underlying", "from_x"):
        d = os.path.join(xdir, hook)
        os.makedirs(d, exist_ok=True)
        hm = "\n".join(l.replace("{N}", "") for l in hook_methods(hook, "int"))
        with open(os.path.join(d, "types.incn"), "w") as fh:
            fh.write("pub type T = newtype int:\n" + hm + "\n")
        with open(os.path.join(d, "main.incn"), "w") as fh:
            fh.write("from types import T\n\ndef site_other_module() -> int:\n    let t = T(-5)\n    return 1\n\ndef main() -> None:\n    println(site_other_module())\n")
        env = dict(os.environ, PATH=stub + ":" + os.environ["PATH"], CARGO_NET_OFFLINE="true")
        subprocess.run([common.harness_bin("incan_cli"), "build", "main.incn", "out"], cwd=d, env=env, stdout=subprocess.PIPE,
                       stderr=subprocess.STDOUT, timeout=300)
        mr = os.path.join(d, "out", "src", "main.rs")
        n += 1
        if not os.path.exists(mr):
            ctx.stats.setdefault("xmod_not_generated", []).append(hook)
            continue
        body = fn_bodies(open(mr).read()).get("site_other_module", "")
        if "validated newtype construction failed" not in body:
            ctx.fail("rewrite-missing:other-module", {"hook": hook, "generated_fn": body[:500]},
                     "a construction in another module bypasses the validation hook", tags=["hook:" + hook, "site:other-module"])
        distinct.add((hook, "int", "xmod"))

    # ---------------------------------------------------------------- nominal typing
    mix = []
    for pos, stmt in (("let", "let a: A = B(1)"), ("return", None), ("reassign", None)):
        if pos == "let":
            body = "def f() -> int:\n    let a: A = B(1)\n    return 1\n"
        elif pos == "return":
            body = "def f() -> A:\n    return B(1)\n"
        else:
            body = "def f() -> int:\n    mut a = A(1)\n    a = B(2)\n    return 1\n"
        for under in ("int", "str"):
            lit = "1" if under == "int" else '"x"'
            src = f"type A = newtype {under}\ntype B = newtype {under}\n\n" + body.replace("(1)", f"({lit})").replace("(2)", f"({lit})") + \
                "\ndef main() -> None:\n    println(1)\n"
            good = src.replace("B(", "A(")
            mix.append((pos, under, src, good))
    mouts = common.replay_batch([{"op": "check", "src": s} for _, _, s, _ in mix] + [{"op": "check", "src": g} for _, _, _, g in mix])
    for k, (pos, under, src, good) in enumerate(mix):
        bad_ob, good_ob = mouts[k]["obs"], mouts[len(mix) + k]["obs"]
        n += 1
        if not good_ob.get("ok"):
            raise ToolError(f"nominal-typing twin rejected: {good_ob}\n{good}")
        if bad_ob.get("ok"):
            ctx.fail("newtypes-interchangeable:" + pos, {"src": src}, "two newtypes over the same underlying type are interchangeable",
                     tags=["pos:" + pos, "underlying:" + under])
    common.write_evidence(ctx, "model_checking", {
        "states": sum(r["distinct"] for r in ctx.tlc_runs),
        "transitions": sum(r["states"] for r in ctx.tlc_runs),
        "traces_validated_against_impl": n,
        "evaluations": n + n_run,
        "distinct_nontrivial": len(distinct),
        "rule": "every (hook kind, declaration order) scenario of the TLC model x underlying type {int, str, List[int], Dict[str, int]}: generated Rust inspected per "
                "site function; distinct by (hook, underlying, order); e2e: seeded sample x sites x {accepted, rejected} argument",
        "scenarios": len(rows), "e2e_run": n_run,
        "exhaustive": True,
    }, assumptions=["each construction site lives in its own function so that the emitted body can be attributed to the site",
                    "cross-module construction is not yet generated (DESIGN §5 C17 expectation)"])


def replay(ctx, path):
    case = json.load(open(path))["case"]
    if "src" in case:
        out = common.replay_batch([{"op": "emit", "src": case["src"]}])[0]
        print(json.dumps(out)[:4000])
    print("recorded:", json.dumps(case, default=str)[:3000])
