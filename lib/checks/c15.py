"""C15 — the generated Cargo project declares exactly what the code needs, pinned.

Model: spec/Manifest.tla — project preparation (`prepare_project`, the scanners, the `use`-line
insertion, `generate_cargo_toml`) as a state machine Collect -> Scan -> AddCrates -> Emit -> Write
over programs abstracted to WHERE each feature-triggering construct occurs (not at all / entry file /
only in an imported module) x project name x module layout. TLC (MC_Manifest) checks the property's
invariants on the demanded variant for every admissible program and prints one CASE line per
program (ExpectedDeps, Refused, names, referenced crate roots); the as-written variant
(MC_Manifest_aswritten: entry-module-only scan, `*` for unknown crates) must violate them.

Binding (B1): every CASE is rendered into a real Incan program (entry file + optionally an imported
module) and the project is generated
  (a) in process: harness op gen_project = the call sequence of prepare_project from the public API,
  (b) by the real CLI: `incan_cli build <file> <out>` with a stub `cargo` first on PATH (records
      whether it was invoked, then fails), so nothing ever reaches the network;
Cargo.toml is parsed (TOML subset, cross-checked against `cargo metadata --no-deps --offline`), the
generated .rs files are scanned for external crate roots, and declared = expected, referenced
is a subset of declared, names, pinned-ness, no duplicates, refusal of unknown crates are compared.
"""
import concurrent.futures
import json
import os
import re
import shutil
import subprocess

from lib import common
from lib.common import ToolError

UNKNOWN_TEXT = "unknown Rust crate `{}`: no known-good version mapping exists."

# ---------------------------------------------------------------- rendering
IMPORTS = {
    "web": ["from web import App, route, Response"],
    "rk_rand": ["import rust::rand"],
    "rk_regex": ["from rust::regex import Regex"],
    "rk_tokio": ["import rust::tokio"],
    "rk_sj": ["from rust::serde_json import Value as JsonValue"],
    "ru": ["from rust::fancy_crate import thing"],
    "std": ["import rust::std::fs", "from rust::std::env import var as env_var"],
}
DECLS = {
    "dser": "@derive(Serialize)\npub model MSer{S}:\n  pub a: int\n",
    "dde": "@derive(Deserialize)\npub model MDe{S}:\n  pub b: int\n",
    "json": "pub def dump_json{s}() -> str:\n  return json_stringify([1, 2])\n",
    "async": "pub async def work{s}() -> int:\n  await sleep(0.01)\n  return 1\n",
    "web": "@route(\"/{s}\")\npub async def index{s}() -> Response:\n  return Response.ok()\n",
}
FEATS = ["dser", "dde", "json", "async", "web", "rk_rand", "rk_regex", "rk_tokio", "rk_sj", "ru", "std"]


def derive_form(text, feat, form):
    """the same serde derive written in the form the case asks for (spec/MC_Manifest.tla DeriveForms)"""
    if feat not in ("dser", "dde") or form == "alone":
        return text
    d = "Serialize" if feat == "dser" else "Deserialize"
    if form == "listed":
        return text.replace(f"@derive({d})", f"@derive(Debug, Clone, {d})")
    if form == "stacked":
        return text.replace(f"@derive({d})", f"@derive(Debug)\n@derive({d})")
    if form == "class":
        return text.replace("pub model", "pub class")
    raise ValueError(form)


def render(case):
    """-> (entry file name, {relative path: text})"""
    place = case["place"]
    in_main = [f for f in FEATS if place[f] == "main"]
    in_mod = [f for f in FEATS if place[f] == "mod"]
    nested = case["layout"] == "nested"

    def unit(feats, suffix, extra_imports, tail):
        lines = []
        for f in feats:
            lines += IMPORTS.get(f, [])
        lines += extra_imports
        # a declaration without any feature comes first: scanners that stop at the first type / function they meet show up
        body = ["pub model Plain{S}:\n  pub z: int\n".replace("{S}", suffix.upper())] if feats else []
        body += [derive_form(DECLS[f], f, case.get("form", "alone")).replace("{S}", suffix.upper()).replace("{s}", suffix) for f in feats if f in DECLS]
        return "\n".join(lines) + ("\n\n" if lines else "") + "\n".join(body) + ("\n" if body else "") + tail

    files = {}
    entry = case["name"] + ".incn"
    if in_mod:
        imp = "from pkg::util import helper_marker" if nested else "from helper import helper_marker"
        files[entry] = unit(in_main, "", [imp], "def main() -> None:\n  print(helper_marker())\n")
        modfile = "pkg/util.incn" if nested else "helper.incn"
        files[modfile] = unit(in_mod, "m", [], "pub def helper_marker() -> int:\n  return 7\n")
    else:
        files[entry] = unit(in_main, "", [], "def main() -> None:\n  print(1)\n")
    return entry, files


# ---------------------------------------------------------------- TOML subset
class TomlError(Exception):
    pass


def _parse_value(s, i):
    n = len(s)
    while i < n and s[i] in " \t":
        i += 1
    if i >= n:
        raise TomlError("value expected")
    c = s[i]
    if c == '"':
        j = i + 1
        out = []
        while j < n and s[j] != '"':
            if s[j] == "\\":
                j += 1
                if j >= n:
                    raise TomlError("bad escape")
                out.append({"n": "\n", "t": "\t", '"': '"', "\\": "\\"}.get(s[j], s[j]))
            else:
                out.append(s[j])
            j += 1
        if j >= n:
            raise TomlError("unterminated string")
        return "".join(out), j + 1
    if c == "[":
        arr = []
        i += 1
        while True:
            while i < n and s[i] in " \t,":
                i += 1
            if i < n and s[i] == "]":
                return arr, i + 1
            v, i = _parse_value(s, i)
            arr.append(v)
    if c == "{":
        tab = {}
        i += 1
        while True:
            while i < n and s[i] in " \t,":
                i += 1
            if i < n and s[i] == "}":
                return tab, i + 1
            m = re.match(r"[A-Za-z0-9_\-]+", s[i:])
            if not m:
                raise TomlError("key expected in inline table")
            k = m.group(0)
            i += len(k)
            while i < n and s[i] in " \t":
                i += 1
            if i >= n or s[i] != "=":
                raise TomlError("= expected")
            v, i = _parse_value(s, i + 1)
            if k in tab:
                raise TomlError("duplicate key " + k)
            tab[k] = v
    m = re.match(r"(true|false|\d+)", s[i:])
    if m:
        t = m.group(0)
        return (t == "true") if t in ("true", "false") else int(t), i + len(t)
    raise TomlError("unsupported value at " + s[i:i + 20])


def parse_manifest(text):
    """-> {"sections": {name: [(key, value, line)...]}, "order": [section names], "dup": [(section,key)]}"""
    sections, order, dup = {}, [], []
    cur = None
    for ln, raw in enumerate(text.split("\n"), 1):
        line = raw.strip()
        if not line or line.startswith("#"):
            continue
        m = re.match(r"^\[\[([A-Za-z0-9_.\-]+)\]\]$", line) or re.match(r"^\[([A-Za-z0-9_.\-]+)\]$", line)
        if m:
            cur = m.group(1)
            if cur in sections:
                dup.append(("", cur))
            sections.setdefault(cur, [])
            order.append(cur)
            continue
        m = re.match(r"^([A-Za-z0-9_\-]+)\s*=\s*(.*)$", line)
        if not m or cur is None:
            raise TomlError(f"line {ln}: cannot parse {raw!r}")
        v, j = _parse_value(m.group(2), 0)
        rest = m.group(2)[j:].strip()
        if rest and not rest.startswith("#"):
            raise TomlError(f"line {ln}: trailing text {rest!r}")
        if any(k == m.group(1) for k, _, _ in sections[cur]):
            dup.append((cur, m.group(1)))
        sections[cur].append((m.group(1), v, ln))
    return {"sections": sections, "order": order, "dup": dup}


def deps_of(man):
    """[dependencies] -> ordered list of {crate, kind, req, feats, raw}"""
    out = []
    for k, v, _ in man["sections"].get("dependencies", []):
        if isinstance(v, str):
            out.append({"crate": k, "kind": "version", "req": v, "feats": [], "raw": v})
        elif isinstance(v, dict):
            feats = v.get("features", [])
            if "path" in v:
                out.append({"crate": k, "kind": "path", "req": v["path"], "feats": feats, "raw": v,
                            "also_version": v.get("version")})
            elif "version" in v:
                out.append({"crate": k, "kind": "version", "req": v["version"], "feats": feats, "raw": v})
            else:
                out.append({"crate": k, "kind": "none", "req": "", "feats": feats, "raw": v})
        else:
            out.append({"crate": k, "kind": "none", "req": "", "feats": [], "raw": v})
    return out


# ---------------------------------------------------------------- crate roots referenced by generated Rust
_NOT_CRATES = {"crate", "self", "super", "std", "core", "alloc", "r", "i8", "i16", "i32", "i64", "i128", "isize", "u8", "u16",
               "u32", "u64", "u128", "usize", "f32", "f64", "str", "bool", "char",
               "clippy", "rustfmt"}   # tool-attribute namespaces


def strip_rust(text):
    """remove comments, string and char literals (keeps everything else byte for byte)"""
    out = []
    i, n = 0, len(text)
    while i < n:
        c = text[i]
        if text.startswith("//", i):
            j = text.find("\n", i)
            i = n if j < 0 else j
        elif text.startswith("/*", i):
            j = text.find("*/", i + 2)
            i = n if j < 0 else j + 2
        elif c == '"':
            j = i + 1
            while j < n and text[j] != '"':
                j += 2 if text[j] == "\\" else 1
            out.append('""')
            i = j + 1
        elif c == "'" and i + 2 < n and (text[i + 2] == "'" or (text[i + 1] == "\\" and "'" in text[i + 2:i + 6])):
            j = text.find("'", i + 2)
            out.append("' '")
            i = j + 1
        else:
            out.append(c)
            i += 1
    return "".join(out)


def _use_leaves(u):
    """names bound by `use <u>;` (aliases, last segments, members of brace groups)"""
    names = []
    for piece in re.split(r"[{},]", u):
        piece = piece.strip().rstrip(":").strip()
        if not piece or piece == "*":
            continue
        m = re.search(r"\bas\s+([A-Za-z_][A-Za-z0-9_]*)\s*$", piece)
        if m:
            names.append(m.group(1))
            continue
        segs = [x.strip() for x in piece.split("::") if x.strip()]
        if segs:
            names.append(segs[-1])
    return names


def crate_roots(text, local_mods=()):
    """External crate roots a Rust file refers to: the head of every `use` path and the head of every
    path expression `x::...`, minus language roots and primitive types, module names declared or known
    locally, names bound by a `use`, and capitalised identifiers (types)."""
    t = strip_rust(text)
    local = set(local_mods)
    for m in re.finditer(r"\bmod\s+([A-Za-z_][A-Za-z0-9_]*)\s*[;{]", t):
        local.add(m.group(1))
    roots, bound = set(), set()
    uses = re.findall(r"\buse\s+([^;]+);", t)
    for u in uses:
        u = u.strip()
        m = re.match(r"(?:::)?\s*(?:r#)?([A-Za-z_][A-Za-z0-9_]*)", u)
        if m:
            roots.add(m.group(1))
        bound.update(_use_leaves(u))
    body = re.sub(r"\buse\s+[^;]+;", " ", t)
    for m in re.finditer(r"(?<![A-Za-z0-9_:.])(?:r#)?([a-z_][a-z0-9_]*)\s*::", body):
        if m.group(1) not in bound:
            roots.add(m.group(1))
    return {r_ for r_ in roots if r_ not in _NOT_CRATES and r_ not in local and not r_[0].isupper()}


# ---------------------------------------------------------------- CLI runner
def stub_dir(ctx):
    d = os.path.join(ctx.work, "stubbin")
    os.makedirs(d, exist_ok=True)
    p = os.path.join(d, "cargo")
    with open(p, "w") as fh:
        fh.write('#!/bin/sh\n[ -n "$VERIF_CARGO_MARK" ] && echo "$@" >> "$VERIF_CARGO_MARK"\n'
                 'echo "verif cargo stub: not building" >&2\nexit 97\n')
    os.chmod(p, 0o755)
    return d


def cli_build(ctx, idx, entry, files, stub):
    d = os.path.join(ctx.work, "cli", str(idx))
    shutil.rmtree(d, ignore_errors=True)
    os.makedirs(d)
    for rel, text in files.items():
        p = os.path.join(d, rel)
        os.makedirs(os.path.dirname(p), exist_ok=True)
        with open(p, "w") as fh:
            fh.write(text)
    mark = os.path.join(d, "cargo_invoked")
    env = dict(os.environ, PATH=stub + ":" + os.environ.get("PATH", ""), CARGO_NET_OFFLINE="true",
               VERIF_CARGO_MARK=mark, NO_COLOR="1")
    try:
        p = subprocess.run([common.harness_bin("incan_cli"), "--color", "never", "build", entry, "out"], cwd=d, env=env,
                           stdout=subprocess.PIPE, stderr=subprocess.PIPE, timeout=120)
        rc, so, se = p.returncode, p.stdout.decode("utf-8", "replace"), p.stderr.decode("utf-8", "replace")
    except subprocess.TimeoutExpired:
        rc, so, se = "timeout", "", ""
    obs = {"rc": rc, "stdout": so[-1500:], "stderr": se[-3000:], "cargo_invoked": os.path.exists(mark), "rs": {}}
    ct = os.path.join(d, "out", "Cargo.toml")
    if os.path.exists(ct):
        obs["cargo_toml"] = open(ct).read()
    src = os.path.join(d, "out", "src")
    for root, _, fs in os.walk(src):
        for f in sorted(fs):
            full = os.path.join(root, f)
            obs["rs"][os.path.relpath(full, os.path.join(d, "out"))] = open(full).read()
    shutil.rmtree(d, ignore_errors=True)
    return obs


def par_replay(reqs, nproc=6, timeout=1800):
    """common.replay_batch semantics, over nproc replay processes (each chunk in its own process)."""
    common.build_harness()
    if len(reqs) < 4 * nproc:
        return common.replay_batch(reqs, timeout=timeout)
    chunks = [list(range(k, len(reqs), nproc)) for k in range(nproc)]

    def one(ix):
        inp = "".join(json.dumps(dict(reqs[i], id=i)) + "\n" for i in ix)
        p = subprocess.run([common.harness_bin("replay")], input=inp.encode(), stdout=subprocess.PIPE,
                           stderr=subprocess.PIPE, timeout=timeout)
        got = {}
        for line in p.stdout.decode("utf-8", "replace").splitlines():
            try:
                v = json.loads(line)
            except ValueError:
                continue
            if isinstance(v.get("id"), int):
                got[v["id"]] = v
        if p.returncode != 0 or len(got) != len(ix):
            # a request killed the process: redo this chunk with the crash-isolating runner
            outs = common.replay_batch([reqs[i] for i in ix], timeout=timeout)
            got = {i: o for i, o in zip(ix, outs)}
        return got

    out = [None] * len(reqs)
    with concurrent.futures.ThreadPoolExecutor(max_workers=nproc) as ex:
        for got in ex.map(one, chunks):
            for i, v in got.items():
                out[i] = v
    for i, v in enumerate(out):
        if v is None:
            raise ToolError(f"no answer for request {i}")
        if "tool_error" in v:
            raise ToolError(f"harness: {v['tool_error']}")
    return out


# ---------------------------------------------------------------- judging one generated project
def tagset(case):
    return sorted(f"{f}@{p}" for f, p in case["place"].items() if p != "none")


def judge(ctx, case, via, obs, entry, files, counters):
    """obs: {generated: bool, refused_text: str|None, cargo_invoked: bool|None, cargo_toml, rs, err, stage}"""
    payload = {"case": {k: case[k] for k in ("name", "layout", "place", "refused")}, "via": via, "entry": entry,
               "files": files, "observed": {k: obs.get(k) for k in ("generated", "refused_text", "cargo_invoked", "err", "stage", "cargo_toml")}}
    fails = []

    def fail(sig, what):
        fails.append(sig)
        n = counters["sig_count"].get(sig, 0) + 1
        counters["sig_count"][sig] = n
        if n <= 3 or any(f.get("property") == ctx.prop and common.sig_match(f, sig) for f in ctx.findings.get("findings", [])):
            ctx.fail(sig, dict(payload, what=what), what)      # at most 3 replay files per uncatalogued signature

    # ---- unknown crates: refusal
    if case["refused"]:
        crate = case["unknown"][0]
        uo = case["unknown_origin"]
        want = UNKNOWN_TEXT.format(crate)
        refused_ok = (not obs["generated"]) and obs.get("refused_text") and (
            want in obs["refused_text"] or (via == "inproc" and crate in obs["refused_text"]))
        if obs.get("cargo_invoked"):
            refused_ok = False
        if not refused_ok:
            if obs.get("stage") in ("check", "collect", "codegen", "panic"):
                fail(f"generation-failed:{obs.get('stage')}", f"{obs.get('err')}")
            else:
                fail(f"{uo}:unknown-crate-not-refused", f"`{crate}` has no known-good version but project preparation went on "
                     f"(cargo invoked: {obs.get('cargo_invoked')})")
        if obs.get("cargo_toml"):
            try:
                for d in deps_of(parse_manifest(obs["cargo_toml"])):
                    if d["crate"] == crate and d["req"] == "*":
                        fail(f"{uo}:unknown-crate-wildcard", f"`{crate} = \"*\"` written to Cargo.toml")
            except TomlError:
                pass
        counters["refusal_cases"] += 1
        return fails

    if not obs["generated"]:
        fail(f"generation-failed:{obs.get('stage')}", f"{obs.get('err')}")
        return fails
    # ---- manifest
    try:
        man = parse_manifest(obs["cargo_toml"])
    except TomlError as e:
        fail("manifest-unparsable", str(e))
        return fails
    pk = dict((k, v) for k, v, _ in man["sections"].get("package", []))
    bn = dict((k, v) for k, v, _ in man["sections"].get("bin", []))
    if pk.get("name") != case["name"]:
        fail("package-name", f"[package] name = {pk.get('name')!r}, expected {case['name']!r}")
    if bn.get("name") != case["name"] or bn.get("path") != "src/main.rs":
        fail("bin-name", f"[[bin]] = {bn!r}, expected name {case['name']!r} path src/main.rs")
    if not pk.get("version") or pk.get("edition") != "2021":
        fail("package-fields", f"[package] = {pk!r}")
    for sec, key in man["dup"]:
        fail(f"duplicate-dep:{key}" if sec == "dependencies" else f"duplicate-key:{sec}.{key}", "duplicate TOML key")
    declared = deps_of(man)
    dmap = {}
    for d in declared:
        dmap.setdefault(d["crate"], d)
    expected = {d["crate"]: d for d in case["deps"]}
    origin = case["origin"]
    for c, e in sorted(expected.items()):
        d = dmap.get(c)
        if d is None:
            fail(f"{origin[c]}:missing-dep:{c}", f"`{c}` is needed ({origin[c]}) but not declared")
            continue
        if d["kind"] == "none" or (d["kind"] == "version" and d["req"] in ("*", "")):
            fail(f"unpinned:{c}", f"`{c}` declared without a pinned version: {d['raw']!r}")
            continue
        if e["kind"] == "path":
            want = os.path.join(common.REPO, e["req"])
            if d["kind"] != "path" or os.path.normpath(d["req"]) != os.path.normpath(want):
                fail(f"dep-spec:{c}:path", f"{d['raw']!r}, expected path {want}")
        else:
            if d["kind"] != "version" or d["req"] != e["req"]:
                fail(f"dep-spec:{c}:version", f"{d['raw']!r}, expected version {e['req']!r}")
        for ft in sorted(set(e["feats"]) - set(d["feats"])):
            if c == "incan_stdlib":
                o = case["json_origin"] if ft == "json" else case["web_origin"]
                fail(f"{o}:missing-stdlib-feature:{ft}", f"incan_stdlib feature `{ft}` needed ({o}) but not enabled")
            elif c == "tokio" and ft == "net":
                fail(f"{case['web_origin']}:missing-dep-feature:tokio:net", "web needs tokio's `net` feature")
            else:
                fail(f"{origin[c]}:missing-dep-feature:{c}:{ft}", f"`{c}` lacks feature `{ft}`")
        for ft in sorted(set(d["feats"]) - set(e["feats"])):
            fail(f"extra-dep-feature:{c}:{ft}", f"`{c}` has unexpected feature `{ft}`")
    for d in declared:
        if d["crate"] not in expected:
            if d["kind"] == "none" or (d["kind"] == "version" and d["req"] in ("*", "")):
                fail(f"unpinned:{d['crate']}", f"`{d['crate']}` declared without a pinned version")
            fail(f"extra-dep:{d['crate']}", f"`{d['crate']}` declared but nothing in the program needs it")
    # ---- references
    mods = [os.path.splitext(os.path.basename(p))[0] for p in obs["rs"]] + ["pkg", "util", "helper"]
    refs = {}
    for rel, text in obs["rs"].items():
        refs[rel] = crate_roots(text, mods)
    allrefs = set().union(*refs.values()) if refs else set()
    for c in sorted(allrefs - set(dmap)):
        if c not in expected:
            fail(f"undeclared-reference:{c}", f"generated Rust refers to crate `{c}` which is neither declared nor expected")
    main_refs = refs.get("src/main.rs", set())
    mod_refs = set().union(*[v for k, v in refs.items() if k != "src/main.rs" and not k.endswith("mod.rs")]) if len(refs) > 1 else set()
    if main_refs != set(case["refs_main"]) or mod_refs != set(case["refs_mod"]):
        counters["refs_differ_from_model"] += 1
        if len(counters["refs_examples"]) < 5:
            counters["refs_examples"].append({"tags": tagset(case), "main": sorted(main_refs), "model_main": case["refs_main"],
                                              "mod": sorted(mod_refs), "model_mod": case["refs_mod"]})
    counters["manifests"][obs["cargo_toml"]] = case["name"]
    return fails


def obs_from_inproc(o):
    ob = o.get("obs", {})
    if "panic" in ob:
        return {"generated": False, "stage": "panic", "err": ob.get("panic"), "refused_text": None, "cargo_invoked": None,
                "cargo_toml": ob.get("cargo_toml"), "rs": ob.get("rs", {})}
    return {"generated": bool(ob.get("ok")), "stage": ob.get("stage"), "err": ob.get("err"),
            "refused_text": ob.get("err") if ob.get("stage") == "refused" else None, "cargo_invoked": None,
            "cargo_toml": ob.get("cargo_toml"), "rs": ob.get("rs", {}), "info": ob.get("info")}


def obs_from_cli(o):
    gen = "Generated Rust project in:" in o["stdout"]
    refused = None
    stage = None
    if not gen:
        if "unknown Rust crate" in o["stderr"]:
            refused = o["stderr"]
            stage = "refused"
        elif "Code generation error" in o["stderr"]:
            stage = "codegen"
        elif "error" in o["stderr"].lower():
            stage = "check"
        else:
            stage = "other"
    return {"generated": gen, "stage": stage, "err": o["stderr"][-600:], "refused_text": refused,
            "cargo_invoked": o["cargo_invoked"], "cargo_toml": o.get("cargo_toml"), "rs": o["rs"], "rc": o["rc"]}


def cargo_metadata_check(ctx, manifests, counters):
    """independent validity oracle: real cargo parses each DISTINCT manifest (no resolution, no network)."""
    base = os.path.join(ctx.work, "meta")
    shutil.rmtree(base, ignore_errors=True)

    def one(i_text):
        i, text = i_text
        d = os.path.join(base, str(i))
        os.makedirs(os.path.join(d, "src"))
        open(os.path.join(d, "Cargo.toml"), "w").write(text)
        open(os.path.join(d, "src", "main.rs"), "w").write("fn main() {}\n")
        p = subprocess.run(["cargo", "metadata", "--no-deps", "--offline", "--format-version", "1"], cwd=d,
                           env=dict(os.environ, CARGO_NET_OFFLINE="true"), stdout=subprocess.PIPE, stderr=subprocess.PIPE, timeout=120)
        return i, text, p.returncode, p.stdout.decode("utf-8", "replace"), p.stderr.decode("utf-8", "replace")

    items = list(enumerate(manifests))
    with concurrent.futures.ThreadPoolExecutor(max_workers=8) as ex:
        for i, text, rc, so, se in ex.map(one, items):
            counters["cargo_metadata_runs"] += 1
            if rc != 0:
                ctx.fail("manifest-invalid-for-cargo", {"cargo_toml": text, "stderr": se[-1500:]}, "cargo metadata rejects the manifest")
                continue
            pkg = json.loads(so)["packages"][0]
            mine = deps_of(parse_manifest(text))
            theirs = {d["name"]: d for d in pkg["dependencies"]}
            if set(theirs) != {d["crate"] for d in mine}:
                raise ToolError(f"TOML-subset parser and cargo disagree on dependency names: {sorted(theirs)} vs {mine}")
            for d in mine:
                t = theirs[d["crate"]]
                if sorted(t["features"]) != sorted(d["feats"]):
                    raise ToolError(f"TOML-subset parser and cargo disagree on features of {d['crate']}")
                if d["kind"] == "path" and os.path.normpath(t.get("path") or "") != os.path.normpath(d["req"]):
                    raise ToolError(f"TOML-subset parser and cargo disagree on the path of {d['crate']}")
                if d["kind"] == "version" and t["req"].lstrip("^") != d["req"]:
                    raise ToolError(f"TOML-subset parser and cargo disagree on the version of {d['crate']}: {t['req']} vs {d['req']}")
            my_pk = dict((k, v) for k, v, _ in parse_manifest(text)["sections"].get("package", []))
            bins = [t["name"] for t in pkg["targets"] if "bin" in t["kind"]]
            if pkg["name"] != my_pk.get("name") or bins != [my_pk.get("name")]:
                ctx.fail("cargo-sees-other-names", {"cargo_toml": text, "package": pkg["name"], "bins": bins})
    shutil.rmtree(base, ignore_errors=True)


# ---------------------------------------------------------------- run
def run(ctx):
    common.build_harness()          # cli_build calls the harness CLI directly
    cfg = "MC_Manifest_quick" if ctx.quick else "MC_Manifest"
    with ctx.timed("tlc"):
        res = common.tlc(ctx, "MC_Manifest", cfg=cfg, workers=8, timeout=1500, quiet=True)
    common.require_tlc_ok(ctx, res, "Manifest (demanded variant)")
    cases = res["cases"]["CASE"]
    if not cases:
        raise ToolError("TLC printed no CASE lines")
    if any(c["model_violated"] for c in cases):
        raise ToolError("the demanded variant of Manifest.tla violates its own invariants")
    with ctx.timed("tlc_aswritten"):
        aw = common.tlc(ctx, "MC_Manifest", cfg="MC_Manifest_aswritten", workers=8, timeout=900, quiet=True)
    common.require_tlc_ok(ctx, aw, "Manifest (as-written variant, enumeration)")
    aw_cases = aw["cases"]["CASE"]
    aw_viol = {}
    for c in aw_cases:
        for v in c["model_violated"]:
            aw_viol[v] = aw_viol.get(v, 0) + 1
    if not aw_viol.get("RefusedIffUnknown") or not aw_viol.get("DeclaredIsNeeded") or not aw_viol.get("Pinned"):
        raise ToolError(f"the as-written variant does not violate the invariants it should (non-vacuity): {aw_viol}")
    aw_declared = {json.dumps([c["name"], c["layout"], c["place"]], sort_keys=True): sorted(c["model_declared"]) for c in aw_cases}

    counters = {"sig_count": {}, "refusal_cases": 0, "refs_differ_from_model": 0, "refs_examples": [], "manifests": {}, "cargo_metadata_runs": 0}
    rendered = [render(c) for c in cases]

    # ---- calibration: prepare_project is private, the replica exists in two variants (entry-module-only scan as
    # written / scanning dependency modules as after the proposed repair); use the one the real CLI agrees with
    stub = stub_dir(ctx)
    probe_case = {"name": "main", "layout": "flat", "place": {f: ("mod" if f == "json" else "none") for f in FEATS}}
    pe, pf = render(probe_case)
    pcli = cli_build(ctx, "probe", pe, pf, stub)
    pd = os.path.join(ctx.work, "probe_inproc")
    pouts = common.replay_batch([{"op": "gen_project", "dir": pd, "files": pf, "entry": pe, "out": os.path.join(pd, "out"),
                                  "scan_deps": v} for v in (False, True)])
    shutil.rmtree(pd, ignore_errors=True)
    match = [v for v, o in zip((False, True), pouts) if o.get("obs", {}).get("cargo_toml") == pcli.get("cargo_toml")]
    scan_deps = match[0] if match else False
    ctx.stats["replica_variant"] = "scan_dependency_modules" if scan_deps else "entry_module_only (as written)"

    # ---- (a) in process, every case
    base = os.path.join(ctx.work, "inproc")
    shutil.rmtree(base, ignore_errors=True)
    reqs = []
    for i, (c, (entry, files)) in enumerate(zip(cases, rendered)):
        reqs.append({"op": "gen_project", "dir": os.path.join(base, str(i)), "files": files, "entry": entry,
                     "out": os.path.join(base, str(i), "out"), "scan_deps": scan_deps})
    with ctx.timed("replay_inproc"):
        outs = par_replay(reqs)
    shutil.rmtree(base, ignore_errors=True)
    n_fail_cases = 0
    aw_agree = 0
    aw_comparable = 0
    inproc_obs = []
    for c, (entry, files), o in zip(cases, rendered, outs):
        if "crash" in o:
            ctx.fail("harness-crash", {"case": c, "out": o})
            inproc_obs.append(None)
            continue
        ob = obs_from_inproc(o)
        inproc_obs.append(ob)
        f = judge(ctx, c, "inproc", ob, entry, files, counters)
        n_fail_cases += 1 if f else 0
        if ob.get("cargo_toml"):
            try:
                got = sorted(d["crate"] for d in deps_of(parse_manifest(ob["cargo_toml"])))
                key = json.dumps([c["name"], c["layout"], c["place"]], sort_keys=True)
                if key in aw_declared:
                    aw_comparable += 1
                    if aw_declared[key] == got:
                        aw_agree += 1
            except TomlError:
                pass

    # ---- (b) the real CLI with a stub cargo: all cases (thorough) / isolation + pairs + seeded sample (quick)
    rnd = common.rng(ctx, "c15")
    idxs = list(range(len(cases)))
    if ctx.quick:
        small = [i for i in idxs if sum(1 for p in cases[i]["place"].values() if p != "none") <= 2]
        big = [i for i in idxs if i not in set(small)]
        idxs = small + rnd.sample(big, min(len(big), 250))
    shutil.rmtree(os.path.join(ctx.work, "cli"), ignore_errors=True)
    with ctx.timed("cli_build_stub_cargo"):
        with concurrent.futures.ThreadPoolExecutor(max_workers=8) as ex:
            cli_outs = list(ex.map(lambda i: cli_build(ctx, i, rendered[i][0], rendered[i][1], stub), idxs))
    shutil.rmtree(os.path.join(ctx.work, "cli"), ignore_errors=True)
    disagree = 0
    for i, o in zip(idxs, cli_outs):
        if o["rc"] == "timeout":
            raise ToolError("incan_cli build timed out")
        ob = obs_from_cli(o)
        if ob["generated"] and not ob["cargo_invoked"]:
            raise ToolError("CLI printed 'Generated Rust project' but the stub cargo was not invoked (PATH problem)")
        judge(ctx, cases[i], "cli", ob, rendered[i][0], rendered[i][1], counters)
        ip = inproc_obs[i]
        if ip is not None and (ip.get("cargo_toml") != ob.get("cargo_toml") or ip.get("rs") != ob.get("rs")):
            # only the order of hash-ordered dependency lines may differ (that is C12's finding)
            def norm(t):
                return sorted((t or "").splitlines())
            if norm(ip.get("cargo_toml")) != norm(ob.get("cargo_toml")) or ip.get("rs") != ob.get("rs"):
                disagree += 1
                ctx.fail("replica-differs-from-cli", {"case": cases[i], "inproc": ip.get("cargo_toml"), "cli": ob.get("cargo_toml"),
                                                      "rs_equal": ip.get("rs") == ob.get("rs")},
                         "the in-process call sequence and `incan build` produce different projects")

    # ---- (c) real cargo validates every distinct manifest
    with ctx.timed("cargo_metadata"):
        distinct = sorted(counters["manifests"].keys())
        if ctx.quick and len(distinct) > 40:
            distinct = rnd.sample(distinct, 40)
        cargo_metadata_check(ctx, distinct, counters)

    # ---- optional e2e: build a few projects whose crates are in the offline cache (thorough only)
    e2e = {}
    if not ctx.quick:
        with ctx.timed("e2e_offline_build"):
            e2e = e2e_sample(ctx, cases, rendered)

    nontrivial = {json.dumps([c["layout"], c["place"], c["name"]], sort_keys=True) for c in cases
                  if any(p != "none" for p in c["place"].values())}
    k = len(cases) // 3
    ctx.sample({"tlc_case": {x: cases[k][x] for x in ("name", "layout", "place", "refused", "deps")},
                "rendered_files": rendered[k][1], "generated_cargo_toml": (inproc_obs[k] or {}).get("cargo_toml")})
    ctx.stats["aswritten_model_violations"] = aw_viol
    common.write_evidence(ctx, "model_checking", {
        "states": res["distinct"] + aw["distinct"],
        "transitions": res["states"] + aw["states"],
        "traces_validated_against_impl": len(cases) + len(idxs),
        "evaluations": len(cases) + len(idxs),
        "distinct_nontrivial": len(nontrivial),
        "rule": "every TLC CASE = placement of the 11 feature constructs (absent / entry file / only in an imported module; all "
                "uniform subsets, mixed placements up to MaxMixed features) x project name x module layout (flat, nested); "
                "non-trivial = at least one feature construct present; distinct by (placement, name, layout)",
        "binding": "B1: each TLC case is one behaviour of Manifest.tla replayed in the real code (in process and through the CLI) and "
                   "compared with the model's final state; traces_validated_against_impl counts these replays (there is no separate "
                   "trace spec for C15)",
        "programs_in_process": len(cases),
        "programs_through_cli": len(idxs),
        "cases_with_failures_in_process": n_fail_cases,
        "failure_signature_counts": counters["sig_count"],
        "refusal_cases": counters["refusal_cases"],
        "distinct_manifests_validated_by_cargo_metadata": counters["cargo_metadata_runs"],
        "replica_vs_cli_disagreements": disagree,
        "refs_differ_from_model": counters["refs_differ_from_model"],
        "refs_differ_examples": counters["refs_examples"],
        "aswritten_model_predicts_tree_declared_set": f"{aw_agree}/{aw_comparable} programs (those within the as-written configuration's bounds)",
        "e2e_offline_builds": e2e,
        "exhaustive": True,
    }, assumptions=[
        "a program is abstracted to the placement of 11 feature constructs; each construct has one concrete rendering",
        "the stub `cargo` on PATH stands in for cargo: project files are those the real `incan build` writes before it shells out",
        "crate roots are extracted from generated Rust by a lexical scan (comments/strings stripped, use-bound names excluded)",
        "known-good table and fixed dependency specs are transcribed into Manifest.tla from src/backend/project.rs",
    ])


def e2e_sample(ctx, cases, rendered):
    """build (real cargo, offline) a few generated projects whose crates are in the cargo cache"""
    want = [
        ("serde-main", lambda c: c["place"]["dser"] == "main" and c["place"]["json"] == "main" and sum(p != "none" for p in c["place"].values()) == 2),
        ("plain", lambda c: all(p == "none" for p in c["place"].values()) and c["name"] == "my_app"),
    ]
    out = {}
    base = os.path.join(ctx.work, "e2e")
    for tag, pred in want:
        i = next((j for j, c in enumerate(cases) if pred(c) and c["layout"] == "flat"), None)
        if i is None:
            continue
        d = os.path.join(base, tag)
        shutil.rmtree(d, ignore_errors=True)
        os.makedirs(d)
        for rel, text in rendered[i][1].items():
            os.makedirs(os.path.dirname(os.path.join(d, rel)), exist_ok=True)
            open(os.path.join(d, rel), "w").write(text)
        env = dict(os.environ, CARGO_NET_OFFLINE="true", CARGO_TARGET_DIR=os.path.join(base, "target"))
        p = subprocess.run([common.harness_bin("incan_cli"), "build", rendered[i][0], "out"], cwd=d, env=env,
                           stdout=subprocess.PIPE, stderr=subprocess.PIPE, timeout=900)
        ok = p.returncode == 0
        out[tag] = "built" if ok else "failed"
        if not ok:
            se = p.stderr.decode("utf-8", "replace")
            if "no matching package" in se or "offline" in se or "failed to get" in se or "Blocking waiting" in se:
                out[tag] = "skipped (crate not available offline)"
            else:
                ctx.fail(f"e2e-build-failed:{tag}", {"files": rendered[i][1], "stderr": se[-3000:]},
                         "a generated project whose dependencies are cached does not build")
        shutil.rmtree(d, ignore_errors=True)
    return out


def replay(ctx, path):
    rec = json.load(open(path))
    case = rec["case"]
    entry, files = case.get("entry"), case.get("files")
    if not files:
        print(json.dumps(case, indent=1)[:4000])
        return
    common.build_harness()
    d = os.path.join(ctx.work, "replay_run")
    shutil.rmtree(d, ignore_errors=True)
    o = common.replay_batch([{"op": "gen_project", "dir": d, "files": files, "entry": entry, "out": os.path.join(d, "out")}])[0]
    c = cli_build(ctx, "replay", entry, files, stub_dir(ctx))
    shutil.rmtree(d, ignore_errors=True)
    print("signature:", rec.get("signature"), "--", rec.get("what"))
    print("files:", json.dumps(files, indent=1))
    print("in-process Cargo.toml:\n", o.get("obs", {}).get("cargo_toml"))
    print("in-process result:", {k: o.get("obs", {}).get(k) for k in ("ok", "stage", "err")})
    print("CLI: rc", c["rc"], "cargo invoked:", c["cargo_invoked"], "\nstderr:", c["stderr"][:800], "\nCargo.toml:\n", c.get("cargo_toml"))
    for rel, t in c["rs"].items():
        print("--", rel, "crate roots:", sorted(crate_roots(t, ["pkg", "util", "helper"])))
