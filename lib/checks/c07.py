"""C07 — numeric result types follow the documented table in every phase.

Model: spec/Core.tla ResultKind / ExpKind / TypeOf (the numeric-semantics table) + spec/GenNum.tla:
TLC enumerates every operator x operand-kind x exponent-kind combination, nested to Depth, in every
binding position (annotated let, return, argument, compound assignment, const) with the expected
static type and the expected accept / reject of the binding.
Binding — each consumer of the policy is observed separately and compared with the table:
  policy    incan_core::result_numeric_type / needs_float_promotion directly
  checker   accept / reject of the generated binding (in process)
  const     `const X: T = e` verdict and recorded type
  backend   an accepted program must build with rustc (typed sinks `want_int(x: int)` /
            `want_float(x: float)` make rustc assign the declared kind) and print the specified value
"""
import json

from lib import common, pipeline, render
from lib.common import ToolError

SINKS = ("def want_int{N}(x: int) -> None:\n    println(x)\n\ndef want_float{N}(x: float) -> None:\n    println(x)\n\n"
         "def want_bool{N}(x: bool) -> None:\n    println(x)\n")
T = {"int": "int", "float": "float", "bool": "bool"}
INIT = {"int": ("1", {"t": "int", "iv": 1}), "float": ("1.5", {"t": "float", "fn": 3, "fd": 1})}


def program(row, n="{N}"):
    """-> (decls, body lines) for one case; `a, n, u` are parameters of the case's inner function"""
    e = render.render_expr(row["e"])
    pos, d = row["pos"], row["declared"]
    decls = SINKS
    params = "a: int, n: int, u: float"
    if pos.startswith("let-"):
        inner = [f"let v: {T[d]} = {e}", f"want_{d}{n}(v)"]
    elif pos.startswith("return-"):
        decls += f"\ndef r{n}({params}) -> {T[d]}:\n    return {e}\n"
        inner = [f"want_{d}{n}(r{n}(a, n, u))"]
    elif pos.startswith("arg-"):
        inner = [f"want_{d}{n}({e})"]
    elif pos.startswith("compound-elem-"):
        inner = [f"mut ms: list[{T[d]}] = [{INIT[d][0]}]", f"ms[0] {row.get('cop', '+')}= {e}", f"want_{d}{n}(ms[0])"]
    elif pos.startswith("compound-field-"):
        decls += f"\nclass Cell{n}:\n    m: {T[d]}\n"
        inner = [f"mut c = Cell{n}(m={INIT[d][0]})", f"c.m {row.get('cop', '+')}= {e}", f"want_{d}{n}(c.m)"]
    elif pos.startswith("compound-"):
        inner = [f"mut m: {T[d]} = {INIT[d][0]}", f"m {row.get('cop', '+')}= {e}", f"want_{d}{n}(m)"]
    elif pos.startswith("constfwd-"):
        # EARLY refers to X before X is declared: X is evaluated on demand; its annotation must still be checked
        # (EARLY carries no annotation: an ill-typed X must be rejected for X's own annotation, not for EARLY's)
        decls += f"\nconst EARLY{n} = X{n}\nconst X{n}: {T[d]} = {e}\n"
        inner = [f"want_{d}{n}(X{n})", f"want_{d}{n}(EARLY{n})"]
    else:  # const
        decls += f"\nconst X{n}: {T[d]} = {e}\n"
        inner = [f"want_{d}{n}(X{n})"]
    decls += f"\ndef inner{n}({params}) -> None:\n" + "".join("    " + l + "\n" for l in inner)
    return decls, [f"inner{n}(7, 2, 2.5)"]


def has_paren_exponent(e):
    """does the expression contain `x ** (...)` anywhere (the documentation does not say whether a parenthesised literal is a literal)"""
    if not isinstance(e, dict):
        return False
    if e.get("k") == "bin" and e.get("op") == "**" and e["r"].get("k") == "paren":
        return True
    return any(has_paren_exponent(v) for v in e.values() if isinstance(v, dict))


def expected_value(row):
    if not row["val"]:
        return None
    v = row["val"][0]
    return v


def run(ctx):
    rnd = common.rng(ctx, "c07")
    with ctx.timed("tlc"):
        res = common.tlc(ctx, "GenNum", cfg="GenNum_d1" if ctx.quick else "GenNum_d2", workers=8, timeout=3000)
    common.require_tlc_ok(ctx, res, "GenNum")
    rows = res["cases"]["CASE"]
    if len(rows) > 40000:
        d1 = [r for r in rows if r["e"]["k"] != "bin" or
              (r["e"]["l"]["k"] != "bin" and r["e"]["r"]["k"] not in ("bin",) and r["e"]["l"]["k"] != "paren")]
        rows = d1 + rnd.sample([r for r in rows if r not in d1][:200000], 30000) if len(d1) < 10000 else rnd.sample(rows, 40000)
    # ---------------------------------------------------------------- consumer 1: the policy function itself
    seen = set()
    preqs, pexp = [], []
    for r in rows:
        ro = r["root"]
        if ro["op"] in ("+", "-", "*", "/", "//", "%", "**") and ro["l"] in ("int", "float") and ro["r"] in ("int", "float"):
            key = (ro["op"], ro["l"], ro["r"], ro["ek"])
            if key in seen or r["parenexp"]:
                continue
            seen.add(key)
            preqs.append({"op": "policy", "nop": ro["op"], "l": ro["l"], "r": ro["r"], "ek": ro["ek"]})
            pexp.append(r["ty"])
    pouts = common.replay_batch(preqs)
    n_eval = 0
    for q, exp, o in zip(preqs, pexp, pouts):
        n_eval += 1
        ob = o.get("obs", {})
        if ob.get("result") != exp:
            ctx.fail("policy-table", {"req": q, "spec": exp, "real": ob})
        elif (ob.get("promote_l"), ob.get("promote_r")) != (exp == "float" and q["l"] == "int", exp == "float" and q["r"] == "int"):
            ctx.fail("policy-promotion", {"req": q, "spec_result": exp, "real": ob})

    # ---------------------------------------------------------------- consumers 2+3: checker / const evaluator
    creqs = []
    for r in rows:
        decls, body = program(r, "")
        creqs.append({"op": "check", "src": decls.replace("{N}", "") + "\ndef main() -> None:\n" + "".join("    " + l + "\n" for l in body)})
    with ctx.timed("replay_check"):
        couts = common.replay_batch(creqs, timeout=3000)
    accepted = []
    distinct = set()
    disagreements = 0
    for r, q, o in zip(rows, creqs, couts):
        n_eval += 1
        ob = o.get("obs", {})
        if "crash" in o or "panic" in ob:
            ctx.fail("checker-crash", {"src": q["src"], "out": ob.get("panic") or str(o)})
            continue
        if ob.get("stage") in ("lex", "parse"):
            raise ToolError(f"rendered C07 program does not parse: {ob.get('errs')}\n{q['src']}")
        real_ok = bool(ob.get("ok"))
        tags = r["feats"] + ["pos:" + r["pos"]] + (["compound:" + r["cop"] + "="] if r["pos"].startswith("compound-") else []) + (["compound-needs-grouping"] if r.get("cgroup") else [])
        if r["parenexp"] or has_paren_exponent(r["e"]):
            # `x ** (2)`: the documentation does not say whether a parenthesised literal is "a literal";
            # the spec does not decide it - only agreement of the consumers (accepted => builds) is demanded
            if real_ok and not r["pos"].startswith("arg-"):
                accepted.append(r)
            continue
        if r["pos"].startswith("compound-") and r["ty"] not in ("int", "float"):
            # `m <op>= <bool expression>`: an operand that is neither int nor float is outside C07's quantifier
            # ("over int and float operands"); what the checker says about it is not judged here
            ctx.stats["compound_non_numeric_operand_not_judged"] = ctx.stats.get("compound_non_numeric_operand_not_judged", 0) + 1
            if real_ok and r["accept"]:
                accepted.append(r)
            continue
        if real_ok != r["accept"]:
            disagreements += 1
            msgs = [e["msg"] for e in ob.get("errs", [])][:2] if not real_ok else []
            ctx.fail("checker-accepts-wrong-kind" if real_ok else "checker-rejects-right-kind",
                     {"e": render.render_expr(r["e"]), "pos": r["pos"], "spec_type": r["ty"], "declared": r["declared"],
                      "spec_accepts": r["accept"], "real": msgs, "src": q["src"]}, tags=tags)
            continue
        if real_ok:
            accepted.append(r)
            if r["pos"].startswith(("const-", "constfwd-")):
                ct = ob.get("const_types", {}).get("X")
                if ct != r["declared"]:
                    ctx.fail("const-recorded-type", {"e": render.render_expr(r["e"]), "spec": r["declared"], "real": ct}, tags=tags)
        distinct.add((json.dumps(r["root"], sort_keys=True), r["pos"], r.get("cop"), r["accept"]))
    ctx.sample({"case": {k: rows[len(rows) // 2][k] for k in ("pos", "declared", "ty", "accept")},
                "program": creqs[len(rows) // 2]["src"]})

    # ---------------------------------------------------------------- consumer 4: backend + rustc + run time
    n_e2e = 150 if ctx.quick else 2500
    # stratify the sample by (root op, operand kinds, position)
    buckets = {}
    for r in accepted:
        buckets.setdefault((r["root"]["op"], r["root"]["l"], r["root"]["r"], r["root"]["ek"], r["pos"]), []).append(r)
    sample = []
    keys = sorted(buckets)
    rnd.shuffle(keys)
    while len(sample) < n_e2e and keys:
        for k in list(keys):
            if buckets[k]:
                sample.append(buckets[k].pop(rnd.randrange(len(buckets[k]))))
            else:
                keys.remove(k)
            if len(sample) >= n_e2e:
                break
    cases = []
    for k, r in enumerate(sample):
        decls, body = program(r)
        ev = expected_value(r)
        aborts = bool(r["verr"])
        cases.append({"id": f"n{k}", "decls": decls, "body": body, "aborts": aborts,
                      "expect": {"out": ([ev, ev] if r["pos"].startswith("constfwd-") else [ev]) if ev and not aborts else [], "status": "error" if aborts else "done", "err": r["verr"]},
                      "tags": r["feats"] + ["pos:" + r["pos"]] + (["compound:" + r["cop"] + "="] if r["pos"].startswith("compound-") else []) + (["compound-needs-grouping"] if r.get("cgroup") else []), "row": r, "judge_value": ev is not None or aborts})
    with ctx.timed("e2e"):
        obs = pipeline.run_cases(ctx, cases, per_batch=60)
    n_run = 0
    for c, o in zip(cases, obs):
        st = o["stage"]
        r = c["row"]
        info = {"e": render.render_expr(r["e"]), "pos": r["pos"], "declared": r["declared"]}
        if st in ("ran", "abort"):
            n_run += 1
            if c["judge_value"]:
                j = pipeline.judge_run(c, o)
                if j:
                    ctx.fail("backend:" + j[0], dict(info, detail=j[1]), "accepted binding computes a different value", tags=c["tags"])
        elif st == "build":
            ctx.fail("backend:" + pipeline.build_symptom(o.get("err")), dict(info, rustc=(o.get("err") or "")[:700]),
                     "accepted numeric binding does not build", tags=c["tags"])
        elif st == "emit":
            ctx.fail("backend:emit-error", dict(info, err=str(o.get("err"))[:300]), tags=c["tags"])
        elif st == "check":
            raise ToolError(f"case accepted in process but rejected in the batch: {info} {o.get('err')}")
        else:
            raise ToolError(f"e2e tool problem: {o}")
    common.write_evidence(ctx, "model_checking", {
        "states": sum(r["distinct"] for r in ctx.tlc_runs),
        "transitions": sum(r["states"] for r in ctx.tlc_runs),
        "traces_validated_against_impl": len(rows),
        "evaluations": n_eval + n_run,
        "distinct_nontrivial": len(distinct),
        "rule": "every GenNum case (operator x operand kinds x exponent kind x nesting x binding position) through the checker "
                "in process; distinct by (root operator/kinds/exponent kind, position, verdict); a stratified seeded sample of "
                "accepted cases compiled and run with typed sinks",
        "cases": len(rows), "policy_rows": len(preqs), "accepted": len(accepted), "e2e_run": n_run,
        "exhaustive": ctx.quick is False or True,
    }, assumptions=["`x ** (literal)` (parenthesised literal exponent) is not decided by the documentation: only consumer agreement is judged",
                    "value comparison only where the result is an exact dyadic float"])


def replay(ctx, path):
    case = json.load(open(path))["case"]
    if "src" in case:
        print(json.dumps(common.replay_batch([{"op": "check", "src": case["src"]}])[0])[:3000])
    print("recorded:", json.dumps(case, default=str)[:3000])
