"""C12 — compilation is deterministic.

Model: spec/Determinism.tla — the pipeline as a state machine in which every unordered collection
(HashMap/HashSet iteration, fs::read_dir) yields its elements in a nondeterministically drawn order;
every output component is tagged with its order source (declaration / hash / readdir) and whether
the site sorts. TLC explores all draws: the as-written configuration NAMES the components at risk
(and must violate OutputIndependentOfDraws), the repaired configuration satisfies it.

Binding (B2 only): programs with several `rust::` imports, traits/models, nested multi-file imports,
multi-diagnostic type errors, a directory for `incan fmt`, and the repository's own examples are
each compiled K times in FRESH processes (fresh RandomState), each in its own working directory with
a perturbed environment, through the real CLI (`--check`, `--emit-rust`, `fmt --diff`, `build` with a
stub cargo) and through the in-process project generation in a fresh `replay` process. Recorded:
hash of every output (files, stdout, stderr, exit code) and the order of dependency lines, `mod`
lines, `use` lines, diagnostics, formatted files. TLC validates the recording against
spec/DeterminismTrace.tla (equal to the first observation AND orders = the ones the spec derives).

Detection of an unordered iteration by repetition is probabilistic in K: a two-way order dependence
is missed with probability 2^-(K-1) (quick K = 6: 3 %, thorough K = 16: 0.003 %).
"""
import concurrent.futures
import hashlib
import json
import os
import re
import shutil
import subprocess

from lib import common
from lib.common import ToolError
from lib.checks.c15 import stub_dir, parse_manifest, deps_of, TomlError

FIXED_DEPS = ["incan_stdlib", "incan_derive", "serde", "serde_json", "axum", "tokio"]

# ---------------------------------------------------------------- programs
P_RUSTDEPS = {
    "main.incn": """import rust::rand
import rust::regex
from rust::anyhow import Result as AnyResult
import rust::log
from rust::bytes import Bytes
from rust::itertools import Itertools
import rust::std::fs

@derive(Serialize, Deserialize)
model User:
  name: str
  age: int

def main() -> None:
  u = User(name="a", age=3)
  print(json_stringify(u))
"""}

P_TRAITS = {
    "main.incn": """const PREFIX: str = "id-"
const FULL: str = PREFIX + "x"
const LIMIT: int = 3 * 7

trait Shape:
  def area(self) -> float: ...
  def name(self) -> str:
    return "shape"

trait Named:
  def label(self) -> str: ...

enum Color:
  Red
  Green
  Custom(int, int, int)

@derive(Eq, Hash, Ord)
model Point:
  x: int = 0
  y: int = 0

model Square with Shape, Named:
  side: float
  tag: str = "sq"

  def area(self) -> float:
    return self.side * self.side

  def label(self) -> str:
    return self.tag

class Counter:
  count: int = 0
  step: int = 1

  def bump(mut self) -> None:
    self.count += self.step

def describe(c: Color) -> str:
  match c:
    case Color.Red:
      return "red"
    case Color.Green:
      return "green"
    case Color.Custom(r, g, b):
      return f"{r},{g},{b}"

def main() -> None:
  p = Point(x=1)
  s = Square(side=2.0)
  mut c = Counter()
  c.bump()
  d = {"a": 1, "b": 2}
  t = {1, 2, 3}
  print(describe(Color.Custom(1, 2, 3)))
  print(s.area())
  print(s.label())
  print(p.x + c.count + LIMIT)
  print(FULL)
"""}

P_NESTED = {
    "main.incn": """from db::models import User, Product
from db::repo import find_user
from api::handlers import handle
from shared::utils import shout
from zeta import last
from rust::uuid import Uuid
import rust::chrono
from rust::futures import join
import rust::tracing
from rust::thiserror import Error as ThisError

def main() -> None:
  u = find_user(1)
  print(handle(u.name))
  print(shout("x"))
  print(last())
""",
    "db/models.incn": """@derive(Serialize)
pub model User:
  pub id: int
  pub name: str

pub model Product:
  pub id: int
  pub price: float
""",
    "db/repo.incn": """from db::models import User

pub def find_user(id: int) -> User:
  return User(id=id, name="u")
""",
    "api/handlers.incn": """pub def handle(name: str) -> str:
  return f"hello {name}"
""",
    "shared/utils.incn": """pub def shout(s: str) -> str:
  return s.upper()
""",
    "zeta.incn": """pub def last() -> int:
  return 26
""",
}

P_DIAG_CTOR = {
    "main.incn": """model Account:
  owner: str
  balance: int
  currency: str
  active: bool
  branch: str

def main() -> None:
  a = Account()
  print(1)
"""}

P_DIAG_TRAIT = {
    "main.incn": """trait Shape:
  def area(self) -> float: ...
  def perimeter(self) -> float: ...
  def name(self) -> str: ...
  def sides(self) -> int: ...
  def zoom(self, k: float) -> float: ...

model Sq with Shape:
  s: float

def main() -> None:
  print(1)
"""}

P_DIAG_MULTI = {
    "main.incn": """def f(a: int) -> int:
  return "x"

def g() -> str:
  return 1

def h() -> None:
  y: int = "s"
  z: str = 2
  print(undefined_name)

def main() -> None:
  f("no")
  print(g() + 1)
"""}

# a diagnostic zoo: every diagnostic that LISTS several things (missing variants / patterns, missing / unknown / duplicate
# fields, missing @requires fields, several errors in one file): any set-valued intermediate shows as a changing order
P_DIAG_MATCH = {
    "main.incn": """enum Planet:
  Mercury
  Venus
  Earth
  Mars
  Jupiter
  Saturn
  Uranus

def name(p: Planet) -> int:
  match p:
    Planet.Earth => return 3

def opt(o: Option[int]) -> int:
  match o:
    Some(v) => return v

def res(r: Result[int, str]) -> int:
  match r:
    Ok(v) => return v

def two(p: Planet, q: Planet) -> int:
  match p:
    Planet.Mars => return 1
    Planet.Venus => return 2

def main() -> None:
  print(1)
"""}

P_DIAG_FIELDS = {
    "main.incn": """@requires(alpha: int, beta: str, gamma: float, delta: bool, epsilon: int)
trait Greek:
  def first(self) -> int:
    return self.alpha

class Letters with Greek:
  omega: int

model Wide:
  a: int
  b: int
  c: int
  d: int
  e: int
  f: int

def main() -> None:
  w = Wide(zz=1, yy=2, xx=3, ww=4, vv=5)
  v = Wide(a=1, a=2, b=1, b=2, c=1, c=2, d=0, e=0, f=0)
  u = Wide(q=1)
  print(un1 + un2 + un3 + un4)
  print(w.nofield1 + w.nofield2)
"""}

P_DIAG_IMPORT = {
    "main.incn": """from lib::shapes import hidden_one, Square, hidden_two
from lib::names import nothing_here

def main() -> None:
  print(1)
""",
    "lib/shapes.incn": """pub model Square:
  pub s: int

pub model Circle:
  pub r: int

pub def area(q: Square) -> int:
  return q.s * q.s

pub def zeta() -> int:
  return 1

pub const LIMIT: int = 3

pub enum Kind:
  A
  B

def hidden_one() -> int:
  return 1

def hidden_two() -> int:
  return 2
""",
    "lib/names.incn": """pub def alpha() -> int:
  return 1

pub def beta() -> int:
  return 2

pub def gamma() -> int:
  return 3

pub def delta() -> int:
  return 4
""",
}

P_FMTDIR = {name + ".incn": "def %s( a:int ,b:int)->int:\n  return a+b\n\n\n\ndef main()->None:\n  print( %s(1,2) )\n" % (name, name)
            for name in ["alpha", "beta", "gamma", "delta", "epsilon", "zeta"]}


def programs(ctx):
    ps = [
        {"id": "rustdeps", "tag": "rustdeps", "files": P_RUSTDEPS, "entry": "main.incn"},
        {"id": "traits", "tag": "traits", "files": P_TRAITS, "entry": "main.incn"},
        {"id": "nested", "tag": "nested", "files": P_NESTED, "entry": "main.incn"},
        {"id": "diag_ctor", "tag": "diag.ctor", "files": P_DIAG_CTOR, "entry": "main.incn",
         "decl": {"diag.ctor": ["owner", "balance", "currency", "active", "branch"]}},
        {"id": "diag_trait", "tag": "diag.trait", "files": P_DIAG_TRAIT, "entry": "main.incn",
         "decl": {"diag.trait": ["area", "perimeter", "name", "sides", "zoom"]}},
        {"id": "diag_multi", "tag": "diag.multi", "files": P_DIAG_MULTI, "entry": "main.incn"},
        {"id": "diag_match", "tag": "diag.match", "files": P_DIAG_MATCH, "entry": "main.incn"},
        {"id": "diag_fields", "tag": "diag.fields", "files": P_DIAG_FIELDS, "entry": "main.incn"},
        {"id": "diag_import", "tag": "diag.import", "files": P_DIAG_IMPORT, "entry": "main.incn"},
        {"id": "fmtdir", "tag": "fmtdir", "files": P_FMTDIR, "entry": "alpha.incn", "fmt_target": "."},
    ]
    ex = os.path.join(common.REPO, "examples")
    wanted = ["advanced/using_rust_crates.incn", "advanced/derives_and_json.incn", "web/hello_web.incn"]
    if not ctx.quick:
        for root, _, fs in os.walk(ex):
            for f in sorted(fs):
                rel = os.path.relpath(os.path.join(root, f), ex)
                if f.endswith(".incn") and "multifile" not in rel and "nested_project" not in rel and rel not in wanted:
                    wanted.append(rel)
    for rel in wanted:
        p = os.path.join(ex, rel)
        if os.path.exists(p):
            name = os.path.basename(rel)
            ps.append({"id": "ex_" + re.sub(r"\W", "_", rel), "tag": "example:" + rel, "files": {name: open(p).read()}, "entry": name})
    for sub, entry in (("advanced/nested_project/src", "main.incn"), ("advanced/multifile", "main.incn")):
        d = os.path.join(ex, sub)
        if os.path.isdir(d):
            files = {}
            for root, _, fs in os.walk(d):
                for f in fs:
                    if f.endswith(".incn"):
                        files[os.path.relpath(os.path.join(root, f), d)] = open(os.path.join(root, f)).read()
            ps.append({"id": "ex_" + re.sub(r"\W", "_", sub), "tag": "example:" + sub, "files": files, "entry": entry})
    return ps


# ---------------------------------------------------------------- observation
def h(b):
    if isinstance(b, str):
        b = b.encode("utf-8", "replace")
    return hashlib.sha1(b).hexdigest()[:16]


def norm_lines(t):
    return h("\n".join(sorted(t.split("\n"))))


def rust_crates_of(src):
    """(all rust:: crates in declaration order, crates of from-imports in declaration order)"""
    allc, fromc = [], []
    for line in src.split("\n"):
        m = re.match(r"\s*(from|import)\s+rust::([A-Za-z_][A-Za-z0-9_]*)", line)
        if m and m.group(2) != "std":
            if m.group(2) not in allc:
                allc.append(m.group(2))
            if m.group(1) == "from":
                fromc.append(m.group(2))
    return allc, fromc


def collapse(seq):
    out = []
    for x in seq:
        if not out or out[-1] != x:
            out.append(x)
    return out


def split_manifest(text):
    """-> (dep names in order, rust-dep names (after the fixed prefix), text with the rust-dep lines sorted)"""
    try:
        names = [d["crate"] for d in deps_of(parse_manifest(text))]
    except TomlError:
        return [], [], text
    i = 0
    while i < len(names) and names[i] in FIXED_DEPS:
        i += 1
    rest = names[i:]
    lines = text.split("\n")
    idx = [n for n, ln in enumerate(lines) if re.match(r"^([A-Za-z0-9_\-]+)\s*=", ln) and ln.split("=")[0].strip() in rest]
    srt = sorted(lines[n] for n in idx)
    for n, s in zip(idx, srt):
        lines[n] = s
    return names, rest, "\n".join(lines)


def project_record(prefix, cargo_toml, rs, crates_all):
    digest, raw, orders, nested = {}, {}, {}, []
    if cargo_toml is not None:
        names, rest, normalised = split_manifest(cargo_toml)
        raw[prefix + "Cargo.toml"] = h(cargo_toml)
        digest[prefix + "Cargo.toml"] = h(normalised)
        orders["cargo.rustdeps"] = rest
    for rel, text in sorted(rs.items()):
        raw[prefix + rel] = h(text)
        digest[prefix + rel] = norm_lines(text)
        if rel == "src/main.rs":
            orders["main.mods"] = re.findall(r"^mod ([A-Za-z_][A-Za-z0-9_]*);", text, re.M)
            heads = [m for m in re.findall(r"^use ([A-Za-z_][A-Za-z0-9_]*)::", text, re.M) if m in crates_all]
            orders["main.uses"] = collapse(heads)
        elif rel.endswith("/mod.rs"):
            nested.append(re.findall(r"^pub mod ([A-Za-z_][A-Za-z0-9_]*);", text, re.M))
    return digest, raw, orders, nested


def perturbed_env(rnd, k, stub, workdir):
    env = {"PATH": stub + ":" + os.environ.get("PATH", "/usr/bin:/bin"), "CARGO_NET_OFFLINE": "true"}
    for v in ("CARGO_HOME", "RUSTUP_HOME", "RUSTUP_TOOLCHAIN"):
        if v in os.environ:
            env[v] = os.environ[v]
    env["HOME"] = os.path.join(workdir, "home%d" % k) if k % 3 else "/nonexistent/home%d" % k
    env["TZ"] = rnd.choice(["UTC", "Asia/Tokyo", "America/New_York", "Pacific/Chatham", "Europe/Berlin"])
    lang = rnd.choice([None, "C", "en_US.UTF-8", "de_DE.UTF-8", "tr_TR.UTF-8", "ja_JP.UTF-8"])
    if lang:
        env["LANG"] = lang
        if rnd.random() < 0.5:
            env["LC_ALL"] = lang
    rl = rnd.choice([None, "debug", "trace", "off", "incan=trace", "warn"])
    if rl:
        env["RUST_LOG"] = rl
    if rnd.random() < 0.5:
        env["RUST_BACKTRACE"] = rnd.choice(["0", "1", "full"])
    env["USER"] = rnd.choice(["root", "alice", "builder", "x" * 30])
    env["TERM"] = rnd.choice(["dumb", "xterm-256color", "vt100"])
    env["TMPDIR"] = workdir
    for i in range(rnd.randint(0, 25)):
        env["VERIF_PAD_%d_%d" % (k, i)] = "p" * rnd.randint(1, 200)
    return env


def run_cli(args, cwd, env, timeout=180):
    try:
        p = subprocess.run([common.harness_bin("incan_cli")] + args, cwd=cwd, env=env, stdout=subprocess.PIPE,
                           stderr=subprocess.PIPE, timeout=timeout)
        return p.returncode, p.stdout.decode("utf-8", "replace"), p.stderr.decode("utf-8", "replace")
    except subprocess.TimeoutExpired:
        return "timeout", "", ""


def materialise(files, d, order):
    os.makedirs(d, exist_ok=True)
    for rel in order:
        p = os.path.join(d, rel)
        os.makedirs(os.path.dirname(p), exist_ok=True)
        with open(p, "w") as fh:
            fh.write(files[rel])


def observe(ctx, prog, k, seed_tag, stub, shm):
    """one observation = 5 fresh processes in one fresh working directory"""
    import random
    rnd = random.Random(f"{ctx.seed}:{prog['id']}:{k}:{seed_tag}")
    base = os.path.join(ctx.work, "obs", prog["id"])
    if shm and prog.get("fmt_target") and k % 2 == 0:
        base = os.path.join(shm, prog["id"])            # another filesystem: another read_dir order
    d = os.path.join(base, "k%d_%06x" % (k, rnd.getrandbits(24)), *(["deep"] * (k % 3)))
    order = list(prog["files"])
    rnd.shuffle(order)                                    # creation order differs between observations
    materialise(prog["files"], d, order)
    env = perturbed_env(rnd, k, stub, d)
    entry = prog["entry"]
    src = prog["files"][entry]
    crates_all, _ = rust_crates_of("\n".join(prog["files"].values()))
    evs = []

    def ev(path, digest, raw, orders=None, nested=None, keep=None):
        o = {"none": []}
        o.update(orders or {})
        evs.append({"e": "obs", "prog": prog["id"], "k": k, "path": path, "digest": digest, "raw": raw, "orders": o,
                    "nested": nested or [], "_keep": keep or {}})

    def texts(path, rc, so, se, extra_orders=None):
        raw = {path + ".stdout": h(so), path + ".stderr": h(se), path + ".rc": str(rc)}
        dg = {path + ".stdout": norm_lines(so), path + ".stderr": norm_lines(se), path + ".rc": str(rc)}
        ev(path, dg, raw, extra_orders, keep={"stdout": so[-3000:], "stderr": se[-3000:]})

    # --check
    rc, so, se = run_cli(["--check", entry], d, env)
    if rc == "timeout":
        raise ToolError("incan_cli --check timed out")
    both = so + se
    orders = {}
    if prog["tag"] == "diag.ctor":
        orders["diag.ctor"] = re.findall(r"Missing required field '([A-Za-z_0-9]+)'", both)
    if prog["tag"] == "diag.trait":
        orders["diag.trait"] = re.findall(r"requires method '([A-Za-z_0-9]+)'", both)
    texts("check", rc, so, se, orders)
    # --emit-rust
    rc, so, se = run_cli(["--emit-rust", entry], d, env)
    texts("emit", rc, so, se)
    # fmt --diff
    target = prog.get("fmt_target", entry)
    rc, so, se = run_cli(["fmt", "--diff", target], d, env)
    orders = {}
    if prog.get("fmt_target"):
        orders["fmt.files"] = [os.path.basename(x) for x in re.findall(r"^--- (\S+\.incn)$", so, re.M)]
    texts("fmt", rc, so, se, orders)
    # build with the stub cargo: project files as the real CLI writes them
    rc, so, se = run_cli(["build", entry, "out"], d, env)
    rs = {}
    outd = os.path.join(d, "out")
    for root, _, fs in os.walk(os.path.join(outd, "src")):
        for f in fs:
            full = os.path.join(root, f)
            rs[os.path.relpath(full, outd)] = open(full).read()
    ct = open(os.path.join(outd, "Cargo.toml")).read() if os.path.exists(os.path.join(outd, "Cargo.toml")) else None
    dg, raw, orders, nested = project_record("build.", ct, rs, crates_all)
    dg.update({"build.stdout": norm_lines(so), "build.stderr": norm_lines(se), "build.rc": str(rc)})
    raw.update({"build.stdout": h(so), "build.stderr": h(se), "build.rc": str(rc)})
    ev("build", dg, raw, orders, nested, keep={"cargo_toml": ct, "stderr": se[-1500:]})
    shutil.rmtree(outd, ignore_errors=True)
    # in process, in a fresh replay process
    # relative paths, like the CLI invocations above (the process runs in the observation's directory)
    reqs = [{"op": "gen_project", "dir": ".", "entry": entry, "out": "out_ip", "id": 0},
            {"op": "check_entry", "dir": ".", "entry": entry, "id": 1},
            {"op": "emit_entry", "dir": ".", "entry": entry, "id": 2}]
    p = subprocess.run([common.harness_bin("replay")], input="".join(json.dumps(r) + "\n" for r in reqs).encode(), env=env, cwd=d,
                       stdout=subprocess.PIPE, stderr=subprocess.PIPE, timeout=180)
    outs = {}
    for line in p.stdout.decode("utf-8", "replace").splitlines():
        try:
            v = json.loads(line)
            outs[v.get("id")] = v
        except ValueError:
            pass
    if len(outs) != 3:
        raise ToolError(f"replay process answered {len(outs)} of 3 requests (rc {p.returncode}): {p.stderr.decode()[-400:]}")
    g = outs[0].get("obs", {})
    dg, raw, orders, nested = project_record("inproc.", g.get("cargo_toml"), g.get("rs", {}), crates_all)
    chk = outs[1].get("obs", {})
    rendered = "\n".join(chk.get("rendered", [])) if not chk.get("ok") else "ok"
    em = outs[2].get("obs", {})
    emitted = em.get("rust") or json.dumps(em, sort_keys=True)
    for key, text in (("inproc.check", rendered + "|" + str(chk.get("err", ""))), ("inproc.emit", emitted),
                      ("inproc.gen_status", json.dumps({x: g.get(x) for x in ("ok", "stage", "err")}, sort_keys=True))):
        raw[key] = h(text)
        dg[key] = norm_lines(text)
    if prog["tag"] == "diag.ctor":
        orders["diag.ctor"] = re.findall(r"Missing required field '([A-Za-z_0-9]+)'", rendered)
    if prog["tag"] == "diag.trait":
        orders["diag.trait"] = re.findall(r"requires method '([A-Za-z_0-9]+)'", rendered)
    ev("inproc", dg, raw, orders, nested, keep={"cargo_toml": g.get("cargo_toml"), "check": rendered[-2000:]})
    shutil.rmtree(os.path.join(base, os.path.relpath(d, base).split(os.sep)[0]), ignore_errors=True)
    return evs


def prog_event(prog, evs):
    names = set()
    for e in evs:
        for seq in e["orders"].values():
            names.update(seq)
        for seq in e["nested"]:
            names.update(seq)
    decl = {"none": []}
    decl.update(prog.get("decl", {}))
    allc, fromc = rust_crates_of(prog["files"][prog["entry"]])
    decl["cargo.rustdeps"] = allc
    decl["main.uses"] = collapse(fromc)
    for seq in decl.values():
        names.update(seq)
    rank = {n: i + 1 for i, n in enumerate(sorted(names))}
    rank["none"] = 0
    # the declaration order of the dependency lines only lists crates that are actually on rust-dep lines
    seen = set()
    for e in evs:
        seen.update(e["orders"].get("cargo.rustdeps", []))
    decl["cargo.rustdeps"] = [c for c in allc if c in seen]
    return {"e": "prog", "prog": prog["id"], "rank": rank, "decl": decl}


# ---------------------------------------------------------------- run
EXPECTED_AT_RISK_MODEL = {"cargo.rustdeps", "diag.ctor", "diag.trait", "fmt.files"}


def model_part(ctx):
    with ctx.timed("tlc_model"):
        aw = common.tlc(ctx, "MC_Determinism", cfg="MC_Determinism_aswritten", workers=4, timeout=900, want_tags=("RISK",), quiet=True)
        common.require_tlc_ok(ctx, aw, "Determinism as written (enumeration of draws)")
        rep = common.tlc(ctx, "MC_Determinism", cfg="MC_Determinism_repaired", workers=4, timeout=900, want_tags=("RISK",), quiet=True)
        common.require_tlc_ok(ctx, rep, "Determinism with every site sorted: OutputIndependentOfDraws")
        neg = common.tlc(ctx, "MC_Determinism", cfg="MC_Determinism_aswritten_inv", workers=4, timeout=900, want_tags=("RISK",), quiet=True)
    if neg["ok"] or not any("OutputIndependentOfDraws" in x for x in neg["errors"]):
        raise ToolError("the as-written Determinism model does not violate OutputIndependentOfDraws (vacuous model)")
    risk = set()
    static = set()
    for r in aw["cases"]["RISK"]:
        risk.update(r["deviating"])
        static.update(r["static"])
    if risk != static:
        raise ToolError(f"Determinism.tla: components that deviate under some draw {sorted(risk)} != statically at risk {sorted(static)}")
    if any(r["deviating"] for r in rep["cases"]["RISK"]):
        raise ToolError("repaired Determinism model still has deviating components")
    flow = aw["cases"]["RISK"][0]["flow"] if aw["cases"]["RISK"] else {}
    return sorted(risk), flow, len(aw["cases"]["RISK"])


def run(ctx):
    common.build_harness()          # the observations call the harness binaries directly
    at_risk, flow, n_final = model_part(ctx)
    ctx.stats["model_components_at_risk"] = at_risk
    ctx.stats["model_flow"] = flow
    K = 6 if ctx.quick else 16
    progs = programs(ctx)
    stub = stub_dir(ctx)
    shm = None
    if os.path.isdir("/dev/shm") and os.access("/dev/shm", os.W_OK):
        shm = "/dev/shm/verif_c12_%d" % os.getpid()
    shutil.rmtree(os.path.join(ctx.work, "obs"), ignore_errors=True)
    jobs = [(p, k) for p in progs for k in range(1, K + 1)]
    all_evs = {}
    try:
        with ctx.timed("observe"):
            with concurrent.futures.ThreadPoolExecutor(max_workers=8) as ex:
                for (p, k), evs in zip(jobs, ex.map(lambda pk: observe(ctx, pk[0], pk[1], "o", stub, shm), jobs)):
                    all_evs.setdefault(p["id"], []).extend(evs)
    finally:
        if shm:
            shutil.rmtree(shm, ignore_errors=True)
        shutil.rmtree(os.path.join(ctx.work, "obs"), ignore_errors=True)

    # ---- trace
    tpath = os.path.join(ctx.work, "determinism_trace.ndjson")
    keep = {}
    n_events = 0
    with open(tpath, "w") as fh:
        for p in progs:
            evs = all_evs[p["id"]]
            evs.sort(key=lambda e: (e["path"], e["k"]))
            fh.write(json.dumps(prog_event(p, evs)) + "\n")
            n_events += 1
            for e in evs:
                keep[(e["prog"], e["path"], e["k"])] = e["_keep"]
                fh.write(json.dumps({x: v for x, v in e.items() if x != "_keep"}) + "\n")
                n_events += 1
    with ctx.timed("tlc_trace"):
        ok, tres = common.validate_trace(ctx, "DeterminismTrace", tpath, timeout=1500)
    rejected = 0
    rej = tres["cases"].get("REJECT") or []
    if not ok and not rej:
        common.log(tres["text_tail"])
        raise ToolError("DeterminismTrace failed without a REJECT line")
    if rej:
        if "malformed" in rej[0]:
            raise ToolError(f"DeterminismTrace could not match event {rej[0].get('at')}: {json.dumps(rej[0].get('malformed'))[:400]}")
        tags = {p["id"]: p["tag"] for p in progs}
        by_sig = {}
        for b in rej[0]["bad"]:
            tag = tags[b["prog"]]
            reason = b["reason"]
            # the order of the rust:: dependency lines is tagged by the component alone (any program with >= 2 such crates)
            # signature = feature tag of the program | reason; the order of the rust:: dependency lines is identified by the
            # component alone (every program with >= 2 such crates shows it)
            if reason == "order:cargo.rustdeps" or (reason.startswith("unequal-order-only:") and reason.endswith(".Cargo.toml")):
                sig = reason
            else:
                sig = tag.split(":")[0] + "|" + reason
            by_sig.setdefault(sig, []).append(b)
        for sig, bs in sorted(by_sig.items()):
            b = bs[0]
            first = keep.get((b["prog"], b["path"], 1))
            ctx.fail(sig, {"prog": b["prog"], "tag": tags[b["prog"]], "path": b["path"], "k": b["k"], "reason": b["reason"],
                           "occurrences": len(bs), "files": next(p for p in progs if p["id"] == b["prog"])["files"],
                           "entry": next(p for p in progs if p["id"] == b["prog"])["entry"],
                           "first_observation": first, "this_observation": keep.get((b["prog"], b["path"], b["k"]))},
                     f"{b['prog']} via {b['path']}: observation {b['k']} vs 1 ({len(bs)} rejected observations)")
        rejected = len({(b["prog"], b["path"], b["k"]) for b in rej[0]["bad"]})
        ctx.stats["rejected_reasons"] = {s: len(v) for s, v in by_sig.items()}
    multi = [p for p in progs if len(p["files"]) > 1]
    ex_obs = all_evs[progs[0]["id"]][0]
    ctx.sample({"program": progs[0]["id"], "files": progs[0]["files"], "observation": {x: ex_obs[x] for x in ("path", "k", "orders", "raw")}})
    ctx.sample({"model_components_at_risk": at_risk})
    common.write_evidence(ctx, "exploration", {
        "evaluations": n_events - len(progs),
        "distinct_nontrivial": len(progs) * 5,
        "rule": f"{len(progs)} programs (hand-written: >=5 rust:: imports, traits/models/enums/consts, nested multi-file imports, "
                f"multi-diagnostic type errors, a directory for fmt; plus the repository's examples) x 5 paths (--check, --emit-rust, "
                f"fmt --diff, build with stub cargo, in-process generation) x K={K} fresh processes, each in its own working directory "
                f"(and for the fmt directory on two filesystems) with perturbed HOME/TZ/LANG/LC_ALL/RUST_LOG/RUST_BACKTRACE/USER/TERM/"
                f"TMPDIR and 0-25 extra variables; non-trivial/distinct = (program, path) pairs, each observed K times",
        "K": K,
        "programs": len(progs),
        "multi_file_programs": len(multi),
        "observations": n_events - len(progs),
        "observations_rejected": rejected,
        "states": sum(r["states"] for r in ctx.tlc_runs),
        "traces_validated_against_impl": n_events - len(progs),
        "model_final_states_as_written": n_final,
        "detection_is_probabilistic": f"an order dependence with 2 possible outcomes is missed by K={K} runs with probability 2^-{K - 1}; "
                                      f"the recorded-order check (sorted / declaration order) additionally catches an unsorted emission "
                                      f"even if all K runs happen to agree, unless the drawn order is the sorted one",
        "tmpfs_used_for_fmt_dir": bool(shm),
    }, assumptions=[
        "the harness CLI is incan::cli::run() without main.rs's tracing_subscriber (RUST_LOG therefore cannot add log lines)",
        "documented knobs NO_COLOR / INCAN_NO_BANNER / INCAN_EMIT_SERVICE / INCAN_STDLIB are not perturbed",
        "the flow table of Determinism.tla (which iteration feeds which output) is a transcription by reading the code",
    ])


def replay(ctx, path):
    rec = json.load(open(path))
    c = rec["case"]
    prog = {"id": c["prog"], "tag": c["tag"], "files": c["files"], "entry": c["entry"]}
    if c["tag"] == "fmtdir":
        prog["fmt_target"] = "."
    common.build_harness()
    stub = stub_dir(ctx)
    seen = {}
    for k in range(1, 9):
        for e in observe(ctx, prog, k, "replay", stub, None):
            if e["path"] == c["path"]:
                seen.setdefault(json.dumps(e["raw"], sort_keys=True), []).append((k, e["orders"], e["_keep"]))
    print("signature:", rec.get("signature"), "--", rec.get("what"))
    print(f"{len(seen)} distinct outputs in 8 fresh observations through {c['path']}")
    for raw, obs in list(seen.items())[:4]:
        k, orders, kp = obs[0]
        print("--- observation", k, "orders:", json.dumps(orders))
        print(json.dumps(kp, indent=1)[:1500])
