"""C16 — `incan test` reports the truth.

Model: spec/TestRunner.tla — the state machine of src/cli/test_runner.rs run_tests (Discover, Select
(-k, --slow), NoTestsCollected, SessionStart, per test SkipTest | RunSingleTest -> Judge (xfail
inversion, counters, verdict line, -x), Summarise, Exit) over a scenario = ground truth per test
(pass / assert_fail / panic / nobuild) x marker set x keyword match x options; ghosts ran/fin.
 TLC: every scenario with 2 (quick) and 2 + 3 (thorough) test functions, all C16 invariants in every
      state, deadlock freedom and a decreasing measure (termination); the machine that also admits an
      empty harness (the pinned tree) must violate PassedMeansRanAndPassed (non-vacuity).
Binding (the REAL CLI: harness/bin/incan_cli = incan::cli::run() built from /repo):
 B1  scenarios chosen by the seed (quick: feature cover; thorough: + pairwise cover of the scenario
     attributes) are evaluated by TLC on the documented machine (CASE lines); each is realised as real
     test files whose bodies produce the ground truth AND write a marker file as their first and as
     their last statement (independent evidence that the body started / ran to completion);
     `incan_cli test <dir> [flags]` is run, stdout + exit status + evidence are parsed and compared with
     the CASE: per test (verdict, started, completed), selection, order, summary counts, exit status.
 B2  every recorded session is validated by TLC against RunnerTrace: each observed step must be the
     enabled action of TestRunner and the C16 invariants are evaluated in every state.
A test for which the runner printed an executed verdict although its body never started is reported
with the signature `verdict-without-running: outcome=<o> markers={..} -> <VERDICT>`; the session is then
validated against the machine with harness[t] = "empty" for exactly those tests, so that everything
else (selection, skip, inversion relative to the verdict the runner believes, -x, counters, summary,
exit status) is still checked strictly.
"""
import fcntl
import itertools
import json
import os
import re
import shutil
import subprocess
import time

from lib import common
from lib.common import ToolError

NT = 3
NAMES = ["test_one_kab_kac", "test_two_kab_kbc", "test_thr_kac_kbc"]
# a keyword for every subset of the three names (substring of exactly those names, of no file name)
KEYWORD = {(): "zzz", (1,): "one", (2,): "two", (3,): "thr", (1, 2): "kab", (1, 3): "kac", (2, 3): "kbc",
           (1, 2, 3): "_k"}
OUTCOMES = ["pass", "assert_fail", "panic", "nobuild"]
EXEC = ("PASSED", "FAILED", "XFAIL", "XPASS")
VERDICTS = EXEC + ("SKIPPED",)
CNT_KEYS = ("passed", "failed", "skipped", "xfailed", "xpassed")
CNT_OF = {"PASSED": "passed", "FAILED": "failed", "SKIPPED": "skipped", "XFAIL": "xfailed", "XPASS": "xpassed"}
BODY = {
    "pass": ["assert_eq(1 + 1, 2)"],
    "assert_fail": ["assert_eq(1 + 1, 3)"],
    "panic": ["q = 10 // zero()", "println(q)"],
    "nobuild": ['n: int = "not an int"'],
}
LAYOUTS = [[[1, 2, 3]], [[1], [2, 3]], [[1, 2], [3]], [[1], [2], [3]]]


# ------------------------------------------------------------------ scenarios
def norm(sc):
    sc = json.loads(json.dumps(sc))
    if not sc["opt"]["filter"]:
        sc["matches"] = [True] * NT
    sc["marks"] = [sorted(m) for m in sc["marks"]]
    return sc


def sc_key(sc):
    return json.dumps([sc["truth"], sc["marks"], sc["matches"], sc["opt"]], sort_keys=True)


def random_scenario(rnd):
    opt = {"filter": rnd.random() < 0.4, "includeSlow": rnd.random() < 0.5, "stopOnFail": rnd.random() < 0.4,
           "failOnEmpty": rnd.random() < 0.3}
    truth, marks, matches = [], [], []
    for _ in range(NT):
        truth.append(rnd.choice(OUTCOMES))
        m = []
        if rnd.random() < 0.2:
            m.append("skip")
        if rnd.random() < 0.4:
            m.append("xfail")
        if rnd.random() < 0.3:
            m.append("slow")
        marks.append(m)
        matches.append(rnd.random() < 0.6)
    return norm({"truth": truth, "marks": marks, "matches": matches, "opt": opt})


def fixed_scenarios():
    """a few scenarios that every run contains in its candidate pool (plain session; empty selections)"""
    o = {"filter": False, "includeSlow": False, "stopOnFail": False, "failOnEmpty": False}
    return [norm(s) for s in [
        {"truth": ["pass", "assert_fail", "panic"], "marks": [[], [], []], "matches": [True] * 3, "opt": o},
        {"truth": ["pass", "pass", "assert_fail"], "marks": [["slow"], ["slow"], ["slow"]], "matches": [True] * 3, "opt": o},
        {"truth": ["pass", "panic", "pass"], "marks": [[], [], ["xfail"]], "matches": [False] * 3,
         "opt": dict(o, filter=True, failOnEmpty=True)},
        {"truth": ["nobuild", "pass", "assert_fail"], "marks": [[], [], ["xfail"]], "matches": [True] * 3,
         "opt": dict(o, stopOnFail=True)},
        {"truth": ["pass", "nobuild", "pass"], "marks": [["xfail"], ["xfail"], ["skip"]], "matches": [True] * 3,
         "opt": dict(o, stopOnFail=True)},
    ]]


def features(sc, exp):
    """effective features of a scenario, from what the specification says happens in it"""
    f = set()
    e = exp[0]
    o = sc["opt"]
    for t in range(NT):
        m = sc["marks"][t]
        v = e["verdict"][t]
        if v in EXEC:
            f.add(f"exec:{sc['truth'][t]}:{'xfail' if 'xfail' in m else 'plain'}")
            if "slow" in m:
                f.add("slow-included")
            if o["filter"]:
                f.add("k-included")
        if v == "SKIPPED":
            f.add("skip")
            if "xfail" in m:
                f.add("skip+xfail")
        if not e["selected"][t]:
            if "slow" in m and not o["includeSlow"]:
                f.add("slow-excluded")
            if o["filter"] and not sc["matches"][t]:
                f.add("k-excluded")
    if not e["sel"]:
        f.add("empty-fail" if o["failOnEmpty"] else "empty-ok")
    else:
        if o["failOnEmpty"]:
            f.add("failOnEmpty-nonempty")
        if o["stopOnFail"]:
            # the -x rule, per verdict after which the run continues / stops (nobuild: observable on any tree)
            jud = [t - 1 for t in e["sel"][:e["nlines"]]]
            for k, t in enumerate(jud):
                v = e["verdict"][t]
                src = "" if v in ("SKIPPED", "PASSED", "XPASS") else (":nobuild" if sc["truth"][t] == "nobuild" else ":run")
                if k + 1 < len(jud):
                    f.add(f"x-cont:{v}{src}")
                elif len(jud) < len(e["sel"]):
                    f.add(f"x-stop:{v}{src}")
        bad = sorted({v for v in e["verdict"] if v in ("FAILED", "XPASS")})
        f.add("exit1:" + "+".join(bad) if e["exit"] == 1 else "exit0")
    if len(exp) > 1:
        f.add("x-after-xpass")
    return f


def factor_pairs(sc):
    fac = []
    for t in range(NT):
        m = sc["marks"][t]
        fac += [(f"o{t}", sc["truth"][t]), (f"skip{t}", "skip" in m), (f"xfail{t}", "xfail" in m), (f"slow{t}", "slow" in m)]
        if sc["opt"]["filter"]:
            fac.append((f"match{t}", sc["matches"][t]))
    fac += sorted(sc["opt"].items())
    return set(itertools.combinations(fac, 2))


def expectations(ctx, scenarios, tag):
    """TLC runs the documented machine on the scenarios: {id: [CASE per variant of the open -x/XPASS choice]}"""
    path = os.path.join(ctx.work, f"scen_{tag}.ndjson")
    with open(path, "w") as fh:
        for s in scenarios:
            fh.write(json.dumps(s) + "\n")
    res = common.tlc(ctx, "MC_TestRunner", cfg="MC_TestRunner_cases", workers=4, timeout=600, env_extra={"SCEN": path}, quiet=True)
    common.require_tlc_ok(ctx, res, "TestRunner case generation")
    by = {}
    for c in res["cases"]["CASE"]:
        c["sel"] = list(c["sel"])
        by.setdefault(c["id"], [])
        if not any(_same_exp(c, d) for d in by[c["id"]]):
            by[c["id"]].append(c)
    for s in scenarios:
        if s["id"] not in by:
            raise ToolError(f"TLC printed no CASE for scenario {s['id']}")
        by[s["id"]].sort(key=lambda c: c["xpassStops"])      # [0] = as run_tests is written
    return by


def _same_exp(c, d):
    return all(c[k] == d[k] for k in ("sel", "verdict", "ran", "fin", "cnt", "exit", "nlines"))


def choose(ctx, rnd):
    npool = 400 if ctx.quick else 3000
    pool, seen = [], set()
    for s in fixed_scenarios() + [random_scenario(rnd) for _ in range(npool)]:
        k = sc_key(s)
        if k not in seen:
            seen.add(k)
            s["id"] = len(pool) + 1
            pool.append(s)
    exp = expectations(ctx, pool, "pool")
    feats = {s["id"]: features(s, exp[s["id"]]) for s in pool}
    order = pool[:]
    rnd.shuffle(order)
    chosen, covered = [], set()
    all_feats = set().union(*feats.values())
    while covered != all_feats:                       # feature cover (each marker, outcome, option, rule once)
        best = max(order, key=lambda s: len(feats[s["id"]] - covered))
        chosen.append(best)
        covered |= feats[best["id"]]
        order.remove(best)
    target = max(len(chosen), 9) if ctx.quick else max(len(chosen), 60)
    pairs_cov = set().union(*[factor_pairs(s) for s in chosen]) if chosen else set()
    while len(chosen) < target and order:             # pairwise cover of the raw scenario attributes
        cand = [s for s in order[:600] if exp[s["id"]][0]["sel"]] or order[:400]     # no more empty selections
        best = max(cand, key=lambda s: len(factor_pairs(s) - pairs_cov))
        chosen.append(best)
        pairs_cov |= factor_pairs(best)
        order.remove(best)
    all_pairs = set().union(*[factor_pairs(s) for s in pool])
    ctx.stats["candidate_scenarios"] = len(pool)
    ctx.stats["features_covered"] = sorted(covered)
    ctx.stats["attribute_pairs_covered"] = len(pairs_cov)
    ctx.stats["attribute_pairs_in_pool"] = len(all_pairs)
    return chosen, exp


# ------------------------------------------------------------------ realisation: real test files
def realise(ctx, sc, rnd, n, real=None):
    """writes the test directory of scenario sc; returns the realisation record (paths, flags, layout)"""
    base = os.path.join(ctx.work, f"{n:03d}")
    shutil.rmtree(base, ignore_errors=True)
    tdir, ev = os.path.join(base, "tests"), os.path.join(base, "ev")
    os.makedirs(tdir)
    os.makedirs(ev)
    if real is None:
        lays = [l for l in LAYOUTS if all(len(g) == 1 or all(sc["truth"][t - 1] != "nobuild" for t in g) for g in l)]
        real = {"layout": rnd.choice(lays), "verbose": rnd.random() < 0.3, "long_x": rnd.random() < 0.5,
                "reasons": [rnd.random() < 0.7 for _ in range(NT)], "suffix_name": rnd.random() < 0.4}
    real = dict(real, base=base, tests=tdir, ev=ev, files={}, file_of={})
    ngroups = len(real["layout"])
    for gi, group in enumerate(real["layout"]):
        fname = "tg_test.incn" if (real["suffix_name"] and gi == ngroups - 1) else f"test_f{gi + 1}.incn"
        src = ['"""generated by /verif/lib/checks/c16.py"""', "", "from testing import assert_eq", "", "",
               "def zero() -> int:", "    return 0", "", "",
               "def helper_not_a_test() -> None:", f'    write_file("{ev}/helper.begin", "x")', ""]
        for t in group:
            src.append("")
            m = sc["marks"][t - 1]
            why = f'("because {t}")' if real["reasons"][t - 1] else ""
            if "skip" in m:
                src.append("@skip" + why)
            if "xfail" in m:
                src.append("@xfail" + why)
            if "slow" in m:
                src.append("@slow")
            src.append(f"def {NAMES[t - 1]}() -> None:")
            src.append(f'    write_file("{ev}/t{t}.begin", "x")')
            src += ["    " + l for l in BODY[sc["truth"][t - 1]]]
            src.append(f'    write_file("{ev}/t{t}.end", "x")')
            src.append("")
            real["file_of"][t] = fname
        text = "\n".join(src)
        real["files"][fname] = text
        with open(os.path.join(tdir, fname), "w") as fh:
            fh.write(text)
    # documented: a file that is not named test_*.incn / *_test.incn is not a test file
    decoy = f'def test_decoy() -> None:\n    write_file("{ev}/decoy.begin", "x")\n'
    with open(os.path.join(tdir, "helpers.incn"), "w") as fh:
        fh.write(decoy)
    flags = []
    o = sc["opt"]
    if o["filter"]:
        flags += ["-k", KEYWORD[tuple(t + 1 for t in range(NT) if sc["matches"][t])]]
    if o["includeSlow"]:
        flags.append("--slow")
    if o["stopOnFail"]:
        flags.append("--exitfirst" if real["long_x"] else "-x")
    if o["failOnEmpty"]:
        flags.append("--fail-on-empty")
    if real["verbose"]:
        flags.append("-v")
    real["flags"] = flags
    return real


LINE_RE = re.compile(r"^(\S+)::(\S+) (PASSED|FAILED|SKIPPED|XFAIL|XPASS)(?: \((.*)\))?$")
SUM_RE = re.compile(r"^=+ (.*) in [0-9.]+s =+$")


def run_session(ctx, real):
    """runs the real CLI on the realised directory; returns the parsed session"""
    rundir = os.path.join(ctx.work, "run")             # fixed cwd: target/incan_tests/<name> stays warm
    os.makedirs(rundir, exist_ok=True)
    env = dict(os.environ, CARGO_NET_OFFLINE="true", NO_COLOR="1", INCAN_NO_BANNER="1")
    env.pop("CARGO_TARGET_DIR", None)
    cmd = [common.harness_bin("incan_cli"), "test", real["tests"]] + real["flags"]
    t0 = time.time()
    try:
        p = subprocess.run(cmd, cwd=rundir, env=env, stdout=subprocess.PIPE, stderr=subprocess.PIPE, timeout=900)
    except subprocess.TimeoutExpired:
        raise ToolError("incan_cli test timed out after 900 s")
    out, err = p.stdout.decode("utf-8", "replace"), p.stderr.decode("utf-8", "replace")
    ses = {"cmd": " ".join(cmd[1:]), "exit": p.returncode, "stdout": out, "stderr_tail": err[-1500:], "wall_s": round(time.time() - t0, 2),
           "collected": None, "lines": [], "summary": None, "nocollect": "No tests collected" in err,
           "nofiles": "No test files found" in err, "malformed": []}
    phase = "head"
    for line in out.splitlines():
        if phase == "head":
            m = re.match(r"^collected (\d+) item\(s\)$", line)
            if m:
                ses["collected"] = int(m.group(1))
                phase = "lines"
        elif phase == "lines":
            m = LINE_RE.match(line)
            if m:
                ses["lines"].append({"file": m.group(1), "name": m.group(2), "v": m.group(3), "extra": m.group(4)})
            elif "FAILURES" in line and line.startswith("="):
                phase = "failures"
            elif SUM_RE.match(line):
                phase = "summary"
            elif line.strip():
                ses["malformed"].append(line)
        if phase in ("failures", "summary"):
            m = SUM_RE.match(line)
            if m:
                c = {k: 0 for k in CNT_KEYS}
                for part in m.group(1).split(", "):
                    pm = re.match(r"^(\d+) (passed|failed|skipped|xfailed|xpassed)$", part.strip())
                    if pm:
                        c[pm.group(2)] += int(pm.group(1))
                    elif part.strip():
                        ses["malformed"].append(line)
                ses["summary"] = c
                phase = "done"
    ev = real["ev"]
    ses["begin"] = [os.path.exists(f"{ev}/t{t}.begin") for t in range(1, NT + 1)]
    ses["end"] = [os.path.exists(f"{ev}/t{t}.end") for t in range(1, NT + 1)]
    ses["stray"] = [x for x in ("helper.begin", "decoy.begin") if os.path.exists(f"{ev}/{x}")]
    return ses


# ------------------------------------------------------------------ B1: compare a session with the CASE
def mk(sc, t):
    m = [x for x in sc["marks"][t] if x != "slow"]      # slow only decides selection
    return "{" + ",".join(m) + "}"


def ranstr(b, e):
    return "full" if (b and e) else "partial" if b else "end-only" if e else "no"


def analyse(sc, real, ses, exps):
    """-> (failures [(signature, what, detail)], harness vector, observed verdict vector)"""
    fails = []
    o = sc["opt"]
    name_t = {n: i for i, n in enumerate(NAMES)}
    obs_v = ["none"] * NT
    judged = []
    if ses["exit"] not in (0, 1):
        fails.append((f"runner-crashed: exit={ses['exit']}", "the CLI ended with an undocumented exit status", None))
    if ses["nofiles"]:
        fails.append(("test-files-not-discovered", "test files exist but the runner found none", None))
    if ses["malformed"]:
        fails.append(("unparsable-session-output", "stdout of the session does not have the documented shape", ses["malformed"][:3]))
    for ln in ses["lines"]:
        if ln["name"] not in name_t:
            fails.append((f"unknown-test-judged: {ln['name']}", "a function that is not a test of a test file got a verdict", ln))
            continue
        t = name_t[ln["name"]]
        if obs_v[t] != "none":
            fails.append(("test-judged-twice", f"two verdict lines for {ln['name']}", ln))
            continue
        obs_v[t] = ln["v"]
        judged.append(t)
        if ln["file"] != real["file_of"][t + 1]:
            fails.append(("wrong-file-in-verdict-line", f"{ln['name']} lives in {real['file_of'][t + 1]}", ln))
    if ses["stray"]:
        fails.append(("non-test-function-ran: " + ",".join(ses["stray"]), "a helper / a function of a non-test file was executed", None))
    begin, end = ses["begin"], ses["end"]

    # the variant of the specification (open -x/XPASS choice) closest to the observation
    def ndiff(e):
        return sum(1 for t in range(NT) if (obs_v[t], begin[t], end[t]) != (e["verdict"][t], e["ran"][t], e["fin"][t]))
    e = min(exps, key=ndiff)
    sel = [t - 1 for t in e["sel"]]
    harness = ["runs"] * NT
    classA = []
    for t in range(NT):
        if obs_v[t] in EXEC and not begin[t] and sc["truth"][t] != "nobuild":
            harness[t] = "empty"
    for t in range(NT):
        got, want = (obs_v[t], begin[t], end[t]), (e["verdict"][t], e["ran"][t], e["fin"][t])
        if got == want:
            continue
        tr, m = sc["truth"][t], sc["marks"][t]
        desc = f"outcome={tr} markers={mk(sc, t)}"
        detail = {"test": NAMES[t], "observed": {"verdict": got[0], "begin": got[1], "end": got[2]},
                  "documented": {"verdict": want[0], "ran": want[1], "fin": want[2]}}
        if not e["selected"][t]:
            why = "+".join(x for x, c in (("slow", "slow" in m and not o["includeSlow"]),
                                          ("keyword", o["filter"] and not sc["matches"][t])) if c)
            fails.append((f"unselected-test-judged: excluded-by={why} -> {got[0]} ran={ranstr(begin[t], end[t])}",
                          "a test outside the documented selection was judged or run", detail))
        elif "skip" in m and (got[0] not in ("none", "SKIPPED") or begin[t] or end[t]):
            fails.append((f"skip-test-mishandled: -> {got[0]} ran={ranstr(begin[t], end[t])}",
                          "a @skip test must be reported SKIPPED and must not run", detail))
        elif harness[t] == "empty":
            classA.append(t)
            fails.append((f"verdict-without-running: {desc} -> {got[0]}",
                          "the runner printed a verdict for a test whose body never started", detail))
        elif got[0] != "none" and want[0] != "none":
            fails.append((f"wrong-verdict: {desc} ran={ranstr(begin[t], end[t])} -> {got[0]} (documented {want[0]})",
                          "verdict / execution evidence differ from the ground truth", detail))
        else:
            # judged although the run should have stopped, or not judged although selected: a consequence when an
            # earlier test of the selection deviates (then RunnerTrace decides with the observed harness)
            earlier = sel[:sel.index(t)] if t in sel else sel
            if not any(x in classA or obs_v[x] != e["verdict"][x] for x in earlier):
                kind = "selected-test-not-judged" if got[0] == "none" else "judged-after-documented-stop"
                fails.append((f"{kind}: {desc} -> {got[0]} ran={ranstr(begin[t], end[t])}",
                              "the set of judged tests differs from the documented one", detail))

    # ---- facts that do not depend on whether bodies run: selection, order, -x, counts, exit status
    if not sel:
        ok = ses["nocollect"] and ses["collected"] is None and not ses["lines"] and ses["summary"] is None
        if not ok or ses["exit"] != (1 if o["failOnEmpty"] else 0):
            fails.append((f"empty-selection: failOnEmpty={o['failOnEmpty']} exit={ses['exit']} nocollect={ses['nocollect']} "
                          f"lines={len(ses['lines'])}", "documented: 'No tests collected', exit 1 only with --fail-on-empty", None))
    else:
        if ses["collected"] != len(sel):
            fails.append((f"collected-count: printed={ses['collected']} documented={len(sel)}",
                          "-k / --slow must select exactly the documented subset", None))
        if judged != sel[:len(judged)]:
            fails.append(("verdict-lines-not-the-selection-in-order", f"judged {[NAMES[t] for t in judged]}, selection "
                          f"{[NAMES[t] for t in sel]}", None))
        vs = [obs_v[t] for t in judged]
        if len(judged) < len(sel) and not (o["stopOnFail"] and vs and vs[-1] in ("FAILED", "XPASS")):
            fails.append((f"run-stopped-without-failure: judged={len(judged)} selected={len(sel)} x={o['stopOnFail']}",
                          "selected tests were left without verdict", None))
        if o["stopOnFail"] and "FAILED" in vs[:-1]:
            fails.append(("continued-after-FAILED-under-x", "-x must stop after the first failure", None))
        if ses["summary"] is None:
            fails.append(("no-summary-line", "the session printed no summary", None))
        else:
            want = {k: 0 for k in CNT_KEYS}
            for v in [ln["v"] for ln in ses["lines"]]:
                want[CNT_OF[v]] += 1
            if ses["summary"] != want:
                fails.append(("summary-differs-from-verdict-lines", f"summary {ses['summary']} vs lines {want}", None))
        bad = any(v in ("FAILED", "XPASS") for v in [ln["v"] for ln in ses["lines"]])
        if (ses["exit"] != 0) != bad:
            fails.append((f"exit-status-inconsistent-with-verdict-lines: exit={ses['exit']} failing-lines={bad}",
                          "exit status must be non-zero iff a FAILED or XPASS verdict was printed", None))
    return fails, harness, obs_v, e


def events(sc, ses, harness):
    """the session as steps of run_tests for RunnerTrace; None if the output cannot be mapped onto steps"""
    name_t = {n: i + 1 for i, n in enumerate(NAMES)}
    ev = [{"e": "scenario", "id": sc["id"], "truth": sc["truth"], "marks": sc["marks"], "matches": sc["matches"],
           "opt": sc["opt"], "harness": harness}]
    if ses["nofiles"]:
        return None
    ev.append({"e": "discover"})
    if ses["nocollect"] and ses["collected"] is None:
        ev.append({"e": "select", "n": 0})
        ev.append({"e": "nocollect", "code": ses["exit"]})
        return ev
    if ses["collected"] is None or ses["summary"] is None:
        return None
    ev.append({"e": "select", "n": ses["collected"]})
    ev.append({"e": "session", "n": ses["collected"]})
    for ln in ses["lines"]:
        t = name_t.get(ln["name"])
        if t is None:
            return None
        if ln["v"] == "SKIPPED":
            ev.append({"e": "skip", "t": t, "v": ln["v"]})
        else:
            ev.append({"e": "run", "t": t, "begin": ses["begin"][t - 1], "end": ses["end"][t - 1]})
            ev.append({"e": "judge", "t": t, "v": ln["v"]})
    ev.append({"e": "summary", "c": ses["summary"], "begins": ses["begin"]})
    ev.append({"e": "exit", "code": ses["exit"]})
    return ev


def validate(ctx, sessions, tag):
    """B2. sessions: [(payload, events)]. Returns number accepted; reports rejected ones."""
    if not sessions:
        return 0

    def tlc_on(chunk, name):
        path = os.path.join(ctx.work, f"trace_{name}.ndjson")
        with open(path, "w") as fh:
            for _, evs in chunk:
                for e in evs:
                    fh.write(json.dumps(e) + "\n")
        return common.validate_trace(ctx, "RunnerTrace", path, timeout=600)

    ok, res = tlc_on(sessions, tag)
    if ok:
        return len(sessions)
    accepted = 0
    for k, (payload, evs) in enumerate(sessions):        # attribute the rejection: one session at a time
        ok, res = tlc_on([(payload, evs)], f"{tag}_{k}")
        if ok:
            accepted += 1
            continue
        rej = res["cases"].get("REJECT")
        if rej:
            at = rej[0].get("at", 1)
            sig = "trace-rejected:" + str(rej[0].get("ev", {}).get("e"))
            ctx.fail(sig, dict(payload, rejected_event=rej[0], steps_so_far=evs[:at]),
                     "a recorded step of the real session is not a behaviour of TestRunner")
        elif any("violated" in e for e in res["errors"]):
            inv = next((re.search(r"Invariant (\w+) is violated", e) for e in res["errors"] if "violated" in e), None)
            ctx.fail("trace-violates-invariant:" + (inv.group(1) if inv else "?"), dict(payload, errors=res["errors"], steps=evs),
                     "a recorded real session violates a C16 invariant of TestRunner")
        else:
            common.log(res["text_tail"])
            raise ToolError("RunnerTrace failed without a REJECT line")
    return accepted


def known(ctx, sig):
    return any(f.get("property") == ctx.prop and common.sig_match(f, sig) for f in ctx.findings.get("findings", []))


def do_scenario(ctx, sc, exps, rnd, n, real=None):
    """realise, run (one retry of the whole session when something uncatalogued shows up), analyse"""
    last = None
    for attempt in (1, 2):
        r = realise(ctx, sc, rnd, n, real)
        ses = run_session(ctx, r)
        fails, harness, obs_v, e = analyse(sc, r, ses, exps)
        last = (r, ses, fails, harness, obs_v, e)
        if all(known(ctx, f[0]) for f in fails):
            break
        real = {k: r[k] for k in ("layout", "verbose", "long_x", "reasons", "suffix_name")}
    return last


def payload_of(sc, r, ses, e, obs_v=None):
    return {"scenario": sc, "real": {k: r[k] for k in ("layout", "verbose", "long_x", "reasons", "suffix_name")},
            "flags": r["flags"], "files": r["files"], "documented": e,
            "session": {k: ses[k] for k in ("cmd", "exit", "collected", "lines", "summary", "nocollect", "begin", "end", "stray",
                                            "stdout", "stderr_tail")}}


def classifier_selftest(ctx, n=6000):
    """Development-time vetting (VERIF_C16_SELFTEST=<n>): for every scenario of a big random pool the session that
    the EMPTY-harness machine (= the pinned tree) produces is synthesised from TLC's CASE lines, pushed through the
    B1 classifier and through RunnerTrace: only catalogued signatures may come out and every session must be accepted.
    This is how 'quiet on the unchanged tree for every seed' was vetted (3 pools, 21 383 scenarios)."""
    rnd = common.rng(ctx, "selftest")
    pool, seen = [], set()
    for s in fixed_scenarios() + [random_scenario(rnd) for _ in range(n)]:
        if sc_key(s) not in seen:
            seen.add(sc_key(s))
            s["id"] = len(pool) + 1
            pool.append(s)
    exp = expectations(ctx, pool, "st")
    res = common.tlc(ctx, "MC_TestRunner", cfg="MC_TestRunner_cases_asis", workers=4, timeout=600, quiet=True,
                     env_extra={"SCEN": os.path.join(ctx.work, "scen_st.ndjson")})
    common.require_tlc_ok(ctx, res, "empty-harness case generation")
    asis = {c["id"]: c for c in res["cases"]["CASE"] if not c["xpassStops"]}
    bad, sessions = {}, []
    for sc in pool:
        a = asis[sc["id"]]
        empty = not a["sel"]
        ses = {"exit": a["exit"], "collected": None if empty else len(a["sel"]), "summary": None if empty else a["cnt"],
               "lines": [{"file": "test_f1.incn", "name": NAMES[t - 1], "v": a["verdict"][t - 1], "extra": None}
                         for t in list(a["sel"])[:a["nlines"]]],
               "nocollect": empty, "nofiles": False, "malformed": [], "begin": a["ran"], "end": a["fin"], "stray": []}
        fails, harness, _, _ = analyse(sc, {"file_of": {t: "test_f1.incn" for t in (1, 2, 3)}}, ses, exp[sc["id"]])
        for sig, _, _ in fails:
            if not known(ctx, sig):
                bad.setdefault(sig, sc)
        sessions.append(({"scenario": sc}, events(sc, ses, harness)))
    acc = validate(ctx, sessions, "st")
    common.log(f"[c16 selftest] {len(pool)} synthetic empty-harness sessions: uncatalogued signatures {list(bad)[:5]}, "
               f"RunnerTrace accepted {acc}")
    if bad or acc != len(sessions):
        raise ToolError(f"classifier self-test failed: {json.dumps(bad)[:600]}")


def run(ctx):
    rnd = common.rng(ctx, "c16")
    if os.environ.get("VERIF_C16_SELFTEST"):
        classifier_selftest(ctx, int(os.environ["VERIF_C16_SELFTEST"]))
    # ---------------------------------------------------------------- the model
    with ctx.timed("tlc_model"):
        # _1 also checks <>(pc = "done") as a temporal property; _2/_3: invariants, deadlock freedom, decreasing measure
        for cfg in (["MC_TestRunner_1", "MC_TestRunner_2"] if ctx.quick else ["MC_TestRunner_1", "MC_TestRunner_2", "MC_TestRunner_3"]):
            r = common.tlc(ctx, "MC_TestRunner", cfg=cfg, workers=8, timeout=2400, want_tags=(), java_opts="-Xmx12g", quiet=True)
            common.require_tlc_ok(ctx, r, "TestRunner invariants")
        neg = common.tlc(ctx, "MC_TestRunner", cfg="MC_TestRunner_asis", workers=2, timeout=300, want_tags=(), quiet=True)
        if neg["ok"] or not any("PassedMeansRanAndPassed is violated" in e for e in neg["errors"]):
            raise ToolError("the empty-harness machine did not violate PassedMeansRanAndPassed (vacuous invariant?)")
        ctx.tlc_runs[-1]["ok"] = "violates PassedMeansRanAndPassed, as required"
    # ---------------------------------------------------------------- scenarios
    with ctx.timed("tlc_cases"):
        chosen, exp = choose(ctx, rnd)
    common.build_harness()
    for d in os.listdir(ctx.work):
        if re.match(r"^\d{3}$", d):
            shutil.rmtree(os.path.join(ctx.work, d), ignore_errors=True)
    sessions, nrun, nexec, distinct = [], 0, 0, set()
    lock = open(os.path.join(ctx.work, "run.lock"), "w")
    fcntl.flock(lock, fcntl.LOCK_EX)                    # one user of work/C16/run/target at a time
    try:
        with ctx.timed("sessions"):
            for n, sc in enumerate(chosen, 1):
                r, ses, fails, harness, obs_v, e = do_scenario(ctx, sc, exp[sc["id"]], rnd, n)
                nrun += 1
                nexec += sum(1 for v in obs_v if v in EXEC)
                if any(v != "none" for v in e["verdict"]):
                    distinct.add(sc_key(sc))
                pl = payload_of(sc, r, ses, e)
                for sig, what, detail in fails:
                    ctx.fail(sig, dict(pl, detail=detail), what)
                evs = events(sc, ses, harness)
                if evs is None:
                    ctx.fail("session-not-a-run-of-the-runner", pl, "the output cannot be mapped onto the steps of run_tests")
                else:
                    sessions.append((pl, evs))
                ctx.sample({"scenario": {k: sc[k] for k in ("truth", "marks", "matches", "opt")}, "cmd": ses["cmd"],
                            "documented": {k: e[k] for k in ("verdict", "ran", "fin", "cnt", "exit")},
                            "observed": {"lines": [[l["name"], l["v"]] for l in ses["lines"]], "summary": ses["summary"],
                                         "exit": ses["exit"], "begin": ses["begin"], "end": ses["end"]}}, cap=4)
                common.log(f"[c16] {n}/{len(chosen)} {ses['cmd'].split(' ', 2)[-1] if ' ' in ses['cmd'] else ''} "
                           f"-> {[l['v'] for l in ses['lines']]} exit={ses['exit']} {ses['wall_s']}s")
    finally:
        fcntl.flock(lock, fcntl.LOCK_UN)
        lock.close()
    # ---------------------------------------------------------------- B2
    with ctx.timed("tlc_trace"):
        accepted = validate(ctx, sessions, "all")
        # binding self-test: a session with one corrupted field (summary count / exit status) must be rejected
        good = next((evs for _, evs in sessions if evs[-1]["e"] == "exit" and evs[-2]["e"] == "summary"), None)
        if good is not None and not ctx.violations:
            for how in ("summary", "exit"):
                bad = json.loads(json.dumps(good))
                if how == "summary":
                    bad[-2]["c"]["passed"] += 1
                else:
                    bad[-1]["code"] = 1 - bad[-1]["code"]
                path = os.path.join(ctx.work, "trace_selftest.ndjson")
                with open(path, "w") as fh:
                    fh.write("\n".join(json.dumps(e) for e in bad) + "\n")
                ok, res = common.validate_trace(ctx, "RunnerTrace", path, timeout=300)
                if ok or not res["cases"].get("REJECT"):
                    raise ToolError(f"RunnerTrace accepted a session with a corrupted {how}: the trace validation is vacuous")
                ctx.tlc_runs[-1]["ok"] = f"rejects a session with a corrupted {how}, as required (self-test)"
    common.write_evidence(ctx, "model_checking", {
        "states": sum(r["distinct"] for r in ctx.tlc_runs),
        "transitions": sum(r["states"] for r in ctx.tlc_runs),
        "traces_validated_against_impl": accepted,
        "evaluations": nrun,
        "distinct_nontrivial": len(distinct),
        "rule": "TLC: every scenario (ground truth x marker set x keyword match per test, options, open -x/XPASS choice) with 2 "
                "(quick) / 2 and 3 (thorough) tests. Real sessions: scenarios with 3 tests drawn by the seed from a random pool, "
                "greedily covering every effective feature (executed outcome x xfail, skip, slow in/excluded, -k in/excluded, -x "
                "stop / no stop, empty selection with/without --fail-on-empty, exit 0/1) and, thorough, pairs of scenario "
                "attributes; non-trivial = distinct scenarios in which the specification judges at least one test",
        "sessions_run": nrun, "test_bodies_the_runner_claims_to_have_executed": nexec,
        "exhaustive": True,
    }, assumptions=[
        "fixtures, parametrize and async tests are outside the model (test functions take no parameters)",
        "evidence of execution = marker files written by the first / last statement of each body (write_file builtin)",
        "a test in a file that does not type-check ('nobuild') must be reported FAILED (XFAIL under @xfail): 'failed otherwise'",
        "whether -x also stops after XPASS is left open by the documentation: both behaviours are accepted",
        "while the catalogued defect (no #[test] is generated) is present no body runs: ground-truth-dependent verdicts are "
        "only observable for 'nobuild'; selection, skip, inversion, -x, counts and exit status are checked relative to the "
        "verdict the runner believes",
    ])


def replay(ctx, path):
    case = json.load(open(path))["case"]
    sc = norm(case["scenario"])
    sc["id"] = 1
    exps = expectations(ctx, [sc], "replay")[1]
    common.build_harness()
    real = case.get("real")
    if real:
        real["layout"] = [list(g) for g in real["layout"]]
    rnd = common.rng(ctx, "c16-replay")
    lock = open(os.path.join(ctx.work, "run.lock"), "w")
    fcntl.flock(lock, fcntl.LOCK_EX)
    try:
        r, ses, fails, harness, obs_v, e = do_scenario(ctx, sc, exps, rnd, 999, real)
    finally:
        fcntl.flock(lock, fcntl.LOCK_UN)
        lock.close()
    print(ses["stdout"])
    print(json.dumps({"cmd": ses["cmd"], "exit": ses["exit"], "begin": ses["begin"], "end": ses["end"], "documented": e}, indent=1))
    pl = payload_of(sc, r, ses, e)
    for sig, what, detail in fails:
        ctx.fail(sig, dict(pl, detail=detail), what)
    evs = events(sc, ses, harness)
    if evs is not None:
        validate(ctx, [(pl, evs)], "replay")
    print("recorded signature:", json.load(open(path)).get("signature"))
