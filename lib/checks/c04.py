"""C04 — arithmetic follows the documented Python-style semantics for all operands.

Model: spec/PyArith.tla (definitions, laws, transcriptions of both kernel copies).
 (a) TLC, exhaustive window: definitions satisfy the laws, laws determine (q, r), transcriptions
     equal definitions, dyadic-float laws; prints the B1 table.
 (b) Apalache, ALL admissible i64 pairs: KernelsOK /\\ NoOverflow (PyArithI64.tla).
Binding:
 B1  every table row against every copy of every kernel (core / stdlib generic / stdlib suffixed),
     ints, dyadic floats and every int/float pairing; zero divisors must raise the canonical text.
 B3  calls recorded from the real kernels on a 64-bit boundary grid + seeded random operands are
     written as a constant trace and validated by Apalache against PyArith's Law / transcriptions.
 QA  the spec table itself is compared with CPython (documentation: "exactly as in Python").
"""
import os
import shutil
from fractions import Fraction

from lib import common
from lib.common import ToolError

ZDE = "ZeroDivisionError: float division by zero"
I64MIN, I64MAX = -2**63, 2**63 - 1


def ival(v):
    return {"t": "int", "v": v}


def fval(n, d=3):
    return {"t": "float", "n": n, "d": d}


def obs_value(o):
    """harness number -> ('int', n) / ('float', Fraction or None) / ('panic', msg)"""
    if "panic" in o:
        return ("panic", o["panic"])
    if o.get("t") == "int":
        return ("int", o["v"])
    if o.get("t") == "float":
        if o.get("f") is None:
            return ("float", None)
        return ("float", Fraction(float(o["f"])))
    return ("?", o)


def run(ctx):
    cfg = "MC_PyArith_quick" if ctx.quick else "MC_PyArith"
    with ctx.timed("tlc"):
        res = common.tlc(ctx, "MC_PyArith", cfg=cfg, workers=8, timeout=1500)
    common.require_tlc_ok(ctx, res, "PyArith window check")
    rows = res["cases"]["CASE"]
    if len(rows) < 100:
        raise ToolError("TLC printed too few PyArith rows")

    # QA of the specification against CPython (not a verdict about Incan)
    for r in rows:
        if not r["z"]:
            if r["q"] != r["a"] // r["b"] or r["r"] != r["a"] % r["b"]:
                raise ToolError(f"spec/PyArith disagrees with CPython on {r}")

    with ctx.timed("apalache_all_i64"):
        ap = common.apalache(ctx, "MC_PyArithI64", ["--init=Init", "--next=Next", "--inv=Inv", "--length=0"], timeout=600)
    if not ap["ok"]:
        if ap["error_outcome"]:
            raise ToolError("Apalache found a counterexample in the transcribed kernels (spec/PyArithI64): " + (ap["cex"] or "")[:800])
        raise ToolError("Apalache failed: " + ap["tail"])

    # ---------------------------------------------------------------- B1
    reqs, meta = [], []
    for r in rows:
        a, b = r["a"], r["b"]
        for fn in ("mod", "floordiv", "div"):
            reqs.append({"op": "num", "fn": fn, "a": ival(a), "b": ival(b)})
            meta.append((fn, "int", "int", r))
        # dyadic floats a/8, b/8 and mixed pairings
        pairings = [("float", "float")]
        if a % 8 == 0:
            pairings.append(("int", "float"))
        if b % 8 == 0:
            pairings.append(("float", "int"))
        for lt, rt in pairings:
            av = ival(a // 8) if lt == "int" else fval(a)
            bv = ival(b // 8) if rt == "int" else fval(b)
            for fn in ("mod", "floordiv", "div"):
                reqs.append({"op": "num", "fn": fn, "a": av, "b": bv})
                meta.append((fn, lt, rt, r))
    with ctx.timed("replay_b1"):
        outs = common.replay_batch(reqs)
    n_eval = 0
    distinct = set()
    for (fn, lt, rt, r), q, o in zip(meta, reqs, outs):
        if "crash" in o:
            ctx.fail("kernel-crash", {"req": q, "out": o}, "process died")
            continue
        for copy, val in o["obs"].items():
            n_eval += 1
            kind, v = obs_value(val)
            isfloat = (lt == "float" or rt == "float")
            if r["z"]:
                if not (kind == "panic" and v == ZDE):
                    ctx.fail(f"zero-divisor:{fn}:{copy}:{lt}/{rt}", {"req": q, "copy": copy, "obs": val, "expected": ZDE})
                continue
            if fn == "div":
                # a / b with ints promoted: exact expectation from the spec when the quotient is dyadic
                if kind != "float":
                    ctx.fail(f"div-not-float:{copy}", {"req": q, "copy": copy, "obs": val})
                elif r["dx"]:
                    exp = Fraction(r["dq"], 1024)
                    if v != exp:
                        ctx.fail(f"div-wrong:{copy}:{lt}/{rt}", {"req": q, "copy": copy, "obs": val, "expected": str(exp)})
                else:
                    # inexact quotient: IEEE oracle (CPython true division is correctly rounded)
                    num = Fraction(r["a"], 8) if lt == "float" else Fraction(r["a"] // 8 if isfloat else r["a"])
                    den = Fraction(r["b"], 8) if rt == "float" else Fraction(r["b"] // 8 if isfloat else r["b"])
                    exp = Fraction(float(num) / float(den))
                    if v != exp:
                        ctx.fail(f"div-rounding:{copy}:{lt}/{rt}", {"req": q, "copy": copy, "obs": val, "expected": str(exp)})
                continue
            if not isfloat:
                exp = r["r"] if fn == "mod" else r["q"]
                if not (kind == "int" and v == exp):
                    ctx.fail(f"int-{fn}-wrong:{copy}", {"req": q, "copy": copy, "obs": val, "expected": exp})
            else:
                exp = Fraction(r["r"], 8) if fn == "mod" else Fraction(r["q"])
                if not (kind == "float" and v == exp):
                    ctx.fail(f"float-{fn}-wrong:{copy}:{lt}/{rt}", {"req": q, "copy": copy, "obs": val, "expected": str(exp)})
        if not r["z"] and (r["r"] != 0) and (r["a"] < 0) != (r["b"] < 0):
            distinct.add((fn, lt, rt, r["a"], r["b"]))
    ctx.sample({"row": rows[len(rows) // 3], "req": reqs[7], "obs": outs[7]["obs"]})

    # ---------------------------------------------------------------- B3: 64-bit recorded calls -> Apalache
    rnd = common.rng(ctx, "i64")
    grid = [I64MIN, I64MIN + 1, -2**62, -2**32 - 1, -2**32, -2**31, -3, -2, -1, 0, 1, 2, 3, 2**31, 2**32, 2**62,
            I64MAX - 1, I64MAX]
    pairs = [(a, b) for a in grid for b in grid]
    nrand = 40 if ctx.quick else 1500
    for _ in range(nrand):
        k = rnd.choice([8, 16, 33, 62, 63])
        a = rnd.randint(-2**k, 2**k - 1)
        b = rnd.randint(-2**rnd.choice([2, 8, 33, 63]), 2**rnd.choice([2, 8, 33, 63]) - 1)
        pairs.append((a, b))
    if ctx.quick:
        # quick: the grid rows around the extremes plus the random ones
        keep = [p for p in pairs[:len(grid) ** 2] if (abs(p[0]) > 2**61 or abs(p[1]) > 2**61 or abs(p[1]) <= 3)]
        pairs = rnd.sample(keep, min(len(keep), 110)) + pairs[len(grid) ** 2:]
    reqs2 = []
    for a, b in pairs:
        reqs2.append({"op": "num", "fn": "mod", "a": ival(a), "b": ival(b)})
        reqs2.append({"op": "num", "fn": "floordiv", "a": ival(a), "b": ival(b)})
    with ctx.timed("replay_i64"):
        outs2 = common.replay_batch(reqs2)
    events = []   # (a, b, qcore, rcore, qstd, rstd)
    for k, (a, b) in enumerate(pairs):
        om, of = outs2[2 * k], outs2[2 * k + 1]
        if "crash" in om or "crash" in of:
            ctx.fail("kernel-crash-i64", {"a": a, "b": b, "out": [om, of]})
            continue
        if b == 0:
            for o in (om, of):
                for copy, val in o["obs"].items():
                    n_eval += 1
                    if val.get("panic") != ZDE:
                        ctx.fail(f"zero-divisor-i64:{copy}", {"a": a, "b": b, "obs": val})
            continue
        excluded = (a == I64MIN and b == -1)
        vals = {}
        bad = False
        for nm, o in (("r", om), ("q", of)):
            for copy, val in o["obs"].items():
                n_eval += 1
                kind, v = obs_value(val)
                if kind != "int":
                    if excluded and nm == "q":
                        continue    # i64::MIN // -1 is outside the property
                    ctx.fail(f"i64-{'mod' if nm == 'r' else 'floordiv'}-failure:{copy}", {"a": a, "b": b, "obs": val})
                    bad = True
                else:
                    vals[(nm, copy)] = v
        if bad or excluded:
            continue
        # agreement of the copies is part of the property; Apalache then checks the law on core's answers
        for nm in ("r", "q"):
            vs = {c: v for (n, c), v in vals.items() if n == nm}
            if len(set(vs.values())) != 1:
                ctx.fail(f"i64-copies-disagree:{'mod' if nm == 'r' else 'floordiv'}", {"a": a, "b": b, "obs": vs})
                bad = True
        if not bad:
            events.append((a, b, vals[("q", "core")], vals[("r", "core")]))
            distinct.add(("i64", a, b))
            # secondary oracle: CPython big-int arithmetic
            if vals[("q", "core")] != a // b or vals[("r", "core")] != a % b:
                ctx.fail("i64-differs-from-python", {"a": a, "b": b, "q": vals[("q", "core")], "r": vals[("r", "core")]})
    validated = 0
    with ctx.timed("apalache_trace"):
        chunk = 150
        for i in range(0, len(events), chunk):
            ok, info = validate_kernel_trace(ctx, events[i:i + chunk], i // chunk)
            if ok:
                validated += len(events[i:i + chunk])
            else:
                # find the offending events by the spec's own definitions re-evaluated exactly in Python
                ctx.fail("i64-trace-rejected", {"events": events[i:i + chunk][:20], "apalache": info},
                         "Apalache rejected a recorded kernel trace (Law violated)")
    if events:
        ctx.sample({"recorded_i64_event(a,b,q,r)": events[0]})
        ctx.sample({"recorded_i64_event(a,b,q,r)": events[len(events) // 2]})

    # ---------------------------------------------------------------- random finite f64 (secondary oracle: CPython)
    import struct
    nflt = 2000 if ctx.quick else 40000
    reqs3, exp3 = [], []
    for _ in range(nflt):
        def rf():
            c = rnd.random()
            if c < 0.3:
                return float(rnd.randint(-50, 50)) / rnd.choice([1, 2, 4, 8, 3, 10])
            if c < 0.6:
                return rnd.uniform(-1e6, 1e6)
            m = rnd.uniform(-1, 1)
            return m * 10.0 ** rnd.randint(-30, 30)
        a, b = rf(), rf()
        bits = lambda x: str(struct.unpack("<Q", struct.pack("<d", x))[0])
        for fn in ("mod", "floordiv", "div"):
            reqs3.append({"op": "num", "fn": fn, "a": {"t": "float", "bits": bits(a)}, "b": {"t": "float", "bits": bits(b)}})
            exp3.append((fn, a, b))
    with ctx.timed("replay_f64"):
        outs3 = common.replay_batch(reqs3)
    import math
    for (fn, a, b), q, o in zip(exp3, reqs3, outs3):
        for copy, val in o["obs"].items():
            n_eval += 1
            kind, v = obs_value(val)
            if b == 0.0:
                if not (kind == "panic" and v == ZDE):
                    ctx.fail(f"zero-divisor:{fn}:{copy}:f64", {"a": a, "b": b, "obs": val})
                continue
            if kind != "float" or v is None:
                # overflow to inf is IEEE behaviour for div; anything else is a failure
                if kind == "float" and v is None and fn in ("div", "floordiv") and math.isinf(a / b):
                    continue
                ctx.fail(f"f64-{fn}-failure:{copy}", {"a": a, "b": b, "obs": val})
                continue
            if fn == "mod":
                exp = Fraction(a % b)
                # C04's own law (sign of divisor, |r| <= |b| after rounding, congruent)
                if v != exp:
                    ctx.fail(f"f64-mod-differs-from-python:{copy}", {"a": a, "b": b, "obs": val, "expected": a % b})
            elif fn == "floordiv":
                exp = Fraction(math.floor(a / b)) if math.isfinite(a / b) else None
                if exp is not None and v != exp:
                    ctx.fail(f"f64-floordiv-not-floor-of-quotient:{copy}", {"a": a, "b": b, "obs": val, "expected": float(exp)})
            else:
                if v != Fraction(a / b):
                    ctx.fail(f"f64-div-not-ieee:{copy}", {"a": a, "b": b, "obs": val, "expected": a / b})

    # ---------------------------------------------------------------- the ROUTES to the kernels (spec/GenDiv.tla), end to end:
    # `/ // %` as binary operators and as compound assignments on a variable, a list element, a dict value, a field and a
    # field reached through `mut self`, every sign combination and a zero divisor, int and dyadic float operands
    from lib import pipeline
    with ctx.timed("tlc_routes"):
        gd = common.tlc(ctx, "GenDiv", cfg="GenDiv", workers=4, timeout=900)
    common.require_tlc_ok(ctx, gd, "GenDiv / OnlyZeroDivision / ZeroText")
    drows = gd["cases"]["CASE"]
    if ctx.quick:
        # every (operator, target, kinds) once per run, signs rotating with the seed
        rnd = common.rng(ctx, "c04-routes")
        groups = {}
        for r in drows:
            groups.setdefault(tuple(sorted(t for t in r["feats"] if not t.startswith("sign:"))), []).append(r)
        drows = [rnd.choice(groups[g]) for g in sorted(groups)] + rnd.sample(drows, 30)
    dcases = [pipeline.div_case(r, k) for k, r in enumerate(drows)]
    pipeline.self_check_progs(ctx, dcases)
    with ctx.timed("e2e_routes"):
        dev = pipeline.evaluate(ctx, dcases, per_batch=40)
    n_routes = 0
    for c, e in zip(dcases, dev):
        if e["stage"] in ("ran", "abort"):
            n_routes += 1
            n_eval += 1
            distinct.add(("route",) + tuple(c["tags"]))
            if e["symptom"]:
                ctx.fail("route:" + e["symptom"], {"src": c["body"], "decls": c["decls"], "detail": e["detail"],
                                                   "expected": c["expect"]}, "the division family reached through this target form "
                         "does not compute the documented value / failure", tags=c["tags"])
        elif e["stage"] in ("emit", "build"):
            ctx.stats.setdefault("routes_not_built(C02 material)", []).append(c["tags"])
        elif e["stage"] == "check":
            ctx.stats.setdefault("routes_rejected_by_checker", []).append(c["tags"])
    ctx.stats["routes_run"] = n_routes
    if n_routes < len(dcases) // 2:
        raise ToolError(f"only {n_routes} of {len(dcases)} division-route programs could be built and run")

    common.write_evidence(ctx, "model_checking", {
        "states": sum(r["states"] for r in ctx.tlc_runs),
        "transitions": sum(r["states"] for r in ctx.tlc_runs),
        "traces_validated_against_impl": validated,
        "evaluations": n_eval,
        "distinct_nontrivial": len(distinct),
        "rule": "B1: every TLC table row (ints and dyadic floats k/8, every int/float pairing) x every kernel copy; "
                "non-trivial = operands of opposite sign with non-zero remainder (the sign-correction branch), distinct "
                "by (fn, types, a, b); plus distinct 64-bit recorded events; plus GenDiv route programs (operator x target form x "
                "operand kinds x signs) compiled and run",
        "table_rows": len(rows),
        "i64_events_recorded": len(events),
        "apalache_all_i64": "KernelsOK /\\ NoOverflow for all admissible (a, b): NoError",
        "random_f64_pairs": nflt,
        "exhaustive": True,
    }, assumptions=[
        "floats: only dyadic values k/8 are specified exactly by PyArith; arbitrary finite f64 pairs are judged "
        "against CPython (the documentation's reference) and IEEE division",
        "Apalache's SMT encoding of integer arithmetic is trusted for the all-i64 obligation",
        "i64::MIN // -1 is outside the property and not judged",
    ])


def validate_kernel_trace(ctx, events, n):
    """Write the recorded events as a constant sequence into a generated module that EXTENDS
    PyArithI64 and let Apalache check the law + transcriptions on every event."""
    d = os.path.join(ctx.work, f"ktrace_{os.getpid()}_{n}")
    os.makedirs(d, exist_ok=True)
    for f in ("PyArith.tla", "PyArithI64.tla", "KernelTrace.tla"):
        shutil.copy(os.path.join(common.SPEC, f), d)
    body = ",\n  ".join(f"<<{a}, {b}, {q}, {r}>>" for a, b, q, r in events)
    with open(os.path.join(d, "KernelTraceData.tla"), "w") as fh:
        fh.write("-------------------------- MODULE KernelTraceData --------------------------\n"
                 "\\* generated by lib/checks/c04.py from calls recorded on the real kernels\n"
                 "EXTENDS Integers, Sequences\n"
                 "\\* @type: Seq(<<Int, Int, Int, Int>>);\n"
                 "Ev == <<\n  " + body + "\n>>\n"
                 "=============================================================================\n")
    import subprocess
    import time
    t = time.time()
    cmd = ["apalache-mc", "check", f"--out-dir={d}/out", "--init=TInit", "--next=TNext", "--inv=TraceOK", "--length=0",
           "KernelTrace.tla"]
    try:
        p = subprocess.run(cmd, cwd=d, stdout=subprocess.PIPE, stderr=subprocess.STDOUT, timeout=900)
    except subprocess.TimeoutExpired:
        shutil.rmtree(d, ignore_errors=True)
        raise ToolError("Apalache timeout on kernel trace")
    text = p.stdout.decode("utf-8", "replace")
    ok = "The outcome is: NoError" in text
    err = "The outcome is: Error" in text
    shutil.rmtree(d, ignore_errors=True)
    common.log(f"[apalache] KernelTrace chunk {n}: {len(events)} events ok={ok} {time.time() - t:.1f}s")
    ctx.tlc_runs.append({"module": "KernelTrace", "cfg": f"apalache chunk {n} ({len(events)} events)", "ok": ok,
                         "wall_s": round(time.time() - t, 1), "states": 1, "distinct": 1, "depth": 0, "cmd": " ".join(cmd)})
    if not ok and not err:
        raise ToolError("Apalache failed on kernel trace: " + "\n".join(text.splitlines()[-10:]))
    return ok, "\n".join(text.splitlines()[-6:])


def replay(ctx, path):
    import json
    case = json.load(open(path))["case"]
    req = case.get("req") or {"op": "num", "fn": "mod", "a": ival(case["a"]), "b": ival(case["b"])}
    out = common.replay_batch([req])[0]
    print(json.dumps({"req": req, "obs": out}, indent=1))
    print("recorded:", json.dumps(case, default=str)[:2000])
