"""C11 — the front end is total and its diagnostics are well-formed.

What the specification contributes (DESIGN §5 C11: this is the property where the model adds least):
 * spec/Layout.tla: every class string TLC enumerates (all layouts up to the bound, incl. inconsistent
   indentation and unbalanced brackets) with the exact oracle "lexes with / without error";
 * spec/Core.tla generators: valid programs that are then damaged by the mutation operators below;
 * spec/Diag.tla: DiagOK(d, doc) - span inside [0, len], on scalar boundaries, start <= end - evaluated
   by TLC on every recorded diagnostic (DiagTrace).
Monitored on every input, in process, each stage in a watchdog thread with catch_unwind (harness op
`pipeline`): lex, parse, check, format_source, try_generate terminate and return a value or a
non-empty error list; every diagnostic passes DiagOK; format_error (terminal) and
compile_error_to_diagnostic (editor) do not panic and give ordered ranges.
Mutation operators (seeded, applied to generated programs and corpus files): truncate at a byte /
token, delete / duplicate / swap tokens, unbalance a bracket, break indentation, unterminate a string /
f-string / escape, inject a non-ASCII or astral scalar, nest brackets / blocks to depth 32.
Outside the model, stated as such: all atom strings up to length 3 over a 30-atom alphabet.
"""
import glob
import itertools
import json
import os

from lib import clicontract, common, pipeline
from lib.checks import c10
from lib.common import ToolError

ATOMS = ["x", "1", "1.5", "\"s\"", "'", "\"", "f\"{x}\"", "f\"{", "b\"a\"", "(", ")", "[", "]", "{", "}", ":", "::", ",", ".", "..", "...",
         "=", "==", "=>", "->", "+", "-", "**", "//", "%", "@", "?", "!", "#", "\n", "\n    ", "\t", " ", "def", "if", "match", "case",
         "return", "é", "\U0001F600", "\\", "0x", "1e", "_"]


def mutants(src, classes, spans, rnd, n):
    b = src.encode("utf-8")
    toks = [(s, e) for c, (s, e) in zip(classes, spans) if e > s]
    out = []

    def sub(a, bb, ins=b""):
        return (b[:a] + ins + b[bb:]).decode("utf-8", "ignore")
    for _ in range(n):
        k = rnd.randrange(13)
        if k == 0:
            out.append(("truncate-byte", sub(rnd.randrange(len(b) + 1), len(b))))
        elif k == 1 and toks:
            s, e = rnd.choice(toks)
            out.append(("truncate-token", sub(e, len(b))))
        elif k == 2 and toks:
            s, e = rnd.choice(toks)
            out.append(("delete-token", sub(s, e)))
        elif k == 3 and toks:
            s, e = rnd.choice(toks)
            out.append(("duplicate-token", sub(e, e, b" " + b[s:e])))
        elif k == 4 and len(toks) > 1:
            i = rnd.randrange(len(toks) - 1)
            (s1, e1), (s2, e2) = toks[i], toks[i + 1]
            out.append(("swap-tokens", (b[:s1] + b[s2:e2] + b[e1:s2] + b[s1:e1] + b[e2:]).decode("utf-8", "ignore")))
        elif k == 5:
            pos = rnd.randrange(len(b) + 1)
            out.append(("unbalance-bracket", sub(pos, pos, rnd.choice([b"(", b")", b"[", b"]", b"{", b"}"]))))
        elif k == 6:
            lines = src.split("\n")
            i = rnd.randrange(len(lines))
            lines[i] = rnd.choice([" ", "   ", "\t", "     "]) + lines[i]
            out.append(("break-indentation", "\n".join(lines)))
        elif k == 7:
            pos = rnd.randrange(len(b) + 1)
            out.append(("unterminated-literal", sub(pos, pos, rnd.choice([b'"', b"'", b'f"{', b'"""', b'"\\', b'b"\\x', b"f'{x", b'f"{{']))))
        elif k == 8:
            pos = rnd.randrange(len(b) + 1)
            out.append(("inject-scalar", sub(pos, pos, rnd.choice(["é", "€", "\U0001F600", "​", "́", "﻿", "ß"]).encode())))
        elif k == 9:
            d = rnd.choice([8, 32])
            out.append(("deep-brackets", src + "\ndef zz() -> None:\n    v = " + "(" * d + "1" + ")" * d + "\n"))
        elif k == 10:
            d = rnd.choice([8, 32])
            body = "def zz() -> None:\n" + "".join("    " * (i + 1) + "if true:\n" for i in range(d)) + "    " * (d + 1) + "pass\n"
            out.append(("deep-blocks", src + "\n" + body))
        elif k == 11 and toks:
            s, e = rnd.choice(toks)
            out.append(("replace-token", sub(s, e, rnd.choice(ATOMS).encode())))
        elif k == 12 and toks:
            # the rest of ONE line is lost (the line break and the following lines stay): the diagnostic starts at a line end
            s, e = rnd.choice(toks)
            nl = b.find(b"\n", e)
            out.append(("cut-line-tail", sub(e, nl if nl >= 0 else len(b))))
    # the line-ending dimension: a damaged file is as likely to have CRLF line endings / no final newline as a good one
    for op, text in list(out):
        r = rnd.randrange(4)
        if r == 0:
            out.append((op + "+crlf", text.replace("\r\n", "\n").replace("\n", "\r\n")))
        elif r == 1 and text.endswith("\n"):
            out.append((op + "+no-final-newline", text.rstrip("\n")))
    return out


def run(ctx):
    rnd = common.rng(ctx, "c11")
    inputs = []
    # (1) every layout TLC enumerates, with the model's verdict on lexing
    with ctx.timed("tlc"):
        lay = common.tlc(ctx, "MC_Layout", cfg="MC_Layout_quick", workers=8, timeout=3000)
        common.require_tlc_ok(ctx, lay, "Layout")
        ge = common.tlc(ctx, "GenExpr", cfg="GenExpr_d1", workers=8, timeout=3000)
        gp = common.tlc(ctx, "GenProg", cfg="GenProg_s2", workers=8, timeout=3000)
    lrows = lay["cases"]["CASE"]
    if ctx.quick and len(lrows) > 3000:
        lrows = rnd.sample(lrows, 3000)
    for r in lrows:
        inputs.append(("layout", c10.render(r["text"]), r["err"]))
    # (2) generated valid programs and corpus files, damaged by the mutation operators
    seeds = []
    er, pr = ge["cases"]["CASE"], gp["cases"]["CASE"]
    for k, r in enumerate(rnd.sample(er, min(len(er), 60 if ctx.quick else 600))):
        c = pipeline.expr_case(r, k)
        seeds.append("def main() -> None:\n" + "".join("    " + l + "\n" for l in c["body"]))
    for k, r in enumerate(rnd.sample(pr, min(len(pr), 60 if ctx.quick else 600))):
        c = pipeline.prog_case(r, k)
        seeds.append(pipeline.HELPER.replace("{N}", "") + "\ndef main() -> None:\n" + "".join("    " + l.replace("{N}", "") + "\n" for l in c["body"]))
    files = sorted(glob.glob(os.path.join(common.VERIF, "corpus", "**", "*.incn"), recursive=True))
    for f in files:
        seeds.append(open(f, encoding="utf-8").read())
    from lib import gensyntax                           # spec/GenSyntax.tla: rows of the surface grammar as seeds of the mutations
    seeds += [src for _, src in gensyntax.sample_sources(ctx, 80 if ctx.quick else 800, "c11-syntax")]
    louts = common.replay_batch([{"op": "lex", "src": s} for s in seeds], timeout=1800)
    per = 6 if ctx.quick else 40
    for s, lo in zip(seeds, louts):
        inputs.append(("valid", s, None))
        ob = lo.get("obs", {})
        cl, sp = (ob.get("classes", []), ob.get("spans", [])) if ob.get("ok") else ([], [])
        for kind, m in mutants(s, cl, sp, rnd, per):
            inputs.append((kind, m, None))
    # (2b) the literal grammar (spec/GenLit.tla): every piece sequence, closed and cut off at the end of the file
    with ctx.timed("tlc_lit"):
        gl = common.tlc(ctx, "GenLit", cfg="GenLit_2", workers=8, timeout=3000)
        common.require_tlc_ok(ctx, gl, "GenLit")
        glrows = gl["cases"]["CASE"]
        if not ctx.quick:
            g3 = common.tlc(ctx, "GenLit", cfg="GenLit_3", workers=8, timeout=6000)
            common.require_tlc_ok(ctx, g3, "GenLit")
            glrows = glrows + rnd.sample(g3["cases"]["CASE"], min(len(g3["cases"]["CASE"]), 150000))
    if ctx.quick:
        must = [r for r in glrows if r["pieces"] <= 1 or (not r["closed"] and not r["text"].endswith("<NL>"))]
        rest = [r for r in glrows if not (r["pieces"] <= 1 or (not r["closed"] and not r["text"].endswith("<NL>")))]
        glrows = must + rnd.sample(rest, min(len(rest), 2500))
    for r in glrows:
        inputs.append(("literal", r["text"].replace("<NL>", "\n").replace("<E>", "é").replace("<U>", "\U0001F600"), None))
    # (2c) ill-formed generic types (spec/GenArity.tla): a constructor applied to the wrong number of arguments, then used
    with ctx.timed("tlc_arity"):
        ga = common.tlc(ctx, "GenArity", cfg="GenArity", workers=4, timeout=900)
        common.require_tlc_ok(ctx, ga, "GenArity")
    arows = ga["cases"]["CASE"]
    if ctx.quick:
        arows = rnd.sample(arows, min(len(arows), 1500))
    for r in arows:
        inputs.append(("type-arity", r["text"].replace("<NL>", "\n") + "\ndef main() -> None:\n    pass\n", None))
    # (2d) ill-founded declaration graphs (spec/GenDeclGraph.tla): cycles / dangling references through extends, field
    # types, newtype underlying types, variant payloads, trait signatures, in every declaration order
    with ctx.timed("tlc_declgraph"):
        gg = common.tlc(ctx, "GenDeclGraph", cfg="GenDeclGraph_2" if ctx.quick else "GenDeclGraph_3", workers=4, timeout=1800)
        common.require_tlc_ok(ctx, gg, "GenDeclGraph")
    grows = gg["cases"]["CASE"]
    if len(grows) > (650 if ctx.quick else 6000):
        grows = rnd.sample(grows, 650 if ctx.quick else 6000)
    for r in grows:
        inputs.append(("decl-graph", r["text"].replace("<NL>", "\n") + "\ndef main() -> None:\n    pass\n", None))
    # (3) outside the model: atom strings (totality only)
    n_atoms = 2 if ctx.quick else 3
    atom_inputs = ["".join(t) for n in range(1, n_atoms + 1) for t in itertools.product(ATOMS, repeat=n)]
    if len(atom_inputs) > (4000 if ctx.quick else 130000):
        atom_inputs = rnd.sample(atom_inputs, 4000 if ctx.quick else 130000)
    for a in atom_inputs:
        inputs.append(("atoms", a, None))
    with ctx.timed("monitor"):
        outs = common.replay_batch([{"op": "pipeline", "src": s} for _, s, _ in inputs], timeout=6000)
        # the watchdog reports a stage that did not answer within its limit as TIMEOUT; on a heavily loaded machine that also hits
        # inputs that take microseconds. A timed-out input is judged by a second run on its own (non-termination is reproducible).
        slow = [i for i, o in enumerate(outs) if any(p.get("panic") == "TIMEOUT" for p in o.get("obs", {}).get("problems", []))]
        if slow:
            again = common.replay_batch([{"op": "pipeline", "src": inputs[i][1]} for i in slow], timeout=6000)
            for i, o in zip(slow, again):
                outs[i] = o
            ctx.stats["watchdog_timeouts_rerun"] = len(slow)
    n = 0
    kinds = {}
    distinct = set()
    ndiags = 0
    for (kind, src, model_err), o in zip(inputs, outs):
        n += 1
        kinds[kind] = kinds.get(kind, 0) + 1
        if "crash" in o:
            ctx.fail("front-end-crash:" + kind, {"kind": kind, "src": src[:3000], "crash": o.get("crash"), "stderr": o.get("stderr", "")[-800:]},
                     "the process died (abort / stack overflow / timeout)")
            continue
        ob = o["obs"]
        ndiags += ob.get("ndiags", 0)
        for p in ob.get("problems", []):
            where = (p.get("at") or "").replace("/repo/", "")
            sig = f"{p['stage']}:{p['problem']}" + (":" + where if p.get("problem") == "panic" else "")
            ctx.fail(sig, {"kind": kind, "src": src[:3000], "problem": p}, "front-end stage is not total / diagnostic not well-formed")
        if model_err is not None:
            real_err = ob["stages"].get("lex") != "ok"
            if real_err != model_err:
                ctx.fail("layout-oracle:lex-verdict", {"src": src, "model_err": model_err, "stages": ob["stages"]})
        if kind != "valid":
            distinct.add(common.digest(src))
    # ---------------------------------------------------------------- the command line (spec/Cli.tla): exit status and output of
    # --parse / --check / --emit-rust on a seeded sample of every input kind must be the ones the contract derives from the
    # library's verdicts (0 / 1 only, a diagnostic on failure, a result on success)
    by_kind = {}
    for kind, src, _ in inputs:
        by_kind.setdefault(kind, []).append(src)
    per = 3 if ctx.quick else 30
    cli_sample = []
    for kind in sorted(by_kind):
        for j, src in enumerate(rnd.sample(by_kind[kind], min(per, len(by_kind[kind])))):
            if "\x00" not in src:
                cli_sample.append((f"{kind}:{j}", src))
    with ctx.timed("cli"):
        cstats = clicontract.run_sessions(ctx, cli_sample, "c11")
    ctx.stats["cli"] = cstats
    n += cstats.get("invocations", 0)
    ctx.sample({"mutant_kinds": kinds})
    ctx.sample({"example_input": inputs[len(lrows) + 5][1][:300]})
    common.write_evidence(ctx, "exploration", {
        "evaluations": n,
        "distinct_nontrivial": len(distinct),
        "rule": "inputs = TLC-enumerated layouts (with exact lex verdict oracle), TLC-generated valid programs and corpus files each "
                "damaged by seeded mutation operators, atom strings over a 49-atom alphabet (outside the model); non-trivial = "
                "distinct non-valid inputs; every stage monitored in a watchdog thread",
        "samples": ctx.samples, "inputs_by_kind": kinds, "diagnostics_checked": ndiags,
        "tlc_states": sum(r["distinct"] for r in ctx.tlc_runs),
    }, assumptions=["totality over all UTF-8 is a sampling question; nesting depth up to 32",
                    "10 s per stage is treated as non-termination"])


def replay(ctx, path):
    case = json.load(open(path))["case"]
    out = common.replay_batch([{"op": "pipeline", "src": case["src"]}])[0]
    print(json.dumps(out, indent=1)[:3000])
