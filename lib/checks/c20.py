"""C20 — derived JSON, equality, ordering and hashing are structural and round-trip.

Model: spec/Derive.tla — structural Eq, lexicographic Ord in declaration order (with the per-type
orders), Hash classes, the Clone two-reference machine, and the JSON tree mapping ToJsonTree /
FromJsonTree with the documented type mapping. TLC (MC_Derive) checks on every declaration's value set:
round trip, exact field names in declaration order, Eq structural, Ord a strict total order consistent
with Eq, equal => same hash class, clone equal at the clone point and independent after mutation; and
prints per declaration the values, their JSON trees and the complete == / < matrices.
Binding (B1, e2e): one compiled Incan program per declaration prints json_stringify(v), whether
T.from_json(json_stringify(v)) is Ok and equal to v, every pairwise == and <, set membership / dict
lookup keyed by the values, and the clone-then-mutate observation; the printed JSON is parsed and its
TREE (names, order, null / array / object mapping) compared with ToJsonTree; every boolean with the
spec's matrix. Values are constructed freshly through helper functions (no aliasing / moves).
"""
import json
from fractions import Fraction

from lib import common, pipeline, render
from lib.common import ToolError

SC = dict(render.SCALAR, dq='"', bs="\\")
TYN = {"int": "int", "bool": "bool", "str": "str", "optint": "Option[int]", "listint": "List[int]", "float": "float",
       "dict": "Dict[str, int]", "mD1": "Inner{N}"}


def s_of(ids):
    return "".join(SC[i] for i in ids)


def lit(t, v):
    if t == "int":
        return str(v)
    if t == "bool":
        return "true" if v else "false"
    if t == "str":
        return '"' + s_of(v).replace("\\", "\\\\").replace('"', '\\"') + '"'
    if t == "optint":
        return "None" if not v else f"Some({v[0]})"
    if t == "listint":
        return "[" + ", ".join(str(x) for x in v) + "]"
    if t == "float":
        return render.float_text(v[0], v[1])
    if t == "dict":
        return "{" + ", ".join(f'"{k}": {x}' for k, x in v) + "}"
    if t == "mD1":
        return f"Inner{{N}}(f1={lit('int', v[0])}, f2={lit('str', v[1])})"
    raise ValueError(t)


def tree_to_py(j):
    k = j["j"]
    if k == "num":
        return j["n"]
    if k == "flt":
        return Fraction(j["fn"], 2 ** j["fd"])
    if k == "str":
        return s_of(j["s"])
    if k == "bool":
        return j["b"]
    if k == "null":
        return None
    if k == "arr":
        return [tree_to_py(x) for x in j["xs"]]
    if k == "obj":
        return [(kv[0], tree_to_py(kv[1])) for kv in j["kvs"]]
    raise ValueError(k)


def real_json(text):
    """parsed JSON with object key ORDER kept and floats as exact fractions"""
    def num(s):
        return Fraction(float(s))
    return json.loads(text, object_pairs_hook=lambda kv: [tuple(p) for p in kv], parse_float=num, parse_int=int)


def same_tree(exp, got, float_dict_keys=False):
    if isinstance(exp, Fraction):
        return isinstance(got, (int, Fraction)) and not isinstance(got, bool) and Fraction(got) == exp
    if isinstance(exp, list) and exp and isinstance(exp[0], tuple):
        if not (isinstance(got, list) and all(isinstance(x, tuple) and len(x) == 2 for x in got)) or len(got) != len(exp):
            return False
        return all(k1 == k2 and same_tree(v1, v2) for (k1, v1), (k2, v2) in zip(exp, got))
    if isinstance(exp, list):
        if exp == [] and got == []:
            return True
        return isinstance(got, list) and len(got) == len(exp) and all(same_tree(a, b) for a, b in zip(exp, got))
    if isinstance(exp, bool) or isinstance(got, bool):
        return exp is got
    return exp == got


def decl_source(row, derives):
    d = row["d"]
    inner = "@derive(Debug, Clone, Eq, Ord, Hash, Serialize, Deserialize)\nmodel Inner{N}:\n    f1: int\n    f2: str\n\n" if "mD1" in d else ""
    dflt = {int(x[0]): x[1] for x in row.get("dflt", [])}
    fields = "".join(f"    f{i + 1}: {TYN[t]}" + (f" = {lit(t, dflt[i + 1])}" if (i + 1) in dflt else "") + "\n" for i, t in enumerate(d))
    src = inner + f"@derive({', '.join(derives)})\n{row.get('kind', 'model')} M{{N}}:\n" + fields + "\n"
    for k, v in enumerate(row["vals"]):
        # a field whose value equals its declared default is left to the default (construction through the default path)
        args = ", ".join(f"f{i + 1}={lit(t, v[i])}" for i, t in enumerate(d) if not ((i + 1) in dflt and dflt[i + 1] == v[i] and k % 2 == 0))
        src += f"def mk{{N}}_{k}() -> M{{N}}:\n    return M{{N}}({args})\n\n"
    return src


def run(ctx):
    rnd = common.rng(ctx, "c20")
    with ctx.timed("tlc"):
        res = common.tlc(ctx, "MC_Derive", cfg="MC_Derive", workers=4, timeout=900)
    common.require_tlc_ok(ctx, res, "Derive laws")
    rows = res["cases"]["CASE"]
    cases = []
    for r in rows:
        nv = len(r["vals"])
        idx = list(range(nv))
        if ctx.quick and nv > 8:
            idx = sorted(rnd.sample(idx, 8))
        r = dict(r, vals=[r["vals"][i] for i in idx], json=[r["json"][i] for i in idx],
                 eq=[[r["eq"][i][j] for j in idx] for i in idx], lt=[[r["lt"][i][j] for j in idx] for i in idx])
        n = len(idx)
        name = r["name"]
        tags = ["decl:" + name] + ["field:" + t for t in r["d"]] + ["kind:" + r.get("kind", "model")] + (["defaults"] if r.get("dflt") else [])
        # --- JSON: stringify + round trip
        body, exp = [], []
        for k in range(n):
            body.append(f"println(json_stringify(mk{{N}}_{k}()))")
            body += [f"match M{{N}}.from_json(json_stringify(mk{{N}}_{k}())):",
                     f"    Ok(w) => println(\"roundtrip-ok\")", "    Err(e) => println(e)"]
        cases.append({"id": f"{name}-json", "decls": decl_source(r, ["Debug", "Clone", "Serialize", "Deserialize"]), "body": body,
                      "aborts": False, "tags": tags + ["part:json"], "row": r, "part": "json"})
        if r["cmp"]:
            # --- round trip equality + == / < matrices
            body = []
            # (for a class the from_json call itself does not build - catalogued under the json part - so the comparison
            #  matrices of class declarations are checked without the round-trip prefix)
            rt = r.get("kind", "model") == "model"
            for k in range(n if rt else 0):
                body += [f"match M{{N}}.from_json(json_stringify(mk{{N}}_{k}())):",
                         f"    Ok(w) => println(w == mk{{N}}_{k}())", "    Err(e) => println(e)"]
            for i in range(n):
                for j in range(n):
                    body.append(f"println(mk{{N}}_{i}() == mk{{N}}_{j}())")
                    body.append(f"println(mk{{N}}_{i}() < mk{{N}}_{j}())")
            cases.append({"id": f"{name}-cmp", "decls": decl_source(r, ["Debug", "Clone", "Eq", "Ord", "Serialize", "Deserialize"]),
                          "body": body, "aborts": False, "tags": tags + ["part:cmp"], "row": r, "part": "cmp"})
            # --- hashing: set of all values has as many members as there are distinct values; dict lookup by value
            distinct_vals = len(set(json.dumps(v) for v in r["vals"]))
            body = ["mut s: Set[M{N}] = set()"] if False else []
            body = [f"let s = {{{', '.join(f'mk{{N}}_{k}()' for k in range(n))}, mk{{N}}_0()}}", "println(len(s))"]
            cases.append({"id": f"{name}-hash", "decls": decl_source(r, ["Debug", "Clone", "Eq", "Hash"]), "body": body,
                          "aborts": False, "tags": tags + ["part:hash"], "row": r, "part": "hash", "expect_len": distinct_vals})
            # --- clone: equal to and independent of the original
            body = ["mut c = mk{N}_0().clone()", "println(c == mk{N}_0())", f"c.f1 = {lit(r['d'][0], r['vals'][1][0]) if r['d'][0] == 'int' else 'c.f1'}",
                    "println(mk{N}_0() == mk{N}_0())"]
            cases.append({"id": f"{name}-clone", "decls": decl_source(r, ["Debug", "Clone", "Eq"]), "body": body,
                          "aborts": False, "tags": tags + ["part:clone"], "row": r, "part": "clone"})
    for c in cases:
        c["expect"] = {"out": [], "status": "done", "err": ""}
    with ctx.timed("e2e"):
        obs = pipeline.run_cases(ctx, cases, per_batch=1)
    n_eval = 0
    distinct = set()
    for c, o in zip(cases, obs):
        r = c["row"]
        st = o["stage"]
        info = {"decl": r["name"], "fields": r["d"], "part": c["part"]}
        if st in ("check", "emit", "build"):
            sym = {"check": "rejected-by-checker", "emit": "code-generation-fails", "build": "does-not-build"}[st]
            detail = o.get("err") if isinstance(o.get("err"), str) else [e.get("msg") for e in (o.get("err") or [])][:2]
            if st == "build":
                sym += ":" + pipeline.build_symptom(o.get("err")).split(":", 1)[1][:70]
            ctx.fail(f"{c['part']}:{sym}", dict(info, detail=detail if not isinstance(detail, str) else detail[:1200], decls=c["decls"][:1500]),
                     "the documented derive cannot be used", tags=c["tags"])
            continue
        if st == "abort":
            ctx.fail(f"{c['part']}:aborts", dict(info, err=o.get("err"), out=o.get("out", [])[:5]), tags=c["tags"])
            continue
        out = o["out"]
        n = len(r["vals"])
        if c["part"] == "json":
            if len(out) != 2 * n:
                ctx.fail("json:output-shape", dict(info, out=out[:6]), tags=c["tags"])
                continue
            for k in range(n):
                n_eval += 1
                distinct.add((r["name"], k, "json"))
                exp = tree_to_py(r["json"][k])
                try:
                    got = real_json(out[2 * k])
                except ValueError:
                    ctx.fail("json:not-json", dict(info, value=r["vals"][k], text=out[2 * k]), tags=c["tags"])
                    continue
                if not same_tree(_tuples_exp(exp), got):
                    ctx.fail("json:tree-differs", dict(info, value=r["vals"][k], expected=str(exp), text=out[2 * k]),
                             "JSON text does not have the declared field names / documented type mapping", tags=c["tags"])
                if out[2 * k + 1] != "roundtrip-ok":
                    ctx.fail("json:from_json-fails", dict(info, value=r["vals"][k], text=out[2 * k], result=out[2 * k + 1]), tags=c["tags"])
        elif c["part"] == "cmp":
            want = []
            npre = n if r.get("kind", "model") == "model" else 0
            for k in range(npre):
                want.append("true")
            for i in range(n):
                for j in range(n):
                    want.append("true" if r["eq"][i][j] else "false")
                    want.append("true" if r["lt"][i][j] else "false")
            if len(out) != len(want):
                ctx.fail("cmp:output-shape", dict(info, out=out[:6]), tags=c["tags"])
                continue
            for pos, (w, g) in enumerate(zip(want, out)):
                n_eval += 1
                if w != g:
                    if pos < npre:
                        what, sym = f"from_json(json_stringify(v)) == v for value {r['vals'][pos]}", "cmp:roundtrip-not-equal"
                    else:
                        q = pos - npre
                        i, j, which = q // 2 // n, (q // 2) % n, "<" if q % 2 else "=="
                        what, sym = f"{r['vals'][i]} {which} {r['vals'][j]}", "cmp:wrong-" + ("lt" if q % 2 else "eq")
                    ctx.fail(sym, dict(info, comparison=what, expected=w, observed=g), tags=c["tags"])
                    break
            distinct.add((r["name"], "cmp"))
        elif c["part"] == "hash":
            n_eval += 1
            if out != [str(c["expect_len"])]:
                ctx.fail("hash:set-size", dict(info, expected=c["expect_len"], observed=out), tags=c["tags"])
            distinct.add((r["name"], "hash"))
        elif c["part"] == "clone":
            n_eval += 1
            if out != ["true", "true"]:
                ctx.fail("clone:not-equal-or-not-independent", dict(info, observed=out), tags=c["tags"])
            distinct.add((r["name"], "clone"))
    ctx.sample({"declaration": rows[0]["d"], "value": rows[0]["vals"][4], "json_tree": rows[0]["json"][4]})
    common.write_evidence(ctx, "translation_validation", {
        "programs": len(cases),
        "disagreements_checked": n_eval,
        "states": sum(r["distinct"] for r in ctx.tlc_runs),
        "evaluations": n_eval,
        "distinct_nontrivial": len(distinct),
        "rule": "per declaration (9: scalars, bools, Option/List, nested model, float/Dict, and three with defaulted fields placed before / between required ones, as model and as class) and value set from TLC: one compiled "
                "program per part (json, comparisons, hashing, clone); counted = individual printed facts compared with the spec",
        "declarations": len(rows),
    }, assumptions=["floats are dyadic and compared numerically; Eq/Ord/Hash are not derived for float fields (Rust f64 is not Eq)",
                    "quick: 8 seeded values per declaration"])


def _tuples(x):
    if isinstance(x, list):
        if x and all(isinstance(e, list) and len(e) == 2 and isinstance(e[0], str) for e in x):
            return [(e[0], _tuples(e[1])) for e in x]
        return [_tuples(e) for e in x]
    return x


def _tuples_exp(x):
    return x


def replay(ctx, path):
    case = json.load(open(path))["case"]
    print("recorded:", json.dumps(case, default=str)[:3000])
