"""C14 — imports resolve the same everywhere and respect visibility.

Model: spec/Modules.tla — layouts as sets of paths, the documented resolution, the three
resolvers transcribed side by side (CliResolve, SharedResolve, LibResolve) as instances of one
parametric resolver, the cause analysis that names each disagreement, the visibility rule and
the transcription of the checker's import handling, and the four collector worklist machines.
 TLC  MC_Modules      every (context x import x candidate-subset) layout of the bounded universe:
                      lemmas GenIs*, DocIsGen, SigSound, AgreeCore, VisCore, PubFromUsable; CASE lines
      MC_ModulesWork  the worklist machines on every import graph (cycles, self-imports, missing
                      modules, imports resolved differently): termination measure, deadlock freedom,
                      visit-once; *_due: the demanded "diagnostic on cycle/missing" yields the
                      counterexample on the machines as transcribed (non-vacuity)
Binding (all in process, harness/src/modules.rs):
 B1  every resolve case is materialised as a real directory tree (file contents carry their own
     path) and the REAL collect_modules, ModuleResolver, ModuleCollector, resolve_import_path
     (importer base and entry base) and the real language server (didOpen; dependency files it
     publishes for) are asked which file they resolved; each answer is compared with ITS
     transcription (a code change shows here) and the transcriptions' disagreements with each
     other and with the documentation are the property's findings (signature = pair + cause).
     Spelling cases go through the real parser; visibility cases through what `incan --check`
     does and through the real server's diagnostics.
 B2  the visit sequences the real collectors produced on the import-graph layouts are validated
     by TLC against ModulesTrace (actions of the worklist machines + invariants in every state).
"""
import json
import os
import shutil

from lib import common
from lib.common import ToolError

LEAF = "pub def helper() -> int:\n    return 1\n"
MAINFN = "def main() -> None:\n    pass\n"
CARGO = "[package]\nname = \"layout\"\nversion = \"0.0.0\"\n"
WANT_RESOLVE = ["cli", "lib", "col", "shared", "lsp"]
MAX_HANGS = 3


def rel(path):
    return "/".join(path)


# ------------------------------------------------------------------ materialisation
def write_files(root, files):
    for relp, body in files.items():
        p = os.path.join(root, relp)
        os.makedirs(os.path.dirname(p), exist_ok=True)
        with open(p, "w") as fh:
            if relp.endswith("Cargo.toml"):
                fh.write(body)
            else:
                fh.write(f"# @file {relp}\n" + body)


def resolve_files(c):
    entry, importer = rel(c["entry"]), rel(c["importer"])
    out = {}
    for f in c["files"]:
        p = rel(f["path"])
        imps = "".join(t + "\n" for t in f["imps"])
        if p.endswith("Cargo.toml"):
            out[p] = CARGO
        elif p == entry:
            out[p] = imps + "\n" + MAINFN
        elif p == importer:
            out[p] = imps + "\n" + LEAF
        else:
            out[p] = LEAF
    return out


DECL = {
    "const": "{p}const LIMIT: int = 5\n",
    "def": "{p}def helper() -> int:\n    return 1\n",
    "model": "{p}model Thing:\n    v: int\n",
    "class": "{p}class Box:\n    v: int\n",
    "enum": "{p}enum Color:\n    Red\n    Green\n",
    "newtype": "{p}type UserId = newtype int\n",
    "trait": "{p}trait Named:\n    def name(self) -> str: ...\n",
    "variant": "{p}enum Color:\n    Red\n    Green\n",
}
USE = {
    ("const", "lax"): "def main() -> None:\n    println({n})\n",
    ("const", "typed"): "def main() -> None:\n    x: int = {n}\n    println(x)\n",
    ("def", "call"): "def main() -> None:\n    x: int = {n}()\n    println(x)\n",
    ("model", "ctor"): "def main() -> None:\n    t = {n}(v=1)\n    println(t.v)\n",
    ("model", "type"): "def f(t: {n}) -> int:\n    return t.v\n\ndef main() -> None:\n    pass\n",
    ("class", "ctor"): "def main() -> None:\n    t = {n}(v=1)\n    println(t.v)\n",
    ("class", "type"): "def f(t: {n}) -> int:\n    return t.v\n\ndef main() -> None:\n    pass\n",
    ("newtype", "ctor"): "def main() -> None:\n    u = {n}(4)\n    println(u.0)\n",
    ("newtype", "type"): "def f(u: {n}) -> int:\n    return u.0\n\ndef main() -> None:\n    pass\n",
    ("enum", "variant"): "def main() -> None:\n    c = {n}.Red\n",
    ("variant", "lax"): "def main() -> None:\n    c = {n}\n",
    ("trait", "with"): "class C with {n}:\n    v: int\n    def name(self) -> str:\n        return \"c\"\n\ndef main() -> None:\n    pass\n",
}


def vis_files(c):
    """concretisation of a visibility case: the dependency module and the importing entry"""
    name, ref = c["name"], c["ref"]
    route = c.get("route", "same")
    # spelling of the route: `..m` / `crate.m` in `from` imports, `super::m` / `crate::m` in `import` declarations
    mdots = {"same": "", "up": "..", "crate": "crate."}[route] + ".".join(c["msegs"])
    mcol = {"same": "", "up": "super::", "crate": "crate::"}[route] + "::".join(c["msegs"])
    imp = {"from": f"from {mdots} import {name}\n", "from_alias": f"from {mdots} import {name} as Al\n",
           "item": f"import {mcol}::{name}\n", "item_alias": f"import {mcol}::{name} as Al\n",
           "none": f"from {mdots} import other\n", "qualified": f"import {mcol}\n"}[ref]
    local = "Al" if ref.endswith("alias") else (c["msegs"][-1] + "." + name if ref == "qualified" else name)
    dep = DECL[c["kind"]].format(p="pub " if c["pub"] else "")
    if ref == "none":
        dep += "\npub def other() -> int:\n    return 2\n"
    return {rel(c["main"]): imp + "\n" + USE[(c["kind"], c["use"])].format(n=local), rel(c["modfile"]): dep}


WORK_BODY = {"main": "pub def entry_helper() -> int:\n    return 0\n\n" + MAINFN,
             "a": "pub def helper_a() -> int:\n    return 1\n",
             "b": "pub def helper_b() -> int:\n    return 2\n",
             "da": "pub def helper_a() -> int:\n    return 3\n"}
WORK_PATH = {"main": "w0/w1/main.incn", "a": "w0/w1/a.incn", "b": "w0/w1/d/b.incn", "da": "w0/w1/d/a.incn"}


def work_files(lay):
    out = {}
    for k in ("main", "a", "b"):
        out[WORK_PATH[k]] = "".join(t + "\n" for t in lay[k]) + "\n" + WORK_BODY[k]
    if lay["da"]:
        out[WORK_PATH["da"]] = WORK_BODY["da"]
    return out


class Fs:
    """numbered scratch layouts below work/C14/fs/<pid>/"""

    def __init__(self, ctx, sub="fs"):
        self.base = os.path.join(ctx.work, sub, str(os.getpid()))
        shutil.rmtree(self.base, ignore_errors=True)
        os.makedirs(self.base, exist_ok=True)
        self.n = 0
        # environment assumption of the `crate` cases without a root marker
        d = self.base
        while True:
            if os.path.exists(os.path.join(d, "Cargo.toml")) or os.path.exists(os.path.join(d, "src")):
                raise ToolError(f"C14 scratch directory has a project-root marker above it: {d}")
            if d == "/":
                break
            d = os.path.dirname(d)

    def new(self, files):
        self.n += 1
        root = os.path.join(self.base, str(self.n))
        write_files(root, files)
        return root

    def clear(self):
        shutil.rmtree(self.base, ignore_errors=True)
        os.makedirs(self.base, exist_ok=True)

    def close(self):
        shutil.rmtree(self.base, ignore_errors=True)


def run_reqs(ctx, reqs):
    """replay_batch that survives the harness' skip-after-timeout protocol: requests answered
    `skipped_after_timeout` are re-sent to a fresh process, at most MAX_HANGS times."""
    outs = [None] * len(reqs)
    todo = list(range(len(reqs)))
    rounds = 0
    while todo:
        res = common.replay_batch([reqs[i] for i in todo], timeout=1800)
        nxt = []
        for i, o in zip(todo, res):
            # (a request that itself timed out is answered; the calls after the timeout inside it are skipped)
            if o.get("skipped_after_timeout"):
                nxt.append(i)
            else:
                outs[i] = o
        rounds += 1
        if nxt and rounds > MAX_HANGS:
            for i in nxt:
                outs[i] = {"obs": {}, "not_run": True}
            ctx.stats["not_run_after_hangs"] = ctx.stats.get("not_run_after_hangs", 0) + len(nxt)
            break
        todo = nxt
    return outs


def bad(ctx, who, val, payload):
    """panic / hang / crash of the code under test: always a violation class of its own"""
    if val is None:
        return False
    if val.get("skipped_after_timeout"):
        return True           # not run: an earlier call of the same request hung (reported there)
    if "panic" in val:
        kind = "hang" if val["panic"] == "TIMEOUT" else "crash"
        ctx.fail(f"{kind}:{who}", dict(payload, obs=val), f"{who}: {val['panic']} {val.get('at', '')}")
        return True
    return False


# ------------------------------------------------------------------ resolve cases
def other_files(visited, c):
    skip = {rel(c["entry"]), rel(c["importer"])}
    return [v for v in visited if v not in skip]


def check_resolve(ctx, c, o, counters):
    pay = {"kind": "resolve", "case": c}
    if "crash" in o:
        ctx.fail("crash:process", dict(pay, obs=o), "the harness process died")
        return
    if o.get("not_run"):
        return
    ob = o["obs"]
    exp = {k: ([rel(c[k])] if c[k] else []) for k in ("cli", "lib", "lsp", "col")}
    nested = c["hop"] != "direct"
    real = {}
    mism = False
    for who in ("cli", "lib"):
        v = ob[who]
        if bad(ctx, who, v, pay):
            mism = True
            continue
        if not v.get("ok"):
            ctx.fail(f"collector-error:{who}", dict(pay, obs=v), "the collector failed on a well-formed layout")
            mism = True
            continue
        vis = v["visited"]
        if not vis or vis[0] != rel(c["entry"]) or (nested and rel(c["importer"]) not in vis):
            ctx.fail(f"transcription-mismatch:{who}:hop", dict(pay, obs=v), "entry/importer not visited as modelled")
            mism = True
            continue
        real[who] = other_files(vis, c)
    v = ob["col"]
    if bad(ctx, "col", v, pay):
        mism = True
    elif not v.get("ok"):
        ctx.fail("collector-error:col", dict(pay, obs=v))
        mism = True
    else:
        real["col"] = other_files(v["loaded"], c)
    v = ob["shared"]
    if bad(ctx, "shared", v, pay):
        mism = True
    elif not v.get("ok"):
        raise ToolError(f"c14 shared op failed: {v} for {c['text']}")
    else:
        real["shared_importer"] = [v["importer_base"]] if v["importer_base"] else []
        real["shared_entry"] = [v["entry_base"]] if v["entry_base"] else []
        # the import the resolvers saw is the import of the case (real parser)
        imp = v["imports"][0]
        want = {"ik": "module" if c["imp"]["kind"] == "mod" else "from",
                "path": {"parents": c["imp"]["levels"], "abs": c["imp"]["abs"], "segs": c["imp"]["segs"]}}
        if imp.get("ik") != want["ik"] or imp.get("path") != want["path"]:
            ctx.fail("import-form-misparsed:canonical", dict(pay, obs=imp), "the canonical spelling parsed to another import")
            mism = True
    v = ob["lsp"]
    if bad(ctx, "lsp", v, pay):
        mism = True
    elif not v.get("ok"):
        raise ToolError(f"c14 lsp op failed: {v}")
    else:
        real["lsp"] = other_files([d["file"] for d in v["deps"]], c)
        if nested and rel(c["importer"]) not in [d["file"] for d in v["deps"]]:
            ctx.fail("transcription-mismatch:lsp:hop", dict(pay, obs=v))
            mism = True
    pairs = [("cli", "cli", "cli"), ("lib", "lib", "lib"), ("col", "col", "col"), ("shared_importer", "lsp", "shared"),
             ("shared_entry", "col", "shared"), ("lsp", "lsp", "lsp-server")]
    stale = []
    for rk, ek, name in pairs:
        if rk in real:
            counters["answers"] += 1
            if real[rk] != exp[ek]:
                stale.append((rk, ek, name))
    if stale and not mism:
        # The code no longer answers as transcribed on this layout. The transcription is a MEANS (it names the cause of a
        # disagreement); the property is judged on the real answers themselves: every tool resolves the import to the same file,
        # and to the documented file where the documentation fixes it. A change that makes the tools agree is not a violation.
        answers = {k: tuple(real[k]) for k in ("cli", "lib", "lsp") if k in real}
        want = (rel(c["doc"]),) if (c["docfixed"] and c["doc"]) else (() if c["docfixed"] else None)
        agree = len(set(answers.values())) == 1 and (want is None or set(answers.values()) == {want})
        if agree:
            counters["transcription_outdated_property_holds"] = counters.get("transcription_outdated_property_holds", 0) + 1
            return
        rk, ek, name = stale[0]
        ctx.fail(f"transcription-mismatch:{name}", dict(pay, resolver=rk, real=real[rk], transcribed=exp[ek], answers={k: list(v) for k, v in answers.items()},
                                                        obs=ob.get(rk.split('_')[0])),
                 f"{rk} resolved {real[rk]} (transcription: {exp[ek]}) for `{c['text']}` and the tools do not agree on one file")
        return
    if mism:
        return
    # the transcriptions are confirmed on this case: their disagreements are disagreements of the code
    for s in c["sigs"]:
        ctx.fail(s, dict(pay, real=real), None)
    if c["sigs"]:
        counters["disagreeing"] += 1
    else:
        counters["agreeing"] += 1
    if c["docfixed"]:
        counters["doc_fixed"] += 1


# ------------------------------------------------------------------ spelling cases
def check_spell(ctx, c, o, counters):
    pay = {"kind": "spell", "case": c}
    ob = o.get("obs", {})
    if "crash" in o or "panic" in ob:
        ctx.fail("crash:parser", dict(pay, obs=o))
        return
    feat = f"up={c['up']}:levels={c['imp']['levels']}" if not c["imp"]["abs"] and c["imp"]["levels"] else \
           ("crate" if c["imp"]["abs"] else "plain")
    if not ob.get("ok"):
        ctx.fail(f"import-form-rejected:{feat}", dict(pay, obs=ob), f"`{c['text']}` does not parse")
        return
    counters["spell_ok"] += 1
    imp = ob["imports"][0] if ob["imports"] else {}
    path = {"parents": c["imp"]["levels"], "abs": c["imp"]["abs"], "segs": c["imp"]["segs"]}
    al = [c["alias"]] if c["alias"] else []
    if c["imp"]["kind"] == "from":
        want = {"k": "import", "ik": "from", "path": path, "items": [{"name": "Item", "alias": al}], "alias": []}
    else:
        want = {"k": "import", "ik": "module", "path": path, "alias": al}
    if imp != want:
        ctx.fail(f"import-form-misparsed:{feat}", dict(pay, obs=imp, expected=want), f"`{c['text']}` parsed to another import")


# ------------------------------------------------------------------ visibility cases
def vis_sig(c, tool, observed):
    ref = {"item": "item-import", "item_alias": "item-import", "qualified": "qualified", "from": "from-import",
           "from_alias": "from-import", "none": "unimported"}[c["ref"]]
    if c["demanded"] == "reject" and observed == "accept":
        s = f"visibility-leak:ref={ref}"
        if ref == "from-import":
            s += f":{tool}" + (":nested-module" if len(c["msegs"]) > 1 else "")
        return s
    # a pub declaration the importer cannot use
    if c["ref"].endswith("alias"):
        why = "alias"
    elif not c[tool + "_loaded"]:
        why = f"module-not-loaded:{tool}"
    elif c["kind"] == "const" and c["ref"] in ("from", "item"):
        why = "const-import"
    else:
        why = f"other:{c['ref']}:{c['kind']}:{c['use']}:{tool}"
    return f"visibility-pub-rejected:{why}"


def check_vis(ctx, c, o, counters):
    pay = {"kind": "vis", "case": c}
    if "crash" in o:
        ctx.fail("crash:process", dict(pay, obs=o))
        return
    if o.get("not_run"):
        return
    ob = o["obs"]
    for tool, key in (("cli", "check"), ("lsp", "lsp")):
        v = ob[key]
        if bad(ctx, f"{tool}-check", v, pay):
            continue
        if tool == "cli":
            if v.get("stage") == "collect":
                ctx.fail("collector-error:cli", dict(pay, obs=v))
                continue
            observed = "accept" if v.get("ok") else "reject"
            msgs = [e.get("msg", "") for e in v.get("errs", [])]
        else:
            if v.get("entry_published", 0) < 1:
                ctx.fail("lsp-no-diagnostics-published", dict(pay, obs=v))
                continue
            msgs = v.get("entry_msgs", [])
            observed = "reject" if msgs else "accept"
        counters["vis_verdicts"] += 1
        if observed != c[tool]:
            if observed == c["demanded"]:
                # the code changed towards what the property demands: not a violation (the transcription is outdated here)
                counters["transcription_outdated_property_holds"] = counters.get("transcription_outdated_property_holds", 0) + 1
                counters["vis_as_demanded"] += 1
                continue
            ctx.fail(f"visibility-transcription-mismatch:{tool}", dict(pay, tool=tool, observed=observed, msgs=msgs[:3]),
                     f"{tool} {observed}s {c['kind']} pub={c['pub']} ref={c['ref']} use={c['use']}; the transcription says {c[tool]} "
                     f"and the property demands {c['demanded']}")
            continue
        if observed != c["demanded"]:
            ctx.fail(vis_sig(c, tool, observed), dict(pay, tool=tool, observed=observed, msgs=msgs[:3]), None)
        else:
            counters["vis_as_demanded"] += 1


# ------------------------------------------------------------------ worklist cases
def lay_key(c):
    return json.dumps([c["main"], c["a"], c["b"], c["da"]])


def work_events(lay, by_m, ob):
    """ndjson events of the real runs on one layout (for ModulesTrace)"""
    files = [WORK_PATH[k].split("/") for k in ("main", "a", "b")] + ([WORK_PATH["da"].split("/")] if lay["da"] else [])
    imps = [{"file": WORK_PATH[k].split("/"), "imps": lay["imps"][k]} for k in ("main", "a", "b")]
    ev = []
    for m in ("cli", "lib", "lsp", "col"):
        v = ob.get(m)
        if m not in by_m or v is None or "panic" in v:
            continue
        ev.append({"a": "reset", "m": m, "files": files, "imports": imps, "entry": WORK_PATH["main"].split("/")})
        if m in ("cli", "lib"):
            if v.get("ok"):
                ev += [{"a": "visit", "file": f.split("/")} for f in v["visited"]]
                ev.append({"a": "end", "status": "done", "diag": False, "loaded": []})
            else:
                ev.append({"a": "end", "status": "error", "diag": True, "loaded": []})
        elif m == "lsp":
            ev += [{"a": "visit", "file": d["file"].split("/")} for d in v["deps"]]
            failed = any(x.startswith("Failed to") for x in v.get("entry_msgs", []))
            ev.append({"a": "end", "status": "done", "diag": failed, "loaded": []})
        else:
            if v.get("ok"):
                ev.append({"a": "end", "status": "done", "diag": False, "loaded": [f.split("/") for f in v["loaded"]]})
            else:
                ev.append({"a": "end", "status": "error", "diag": True, "loaded": []})
    return ev


def check_work(ctx, lay, by_m, o, counters):
    pay = {"kind": "work", "case": {k: lay[k] for k in ("main", "a", "b", "da", "imps")}, "machines": by_m}
    if "crash" in o:
        ctx.fail("crash:process", dict(pay, obs=o))
        return False
    if o.get("not_run"):
        return False
    ob = o["obs"]
    entry = WORK_PATH["main"]
    good = True
    for m, c in by_m.items():
        v = ob[m]
        if bad(ctx, m, v, pay):
            good = False
            continue
        exp_vis = [rel(p) for p in c["visited"]]
        counters["work_runs"] += 1
        if m in ("cli", "lib"):
            okm = v.get("ok") and v["visited"] == exp_vis and c["status"] == "done" and not c["diag"]
            got = v.get("visited", v)
        elif m == "lsp":
            okm = v.get("ok") and [d["file"] for d in v["deps"]] == exp_vis and \
                  not any(x.startswith("Failed to") for x in v.get("entry_msgs", []))
            got = [d["file"] for d in v.get("deps", [])]
        else:
            if c["status"] == "done":
                okm = v.get("ok") and sorted(v["loaded"]) == sorted(x for x in exp_vis if x != entry)
            else:
                okm = (not v.get("ok")) and any("Circular import" in e for e in v.get("errs", []))
            got = v.get("loaded", v.get("errs"))
        if not okm:
            ctx.fail(f"worklist-mismatch:{m}", dict(pay, machine=m, real=got, modelled=c),
                     f"collector {m} visited {got}; its worklist machine says {exp_vis} ({c['status']})")
            good = False
    if not good:
        return False
    # the property: a cycle or a missing module ends with a diagnostic (anywhere in the pipeline)
    chk, lsp = ob["check"], ob["lsp"]
    if bad(ctx, "cli-check", chk, pay):
        return False
    has_diag = {"cli": not chk.get("ok"),
                "lsp": bool(lsp.get("entry_msgs")) or any(d["msgs"] for d in lsp.get("deps", [])),
                "lib": not ob["lib"].get("ok"), "col": not ob["col"].get("ok")}
    for m, c in by_m.items():
        due = "cycle" if c["cycle"] else ("missing" if c["missing"] else None)
        if not due:
            counters["work_clean"] += 1
            continue
        counters["work_due"] += 1
        if has_diag[m]:
            counters["work_due_reported"] += 1
        else:
            lib = "library:" if m in ("lib", "col") else ""
            ctx.fail(f"no-diagnostic:{lib}{due}:{m}", dict(pay, machine=m, check=chk, lsp_entry_msgs=lsp.get("entry_msgs")), None)
    return True


# ------------------------------------------------------------------ run
def parse_cases(res):
    by = {"resolve": [], "spell": [], "vis": []}
    for c in res["cases"]["CASE"]:
        by[c["mode"]].append(c)
    return by


def resolve_req(root, c):
    return {"op": "c14_run", "root": root, "entry": rel(c["entry"]), "importer": rel(c["importer"]),
            "import_idx": 0, "want": WANT_RESOLVE}


def run(ctx):
    common.build_harness()
    counters = {k: 0 for k in ("answers", "agreeing", "disagreeing", "doc_fixed", "spell_ok", "vis_verdicts",
                               "vis_as_demanded", "work_runs", "work_clean", "work_due", "work_due_reported")}
    # ---------------------------------------------------------------- TLC
    with ctx.timed("tlc_cases"):
        res = common.tlc(ctx, "MC_Modules", cfg="MC_Modules_quick" if ctx.quick else "MC_Modules", workers=8, timeout=2400)
    common.require_tlc_ok(ctx, res, "Modules case universe + lemmas")
    cases = parse_cases(res)
    with ctx.timed("tlc_work"):
        wres = common.tlc(ctx, "MC_ModulesWork", cfg="MC_ModulesWork_quick" if ctx.quick else "MC_ModulesWork",
                          workers=8, timeout=2400)
        common.require_tlc_ok(ctx, wres, "worklist machines (termination, visit-once)")
        neg = common.tlc(ctx, "MC_ModulesWork", cfg="MC_ModulesWork_due", workers=4, timeout=600, want_tags=())
        if neg["ok"] or not any("DiagWhenDue" in e for e in neg["errors"]):
            raise ToolError("the as-transcribed worklist machines no longer violate DiagWhenDue (update the catalogue)")
        if not ctx.quick:
            deep = common.tlc(ctx, "MC_ModulesWork", cfg="MC_ModulesWork_deep", workers=8, timeout=2400, want_tags=())
            common.require_tlc_ok(ctx, deep, "worklist machines, deep universe")
    fs = Fs(ctx)
    try:
        # ------------------------------------------------------------ B1 resolve
        rc = cases["resolve"]
        with ctx.timed("replay_resolve"):
            CH = 3000
            for s in range(0, len(rc), CH):
                chunk = rc[s:s + CH]
                reqs = [resolve_req(fs.new(resolve_files(c)), c) for c in chunk]
                outs = run_reqs(ctx, reqs)
                for c, o in zip(chunk, outs):
                    check_resolve(ctx, c, o, counters)
                fs.clear()
        if rc:
            mid = next((c for c in rc if c["sigs"]), rc[0])
            ctx.sample({"resolve_case": {k: mid[k] for k in ("text", "hop", "marker", "pres", "cli", "lsp", "lib", "doc", "docfixed", "sigs")}})
        # ------------------------------------------------------------ B1 spelling
        sc = cases["spell"]
        with ctx.timed("replay_spell"):
            outs = common.replay_batch([{"op": "c14_parse_import", "src": c["text"] + "\n"} for c in sc])
        for c, o in zip(sc, outs):
            check_spell(ctx, c, o, counters)
        # ------------------------------------------------------------ B1 visibility
        vc = cases["vis"]
        with ctx.timed("replay_vis"):
            reqs = [{"op": "c14_run", "root": fs.new(vis_files(c)), "entry": rel(c["main"]), "want": ["check", "lsp"]} for c in vc]
            outs = run_reqs(ctx, reqs)
        for c, o in zip(vc, outs):
            check_vis(ctx, c, o, counters)
        fs.clear()
        if vc:
            leak = next((c for c in vc if c["demanded"] == "reject" and c["cli"] == "accept"), vc[0])
            ctx.sample({"visibility_case": leak, "files": vis_files(leak)})
        # ------------------------------------------------------------ B1 + B2 worklists
        lays, order = {}, []
        for c in wres["cases"]["CASE"]:
            k = lay_key(c)
            if k not in lays:
                lays[k] = ({x: c[x] for x in ("main", "a", "b", "da", "imps")}, {})
                order.append(k)
            lays[k][1][c["m"]] = {x: c[x] for x in ("visited", "status", "diag", "cycle", "missing")}
        rnd = common.rng(ctx, "c14-work")
        # layouts with a cycle go last and in their own processes (a hang there must not starve the rest)
        cyc = [k for k in order if any(v["cycle"] for v in lays[k][1].values())]
        plain = [k for k in order if k not in set(cyc)]
        events, nlay_traced = [], 0
        trace_budget = 300 if ctx.quick else 3000
        traced = set(rnd.sample(order, min(trace_budget, len(order))))
        with ctx.timed("replay_work"):
            for group in (plain, cyc):
                for s in range(0, len(group), 2000):
                    ks = group[s:s + 2000]
                    reqs = [{"op": "c14_run", "root": fs.new(work_files(lays[k][0])), "entry": WORK_PATH["main"],
                             "want": ["cli", "lib", "col", "lsp", "check"]} for k in ks]
                    outs = run_reqs(ctx, reqs)
                    for k, o in zip(ks, outs):
                        ok = check_work(ctx, lays[k][0], lays[k][1], o, counters)
                        if ok and k in traced:
                            events += work_events(lays[k][0], lays[k][1], o["obs"])
                            nlay_traced += 1
                    fs.clear()
        if cyc:
            k = cyc[0]
            ctx.sample({"cyclic_layout": {x: lays[k][0][x] for x in ("main", "a", "b", "da")}, "machines": lays[k][1]})
        # ------------------------------------------------------------ B2 trace validation
        validated = 0
        if events:
            tpath = os.path.join(ctx.work, f"modules_trace_{os.getpid()}.ndjson")
            with open(tpath, "w") as fh:
                for e in events:
                    fh.write(json.dumps(e) + "\n")
            with ctx.timed("tlc_trace"):
                ok, tres = common.validate_trace(ctx, "ModulesTrace", tpath, timeout=1800)
            if ok:
                validated = len(events)
                os.remove(tpath)
            else:
                rej = tres["cases"].get("REJECT")
                if not rej:
                    common.log(tres["text_tail"])
                    raise ToolError("ModulesTrace failed without a REJECT line")
                validated = rej[0].get("at", 1) - 1
                # the run the rejected event belongs to
                at = rej[0].get("at", 1)
                start = max(i for i in range(at) if events[i]["a"] == "reset")
                run_ev = events[start:at + 3]
                ctx.fail("trace-rejected:" + str(events[start].get("m")), {"kind": "trace", "rejected": rej[0], "run": run_ev},
                         "a recorded run of a real collector is not a behaviour of its worklist machine")
    finally:
        fs.close()

    states = sum(r["states"] for r in ctx.tlc_runs)
    # multi-module projects (spec/GenMod.tla, lib/modproj.py): the same declarations split over several files
    with ctx.timed("modproj"):
        from lib import modproj
        modproj.run(ctx)
    common.write_evidence(ctx, "model_checking", {
        "states": states,
        "transitions": states,
        "traces_validated_against_impl": validated,
        "resolve_cases": len(cases["resolve"]),
        "resolver_answers_compared_with_transcription": counters["answers"],
        "resolve_cases_all_agree": counters["agreeing"],
        "resolve_cases_disagreeing": counters["disagreeing"],
        "resolve_cases_doc_fixed": counters["doc_fixed"],
        "spelling_cases": len(cases["spell"]),
        "spelling_parsed_as_specified": counters["spell_ok"],
        "visibility_cases": len(cases["vis"]),
        "visibility_verdicts_compared": counters["vis_verdicts"],
        "visibility_verdicts_as_demanded": counters["vis_as_demanded"],
        "import_graph_layouts": len(order),
        "collector_runs_compared_with_machine": counters["work_runs"],
        "runs_with_cycle_or_missing": counters["work_due"],
        "of_those_reported": counters["work_due_reported"],
        "trace_layouts": nlay_traced,
        "trace_events": len(events),
        "rule": "every TLC case of the bounded universe is replayed (no sampling of resolve/spelling/visibility/import-graph "
                "cases; the quick tier uses smaller constants: <=2 candidate files per direct layout, <=1 per nested layout). "
                "B2: a seed-chosen subset of the import-graph layouts is validated through ModulesTrace.",
        "exhaustive": True,
    }, assumptions=[
        "layouts: entry two directories below the project root, names p/q/r, at most 3 segments, parent levels <= 2, the "
        "five probed file shapes; symlinks, case-insensitive file systems and directories named like files are not modelled",
        "no Cargo.toml or src/ exists in any ancestor of the scratch directory (checked at start)",
        "the documentation is taken to fix the answer only when exactly one reading has a candidate and it is a .incn file",
        "the language server is observed through the dependency URIs it publishes diagnostics for (its visit order)",
        "visibility verdicts are observed on small programs whose only possible error is the reference under test",
    ])


# ------------------------------------------------------------------ replay of one recorded case
def replay(ctx, path):
    rec = json.load(open(path))
    case = rec["case"]
    kind = case.get("kind")
    fs = Fs(ctx, sub="replayfs")
    try:
        if kind == "resolve":
            c = case["case"]
            root = fs.new(resolve_files(c))
            out = common.replay_batch([resolve_req(root, c)])[0]
            print(json.dumps({"text": c["text"], "files": resolve_files(c), "transcribed": {k: c[k] for k in ("cli", "lib", "lsp", "col", "doc", "docfixed", "sigs")},
                              "real": out}, indent=1))
        elif kind == "spell":
            c = case["case"]
            print(json.dumps({"text": c["text"], "real": common.replay_batch([{"op": "c14_parse_import", "src": c["text"] + "\n"}])[0]}, indent=1))
        elif kind == "vis":
            c = case["case"]
            root = fs.new(vis_files(c))
            out = common.replay_batch([{"op": "c14_run", "root": root, "entry": rel(c["main"]), "want": ["check", "lsp"]}])[0]
            print(json.dumps({"files": vis_files(c), "demanded": c["demanded"], "transcribed": {"cli": c["cli"], "lsp": c["lsp"]}, "real": out}, indent=1))
        elif kind == "work":
            lay = case["case"]
            root = fs.new(work_files(lay))
            out = common.replay_batch([{"op": "c14_run", "root": root, "entry": WORK_PATH["main"], "want": ["cli", "lib", "col", "lsp", "check"]}])[0]
            print(json.dumps({"files": work_files(lay), "machines": case.get("machines"), "real": out}, indent=1))
        else:
            print(json.dumps(case, indent=1)[:4000])
    finally:
        fs.close()
    print("recorded signature:", rec.get("signature"), "--", rec.get("what"))
