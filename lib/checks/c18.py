"""C18 — the language server always converges to the latest document text.

Model: spec/Lsp.tla — one action per code segment between awaits of the document handlers,
tokio's RwLock as a fair FIFO permit queue, framework start order and concurrency limit.
 TLC: exhaustive over all client histories x all interleavings (configs below): Converged,
      NoStaleOverwrite, DiagFromSameVersion, LatestDiagFromLatestText, LockSane, deadlock
      freedom; liveness (<>[]Quiescent under weak fairness); the as-originally-written model
      (Guarded = FALSE) must still yield the known counterexamples (regression, non-vacuity).
Binding (real IncanLanguageServer built from /repo with --cfg incan_verif, harness/bin/lsp_sched):
 B1  transition cover: for every edge (s, a, t) of the TLC state graph the schedule reaching t
     through that edge is replayed poll by poll in the real server (yield points make every
     schedule realisable); the projected real state (handler positions, stored version/text/ast,
     published (version, from-text) sequence) is compared with t.
 B2  every replayed run is completed to quiescence, plus seed-driven random schedules; all
     recorded steps are validated by TLC against LspTrace (actions of Lsp + all invariants in
     every state); at quiescence hover/completion are asked through the public protocol.
"""
import json
import os
import shutil
import subprocess

from lib import common
from lib.common import ToolError

MODEL_BLOCKED = {"waitR", "waitW", "cwaitW"}


def sched_bin():
    common.build_harness()
    return common.harness_bin("lsp_sched")


def run_schedules(scheds, timeout=3000):
    """-> list of result dicts aligned with scheds."""
    inp = os.path.join(common.WORK, "tmp", f"lsp_in_{os.getpid()}.ndjson")
    os.makedirs(os.path.dirname(inp), exist_ok=True)
    with open(inp, "w") as fh:
        for s in scheds:
            fh.write(json.dumps(s) + "\n")
    with open(inp) as fin:
        try:
            p = subprocess.run([sched_bin()], stdin=fin, stdout=subprocess.PIPE, stderr=subprocess.PIPE, timeout=timeout)
        except subprocess.TimeoutExpired:
            raise ToolError("lsp_sched timeout")
    os.remove(inp)
    outs = [json.loads(l) for l in p.stdout.decode().splitlines() if l.strip()]
    if len(outs) != len(scheds):
        raise ToolError(f"lsp_sched answered {len(outs)} of {len(scheds)} schedules rc={p.returncode} {p.stderr.decode()[-500:]}")
    return outs


def decode_pubs(pubs, deps):
    """harness publish records -> {doc: [[ver, from], ...]} increments (dependency files skipped)."""
    out = []
    for p in pubs:
        doc = p["doc"]
        if doc.startswith("dep_"):
            continue
        if p["ver"] is None:
            out.append((doc, [0, 0 if p["n"] == 0 else -1]))
            continue
        froms = set()
        for f in p["from"]:
            if f <= -1000:
                line = -f - 1000
                froms.add(line - (1 if doc in deps else 0))
            else:
                froms.add(f)
        if len(froms) != 1:
            out.append((doc, [p["ver"], -2]))       # diagnostics of no or several versions
        else:
            out.append((doc, [p["ver"], froms.pop()]))
    return out


class RunState:
    """accumulates the projected real state of one run"""

    def __init__(self, docs, deps):
        self.docs, self.deps = docs, deps
        self.pub = {d: [] for d in docs}
        self.store = {d: {"ver": 0, "tv": 0, "ast": False} for d in docs}
        self.locked = False
        self.pcs = []

    def absorb(self, ob):
        for doc, pv in decode_pubs(ob.get("pubs", []), self.deps):
            if doc in self.pub:
                self.pub[doc].append(pv)
        st = ob.get("store") or {}
        if st.get("locked"):
            self.locked = True
        elif "docs" in st:
            self.locked = False
            self.store = {d: {"ver": 0, "tv": 0, "ast": False} for d in self.docs}
            for d in st["docs"]:
                if d["doc"] in self.store:
                    self.store[d["doc"]] = {"ver": d["ver"], "tv": d["tv"], "ast": d["ast"]}
        self.pcs = ob.get("pcs", [])

    def event(self, ob):
        return {"a": ob["a"], "h": ob.get("h", 0), "pcs": self.pcs, "locked": self.locked,
                "store": json.loads(json.dumps(self.store)), "pub": json.loads(json.dumps(self.pub))}


def model_pcs(pcs):
    return ["unknown" if p in MODEL_BLOCKED else p for p in pcs]


def run(ctx):
    # ---------------------------------------------------------------- model checking
    cfgs = ["MC_Lsp_1doc"] if ctx.quick else ["MC_Lsp_1doc", "MC_Lsp_1doc_deep", "MC_Lsp_2doc"]
    with ctx.timed("tlc_model"):
        for c in cfgs:
            r = common.tlc(ctx, "MC_Lsp", cfg=c, workers=8, timeout=3000, want_tags=())
            common.require_tlc_ok(ctx, r, "Lsp safety")
        r = common.tlc(ctx, "MC_LspLive", cfg="MC_LspLive", workers=4, timeout=900, want_tags=())
        common.require_tlc_ok(ctx, r, "Lsp liveness")
        neg = common.tlc(ctx, "MC_Lsp", cfg="MC_Lsp_aswritten", workers=4, timeout=300, want_tags=())
        if neg["ok"] or not any("violated" in e for e in neg["errors"]):
            raise ToolError("regression model (Guarded = FALSE) did not produce the known counterexample")

    # ---------------------------------------------------------------- B1: transition cover
    edge_cfgs = [("MC_Lsp_1doc_small_edges", ["d1"], ["d1"]), ("MC_Lsp_1doc_edges", ["d1"], ["d1"])] if ctx.quick else \
                [("MC_Lsp_1doc_edges", ["d1"], ["d1"]), ("MC_Lsp_2doc_edges", ["d1", "d2"], ["d1"])]
    rnd = common.rng(ctx, "c18")
    fsroot = os.path.join(common.WORK, "lspfs", str(os.getpid()))
    total_edges = compared = 0
    all_events = []
    nsched = 0
    distinct = set()
    for cfg, docs, deps in edge_cfgs:
        with ctx.timed("tlc_edges"):
            er = common.tlc(ctx, "MC_Lsp", cfg=cfg, workers=8, timeout=3000, want_tags=("EDGE",))
        common.require_tlc_ok(ctx, er, "Lsp edge enumeration")
        edges = er["cases"]["EDGE"]
        total_edges += len(edges)
        cap = 5000 if ctx.quick else 60000
        if len(edges) > cap:
            edges = rnd.sample(edges, cap)
        scheds = []
        for k, e in enumerate(edges):
            steps = [dict(s) for s in e["tr"]]
            for s in steps:
                if s["a"] != "send":
                    for f in ("kind", "doc", "ver", "cls"):
                        s.pop(f, None)
            scheds.append({"id": k, "dir": fsroot, "deps": deps, "hooks": True, "steps": steps + [{"a": "finish"}] +
                           [{"a": "hover", "doc": d} for d in docs]})
        with ctx.timed("replay_edges"):
            outs = run_schedules(scheds)
        for e, sc, o in zip(edges, scheds, outs):
            nsched += 1
            if "panic" in o or "tool_error" in o:
                if "budget" in o.get("tool_error", ""):
                    ctx.fail("server-never-quiescent", {"schedule": sc, "out": o.get("tool_error")})
                elif "panic" in o:
                    ctx.fail("server-panic", {"schedule": sc, "panic": o["panic"], "at": o.get("at")})
                else:
                    raise ToolError(f"lsp_sched: {o.get('tool_error')}")
                continue
            rs = RunState(["d1", "d2"], deps)
            all_events.append({"a": "reset"})
            npre = len(e["tr"])
            ok_run = True
            for j, ob in enumerate(o["obs"]):
                rs.absorb(ob)
                if ob["a"] == "send":
                    s = sc["steps"][j]
                    all_events.append({"a": "send", "h": ob["h"], "kind": s["kind"], "doc": s["doc"], "ver": s["ver"], "cls": s["cls"]})
                elif ob["a"] == "hover":
                    # public-protocol observation at quiescence
                    d = sc["steps"][-len(docs):][0]["doc"] if False else None
                else:
                    if ob.get("note") in ("grant-unused", "already-done"):
                        ctx.fail("schedule-not-realisable:" + str(ob.get("note")), {"schedule": sc, "at_step": j, "obs": ob},
                                 "a model step had no counterpart in the real handler")
                        ok_run = False
                        break
                    all_events.append(rs.event(ob))
                if j == npre - 1:
                    # state after the edge: compare with the model's t
                    st = e["st"]
                    exp_store = {d: st["store"][d] for d in docs}
                    exp_pub = {d: [[p["ver"], p["from"]] for p in st["pub"][d]] for d in docs}
                    diffs = []
                    if rs.pcs != model_pcs(st["pcs"]):
                        diffs.append(("pcs", model_pcs(st["pcs"]), rs.pcs))
                    if not rs.locked and {d: rs.store[d] for d in docs} != exp_store:
                        diffs.append(("store", exp_store, rs.store))
                    if rs.locked != st["locked"]:
                        diffs.append(("map-locked", st["locked"], rs.locked))
                    if {d: rs.pub[d] for d in docs} != exp_pub:
                        diffs.append(("published", exp_pub, rs.pub))
                    compared += 1
                    if diffs:
                        ctx.fail("state-differs-from-model:" + diffs[0][0],
                                 {"schedule": sc["steps"][:npre], "expected_vs_observed": diffs, "deps": deps, "docs": docs},
                                 "real server state after replaying a model edge differs from the model")
                        ok_run = False
                        break
            if not ok_run:
                # drop this run's partial events
                while all_events and all_events[-1].get("a") != "reset":
                    all_events.pop()
                all_events.pop()
                continue
            all_events.append({"a": "end"})
            # hover / completion at quiescence must answer from the converged store
            hov = [ob for ob in o["obs"] if ob["a"] == "hover"]
            for d, hb in zip(docs, hov):
                sv = rs.store[d]
                exp_hover = sv["ver"] if sv["ast"] else None
                if hb.get("hover") != exp_hover:
                    ctx.fail("hover-not-from-store", {"schedule": sc, "doc": d, "hover": hb.get("hover"), "store": sv})
                comp = hb.get("completion") or {}
                if sv["ver"] == 0:
                    if comp.get("open"):
                        ctx.fail("completion-after-close", {"schedule": sc, "doc": d, "completion": comp})
                elif not comp.get("open") or (sv["ast"] and comp.get("fns") != [sv["ver"]]):
                    ctx.fail("completion-not-from-store", {"schedule": sc, "doc": d, "completion": comp, "store": sv})
            last = e["tr"][-1]
            distinct.add((cfg, last["a"], json.dumps(e["st"]["pcs"]), json.dumps(e["st"]["store"], sort_keys=True)))
        if edges:
            ctx.sample({"edge_schedule": edges[len(edges) // 2]["tr"], "model_state_after": edges[len(edges) // 2]["st"]})

    # ---------------------------------------------------------------- B2: random schedules
    nrand = 150 if ctx.quick else 3000
    scheds = []
    for k in range(nrand):
        two = rnd.random() < 0.4
        docs = ["d1", "d2"] if two else ["d1"]
        steps, ver, closed = [], {d: 0 for d in docs}, set()
        nmsg = rnd.randint(2, 6)
        for _ in range(nmsg):
            live = [d for d in docs if d not in closed]
            if not live:
                break
            d = rnd.choice(live)
            if ver[d] > 0 and rnd.random() < 0.2:
                steps.append({"a": "send", "kind": "close", "doc": d, "ver": 0, "cls": "none"})
                closed.add(d)
            else:
                ver[d] += 1
                steps.append({"a": "send", "kind": "open" if ver[d] == 1 else "change", "doc": d, "ver": ver[d],
                              "cls": rnd.choice(["ok", "ok", "bad"])})
            if rnd.random() < 0.6:
                steps.append({"a": "random", "n": rnd.randint(1, 5)})
        steps.append({"a": "random", "n": rnd.randint(0, 12)} if rnd.random() < 0.7 else {"a": "finish"})
        steps.append({"a": "finish"})
        steps += [{"a": "hover", "doc": d} for d in docs]
        scheds.append({"id": k, "dir": fsroot, "deps": ["d1"], "hooks": True, "seed": rnd.randint(1, 2**31), "steps": steps,
                       "_docs": docs})
    with ctx.timed("replay_random"):
        outs = run_schedules([{k: v for k, v in s.items() if k != "_docs"} for s in scheds])
    for sc, o in zip(scheds, outs):
        nsched += 1
        docs = ["d1", "d2"]
        if "panic" in o or "tool_error" in o:
            if "budget" in o.get("tool_error", ""):
                ctx.fail("server-never-quiescent", {"schedule": sc, "out": o.get("tool_error")})
            elif "panic" in o:
                ctx.fail("server-panic", {"schedule": sc, "panic": o["panic"], "at": o.get("at")})
            else:
                raise ToolError(f"lsp_sched: {o.get('tool_error')}")
            continue
        rs = RunState(docs, ["d1"])
        all_events.append({"a": "reset"})
        sends = [s for s in sc["steps"] if s["a"] == "send"]
        si = 0
        for ob in o["obs"]:
            rs.absorb(ob)
            if ob["a"] == "send":
                s = sends[si]
                si += 1
                all_events.append({"a": "send", "h": ob["h"], "kind": s["kind"], "doc": s["doc"], "ver": s["ver"], "cls": s["cls"]})
            elif ob["a"] == "hover":
                pass
            else:
                ev = rs.event(ob)
                if ob.get("note") == "grant-unused":
                    ev["a"] = "resume"
                all_events.append(ev)
        all_events.append({"a": "end"})
        hov = [ob for ob in o["obs"] if ob["a"] == "hover"]
        for d, hb in zip(sc["_docs"], hov):
            sv = rs.store[d]
            if hb.get("hover") != (sv["ver"] if sv["ast"] else None):
                ctx.fail("hover-not-from-store", {"schedule": sc, "doc": d, "hover": hb.get("hover"), "store": sv})
    shutil.rmtree(fsroot, ignore_errors=True)

    # ---------------------------------------------------------------- trace validation of everything recorded
    tpath = os.path.join(ctx.work, "lsp_trace.ndjson")
    with open(tpath, "w") as fh:
        for ev in all_events:
            fh.write(json.dumps(ev) + "\n")
    with ctx.timed("tlc_trace"):
        ok, tres = common.validate_trace(ctx, "LspTrace", tpath, timeout=3000)
    validated_runs = sum(1 for e in all_events if e["a"] == "end")
    if not ok:
        rej = tres["cases"].get("REJECT")
        if not rej:
            # an invariant of Lsp failed on the real trace, or a tool problem
            if any("violated" in e for e in tres["errors"]):
                ctx.fail("trace-violates-invariant", {"errors": tres["errors"], "tail": tres["text_tail"][-3000:]},
                         "a recorded real execution violates a C18 invariant of Lsp")
            else:
                common.log(tres["text_tail"])
                raise ToolError("LspTrace failed without a REJECT line")
        else:
            at = rej[0].get("at", 1)
            # context: the events of the rejected run up to the rejected one
            start = max(i for i in range(at) if all_events[i]["a"] == "reset")
            ctx.fail("trace-rejected:" + str(rej[0].get("ev", {}).get("a")),
                     {"rejected_event": rej[0], "run_so_far": all_events[start:at]},
                     "a recorded real step is not a behaviour of Lsp")
            validated_runs = sum(1 for e in all_events[:at] if e["a"] == "end")
    ctx.sample({"trace_events": all_events[1:6]})

    common.write_evidence(ctx, "model_checking", {
        "states": sum(r["distinct"] for r in ctx.tlc_runs),
        "transitions": sum(r["states"] for r in ctx.tlc_runs),
        "traces_validated_against_impl": validated_runs,
        "evaluations": nsched,
        "distinct_nontrivial": len(distinct),
        "rule": "B1: one schedule per edge of the TLC state graph of the edge configs (quick: 1 document, versions 1..2 + "
                "close, 3 messages; thorough: 1 document versions 1..3 and 2 documents), replayed in the real server, state "
                "compared after the edge, run completed and validated; non-trivial = distinct (action, handler positions, "
                "store) targets; B2: random schedules (1-2 documents, 2-6 messages, ok/bad texts, close)",
        "edges_in_graph": total_edges,
        "edge_states_compared": compared,
        "random_schedules": nrand,
        "trace_events": len(all_events),
        "exhaustive": True,
    }, assumptions=[
        "every .await of the handlers carries a yield point (a new await without one is only noticed if it suspends)",
        "tokio's RwLock is a fair FIFO queue (as documented); the harness polls futures itself with a no-op waker",
        "client sends versions in increasing order, open first, close last (LSP contract)",
    ])


def replay(ctx, path):
    case = json.load(open(path))["case"]
    sc = case.get("schedule")
    if isinstance(sc, list):
        sc = {"id": 0, "dir": os.path.join(common.WORK, "lspfs", "replay"), "deps": case.get("deps", ["d1"]), "hooks": True, "steps": sc}
    out = run_schedules([{k: v for k, v in sc.items() if not k.startswith("_")}])[0]
    for ob in out.get("obs", []):
        print(json.dumps(ob))
    print("recorded:", json.dumps(case, default=str)[:3000])
