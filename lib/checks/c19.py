"""C19 — editor positions and byte offsets convert consistently.

Model: spec/Positions.tla — definitions by counting; TLC checks RoundTrip, Monotone, CountingOK,
RangeOK on EVERY document up to MaxLen scalars over {1,2,3,4-byte scalars, LF, CR}.
Binding (B1): for every document TLC prints the complete tables (offset->position for every byte
offset incl. mid-scalar and past-the-end, position->offset on a window, span->range for every
(start, end) incl. empty/reversed/past-the-end); the harness asks the real functions of
src/lsp/diagnostics.rs for the same tables and they are compared cell by cell. The diagnostic
renderers (terminal + editor) are run on every span: no panic, editor range = table, terminal
line = table.
"""
import json

from lib import common
from lib.common import ToolError


def run(ctx):
    cfg = "MC_Positions_quick" if ctx.quick else "MC_Positions"
    pw = 5 if ctx.quick else 6
    with ctx.timed("tlc"):
        res = common.tlc(ctx, "MC_Positions", cfg=cfg, workers=8, timeout=3000)
    common.require_tlc_ok(ctx, res, "Positions exhaustive check")
    rows = res["cases"]["CASE"]
    reqs = [{"op": "pos_tables", "doc": r["doc"], "w": pw} for r in rows]
    with ctx.timed("replay"):
        outs = common.replay_batch(reqs, timeout=1800)
    cells = 0
    nontrivial = 0
    for r, q, o in zip(rows, reqs, outs):
        if "crash" in o:
            ctx.fail("positions-crash", {"doc": r["doc"], "out": o})
            continue
        ob = o["obs"]
        if "panic" in ob:
            ctx.fail("positions-panic", {"doc": r["doc"], "obs": ob})
            continue
        multi = any(s in ("e2", "u3", "s4", "cr", "lf") for s in r["doc"])
        nontrivial += 1 if multi else 0
        if ob["bytes"] != r["bytes"]:
            raise ToolError(f"document rendering mismatch for {r['doc']}")
        bad = None
        for off, (exp, got) in enumerate(zip(r["o2p"], ob["o2p"])):
            cells += 1
            if exp != got and not bad:
                bad = ("offset_to_position", {"offset": off, "expected": exp, "observed": got})
        for l, (erow, grow) in enumerate(zip(r["p2o"], ob["p2o"])):
            for c, (exp, got) in enumerate(zip(erow, grow)):
                cells += 1
                if exp != got and not bad:
                    bad = ("position_to_offset", {"position": [l, c], "expected": exp, "observed": got})
        for s, (erow, grow) in enumerate(zip(r["s2r"], ob["s2r"])):
            for e, (exp, got) in enumerate(zip(erow, grow)):
                cells += 1
                if exp != got and not bad:
                    bad = ("span_to_range", {"span": [s, e], "expected": exp, "observed": got})
                rend = ob["render"][s][e]
                if rend["line"] == -1 and not bad:
                    bad = ("render-panic", {"span": [s, e], "panics": ob["render_panics"][:3]})
                elif rend.get("range") != exp and not bad:
                    bad = ("editor-diagnostic-range", {"span": [s, e], "expected": exp, "observed": rend.get("range")})
                elif rend["line"] != r["tline"][s] and not bad:
                    bad = ("terminal-line", {"span": [s, e], "expected": r["tline"][s], "observed": rend["line"]})
        if bad:
            ctx.fail("positions:" + bad[0], {"doc": r["doc"], "detail": bad[1]})
    ctx.sample({"doc": rows[len(rows) // 2]["doc"], "o2p": rows[len(rows) // 2]["o2p"]})
    common.write_evidence(ctx, "model_checking", {
        "states": sum(r["states"] for r in ctx.tlc_runs),
        "transitions": sum(r["states"] for r in ctx.tlc_runs),
        "traces_validated_against_impl": len(rows),
        "evaluations": cells,
        "distinct_nontrivial": nontrivial,
        "rule": "every document over {a, 2-byte, 3-byte, 4-byte, LF, CR} up to MaxLen scalars; every table cell compared; "
                "non-trivial = documents containing a multi-byte scalar, CR or LF (distinct documents)",
        "documents": len(rows),
        "exhaustive": True,
    }, assumptions=["documents longer than MaxLen behave like the enumerated ones (the functions are single loops over scalars)",
                    "terminal column is byte-based by construction and is not judged (C19 speaks about editor positions)"])


def replay(ctx, path):
    case = json.load(open(path))["case"]
    out = common.replay_batch([{"op": "pos_tables", "doc": case["doc"], "w": 6}])[0]
    print(json.dumps({"doc": case["doc"], "obs": {k: out["obs"][k] for k in ("o2p", "p2o", "s2r")}}))
    print("recorded:", json.dumps(case)[:2000])
