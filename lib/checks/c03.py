"""C03 — ill-typed programs are rejected with a located diagnostic.

Model:
 spec/GenMut.tla + Core.tla  for the Core-expressible rules (unknown name; wrong-typed value in an
   annotated binding / return / argument; reassignment or compound assignment of a binding not declared
   `mut` at scope distance 0..3): TLC builds a well-typed program, applies ONE mutation at ONE position
   inside 0..3 nested blocks of every kind, and emits it only when Accept(mutant) = FALSE and
   Accept(twin) = TRUE (invariant MutantsAreIllTyped).
 spec/Rules.tla  the remaining listed rules (field / element mutation through an immutable binding,
   `?` on a non-Result / with an incompatible error type, non-exhaustive match on enum / Option /
   Result, constructor with missing / duplicate / unknown field, trait adopted without its required
   method / @requires field) as a documented rule table walked over hosts (function, model method, class
   method) x nested blocks (if / elif / else / while / for / both match-arm syntaxes).
 spec/GenTypes.tla  "a value of the wrong type": the assignability relation Flows (structural equality of
   types, arity included, nominal for models / enums / newtypes, holes only where a literal leaves its type
   open) over a universe of atoms and constructors of depth 1 (thorough: 2), for three value forms
   (function result, canonical literal, literal with holes) at eight flow sites (annotated binding, return,
   function argument, method argument, constructor field, reassignment, list element, parameter default).
 spec/GenHole.tla  completeness of the traversal: six ill-typed expressions (unknown name / function / field / method,
   a str operand of `+`, an argument of the wrong type) placed in every expression context (43: operands, arguments,
   items, keys, indices, slice bounds, f-string holes, comprehension element / filter / source, constructors), composed
   to depth 1 (thorough: 2, sampled), inside every statement context (27: every statement form, match subject / arm /
   guard, closure body, loop nests, const / parameter-default / field-default initialisers, a class method);
   contexts whose well-typed twin the real checker rejects are skipped and counted.
Binding (B1, in process): the real checker must REJECT every mutant with at least one error whose span
intersects the rendered range of the offending construct, and must ACCEPT the twin (guards the
generator: a rejected twin is a tool error, never a violation).
"""
import json

from lib import clicontract, common, holes, render, typeflow
from lib.common import ToolError


# ---------------------------------------------------------------- Core-expressible rules (GenMut)
def render_fn_body(stmts, ind):
    """-> (lines, (first_line, last_line) of the statement marked `off`) ; line numbers relative to the returned list"""
    lines = []
    off = [None]

    def block(ss, i):
        for s in ss:
            start = len(lines)
            k = s["k"]
            if k == "if":
                lines.append(" " * (4 * i) + f"if {render.render_expr(s['cond'])}:")
                block(s["then"], i + 1)
                for el in s["elifs"]:
                    lines.append(" " * (4 * i) + f"elif {render.render_expr(el['cond'])}:")
                    block(el["body"], i + 1)
                for b in s["else"]:
                    lines.append(" " * (4 * i) + "else:")
                    block(b, i + 1)
            elif k == "while":
                lines.append(" " * (4 * i) + f"while {render.render_expr(s['cond'])}:")
                block(s["body"], i + 1)
            elif k == "for":
                lines.append(" " * (4 * i) + f"for {s['var']} in {render.render_expr(s['iter'])}:")
                block(s["body"], i + 1)
            else:
                lines.extend(render.render_stmt({kk: v for kk, v in s.items() if kk != "off"}, i))
            if s.get("off"):
                off[0] = (start, len(lines) - 1)
    block(stmts, ind)
    return lines, off[0]


def mut_program(body):
    head = ["def g(a: int) -> int:", "    return a", "", "def c(n: int) -> int:"]
    lines, off = render_fn_body(body, 1)
    tail = ["", "def main() -> None:", "    println(c(1))"]
    all_lines = head + lines + tail
    src = "\n".join(all_lines) + "\n"
    span = None
    if off:
        a, b = off[0] + len(head), off[1] + len(head)
        start = sum(len(l.encode()) + 1 for l in all_lines[:a])
        end = sum(len(l.encode()) + 1 for l in all_lines[:b + 1])
        span = (start, end)
    return src, span


# ---------------------------------------------------------------- table rules (Rules.tla): templates
PRELUDE = '''enum Color:
    Red
    Green
    Blue

model P:
    x: int
    y: int = 0

trait Named:
    def name(self) -> str

@requires(label: str)
trait Labeled:
    def show(self) -> str:
        return self.label

@requires(first: int)
@requires(second: str)
trait Twice:
    def both(self) -> int:
        return self.first

def fetch() -> Result[int, str]:
    return Ok(1)

def fetch2() -> Result[int, int]:
    return Ok(1)

def plain() -> int:
    return 1

'''
# rule -> (decl lines, bad lines, good lines); «..» marks the offending construct inside the bad lines
STMT = {
    "R5unpack": (["a0, b0 = (n // 2, n % 2)"], ["«a0 += 1»", "println(a0 + b0)"], ["println(a0 + b0)"]),
    "R7field": (["let p = P(x=1)"], ["«p.x = 2»"], ["println(p.x)"]),
    "R7index": (["let xs = [1, 2]"], ["«xs[0] = 5»"], ["println(xs[0])"]),
    "R8": ([], ["let v = «plain()?»", "println(v)"], ["let v = fetch()?", "println(v)"]),
    "R9": ([], ["let v = «fetch2()?»", "println(v)"], ["let v = fetch()?", "println(v)"]),
    "R10enum": ([], ["«match c:", "    Color.Red => println(1)", "    Color.Green => println(2)»"],
                ["match c:", "    Color.Red => println(1)", "    Color.Green => println(2)", "    Color.Blue => println(3)"]),
    "R10option": ([], ["«match o:", "    Some(v) => println(v)»"], ["match o:", "    Some(v) => println(v)", "    None => println(0)"]),
    "R10result": ([], ["«match r:", "    Ok(v) => println(v)»"], ["match r:", "    Ok(v) => println(v)", "    Err(e) => println(e)"]),
    "R10guard-enum": ([], ["«match c:", "    case Color.Red:", "        println(1)", "    case Color.Green:", "        println(2)", "    case other if n > 5:", "        println(3)»"],
                      ["match c:", "    case Color.Red:", "        println(1)", "    case Color.Green:", "        println(2)", "    case other if n > 5:", "        println(3)",
                       "    case _:", "        println(4)"]),
    "R10guard-option": ([], ["«match o:", "    case Some(v) if v > 3:", "        println(v)", "    case None:", "        println(0)»"],
                        ["match o:", "    case Some(v) if v > 3:", "        println(v)", "    case Some(v):", "        println(1)", "    case None:", "        println(0)"]),
    "R11missing": ([], ["let q = «P(y=2)»", "println(q.y)"], ["let q = P(x=1)", "println(q.y)"]),
    "R11dup": ([], ["let q = «P(x=1, x=2)»", "println(q.y)"], ["let q = P(x=1)", "println(q.y)"]),
    "R11unknown": ([], ["let q = «P(x=1, zz=3)»", "println(q.y)"], ["let q = P(x=1)", "println(q.y)"]),
}
DECL = {
    "R12method": ("«{kw} M with Named:\n    v: int»\n", "{kw} M with Named:\n    v: int\n\n    def name(self) -> str:\n        return \"m\"\n"),
    "R12requires": ("«{kw} M with Labeled:\n    v: int»\n", "{kw} M with Labeled:\n    v: int\n    label: str\n"),
    "R12requires-stacked": ("«{kw} M with Twice:\n    first: int»\n", "{kw} M with Twice:\n    first: int\n    second: str\n"),
    "R12method-second-trait": ("«{kw} M with Labeled, Named:\n    label: str»\n",
                               "{kw} M with Labeled, Named:\n    label: str\n\n    def name(self) -> str:\n        return \"m\"\n"),
}


def wrap(kinds, lines):
    """nest `lines` in blocks; every block kind the checker walks separately"""
    if not kinds:
        return lines
    inner = ["    " + l for l in wrap(kinds[1:], lines)]
    k = kinds[0]
    if k == "if":
        return ["if n < 3:"] + inner
    if k == "elif":
        return ["if false:", "    println(0)", "elif n < 3:"] + inner
    if k == "else":
        return ["if n < 3:", "    println(0)", "else:"] + inner
    if k == "while":
        return ["while n < 3:"] + inner + ["    break"]
    if k == "for":
        return ["for i in range(2):"] + inner
    if k == "case":
        return ["match n:", "    case 0:"] + ["    " + l for l in inner] + ["    case _:", "        println(0)"]
    if k == "arrow":
        return ["match n:", "    0 =>"] + ["    " + l for l in inner] + ["    _ => println(0)"]
    raise ValueError(k)


PRE = {
    "none": [],
    "closure": ["let cl0 = (z) => z + 1", "println(cl0(1))"],
    "listcomp": ["let lc0 = [z * 2 for z in [1, 2] if z > 0]", "println(len(lc0))"],
    "dictcomp": ["let dc0 = {z: z for z in [1, 2]}", "println(len(dc0))"],
    "match-stmt": ["match n:", "    0 => println(0)", "    _ => println(1)"],
    "for-loop": ["for z0 in range(2):", "    println(z0)"],
    "try-ok": ["let ok0 = fetch()?", "println(ok0)"],
    "nested-call": ["println(plain() + plain())"],
    "if-else": ["if n > 7:", "    println(7)", "else:", "    println(8)"],
}


PREFN = {"none": "", "mut-same-names": ("def earlier() -> int:\n    mut a0 = 0\n    a0 += 1\n    mut p = P(x=1)\n    p.x = 2\n    mut xs = [1, 2]\n"
                                         "    xs[0] = 5\n    return a0 + p.x + xs[0]\n\n")}


def table_program(row, variant):
    rule, host, kinds = row["rule"], row["host"], row["kinds"]
    if rule in DECL:
        kw = host
        text = PRELUDE + DECL[rule][0 if variant == "bad" else 1].format(kw=kw) + "\ndef main() -> None:\n    println(1)\n"
    else:
        decl, bad, good = STMT[rule]
        body = list(decl) + wrap(kinds, PRE[row.get("pre", "none")] + (bad if variant == "bad" else good)) + ["return Ok(0)"]
        params = "n: int, c: Color, o: Option[int], r: Result[int, str]"
        if host == "fn":
            fn = [f"def host({params}) -> Result[int, str]:"] + ["    " + l for l in body]
        else:
            kw = "model" if host == "method-model" else "class"
            fn = [f"{kw} H:", "    z: int", "", f"    def host(self, {params}) -> Result[int, str]:"] + ["        " + l for l in body]
        text = PRELUDE + PREFN[row.get("prefn", "none")] + "\n".join(fn) + "\n\ndef main() -> None:\n    println(1)\n"
    # strip the markers, remember the byte range
    b = text.encode("utf-8")
    s, e = b.find("«".encode()), b.find("»".encode())
    span = None
    if s >= 0:
        span = (s, e - len("«".encode()))
        text = text.replace("«", "").replace("»", "")
    return text, span


def judge(ctx, sig_base, tags, src, span, ob, info):
    if "panic" in ob:
        ctx.fail("checker-panic", dict(info, src=src, panic=ob["panic"]), tags=tags)
        return
    if ob.get("stage") in ("lex", "parse"):
        raise ToolError(f"C03 mutant does not parse (generator bug): {ob.get('errs')}\n{src}")
    if ob.get("ok"):
        ctx.fail("accepted-ill-typed:" + sig_base, dict(info, src=src), "the checker accepts a program that breaks a listed rule", tags=tags)
        return
    errs = ob.get("errs", [])
    if not errs:
        ctx.fail("rejected-without-diagnostic:" + sig_base, dict(info, src=src), tags=tags)
        return
    s, e = span
    if not any(d["start"] < e and max(d["end"], d["start"] + 1) > s for d in errs):
        ctx.fail("diagnostic-outside-offender:" + sig_base,
                 dict(info, src=src, offender=[s, e], diagnostics=[(d["start"], d["end"], d["msg"]) for d in errs][:4]),
                 "no reported error lies inside the offending construct", tags=tags)


def run(ctx):
    rnd = common.rng(ctx, "c03")
    with ctx.timed("tlc"):
        gm = common.tlc(ctx, "GenMut", cfg="GenMut", workers=8, timeout=3000)
        common.require_tlc_ok(ctx, gm, "GenMut / MutantsAreIllTyped")
        rt = common.tlc(ctx, "Rules", cfg="Rules", workers=4, timeout=600)
        common.require_tlc_ok(ctx, rt, "Rules")
        gt = [common.tlc(ctx, "GenTypes", cfg="GenTypes_d1", workers=4, timeout=1200, want_tags=("CASE", "SITES"))]
        if not ctx.quick:
            gt.append(common.tlc(ctx, "GenTypes", cfg="GenTypes_d2", workers=8, timeout=3000, want_tags=("CASE", "SITES")))
        for g in gt:
            common.require_tlc_ok(ctx, g, "GenTypes / Sanity")
        gh = common.tlc(ctx, "GenHole", cfg="GenHole_1", workers=6, timeout=1200)
        common.require_tlc_ok(ctx, gh, "GenHole")
        hrows = gh["cases"]["CASE"]
        if not ctx.quick:
            sim = common.tlc(ctx, "GenHole", cfg="GenHole_2", workers=1, timeout=1500, simulate=20000, depth=5)["cases"]["CASE"]
            seen = {}
            for r in sim:
                seen.setdefault(common.digest(json.dumps(r, sort_keys=True)), r)
            hrows = hrows + [seen[h] for h in sorted(seen)][:40000]
    mrows, trows = gm["cases"]["CASE"], rt["cases"]["CASE"]
    if ctx.quick:
        mrows = [r for r in mrows if len(r["kinds"]) <= 1] + rnd.sample([r for r in mrows if len(r["kinds"]) > 1], 350)
        trows = [r for r in trows if len(r["kinds"]) <= 1] + rnd.sample([r for r in trows if len(r["kinds"]) > 1], 350)
    reqs, meta = [], []
    for r in mrows:
        tags = ["rule:" + r["rule"], "distance:" + str(r["distance"])] + ["ctx:" + k for k in r["kinds"]] + \
               (["ctx-innermost:" + r["kinds"][-1]] if r["kinds"] else ["ctx-innermost:top"])
        src, span = mut_program(r["bad"])
        gsrc, _ = mut_program(r["good"])
        if span is None:
            raise ToolError("offender marker lost in rendering")
        reqs += [{"op": "check", "src": src}, {"op": "check", "src": gsrc}]
        meta.append((r["rule"], tags, src, span, gsrc, {"rule": r["rule"], "kinds": r["kinds"]}))
    for r in trows:
        tags = ["rule:" + r["rule"], "host:" + r["host"], "pre:" + r.get("pre", "none"), "prefn:" + r.get("prefn", "none"), "distance:" + str(len(r["kinds"]))] + ["ctx:" + k for k in r["kinds"]] + \
               (["ctx-innermost:" + r["kinds"][-1]] if r["kinds"] else ["ctx-innermost:top"])
        src, span = table_program(r, "bad")
        gsrc, _ = table_program(r, "good")
        reqs += [{"op": "check", "src": src}, {"op": "check", "src": gsrc}]
        meta.append((r["rule"], tags, src, span, gsrc, {"rule": r["rule"], "host": r["host"], "kinds": r["kinds"], "pre": r.get("pre", "none"), "prefn": r.get("prefn", "none")}))
    with ctx.timed("replay"):
        outs = common.replay_batch(reqs, timeout=3000)
    n = 0
    distinct = set()
    twin_rejected = {}
    for k, (rule, tags, src, span, gsrc, info) in enumerate(meta):
        ob_bad, ob_good = outs[2 * k].get("obs", {}), outs[2 * k + 1].get("obs", {})
        if "crash" in outs[2 * k] or "crash" in outs[2 * k + 1]:
            ctx.fail("checker-crash", dict(info, src=src), tags=tags)
            continue
        n += 1
        if not ob_good.get("ok"):
            # the well-typed twin is rejected: the context itself is not accepted by the checker -> the case
            # says nothing about the rule; counted (a generator/context limitation, not a violation)
            key = (rule, info.get("host"), tuple(info["kinds"]), info.get("pre"), info.get("prefn"))
            twin_rejected[key] = [d.get("msg") for d in ob_good.get("errs", [])][:2]
            continue
        judge(ctx, rule, tags, src, span, ob_bad, info)
        distinct.add((rule, info.get("host"), tuple(info["kinds"]), info.get("pre"), info.get("prefn")))
    # a rule whose twin is rejected in EVERY context would make the check vacuous for it
    by_rule = {}
    for (rule, host, kinds, _pre, _prefn) in distinct:
        by_rule[rule] = by_rule.get(rule, 0) + 1
    for rule in set(m[0] for m in meta):
        if by_rule.get(rule, 0) == 0:
            raise ToolError(f"rule {rule}: the well-typed twin is rejected in every context (template bug?): "
                            f"{[v for k, v in twin_rejected.items() if k[0] == rule][:2]}")
    # ---------------------------------------------------------------- the assignability relation (GenTypes) at every flow site
    sites = sorted(gt[0]["cases"]["SITES"][0])
    flows = []
    for g in gt:
        rows = g["cases"]["CASE"]
        if ctx.quick:
            # every ill/well-typed pair at two sites (rotating, seeded): each site still sees every kind of pair
            off = rnd.randrange(len(sites))
            for i, r in enumerate(rows):
                flows += [(r, sites[(i + off) % len(sites)]), (r, sites[(i * 3 + off + 1) % len(sites)])]
        elif g is gt[0]:
            flows += [(r, s) for r in rows for s in sites]
        else:
            # depth 2: nested constructors; cases where the two types share their outer constructor are the hard ones
            keep = [r for r in rows if r["a"]["k"] == r["b"]["k"]] + rnd.sample(rows, min(len(rows), 20000))
            flows += [(r, sites[(i + k) % len(sites)]) for i, r in enumerate(keep) for k in (0, 3)]
    with ctx.timed("typeflow"):
        tstats = typeflow.judge(ctx, flows)
    ctx.stats["typeflow"] = dict(tstats, flows=len(flows), sites=sites)
    n += len(flows)
    for r, site in flows:
        distinct.add(("flow", typeflow.ty_text(r["a"]), r["form"], typeflow.ty_text(r["b"]), site))
    # ---------------------------------------------------------------- an ill-typed expression in every position (GenHole)
    with ctx.timed("holes"):
        hstats = holes.judge(ctx, hrows)
    ctx.stats["holes"] = hstats
    n += hstats["judged"]
    for r in hrows:
        distinct.add(("hole", r["off"], r["stmt"], r["inner"], r["depth"]))
    # ---------------------------------------------------------------- the same verdicts at the command line (spec/Cli.tla, CliTrace)
    cli_src = []
    for k in rnd.sample(range(len(meta)), min(len(meta), 8 if ctx.quick else 80)):
        cli_src += [(f"mutant:{meta[k][0]}", meta[k][2]), (f"twin:{meta[k][0]}", meta[k][4])]
    for r, site in rnd.sample(flows, min(len(flows), 10 if ctx.quick else 100)):
        cli_src.append((f"flow:{site}", typeflow.program(r, site)[0]))
    for r in rnd.sample(hrows, min(len(hrows), 10 if ctx.quick else 100)):
        cli_src.append((f"hole:{r['off']}", holes.program(r)[0]))
    with ctx.timed("cli"):
        ctx.stats["cli"] = clicontract.run_sessions(ctx, cli_src, "c03", modes=("check", "emit"))
    n += ctx.stats["cli"].get("invocations", 0)
    ctx.sample({"typeflow_case": typeflow.program(flows[len(flows) // 3][0], flows[len(flows) // 3][1])[0][-300:],
                "accept": flows[len(flows) // 3][0]["accept"]})
    ctx.sample({"mutant": meta[3][2], "offender_span": meta[3][3]})
    ctx.sample({"table_mutant": meta[len(mrows) + 5][2][-400:], "offender_span": meta[len(mrows) + 5][3]})
    ctx.stats["twin_rejected_contexts"] = len(twin_rejected)
    ctx.stats["twin_rejected_samples"] = [{"case": list(map(str, k)), "msgs": v} for k, v in list(twin_rejected.items())[:6]]
    ctx.stats["judged_per_rule"] = by_rule
    # multi-module projects (spec/GenMod.tla, lib/modproj.py): the same declarations split over several files
    with ctx.timed("modproj"):
        from lib import modproj
        modproj.run(ctx)
    common.write_evidence(ctx, "model_checking", {
        "states": sum(r["distinct"] for r in ctx.tlc_runs),
        "transitions": sum(r["states"] for r in ctx.tlc_runs),
        "traces_validated_against_impl": n,
        "evaluations": n,
        "distinct_nontrivial": len(distinct),
        "rule": "one mutant per (rule, host, block nesting) emitted by TLC (GenMut: verdict computed by Core's Accept; Rules: the "
                "documented rule table); judged = cases whose well-typed twin the real checker accepts; distinct by (rule, host, nesting); "
                "GenTypes: one program per (value type, value form, declared type, flow site), verdict = the Flows relation",
        "exhaustive": not ctx.quick,
    }, assumptions=["contexts: nesting up to 3 (GenMut) / 2 (table rules) blocks; comprehensions, closures and f-string holes are not yet generated",
                    "span test: a diagnostic must intersect the source range of the offending statement / expression"])


def replay(ctx, path):
    case = json.load(open(path))["case"]
    out = common.replay_batch([{"op": "check", "src": case["src"]}])[0]
    print(json.dumps(out, indent=1)[:3000])
    print(case["src"])
