"""C09 — formatting is idempotent and consistent with --check.

Model: spec/Format.tla — RunStable (Fmt(Fmt(s)) = Fmt(s); Canonical: exactly one final newline, no tab and
no trailing whitespace outside string / docstring contents) and the `incan fmt` mode machine
(fmt rewrites, --check / --diff are read-only, --check exits 0 iff the file is already formatted;
TLC checks ReadOnlyModes and CheckAfterFmt on the machine).
Binding: the real format_source is applied twice in process to every input of the C08 program space
plus layout-edited variants (C10's edits: blank lines, comments, docstring placement); every run is
recorded as a line trace and validated by TLC (FormatTrace, want = C09); real CLI sessions
(`incan fmt`, `fmt --check`, `fmt --diff` on real files; exit status, file bytes and mtime before /
after) are recorded and validated against the mode machine by the same trace spec.
"""
import json
import os
import shutil
import subprocess

from lib import common, fmtcommon, gensyntax, pipeline
from lib.checks import c08, c10
from lib.common import ToolError


def run(ctx):
    rnd = common.rng(ctx, "c09")
    with ctx.timed("inputs"):
        items = fmtcommon.inputs(ctx, 120 if ctx.quick else 1357)
        items += pipeline.iter_sources(ctx, 120 if ctx.quick else 1357, common.rng(ctx, "fmt-iter"))      # spec/GenIter.tla
    # layout-edited variants of a sample (blank-line / comment / docstring interactions)
    base = [(n, s) for n, s in items if not n.startswith("gen:")]
    lreqs = [{"op": "lex", "src": s, "detail": True} for _, s in base]
    louts = common.replay_batch(lreqs, timeout=1800)
    variants = []
    for (name, src), lo in zip(base, louts):
        lob = lo.get("obs", {})
        if not lob.get("ok"):
            continue
        eds = c10.make_edits(src, lob["classes"], lob["spans"], lob["detail"], rnd, 1)
        for kind, text in eds:
            if kind in ("blank-line", "comment-line-col0", "comment-line-indented", "whitespace-line", "trailing-blanks",
                        "final-newline-off", "final-newline-double", "crlf-all-lines", "reindent-x2", "reindent-tabs"):
                variants.append((f"{name}#{kind}", text))
    if len(variants) > (250 if ctx.quick else 4000):
        variants = rnd.sample(variants, 250 if ctx.quick else 4000)
    items = items + variants
    with ctx.timed("roundtrip"):
        res = c08.evaluate(ctx, items)
    # spec/GenSyntax.tla: every row of the surface grammar, as files of rows; a file that is not stable / canonical (or fails C08)
    # is split down to the single row, so a failure carries the tags of ONE row
    with ctx.timed("gensyntax"):
        syn, syninfo = gensyntax.cases(ctx)
        units, syn_reqs = gensyntax.formatter_units(ctx, syn, c08.evaluate, extra_ok=gensyntax.crude_canonical)
    for u, r in units:
        items.append((u.name, u.src))
        res.append(r)
    # string spans of the formatted output, to know which lines lie inside string / docstring contents
    ok_idx = [i for i, r in enumerate(res) if r["stage"] == "ok"]
    with ctx.timed("lex_outputs"):
        fouts = common.replay_batch([{"op": "lex", "src": res[i]["fmt1"]} for i in ok_idx], timeout=1800)
    events, ev_names = [], []
    n = 0
    distinct = set()
    for i, fo in zip(ok_idx, fouts):
        name, src = items[i]
        r = res[i]
        n += 1
        fob = fo.get("obs", {})
        spans = []
        if fob.get("ok"):
            b = r["fmt1"].encode("utf-8")
            spans = [(s, e) for c, (s, e) in zip(fob["classes"], fob["spans"]) if c == "ATOM" and b"\n" in b[s:e]]
        elif r["parse2"]:
            raise ToolError("formatted output parses but does not lex?")
        lines, final_nl = fmtcommon.line_trace(r["fmt1"], spans)
        tags = r.get("tags") or []
        problems = []
        if r.get("fmt2_err"):
            problems.append("second-format-fails")       # consequence of C08 (output does not parse): judged there
        elif not r["idempotent"]:
            problems.append("not-idempotent")
        if final_nl != 1:
            problems.append(f"final-newlines={final_nl}")
        for k, (tab, trail, instr) in enumerate(lines):
            if not instr and tab:
                problems.append("tab-outside-string")
                break
        for k, (tab, trail, instr) in enumerate(lines):
            if not instr and trail:
                problems.append("trailing-whitespace")
                break
        distinct.add(common.digest(src))
        if problems == ["second-format-fails"]:
            continue
        real = [p for p in problems if p != "second-format-fails"]
        if real:
            feats = sorted(fmtcommon.ast_features(_ast_of(ctx, src)))
            for p in real:
                ctx.fail("fmt:" + p, {"name": name, "formatted": r["fmt1"][:1200], "second": (r.get("fmt2") or "")[:1200]},
                         "formatter output is not stable / canonical", tags=feats + ["input:" + name.split(":")[0]])
        else:
            events.append({"a": "run", "want": "C09", "name": name, "parse2": bool(r["parse2"]), "astEqual": bool(r["ast_equal"]),
                           "idempotent": True, "lines": lines if len(lines) < 400 else lines[:400], "finalNl": final_nl})
    syn_ev = [e for e in events if e["name"].startswith("syntax")]
    if len(syn_ev) > (150 if ctx.quick else 1500):      # TLC re-evaluates RunStable on every event: a seeded sample of the GenSyntax files
        keep = set(id(e) for e in rnd.sample(syn_ev, 150 if ctx.quick else 1500))
        events = [e for e in events if not e["name"].startswith("syntax") or id(e) in keep]
    # ---------------------------------------------------------------- CLI sessions
    cli = common.harness_bin("incan_cli")
    common.build_harness()
    cdir = os.path.join(ctx.work, "cli")
    os.makedirs(cdir, exist_ok=True)
    sample = [i for i in ok_idx if res[i]["parse2"] and res[i]["idempotent"]]
    sample = rnd.sample(sample, min(len(sample), 16 if ctx.quick else 96))
    # the file as it sits on disk: as generated, with CRLF line endings, without its final newline, with blank lines at the end
    VARIANTS = [("as-is", lambda t: t), ("crlf", lambda t: t.replace("\n", "\r\n")), ("no-final-newline", lambda t: t.rstrip("\n")),
                ("blank-lines-at-end", lambda t: t + "\n\n")]
    sessions = []
    for k, i in enumerate(sample):
        name, src = items[i]
        vname, fn = VARIANTS[k % len(VARIANTS)]
        sessions.append((name + "@" + vname, fn(src)))
    fouts = common.replay_batch([{"op": "fmt", "src": t} for _, t in sessions], timeout=600)
    n_cli = 0
    for k, ((name, text), fo) in enumerate(zip(sessions, fouts)):
        fob = fo.get("obs", {})
        if not fob.get("ok"):
            continue        # the variant does not format (C10 / C08 material): no CLI session
        want = fob["text"]
        path = os.path.join(cdir, f"f{k}.incn")
        with open(path, "w", encoding="utf-8", newline="") as fh:
            fh.write(text)
        dirty = want != text
        events.append({"a": "file", "name": name, "state": "dirty" if dirty else "clean"})

        def invoke(args):
            before = (open(path, "rb").read(), os.stat(path).st_mtime_ns)
            p = subprocess.run([cli, "fmt"] + args + [path], stdout=subprocess.PIPE, stderr=subprocess.PIPE, timeout=120)
            after = (open(path, "rb").read(), os.stat(path).st_mtime_ns)
            return p.returncode, before != after
        for a, args in (("check", ["--check"]), ("diff", ["--diff"]), ("checkdiff", ["--check", "--diff"] if k % 2 else ["--diff", "--check"]),
                        ("fmt", []), ("check", ["--check"]), ("diff", ["--diff"]), ("checkdiff", ["--check", "--diff"]), ("fmt", [])):
            rc, mod = invoke(args)
            n_cli += 1
            events.append({"a": a, "name": name, "exit": rc, "modified": mod})
        if open(path, "rb").read().decode("utf-8") != want:
            ctx.fail("cli:fmt-writes-different-text", {"name": name}, "`incan fmt` wrote something else than format_source returns",
                     tags=["variant:" + name.rsplit("@", 1)[1]])
    # ---------------------------------------------------------------- directory sessions: `incan fmt DIR`, `incan fmt --check DIR`
    good = [(nm, tx, fo["obs"]["text"]) for (nm, tx), fo in zip(sessions, fouts) if fo.get("obs", {}).get("ok")]
    for dk in range(2 if ctx.quick else 8):
        pick = rnd.sample(good, min(len(good), 4))
        # clean / dirty mix: every other file is written already formatted; the dirty one is not always the first in the walk
        ddir = os.path.join(cdir, f"dir{dk}")
        shutil.rmtree(ddir, ignore_errors=True)
        os.makedirs(os.path.join(ddir, "sub"))
        paths, states = [], []
        for j, (nm, tx, want) in enumerate(pick):
            dirty = (want != tx) and ((j + dk) % 2 == 0 or dk % 2 == 1 and j == len(pick) - 1)
            text = tx if dirty else want
            pth = os.path.join(ddir, "sub" if j % 2 else "", f"m{j}_{'z' if j == 0 else 'a'}.incn")
            with open(pth, "w", encoding="utf-8", newline="") as fh:
                fh.write(text)
            paths.append(pth)
            states.append("dirty" if dirty else "clean")
        events.append({"a": "dir", "name": f"dir{dk}", "states": states})

        def dinvoke(args):
            before = [(open(pp, "rb").read(), os.stat(pp).st_mtime_ns) for pp in paths]
            p = subprocess.run([cli, "fmt"] + args + [ddir], stdout=subprocess.PIPE, stderr=subprocess.PIPE, timeout=300)
            after = [(open(pp, "rb").read(), os.stat(pp).st_mtime_ns) for pp in paths]
            return p.returncode, [b != a for b, a in zip(before, after)]
        for a, args in (("dcheck", ["--check"]), ("dfmt", []), ("dcheck", ["--check"]), ("dfmt", [])):
            rc, mods = dinvoke(args)
            n_cli += 1
            events.append({"a": a, "name": f"dir{dk}", "exit": rc, "modified": mods})
    # ---------------------------------------------------------------- TLC validates everything recorded
    tpath = os.path.join(ctx.work, "format_trace.ndjson")
    with open(tpath, "w") as fh:
        for e in events:
            fh.write(json.dumps(e) + "\n")
    with ctx.timed("tlc"):
        mres = common.tlc(ctx, "MC_Format", cfg="MC_Format", workers=2, timeout=300, want_tags=())
        common.require_tlc_ok(ctx, mres, "Format mode machine")
        ok, tres = common.validate_trace(ctx, "FormatTrace", tpath, timeout=3000)
    validated = len(events)
    if not ok:
        rej = tres["cases"].get("REJECT")
        if not rej:
            common.log(tres["text_tail"])
            raise ToolError("FormatTrace failed without a REJECT line")
        at = rej[0]["at"]
        validated = at - 1
        bad = events[at - 1]
        if bad["a"] in ("dir", "dfmt", "dcheck"):
            start = max(j for j in range(at) if events[j]["a"] == "dir")
            ctx.fail("cli:directory-session-not-a-behaviour-of-the-mode-machine:" + bad["a"], {"session": events[start:at]},
                     "exit status / set of rewritten files of `incan fmt [--check] DIR` contradicts the mode machine")
        elif bad["a"] == "run":
            raise ToolError(f"FormatTrace rejected a run the driver judged stable: {bad['name']}")
        else:
            start = max(j for j in range(at) if events[j]["a"] == "file")
            ctx.fail("cli:session-not-a-behaviour-of-the-mode-machine:" + bad["a"], {"session": events[start:at]},
                     "exit status / file modification of a real `incan fmt` invocation contradicts the mode machine")
    ctx.sample({"trace_event": {k: v for k, v in events[0].items() if k != "lines"}, "lines_head": events[0].get("lines", [])[:5]})
    common.write_evidence(ctx, "exploration", {
        "evaluations": n + n_cli,
        "distinct_nontrivial": len(distinct),
        "rule": "C08's program space plus layout-edited variants (one position per edit kind per file, seeded) formatted twice in "
                "process; distinct by source text; CLI sessions of 6 invocations each on a seeded sample of real files",
        "samples": ctx.samples,
        "formatter_runs": n, "cli_invocations": n_cli, "trace_events_validated_by_tlc": validated,
        "gensyntax": dict(gensyntax.coverage(syn, syninfo), formatter_requests=syn_reqs,
                          files_of_rows_stable=sum(1 for u, _ in units if not u.single), single_rows_judged=sum(1 for u, _ in units if u.single)),
        "tlc_states": sum(r["distinct"] for r in ctx.tlc_runs),
    }, assumptions=["inputs whose formatted output does not parse are C08's failures; their second formatting is not judged here"])


_AST_CACHE = {}


def _ast_of(ctx, src):
    if src not in _AST_CACHE:
        o = common.replay_batch([{"op": "parse", "src": src}])[0]
        _AST_CACHE[src] = o.get("obs", {}).get("ast")
    return _AST_CACHE[src]


def replay(ctx, path):
    case = json.load(open(path))["case"]
    print("recorded:", json.dumps(case, default=str)[:3000])
