"""C01 — compiled programs behave exactly as the Incan source says.

Model: spec/Core.tla — reference static rules (Accept) and dynamic semantics (Run) of Core Incan
(ints, dyadic floats, bools, strs, lists; all operators with explicit grouping; calls with observable
evaluation order; scope rules; control flow; canonical errors), using PyArith / PySeq for the kernels.
 TLC: GenExpr (every expression to the depth bound in a fixed environment), GenProg (statement
 programs built by a frame machine), GenData (models, enums, Option / Result, match, `?`) and GenCtl
 (if / elif / else and statement-level match chains with effectful conditions and one jump, inside every
 loop context), GenColl (strings, collections, comprehensions, closures, f-strings, tuples), GenObj (methods,
 mut self, field assignment, traits, inheritance), GenDiv (the division family through every target form) and GenIter
 (enumerate / zip / tuple unpacking / dict and set iteration / nested loops with jumps / Option helpers / `?` and `return`
 inside loops and match arms / recursion / membership / conversions)
 enumerate / simulate programs; `Sound` (an accepted program never
 gets stuck) is checked on every generated program; each case is printed with Run(p) and feature tags.
Binding:
 B1  render -> self-check (parse(render(t)) == t) -> real `incan build` (batched) -> run -> stdout
     values / error text compared with Run(p), case by case.
 B2  the recorded real executions are validated by TLC against PipelineTrace, which recomputes
     Accept / Run from the program carried by the event.
Cases the back end cannot build are C02's business (counted here, judged there).
"""
import json
import os
import re

from lib import common, pipeline, render
from lib.common import ToolError


def observed_values(lines):
    """stdout lines of a real run -> typed tokens for PipelineTrace (ints, bools, strings as scalar ids)"""
    inv = {v: k for k, v in render.SCALAR.items()}
    out = []
    for ln in lines:
        if re.fullmatch(r"-?\d+", ln):
            out.append({"t": "int", "iv": int(ln)})
        elif ln in ("true", "false"):
            out.append({"t": "bool", "bv": ln == "true"})
        else:
            try:
                out.append({"t": "str", "sv": [inv[ch] for ch in ln]})
            except KeyError:
                return None
    return out


def _uniq(rows, n=10 ** 9):
    """distinct simulated rows in a deterministic order (by content hash), at most n"""
    import hashlib
    seen = {}
    for r in rows:
        k = json.dumps(r, sort_keys=True)
        seen.setdefault(hashlib.sha256(k.encode()).hexdigest(), r)
    return [seen[h] for h in sorted(seen)][:n]


# tag prefixes of spec/GenIter.tla (stratification of the sample)
ITER_TAGS = ("iter:", "enum-", "zip-", "for-unpack", "unpack-src:", "dict-", "one-entry", "loop-", "mut:", "outer", "inner", "opt:", "try:",
             "return:", "arg:", "rec:", "set", "member:", "conv", "comp-")


def run(ctx):
    rnd = common.rng(ctx, "c01")
    n_expr, n_prog, n_sim = (260, 140, 0) if ctx.quick else (2500, 1243, 1200)
    with ctx.timed("tlc_gen"):
        ge = common.tlc(ctx, "GenExpr", cfg="GenExpr_d1" if ctx.quick else "GenExpr_d2", workers=8, timeout=3000)
        common.require_tlc_ok(ctx, ge, "GenExpr / Sound")
        gp = common.tlc(ctx, "GenProg", cfg="GenProg_s2", workers=8, timeout=3000)
        common.require_tlc_ok(ctx, gp, "GenProg / Sound")
        gd = common.tlc(ctx, "GenData", cfg="GenData", workers=8, timeout=3000)
        common.require_tlc_ok(ctx, gd, "GenData / Sound / NonExhaustiveRejected")
        gc = common.tlc(ctx, "GenCtl", cfg="GenCtl_quick", workers=8, timeout=6000)
        gc_sim = _uniq(common.tlc(ctx, "GenCtl", cfg="GenCtl_full", workers=1, timeout=1500, simulate=300, depth=7)["cases"]["CASE"], 1500) if not ctx.quick else []
        common.require_tlc_ok(ctx, gc, "GenCtl / Sound")
        go = common.tlc(ctx, "GenColl", cfg="GenColl_2", workers=8, timeout=6000)
        common.require_tlc_ok(ctx, go, "GenColl / Sound")
        gv = common.tlc(ctx, "GenDiv", cfg="GenDiv", workers=4, timeout=900)
        common.require_tlc_ok(ctx, gv, "GenDiv / OnlyZeroDivision")
        gj = common.tlc(ctx, "GenObj", cfg="GenObj_2", workers=8, timeout=6000, want_tags=("CASE", "DECLS"))
        common.require_tlc_ok(ctx, gj, "GenObj / Sound")
        gj_sim = _uniq(common.tlc(ctx, "GenObj", cfg="GenObj_sim", workers=1, timeout=1500, simulate=400, depth=6)["cases"]["CASE"]) if not ctx.quick else []
        go_sim = _uniq(common.tlc(ctx, "GenColl", cfg="GenColl_sim", workers=1, timeout=1500, simulate=600, depth=6)["cases"]["CASE"]) if not ctx.quick else []
        gi = common.tlc(ctx, "GenIter", cfg="GenIter_2", workers=8, timeout=6000, want_tags=("CASE", "DECLS"))
        common.require_tlc_ok(ctx, gi, "GenIter / AllAccepted / Sound / OrderFree")
        gi_sim = _uniq(common.tlc(ctx, "GenIter", cfg="GenIter_sim", workers=1, timeout=1500, simulate=300, depth=6)["cases"]["CASE"]) if not ctx.quick else []
        sim_rows = []
        if n_sim:
            gs = common.tlc(ctx, "GenProg", cfg="GenProg_s3", workers=8, timeout=1500, simulate=n_sim, depth=14)
            sim_rows = gs["cases"]["CASE"]
    erows, prows = ge["cases"]["CASE"], gp["cases"]["CASE"]
    crows = gc["cases"]["CASE"]
    universe = len(erows) + len(prows) + len(gd["cases"]["CASE"]) + len(crows)

    def pick(rows, n):
        # stratified by feature-tag set so that every operator / construct is represented
        if len(rows) <= n:
            return list(rows)
        buckets = {}
        for r in rows:
            key = tuple(sorted(t for t in r["feats"] if t.startswith(("bin:", "un:", "call:", "index:", "slice-shape:", "stmt:", "grp:", "match:", "pat:", "arm:", "data:", "subject:", "ctl:", "ctx:", "jump", "cond:", "matchform:", "coll:", "m:", "f:", "listcomp", "dictcomp", "closure", "setidx:", "n:fstr", "n:tuple", "n:tfield", "obj", "n:setfield", "n:ctord", "div:", "target:", "lhs:", "rhs:") + ITER_TAGS)))
            buckets.setdefault(key, []).append(r)
        keys = sorted(buckets)
        rnd.shuffle(keys)
        out = []
        while len(out) < n and keys:
            for k in list(keys):
                b = buckets[k]
                if b:
                    out.append(b.pop(rnd.randrange(len(b))))
                else:
                    keys.remove(k)
                if len(out) >= n:
                    break
        return out
    seen = set()
    uniq_sim = []
    for r in sim_rows:
        k = json.dumps(r["body"], sort_keys=True)
        if k not in seen:
            seen.add(k)
            uniq_sim.append(r)
    cases = [pipeline.expr_case(r, k) for k, r in enumerate(pick(erows, n_expr))]
    cases += [pipeline.prog_case(r, k) for k, r in enumerate(pick(prows, n_prog))]
    drows = gd["cases"]["CASE"]
    cases += [pipeline.data_case(r, k) for k, r in enumerate(pick(drows, 110 if ctx.quick else 1396))]
    cases += [pipeline.prog_case(r, k, prefix="s") for k, r in enumerate(uniq_sim[:n_sim])]
    cases += [pipeline.ctl_case(r, k) for k, r in enumerate(pick(crows, 300 if ctx.quick else 2500) + gc_sim)]
    vrows = gv["cases"]["CASE"]
    universe += len(vrows)
    cases += [pipeline.div_case(r, k) for k, r in enumerate(pick(vrows, 70 if ctx.quick else len(vrows)))]
    orows = go["cases"]["CASE"]
    universe += len(orows)
    jrows = gj["cases"]["CASE"]
    universe += len(jrows)
    cases += [pipeline.obj_case(r, k, gj["cases"]["DECLS"][0]) for k, r in enumerate(pick(jrows, 160 if ctx.quick else 1500) + gj_sim)]
    cases += [pipeline.coll_case(r, k) for k, r in enumerate(pick(orows, 220 if ctx.quick else 2000) + go_sim)]
    irows = gi["cases"]["CASE"]
    universe += len(irows)
    # single operations carry every construct in isolation (also the known-bad ones); pairs their interactions
    ipick = pick([r for r in irows if r["nops"] == 1], 100 if ctx.quick else 400) + pick([r for r in irows if r["nops"] > 1], 160 if ctx.quick else 1200)
    cases += [pipeline.iter_case(r, k, gi["cases"]["DECLS"][0]) for k, r in enumerate(ipick + gi_sim)]
    with ctx.timed("self_check"):
        rej = pipeline.self_check_exprs(ctx, [c for c in cases if c["kind"] == "expr"])
        rej.update(pipeline.self_check_progs(ctx, [c for c in cases if c["kind"] in ("prog", "coll", "obj", "div")]))
        rej.update(pipeline.self_check_data(ctx, [c for c in cases if c["kind"] == "data"]))
        rej.update(pipeline.self_check_ctl(ctx, [c for c in cases if c["kind"] == "ctl"]))
        rej.update(pipeline.self_check_iter(ctx, [c for c in cases if c["kind"] == "iter"]))
    for cid, err in rej.items():
        c = next(x for x in cases if x["id"] == cid)
        ctx.fail("parse:rendered-program-rejected", {"src": c["body"], "err": err}, "a documented form does not parse", tags=c["tags"])
    cases = [c for c in cases if c["id"] not in rej]
    ev = pipeline.evaluate(ctx, cases)
    stats = {}
    distinct = set()
    n_ran = 0
    for c, e in zip(cases, ev):
        sym = e["symptom"]
        stats[e["stage"] + (":" + sym if sym else ":ok")] = stats.get(e["stage"] + (":" + sym if sym else ":ok"), 0) + 1
        src = " ; ".join(c["body"][-4:]) if c["kind"] in ("prog", "data") else (c["decls"] if c["kind"] == "ctl" else ("\n".join(c["body"]) if c["kind"] in ("coll", "obj", "div", "iter") else c["body"][-1]))
        if e["stage"] in ("ran", "abort"):
            n_ran += 1
            distinct.add(src)
            if sym:
                ctx.fail(sym, {"src": c["body"], "decls": c["decls"] if c["kind"] in ("ctl", "iter") else "", "detail": e["detail"], "expected": [render.value_text(v) for v in c["expect"]["out"]],
                               "expected_status": c["expect"]["status"], "expected_err": c["expect"]["err"]},
                         "compiled behaviour differs from the specification's Run(p)", tags=c["tags"])
        # emit / build / check stages: not C01's verdict (C02 judges them)
    # ---------------------------------------------------------------- B2: real executions through PipelineTrace
    # the event carries what the REAL program printed (typed), not the expectation
    events = []
    for c, e in zip(cases, ev):
        if c["kind"] != "expr" or e["stage"] not in ("ran", "abort") or e["symptom"]:
            continue
        ob = e["obs"]
        vals = observed_values(ob.get("out", []))
        if vals is None or any(v["t"] == "float" for v in c["expect"]["out"]):
            continue
        events.append({"e": c["ast"], "out": vals, "status": "error" if ob["stage"] == "abort" else "done",
                       "err": ob.get("err", "") if ob["stage"] == "abort" else ""})
    if len(events) > (150 if ctx.quick else 1500):
        events = rnd.sample(events, 150 if ctx.quick else 1500)
    validated = 0
    if events:
        tpath = os.path.join(ctx.work, "pipeline_trace.ndjson")
        with open(tpath, "w") as fh:
            for x in events:
                fh.write(json.dumps(x) + "\n")
        with ctx.timed("tlc_trace"):
            ok, tres = common.validate_trace(ctx, "PipelineTrace", tpath, timeout=3000)
        if ok:
            validated = len(events)
        else:
            rej2 = tres["cases"].get("REJECT")
            if not rej2:
                common.log(tres["text_tail"])
                raise ToolError("PipelineTrace failed without a REJECT line")
            validated = rej2[0]["at"] - 1
            ctx.fail("trace-rejected", {"event": rej2[0]}, "a recorded real execution is not a behaviour of Core")
    if cases:
        c0 = cases[len(cases) // 2]
        ctx.sample({"case_source": c0["body"], "spec_out": [render.value_text(v) for v in c0["expect"]["out"]],
                    "spec_status": c0["expect"]["status"], "tags": c0["tags"]})
    # multi-module projects (spec/GenMod.tla, lib/modproj.py): the same declarations split over several files
    with ctx.timed("modproj"):
        from lib import modproj
        modproj.run(ctx)
    common.write_evidence(ctx, "translation_validation", {
        "programs": n_ran,
        "disagreements_checked": sum(v for k, v in stats.items() if k.startswith(("ran:run", "abort:run"))),
        "states": sum(r["distinct"] for r in ctx.tlc_runs),
        "traces_validated_against_impl": validated,
        "evaluations": len(cases),
        "distinct_nontrivial": len(distinct),
        "rule": "cases sampled (stratified by feature-tag set, seeded) from the TLC-enumerated universes GenExpr (depth bound) and "
                "GenProg (frame machine; exhaustive small config + simulation); counted = programs that were built and run; "
                "distinct by source text",
        "universe_cases": universe, "stage_stats": stats,
        "not_built_left_to_C02": sum(v for k, v in stats.items() if k.startswith(("build", "emit"))),
    }, assumptions=[
        "Core Incan subset only (DESIGN §5 C01, §9); floats dyadic, float text not judged; ints small",
        "the renderer is trusted after its self-check parse(render(t)) == t on every case",
        "a wrong behaviour in a case carrying an explicit-grouping tag is attributed to the catalogued grouping defect",
    ])


def replay(ctx, path):
    case = json.load(open(path))["case"]
    body = case.get("src")
    if body:
        c = {"id": "r0", "decls": pipeline.HELPER, "body": body, "aborts": False}
        obs = pipeline.run_cases(ctx, [c])
        print(json.dumps(obs[0], indent=1)[:3000])
    print("recorded:", json.dumps(case, default=str)[:3000])
