"""C06 — compile-time evaluation agrees with run-time evaluation.

Model:
 spec/ConstEval.tla  the cycle-detection machine of const_eval.rs (cache / NotStarted / InProgress /
                     Done / stack), driven in declaration order; TLC exhaustive over ALL reference
                     graphs on N names: terminates, each const evaluated once, a cycle is reported
                     iff the graph has one, reported paths are cycles.
 spec/GenConst.tla + Core.tla  every const-evaluable expression up to Depth; the case program has
                     `const K = e` and `def f() -> T: return e`; in the specification both are EvalE(e).
Binding:
 B1 (cycles)  for every graph the real checker is run on a program with those const references; the
              SET of reported cycle paths and the verdict must equal the machine's.
 B1 (values)  in process: checker verdict, recorded const type, computed const value, and for error
              cases the diagnostic text (= the canonical run-time error text);
              end to end: the compiled program prints K and f(): both equal the specification's value;
              for error cases the run-time variant must stop with the same text the checker reported.
"""
import json

from lib import common, e2e, pipeline, render
from lib.common import ToolError

BASE = ['const CI: int = 7', 'const CN: int = -3', 'const CF: float = 2.5', 'const CS: str = "aé€\U0001F600b"',
        'const CT: str = "é"', 'const CB: bool = true', 'const CE: str = ""']
TYMAP = {"int": "int", "float": "float", "bool": "bool", "str": "FrozenStr"}


def const_program(e_src, ty):
    return "\n".join(BASE) + f"\nconst K = {e_src}\n\ndef f() -> {ty}:\n    return {e_src}\n\ndef main() -> None:\n    println(K)\n    println(f())\n"


def run(ctx):
    rnd = common.rng(ctx, "c06")
    # ---------------------------------------------------------------- cycle machine
    with ctx.timed("tlc_cycles"):
        res = common.tlc(ctx, "MC_ConstEval", cfg="MC_ConstEval_quick" if ctx.quick else "MC_ConstEval", workers=8, timeout=3000)
    common.require_tlc_ok(ctx, res, "ConstEval machine")
    graphs = res["cases"]["CASE"]
    if not ctx.quick and len(graphs) > 40000:
        graphs = rnd.sample(graphs, 40000)
    reqs = []
    for g in graphs:
        n = len(g["refs"])
        lines = []
        for i, rl in enumerate(g["refs"], 1):
            init = " + ".join(f"C{r}" for r in rl) if rl else str(i)
            lines.append(f"const C{i}: int = {init}")
        reqs.append({"op": "check", "src": "\n".join(lines) + "\n"})
    with ctx.timed("replay_cycles"):
        outs = common.replay_batch(reqs, timeout=1800)
    n_cyc = 0
    distinct = set()
    for g, q, o in zip(graphs, reqs, outs):
        ob = o.get("obs", {})
        if "crash" in o or "panic" in ob:
            why = ob.get("panic") or str(o)
            ctx.fail("cycle-eval:" + ("TIMEOUT-non-termination" if why == "TIMEOUT" else "crash"), {"src": q["src"], "out": why})
            continue
        n_cyc += 1
        msgs = [e["msg"] for e in ob.get("errs", [])] if not ob.get("ok") else []
        real_paths = sorted(m.split(": ", 1)[1] for m in msgs if m.startswith("Const dependency cycle detected: "))
        exp_paths = sorted(" -> ".join(f"C{x}" for x in p) for p in g["errs"])
        if bool(ob.get("ok")) != g["accepted"]:
            ctx.fail("cycle-verdict", {"src": q["src"], "model_accepts": g["accepted"], "real": ob})
        elif real_paths != exp_paths:
            ctx.fail("cycle-paths", {"src": q["src"], "model_paths": exp_paths, "real_paths": real_paths})
        if g["cyclic"]:
            distinct.add(q["src"])
    ctx.sample({"graph": graphs[len(graphs) // 2], "program": reqs[len(graphs) // 2]["src"]})

    # ---------------------------------------------------------------- value / type / error agreement
    with ctx.timed("tlc_gen"):
        gres = common.tlc(ctx, "GenConst", cfg="GenConst_d1" if ctx.quick else "GenConst_d2", workers=8, timeout=3000)
    common.require_tlc_ok(ctx, gres, "GenConst / SpecAgrees")
    rows = gres["cases"]["CASE"]
    creqs = [{"op": "check", "src": const_program(render.render_expr(r["e"]), render.TY[r["ty"]])} for r in rows]
    with ctx.timed("replay_check"):
        couts = common.replay_batch(creqs, timeout=3000)
    accepted_rows = []
    err_rows = []
    n_val = 0
    stats = {"checker_rejects_spec_accepts": 0, "zde_in_const_not_judged": 0}
    for r, q, o in zip(rows, creqs, couts):
        ob = o.get("obs", {})
        src_e = render.render_expr(r["e"])
        if "crash" in o or "panic" in ob:
            ctx.fail("const-check-crash", {"e": src_e, "out": ob.get("panic") or str(o)})
            continue
        n_val += 1
        if r["status"] == "consterr":
            if r["err"].startswith("ZeroDivisionError"):
                stats["zde_in_const_not_judged"] += 1
                continue
            # compile time must decide the same error, with the same text, as run time
            msgs = [e["msg"] for e in ob.get("errs", [])] if not ob.get("ok") else []
            if ob.get("ok"):
                ctx.fail("const-error-not-reported", {"e": src_e, "expected": r["err"]}, tags=[r["err"].split(":")[0]])
            elif r["err"] not in msgs:
                ctx.fail("const-error-text-differs", {"e": src_e, "expected": r["err"], "real": msgs})
            err_rows.append(r)
            distinct.add(src_e)
            continue
        if not ob.get("ok"):
            stats["checker_rejects_spec_accepts"] += 1
            ctx.stats.setdefault("checker_reject_samples", [])
            if len(ctx.stats["checker_reject_samples"]) < 5:
                ctx.stats["checker_reject_samples"].append({"e": src_e, "msg": [e["msg"] for e in ob.get("errs", [])][:2]})
            continue
        ty = ob.get("const_types", {}).get("K")
        if ty != TYMAP[r["ty"]]:
            ctx.fail("const-type-differs", {"e": src_e, "spec": r["ty"], "real": ty},
                     "the type the const evaluator records differs from the type of the same expression in a function body")
        if r["status"] == "typeonly":
            stats["type_only_cases"] = stats.get("type_only_cases", 0) + 1
            distinct.add(src_e)
            continue
        v = ob.get("consts", {}).get("K")
        if v is not None:
            sv = r["val"][0]
            okv = {"int": lambda: v.get("t") == "int" and v["v"] == sv["iv"],
                   "bool": lambda: v.get("t") == "bool" and v["v"] == sv["bv"],
                   "str": lambda: v.get("t") == "str" and v["v"] == render.scalars_to_str(sv["sv"]),
                   "float": lambda: v.get("t") == "float" and render.value_matches(sv, repr(v["f"]))}[sv["t"]]()
            if not okv:
                ctx.fail("const-value-differs", {"e": src_e, "spec": render.value_text(sv), "real": v})
        accepted_rows.append(r)
        distinct.add(src_e)

    # ---------------------------------------------------------------- end to end (sample)
    n_e2e = 60 if ctx.quick else 1200
    sample = accepted_rows if len(accepted_rows) <= n_e2e else rnd.sample(accepted_rows, n_e2e)
    cases = []
    for k, r in enumerate(sample):
        src_e = render.render_expr(r["e"])
        decls = "\n".join(l.replace("const C", "const C{N}_") for l in []) + ""
        # per-case const names are suffixed so that cases can share a batch
        base = [l.replace("CI", "CI{N}").replace("CN", "CN{N}").replace("CF", "CF{N}").replace("CS", "CS{N}").replace("CT", "CT{N}").replace("CB", "CB{N}").replace("CE", "CE{N}") for l in BASE]
        e_n = _suffix(src_e)
        decls = "\n".join(base) + f"\nconst K{{N}} = {e_n}\n\ndef f{{N}}() -> {render.TY[r['ty']]}:\n    return {e_n}\n"
        cases.append({"id": f"k{k}", "decls": decls, "body": ["println(K{N})", "println(f{N}())"], "aborts": False,
                      "expect": {"out": [r["val"][0], r["val"][0]], "status": "done", "err": ""}, "tags": [], "row": r})
    # error cases: the run-time variant alone must stop with the same text
    esample = err_rows if len(err_rows) <= (10 if ctx.quick else 60) else rnd.sample(err_rows, 10 if ctx.quick else 60)
    for k, r in enumerate(esample):
        src_e = render.render_expr(r["e"])
        base = [l.replace("CI", "CI{N}").replace("CN", "CN{N}").replace("CF", "CF{N}").replace("CS", "CS{N}").replace("CT", "CT{N}").replace("CB", "CB{N}").replace("CE", "CE{N}") for l in BASE]
        e_n = _suffix(src_e)
        decls = "\n".join(base) + f"\n\ndef f{{N}}() -> {render.TY[r['ty']]}:\n    return {e_n}\n"
        cases.append({"id": f"x{k}", "decls": decls, "body": ["println(f{N}())"], "aborts": True,
                      "expect": {"out": [], "status": "error", "err": r["err"]}, "tags": [], "row": r})
    with ctx.timed("e2e"):
        ev = pipeline.evaluate(ctx, cases, per_batch=40)
    not_built = 0
    n_ran = 0
    for c, e in zip(cases, ev):
        if e["stage"] in ("ran", "abort"):
            n_ran += 1
            if e["symptom"]:
                what = "const and function disagree with the specification" if c["id"].startswith("k") else \
                    "run-time error differs from the compile-time diagnostic"
                ctx.fail("e2e:" + e["symptom"], {"e": render.render_expr(c["row"]["e"]), "detail": e["detail"]}, what,
                         tags=c["row"].get("feats", []))
        else:
            not_built += 1      # C02 material (accepted by the checker but not built); counted, judged by C02
    ctx.sample({"const_case": const_program(render.render_expr(rows[len(rows) // 3]["e"]), render.TY[rows[len(rows) // 3]["ty"]])})
    common.write_evidence(ctx, "model_checking", {
        "states": sum(r["distinct"] for r in ctx.tlc_runs),
        "transitions": sum(r["states"] for r in ctx.tlc_runs),
        "traces_validated_against_impl": n_cyc,
        "evaluations": n_cyc + n_val + n_ran,
        "distinct_nontrivial": len(distinct),
        "rule": "cycle machine: every reference graph on N consts (<= MaxRefs ordered references each) as a real program, "
                "non-trivial = cyclic graphs; values: every GenConst expression up to Depth checked in process (type, value, "
                "error text), a seeded sample compiled and run (K and f() printed); distinct by program text",
        "graphs": len(graphs), "const_expressions": len(rows), "e2e_cases_run": n_ran,
        "e2e_accepted_but_not_built(C02 material)": not_built, **stats,
        "exhaustive": True,
    }, assumptions=[
        "numeric const values are not computed by the front end (only types); their values are observed end to end",
        "compile-time division by zero is left to C02 (the checker accepts, rustc rejects): not judged here",
        "floats are dyadic; float text format is not judged",
    ])


def _suffix(src):
    import re
    return re.sub(r"\b(CI|CN|CF|CS|CT|CB|CE)\b", r"\1{N}", src)


def replay(ctx, path):
    case = json.load(open(path))["case"]
    if "src" in case:
        print(json.dumps(common.replay_batch([{"op": "check", "src": case["src"]}])[0]))
    elif "e" in case:
        print(json.dumps(common.replay_batch([{"op": "check", "src": const_program(case["e"], "int")}])[0]))
    print("recorded:", json.dumps(case, default=str)[:3000])
