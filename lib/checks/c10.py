"""C10 — layout and comments never change how a program is parsed.

Model: spec/Layout.tla — transcription of the lexer's layout algorithm (INDENT/DEDENT/NEWLINE
synthesis, bracket depth, comments, CR, EOF flush) over character classes.
 TLC (MC_Layout): for EVERY class string up to MaxLen and every structured text up to MaxLines,
   every single meaning-preserving edit at every position (comment lines at any indentation,
   blank / whitespace-only lines, trailing blanks, trailing comments, CRLF, final newline, line
   breaks inside brackets) and uniform re-indentation (x2 columns, tabs-as-4) leaves the
   normalised token stream unchanged; INDENT/DEDENT balance.
Binding:
 B1 (token level)  every printed (text, Lex(text)) is rendered and fed to the real lexer; the real
     token-class stream and error flag must equal the model's exactly.
 B1 (AST level)    real programs (frozen corpus of the repository's own .incn files + a
     construct corpus) x every edit kind x positions: the ASTs (spans ignored) must be equal.
 B2  the real token streams of the corpus files and their edited variants, abstracted to
     classes, are validated by TLC against Layout (LayoutTrace).
"""
import glob
import json
import os
import re

from lib import common
from lib.common import ToolError

RENDER = {"sp": " ", "tab": "\t", "cr": "\r", "lf": "\n", "hash": "#", "open": "(", "close": ")", "a": ","}

CONSTRUCTS = '''"""Module docstring
with two lines."""

import math
from util.helpers import thing as other

const LIMIT: int = 10

@derive(Debug, Clone)
model Point:
    x: int
    y: int = 0

    def norm(self) -> int:
        return self.x * self.x + self.y * self.y

class Counter:
    count: int

    def bump(mut self, by: int) -> None:
        self.count += by
        if by > 1:
            self.count -= 1
        elif by < 0:
            pass
        else:
            self.count = self.count

trait Shape:
    def area(self) -> float: ...

    def describe(self) -> str:
        return "shape"

enum Color:
    Red
    Green
    Rgb(int, int, int)

type UserId = newtype int:
    def from_underlying(v: int) -> Result[UserId, str]:
        if v < 0:
            return Err("negative")
        return Ok(UserId(v))

def classify(n: int, names: List[str]) -> str:
    total = 0
    for i in range(0, n):
        while total < 3:
            total += 1
            if total == 2:
                break
            continue
    result = match n:
        case 0:
            "zero"
        case 1 if total > 0:
            "one"
        case _:
            "many"
    values = [
        1,
        2,
        3,
    ]
    table = {"a": 1, "b": 2}
    pair = (total, names)
    squares = [v * v for v in values if v > 1]
    call_me(
        total,
        key=values[0],
    )
    match pair:
        (a, b) => println(a)
        _ => println("none")
    return f"{result}: {total}"

async def fetch(url: str) -> Result[str, str]:
    data = await get(url)?
    return Ok(data)

def main() -> None:
    println(classify(2, ["x"]))
'''


# small programs whose LAST line is each kind of construct (final-newline / trailing edits bite there)
TAILS = [
    "trait S:\n    def area(self) -> float\n",
    "trait S:\n    def area(self) -> float: ...\n",
    "trait S:\n    def a(self) -> int\n    def b(self, x: int) -> str\n",
    "enum C:\n    Red\n    Rgb(int, int)\n",
    "model P:\n    x: int\n    y: int = 0\n",
    "class K:\n    n: int\n    def get(self) -> int:\n        return self.n\n",
    "type U = newtype int\n",
    "type U = newtype int:\n    def from_underlying(v: int) -> Result[U, str]:\n        return Ok(U(v))\n",
    "def f(x: int) -> int:\n    if x > 0:\n        return 1\n    elif x < 0:\n        return 2\n    else:\n        return 3\n",
    "def f(xs: List[int]) -> None:\n    for x in xs:\n        while x > 0:\n            break\n",
    "def f(x: int) -> str:\n    return match x:\n        case 0: \"zero\"\n        case _: \"many\"\n",
    "def f(x: Option[int]) -> None:\n    match x:\n        Some(v) => println(v)\n        None => pass\n",
    "def f() -> List[int]:\n    return [\n        1,\n        2,\n    ]\n",
    "def f() -> Dict[str, int]:\n    return {\n        \"a\": 1,\n    }\n",
    "@derive(Debug)\nmodel M:\n    v: int\n",
    "\"\"\"only a docstring\"\"\"\n",
    "const A: int = 1\nconst B: str = \"x\"\n",
    "import a::b\nfrom c.d import e as f\n",
    "def f() -> None:\n    x = 1  # trailing\n    pass\n",
    "def f() -> None:\n    g(1,\n      2)\n",
    "def f() -> None:\n    pass\n\ndef g() -> None:\n    pass\n",
]


def render(classes):
    return "".join(RENDER[c] for c in classes)


# ---------------------------------------------------------------- abstraction of a real file to classes
def abstract_text(src, classes, spans):
    """real text + real tokens (class, span in bytes) -> class string whose Lex must equal the stream"""
    b = src.encode("utf-8")
    toks = [(c, s, e) for c, (s, e) in zip(classes, spans) if c in ("ATOM", "OPEN", "CLOSE")]
    out = []
    pos = 0

    def gap(seg):
        in_comment = False
        for ch in seg.decode("utf-8", "replace"):
            if ch == "\n":
                in_comment = False
                out.append("lf")
            elif in_comment:
                out.append("a")
            elif ch == "#":
                in_comment = True
                out.append("hash")
            elif ch == " ":
                out.append("sp")
            elif ch == "\t":
                out.append("tab")
            elif ch == "\r":
                out.append("cr")
            else:
                return False
        return True
    for c, s, e in toks:
        if s < pos:
            return None
        if not gap(b[pos:s]):
            return None
        out.append({"ATOM": "a", "OPEN": "open", "CLOSE": "close"}[c])
        pos = e
    if not gap(b[pos:]):
        return None
    return out


# ---------------------------------------------------------------- AST-level edits on real text
def protected_offsets(src, classes, spans):
    """byte offsets of newlines that lie inside a token (multi-line strings / docstrings)"""
    b = src.encode("utf-8")
    prot = set()
    for c, (s, e) in zip(classes, spans):
        if c == "ATOM" and e - s > 1 and b"\n" in b[s:e]:
            for k in range(s, e):
                if b[k:k + 1] == b"\n":
                    prot.add(k)
    return prot


def bracket_break_points(src, classes, spans, detail):
    """byte offsets just after an OPEN token or a comma inside brackets"""
    pts = []
    depth = 0
    for c, (s, e), d in zip(classes, spans, detail):
        if c == "OPEN":
            depth += 1
            pts.append(e)
        elif c == "CLOSE":
            depth = max(0, depth - 1)
        elif d == "punct:Comma" and depth > 0:
            pts.append(e)
    return pts


def make_edits(src, classes, spans, detail, rnd, per_kind):
    """-> list of (kind, edited_text)"""
    b = src.encode("utf-8")
    prot = protected_offsets(src, classes, spans)
    nls = [k for k in range(len(b)) if b[k:k + 1] == b"\n" and k not in prot]
    # line starts that are not inside a multi-line token
    starts = [0] + [k + 1 for k in nls]
    inside = set()
    for c, (s, e) in zip(classes, spans):
        if c == "ATOM" and b"\n" in b[s:e]:
            inside.update(range(s + 1, e + 1))
    starts = [k for k in starts if k not in inside and k <= len(b)]
    edits = []

    def ins(k, text):
        return (b[:k] + text.encode() + b[k:]).decode("utf-8")

    def pick(xs):
        return xs if len(xs) <= per_kind else rnd.sample(xs, per_kind)
    for k in pick(starts):
        edits.append(("comment-line-col0", ins(k, "# a comment ( [ {\n")))
    for k in pick(starts):
        edits.append(("comment-line-indented", ins(k, " " * rnd.choice([1, 2, 3, 4, 7, 8, 12]) + "# note: x = 1\n")))
    for k in pick(starts):
        edits.append(("comment-line-tab", ins(k, "\t# tabbed\n")))
    # the CONTENT of a comment is irrelevant too: non-ASCII scalars of every UTF-8 width (a lexer that mixes byte and
    # character counts while skipping a comment swallows the beginning of the next line)
    for k in pick(starts):
        edits.append(("comment-line-nonascii", ins(k, rnd.choice(["# n \u2265 11 \u2192 \u201cbig\u201d (see \u00a72)\n", "# \u00e9\u00e9\u00e9\n",
                                                                  "# \U0001F600\U0001F600 astral\n", "    # \u20ac\u20ac\u20ac\u20ac\u20ac\u20ac\n"]))))
    for k in pick(starts):
        edits.append(("blank-line", ins(k, "\n")))
    for k in pick(starts):
        edits.append(("whitespace-line", ins(k, rnd.choice(["   \n", "\t\n", " \t \n", "        \n"]))))
    for k in pick(nls):
        edits.append(("trailing-blanks", ins(k, rnd.choice([" ", "   ", "\t"]))))
    # a trailing comment must not land inside brackets' string etc.: any unprotected newline is fine
    for k in pick(nls):
        edits.append(("trailing-comment", ins(k, "  # trailing )")))
    for k in pick(nls):
        edits.append(("trailing-comment-nonascii", ins(k, rnd.choice(["  # \u2265\u2192\u201c\u201d\u00a7", "  # \u00e9", "  # \U0001F600\U0001F600\U0001F600"]))))
    for k in pick(nls):
        edits.append(("crlf-one-line", ins(k, "\r")))
    if nls:
        t = bytearray()
        for k in range(len(b)):
            if k in set(nls):
                t += b"\r"
            t.append(b[k])
        edits.append(("crlf-all-lines", bytes(t).decode("utf-8")))
    if b.endswith(b"\n") and (len(b) - 1) not in prot:
        edits.append(("final-newline-off", b[:-1].decode("utf-8")))
        edits.append(("final-newline-double", (b + b"\n").decode("utf-8")))
    elif not b.endswith(b"\n"):
        edits.append(("final-newline-on", (b + b"\n").decode("utf-8")))
    for k in pick(bracket_break_points(src, classes, spans, detail)):
        edits.append(("bracket-line-break", ins(k, "\n" + " " * rnd.choice([0, 1, 4, 6, 13]))))
    # uniform re-indentation of every line that starts outside a multi-line token
    for kind, fn in (("reindent-x2", lambda n: " " * (2 * n)), ("reindent-half", lambda n: " " * (n // 2) if n % 2 == 0 else None),
                     ("reindent-tabs", lambda n: "\t" * (n // 4) + " " * (n % 4))):
        lines = src.split("\n")
        off = 0
        out = []
        ok = True
        for ln in lines:
            lead = len(ln) - len(ln.lstrip(" "))
            if off in inside or off > 0 and (off - 1) in prot:
                out.append(ln)
            else:
                if "\t" in ln[:lead + 1]:
                    ok = False
                new = fn(lead)
                if new is None:
                    ok = False
                    break
                out.append(new + ln[lead:])
            off += len(ln.encode("utf-8")) + 1
        if ok:
            edits.append((kind, "\n".join(out)))
    return edits


def corpus_files():
    fs = sorted(glob.glob(os.path.join(common.VERIF, "corpus", "repo", "**", "*.incn"), recursive=True))
    return [f for f in fs if "/invalid/" not in f]


def run(ctx):
    rnd = common.rng(ctx, "c10")
    cfg = "MC_Layout_quick" if ctx.quick else "MC_Layout"
    with ctx.timed("tlc"):
        res = common.tlc(ctx, "MC_Layout", cfg=cfg, workers=8, timeout=3000)
    common.require_tlc_ok(ctx, res, "Layout edit invariance")
    rows = res["cases"]["CASE"]
    # ---------------------------------------------------------------- B1 token level
    if ctx.quick and len(rows) > 12000:
        lines_rows = [r for r in rows if r["mode"] == "lines"]
        rows = rnd.sample([r for r in rows if r["mode"] == "chars"], 12000 - min(6000, len(lines_rows))) + \
            rnd.sample(lines_rows, min(6000, len(lines_rows)))
    reqs = [{"op": "lex", "src": render(r["text"])} for r in rows]
    with ctx.timed("replay_tokens"):
        outs = common.replay_batch(reqs, timeout=1800)
    n_tok = 0
    distinct = set()
    for r, q, o in zip(rows, reqs, outs):
        n_tok += 1
        if "crash" in o:
            ctx.fail("lexer-crash", {"text": r["text"], "out": o})
            continue
        ob = o["obs"]
        if "panic" in ob:
            ctx.fail("lexer-panic", {"text": r["text"], "obs": ob})
            continue
        real_err = not ob["ok"]
        if real_err != r["err"]:
            ctx.fail("token-stream:error-flag", {"text": r["text"], "src": q["src"], "model_err": r["err"], "real": ob})
        elif not real_err and ob["classes"] != r["toks"]:
            ctx.fail("token-stream:differs", {"text": r["text"], "src": q["src"], "model": r["toks"], "real": ob["classes"]})
        if "INDENT" in r["toks"] or "OPEN" in r["toks"]:
            distinct.add(json.dumps(r["text"]))
    ctx.sample({"text": rows[len(rows) // 2]["text"], "model_tokens": rows[len(rows) // 2]["toks"]})

    # ---------------------------------------------------------------- B1 AST level + B2 traces on real files
    files = [(os.path.relpath(f, os.path.join(common.VERIF, "corpus")), open(f, encoding="utf-8").read()) for f in corpus_files()]
    files.append(("constructs.incn", CONSTRUCTS))
    # the construct corpus (one file per AST node kind / optional field) and programs of the TLC-enumerated universes:
    # statement match in both arm syntaxes, comprehensions, closures, f-strings, methods, field / index assignment ...
    for f in sorted(glob.glob(os.path.join(common.VERIF, "corpus", "constructs", "*.incn"))):
        files.append(("constructs/" + os.path.basename(f), open(f, encoding="utf-8").read()))
    from lib import pipeline
    for mod, cfg, mk, tag in (("GenCtl", "GenCtl_quick", pipeline.ctl_case, "ctl"), ("GenColl", "GenColl_2", pipeline.coll_case, "coll")):
        g = common.tlc(ctx, mod, cfg=cfg, workers=8, timeout=3000)
        common.require_tlc_ok(ctx, g, mod)
        grows = g["cases"]["CASE"]
        for k, r in enumerate(rnd.sample(grows, min(len(grows), 12 if ctx.quick else 120))):
            c = mk(r, k)
            files.append((f"gen/{tag}{k}.incn", c["decls"].replace("{N}", "") + "\ndef main() -> None:\n" +
                          "".join("    " + l.replace("{N}", "") + "\n" for l in c["body"])))
    gj = common.tlc(ctx, "GenObj", cfg="GenObj_2", workers=8, timeout=3000, want_tags=("CASE", "DECLS"))
    common.require_tlc_ok(ctx, gj, "GenObj")
    for k, r in enumerate(rnd.sample(gj["cases"]["CASE"], 6 if ctx.quick else 60)):
        c = pipeline.obj_case(r, k, gj["cases"]["DECLS"][0])
        files.append((f"gen/obj{k}.incn", c["decls"].replace("{N}", "") + "\ndef main() -> None:\n" +
                      "".join("    " + l.replace("{N}", "") + "\n" for l in c["body"])))
    for k, t in enumerate(TAILS):
        files.append((f"tail_{k:02d}.incn", t))
    from lib import gensyntax                           # spec/GenSyntax.tla: rows of the surface grammar as bases of the edits
    for nm, src in gensyntax.sample_sources(ctx, 60 if ctx.quick else 600, "c10-syntax"):
        files.append(("gen/" + nm.replace("/", "+") + ".incn", src))
    lreqs = [{"op": "lex", "src": s, "detail": True} for _, s in files]
    preqs = [{"op": "parse", "src": s, "digest": True} for _, s in files]
    with ctx.timed("replay_corpus"):
        louts = common.replay_batch(lreqs)
        pouts = common.replay_batch(preqs)
    per_kind = 3 if ctx.quick else 25
    ereqs, emeta = [], []
    trace_events = []
    base_parse_ok = 0
    for (name, src), lo, po in zip(files, louts, pouts):
        lob, pob = lo.get("obs", {}), po.get("obs", {})
        if not lob.get("ok"):
            continue
        abs_text = abstract_text(src, lob["classes"], lob["spans"])
        if abs_text is not None and len(abs_text) < 6000:
            trace_events.append({"name": name, "text": abs_text, "toks": lob["classes"], "err": False})
        if not pob.get("ok"):
            continue
        base_parse_ok += 1
        for kind, text in make_edits(src, lob["classes"], lob["spans"], lob["detail"], rnd, per_kind):
            ereqs.append({"op": "parse", "src": text, "digest": True})
            emeta.append((name, kind, pob["h"], src))
    with ctx.timed("replay_edits"):
        eouts = common.replay_batch(ereqs, timeout=1800)
    n_edit = 0
    kinds = {}
    # edited variants also feed the B2 trace (sampled)
    var_lex = []
    for (name, kind, h0, src), q, o in zip(emeta, ereqs, eouts):
        n_edit += 1
        kinds[kind] = kinds.get(kind, 0) + 1
        ob = o.get("obs", {})
        if "crash" in o or "panic" in ob:
            ctx.fail(f"edit-crash:{kind}", {"file": name, "kind": kind, "out": o})
            continue
        if not ob.get("ok"):
            sig = edit_signature(kind, src, q["src"], ob)
            ctx.fail(sig, {"file": name, "kind": kind, "error": ob.get("err"), "edited_tail": q["src"][-300:]},
                     "edited file no longer parses")
        elif ob["h"] != h0:
            ctx.fail(f"ast-changed:{kind}", {"file": name, "kind": kind, "edited": q["src"][:4000]},
                     "layout edit changed the syntax tree")
        distinct.add((name, kind, common.digest(q["src"])))
        if rnd.random() < (0.05 if ctx.quick else 0.2):
            var_lex.append((name + "#" + kind, q["src"]))
    if var_lex:
        vouts = common.replay_batch([{"op": "lex", "src": s} for _, s in var_lex])
        for (nm, s), o in zip(var_lex, vouts):
            ob = o.get("obs", {})
            if ob.get("ok"):
                at = abstract_text(s, ob["classes"], ob["spans"])
                if at is not None and len(at) < 6000:
                    trace_events.append({"name": nm, "text": at, "toks": ob["classes"], "err": False})
    if ctx.quick and len(trace_events) > 60:
        trace_events = rnd.sample(trace_events, 60)
    tpath = os.path.join(ctx.work, "layout_trace.ndjson")
    with open(tpath, "w") as fh:
        for e in trace_events:
            fh.write(json.dumps(e) + "\n")
    validated = 0
    with ctx.timed("tlc_trace"):
        ok, tres = common.validate_trace(ctx, "LayoutTrace", tpath, timeout=3000)
    if ok:
        validated = len(trace_events)
    else:
        rej = tres["cases"].get("REJECT")
        if not rej:
            common.log(tres["text_tail"])
            raise ToolError("LayoutTrace failed without a REJECT line")
        validated = rej[0]["at"] - 1
        ctx.fail("trace-rejected", {"file": rej[0].get("name"), "at": rej[0]["at"]},
                 "the real token stream of a source file is not what the Layout algorithm produces")
    ctx.sample({"edit_kinds_applied": kinds})

    common.write_evidence(ctx, "model_checking", {
        "states": sum(r["distinct"] for r in ctx.tlc_runs),
        "transitions": sum(r["states"] for r in ctx.tlc_runs),
        "traces_validated_against_impl": validated,
        "evaluations": n_tok + n_edit,
        "distinct_nontrivial": len(distinct),
        "rule": "token level: TLC-printed class strings (all up to PrintLen, structured line texts) replayed in the real lexer; "
                "non-trivial = texts whose stream contains INDENT or a bracket; AST level: corpus files that parse x edit "
                "kinds x positions (per_kind positions per kind per file, chosen by seed), distinct by (file, kind, text)",
        "token_cases": n_tok, "ast_edit_cases": n_edit, "corpus_files_parsing": base_parse_ok,
        "edit_kinds": kinds, "trace_files": len(trace_events),
        "exhaustive": True,
    }, assumptions=[
        "class abstraction: every non-layout character is an atom; string literals are covered by the AST-level layer on real files",
        "edits are never placed inside multi-line string tokens (located with the real lexer's spans)",
    ])


def edit_signature(kind, src, edited, ob):
    """stable signature of a failing edit: the edit kind plus the syntactic shape of the last logical line"""
    last = [l for l in src.rstrip("\n").split("\n") if l.strip()]
    tail = last[-1].strip() if last else ""
    shape = "other"
    if re.match(r"^(async )?def .*\)\s*(->\s*[^:]+)?:\s*\.\.\.$", tail):
        shape = "bodyless-method-ellipsis-inline"
    elif re.match(r"^(async )?def .*\)\s*(->\s*.+)?$", tail) and not tail.endswith(":"):
        shape = "bodyless-method-decl"
    return f"parse-fails-after:{kind}:last-line={shape}"


def replay(ctx, path):
    case = json.load(open(path))["case"]
    if "text" in case:
        out = common.replay_batch([{"op": "lex", "src": render(case["text"])}])[0]
        print(json.dumps(out))
    print("recorded:", json.dumps(case, default=str)[:3000])
