"""C02 — every program that type-checks also builds.

Model: spec/Core.tla + the generators GenExpr / GenProg / GenNum supply the PROGRAM SPACE (every
case the specification accepts, with feature tags); the property itself is the pipeline implication
   checker accepts  =>  code generation reports no error  =>  rustc builds the generated project.
Binding: stage 1 in process for every sampled case (real checker verdict; real emitter on accepted
programs; the generated text must be valid Rust syntax - the emitter re-parses it with syn);
stage 2 end to end (batched real `incan build`; rustc diagnostics are mapped back to cases).
A frozen corpus of the repository's own .incn files (single-file, checker-accepted) goes through
stage 1 as well. Violations carry the failing stage + rustc code as symptom and the case's tags.
"""
import glob
import json
import os

from lib import common, pipeline, render
from lib.checks import c01
from lib.common import ToolError


def _uniq(rows, n=10 ** 9):
    """distinct simulated rows in a deterministic order (by content hash), at most n"""
    import hashlib
    seen = {}
    for r in rows:
        k = json.dumps(r, sort_keys=True)
        seen.setdefault(hashlib.sha256(k.encode()).hexdigest(), r)
    return [seen[h] for h in sorted(seen)][:n]


def run(ctx):
    rnd = common.rng(ctx, "c02")
    n_expr, n_prog = (300, 150) if ctx.quick else (2500, 1243)
    with ctx.timed("tlc_gen"):
        ge = common.tlc(ctx, "GenExpr", cfg="GenExpr_d1" if ctx.quick else "GenExpr_d2", workers=8, timeout=3000)
        common.require_tlc_ok(ctx, ge, "GenExpr")
        gp = common.tlc(ctx, "GenProg", cfg="GenProg_s2", workers=8, timeout=3000)
        common.require_tlc_ok(ctx, gp, "GenProg")
        gd = common.tlc(ctx, "GenData", cfg="GenData", workers=8, timeout=3000)
        common.require_tlc_ok(ctx, gd, "GenData")
        gc = common.tlc(ctx, "GenCtl", cfg="GenCtl_quick", workers=8, timeout=6000)
        gc_sim = _uniq(common.tlc(ctx, "GenCtl", cfg="GenCtl_full", workers=1, timeout=1500, simulate=300, depth=7)["cases"]["CASE"], 1500) if not ctx.quick else []
        common.require_tlc_ok(ctx, gc, "GenCtl")
        go = common.tlc(ctx, "GenColl", cfg="GenColl_2", workers=8, timeout=6000)
        common.require_tlc_ok(ctx, go, "GenColl")
        gj = common.tlc(ctx, "GenObj", cfg="GenObj_2", workers=8, timeout=6000, want_tags=("CASE", "DECLS"))
        common.require_tlc_ok(ctx, gj, "GenObj / Sound")
        gj_sim = _uniq(common.tlc(ctx, "GenObj", cfg="GenObj_sim", workers=1, timeout=1500, simulate=400, depth=6)["cases"]["CASE"]) if not ctx.quick else []
        go_sim = _uniq(common.tlc(ctx, "GenColl", cfg="GenColl_sim", workers=1, timeout=1500, simulate=600, depth=6)["cases"]["CASE"]) if not ctx.quick else []
        gi = common.tlc(ctx, "GenIter", cfg="GenIter_2", workers=8, timeout=6000, want_tags=("CASE", "DECLS"))
        common.require_tlc_ok(ctx, gi, "GenIter / AllAccepted / Sound / OrderFree")
        gi_sim = _uniq(common.tlc(ctx, "GenIter", cfg="GenIter_sim", workers=1, timeout=1500, simulate=300, depth=6)["cases"]["CASE"]) if not ctx.quick else []
    erows, prows = ge["cases"]["CASE"], gp["cases"]["CASE"]

    def pick(rows, n):
        if len(rows) <= n:
            return list(rows)
        buckets = {}
        for r in rows:
            key = tuple(sorted(t for t in r["feats"] if t.startswith(("bin:", "binshape:", "bin-same", "un:", "call:", "index:", "slice", "stmt:", "match:", "pat:", "arm:", "data:", "subject:", "ctl:", "ctx:", "jump", "matchform:", "coll:", "m:", "f:", "listcomp", "dictcomp", "closure", "setidx:", "n:fstr", "n:tuple", "n:tfield", "obj", "n:setfield", "n:ctord") + c01.ITER_TAGS)))
            buckets.setdefault(key, []).append(r)
        keys = sorted(buckets)
        rnd.shuffle(keys)
        out = []
        while len(out) < n and keys:
            for k in list(keys):
                b = buckets[k]
                if b:
                    out.append(b.pop(rnd.randrange(len(b))))
                else:
                    keys.remove(k)
                if len(out) >= n:
                    break
        return out
    cases = [pipeline.expr_case(r, k) for k, r in enumerate(pick(erows, n_expr))]
    cases += [pipeline.prog_case(r, k) for k, r in enumerate(pick(prows, n_prog))]
    drows = gd["cases"]["CASE"]
    cases += [pipeline.data_case(r, k) for k, r in enumerate(pick(drows, 110 if ctx.quick else 1396))]
    cases += [pipeline.ctl_case(r, k) for k, r in enumerate(pick(gc["cases"]["CASE"], 120 if ctx.quick else 1500) + gc_sim)]
    cases += [pipeline.obj_case(r, k, gj["cases"]["DECLS"][0]) for k, r in enumerate(pick(gj["cases"]["CASE"], 100 if ctx.quick else 1000) + gj_sim)]
    cases += [pipeline.coll_case(r, k) for k, r in enumerate(pick(go["cases"]["CASE"], 160 if ctx.quick else 1500) + go_sim)]
    irows = gi["cases"]["CASE"]
    ipick = pick([r for r in irows if r["nops"] == 1], 90 if ctx.quick else 400) + pick([r for r in irows if r["nops"] > 1], 90 if ctx.quick else 800)
    cases += [pipeline.iter_case(r, k, gi["cases"]["DECLS"][0]) for k, r in enumerate(ipick + gi_sim)]
    with ctx.timed("self_check"):
        rej = pipeline.self_check_exprs(ctx, [c for c in cases if c["kind"] == "expr"])
        rej.update(pipeline.self_check_progs(ctx, [c for c in cases if c["kind"] in ("prog", "coll", "obj")]))
        rej.update(pipeline.self_check_data(ctx, [c for c in cases if c["kind"] == "data"]))
        rej.update(pipeline.self_check_ctl(ctx, [c for c in cases if c["kind"] == "ctl"]))
        rej.update(pipeline.self_check_iter(ctx, [c for c in cases if c["kind"] == "iter"]))
    cases = [c for c in cases if c["id"] not in rej]
    ev = pipeline.evaluate(ctx, cases)
    stats = {}
    distinct = set()
    n_accepted = 0
    for c, e in zip(cases, ev):
        st = e["stage"]
        key = st + (":" + e["symptom"] if st in ("emit", "build") else "")
        stats[key] = stats.get(key, 0) + 1
        if st == "check":
            continue            # not accepted by the real checker: outside C02's quantifier
        n_accepted += 1
        distinct.add(c["decls"] if c["kind"] == "ctl" else ("\n".join(c["body"]) if c["kind"] in ("coll", "obj", "iter") else " ; ".join(c["body"][-4:])))
        if st in ("emit", "build"):
            ctx.fail(e["symptom"], {"src": c["body"], "decls": c["decls"] if c["kind"] == "iter" else "", "diagnostic": e["detail"]},
                     "accepted by the checker but the generated project does not build", tags=c["tags"])
    # ---------------------------------------------------------------- derive forms (spec/MC_Manifest.tla DeriveForms): built ALONE, one project
    # each, because the feature detection that decides the manifest looks at the whole program
    from lib.checks import c15
    dcases = []
    for feat in ("dser", "dde"):
        for form in ("alone", "listed", "stacked", "class"):
            decl = c15.derive_form(c15.DECLS[feat], feat, form).replace("{S}", "{N}").replace("pub ", "")
            dcases.append({"id": f"dv-{feat}-{form}", "decls": decl, "body": ["println(1)"], "aborts": False, "kind": "derive",
                           "expect": {"out": [{"t": "int", "iv": 1}], "status": "done", "err": ""},
                           "tags": ["derive-form:" + form, "derive:" + feat]})
    if ctx.quick:
        dcases = [c for c in dcases if c["tags"][0] != "derive-form:alone"][:6]
    with ctx.timed("derive_forms"):
        dev = pipeline.evaluate(ctx, dcases, per_batch=1)
    for c, e in zip(dcases, dev):
        stats["derive:" + e["stage"]] = stats.get("derive:" + e["stage"], 0) + 1
        if e["stage"] == "check":
            continue
        n_accepted += 1
        distinct.add(c["decls"])
        if e["stage"] in ("emit", "build"):
            ctx.fail(e["symptom"], {"src": c["decls"].replace("{N}", ""), "diagnostic": e["detail"]},
                     "accepted by the checker but the generated project does not build", tags=c["tags"])
    # ---------------------------------------------------------------- whatever the checker accepts must generate: the ill-typed programs of
    # spec/GenHole.tla (an offending expression in every expression x statement context). On a correct checker none of them gets
    # past `--check`; one that does (a hole in the checker's traversal) must still not end in a code-generation or rustc error.
    from lib import holes
    gh = common.tlc(ctx, "GenHole", cfg="GenHole_1", workers=6, timeout=1200)
    common.require_tlc_ok(ctx, gh, "GenHole")
    hrows = [r for r in gh["cases"]["CASE"] if r["off"] != "twin"]
    if ctx.quick:
        hrows = rnd.sample(hrows, min(len(hrows), 3000))
    hprogs = [holes.program(r)[0] for r in hrows]
    with ctx.timed("holes_emit"):
        houts = common.replay_batch([{"op": "emit", "src": p} for p in hprogs], timeout=3000)
    n_hole_accepted = 0
    generated = []
    for r, src, o in zip(hrows, hprogs, houts):
        ob = o.get("obs", {})
        if ob.get("ok"):
            generated.append((r, src))          # accepted AND generated: rustc is the next judge (below)
            continue
        if "crash" in o or "panic" in ob or ob.get("stage") in ("lex", "parse", "check"):
            continue            # rejected by the checker (the normal case)
        n_hole_accepted += 1
        ctx.fail("hole:accepted-by-the-checker-but-code-generation-fails:" + str(ob.get("stage")),
                 {"src": src, "offender": r["off"], "msg": str(ob.get("msg"))[:400]},
                 "the checker accepts an ill-typed program and the user meets the error in code generation instead",
                 tags=["off:" + r["off"], "expr-ctx:" + r["inner"]])
    # offenders that even generate Rust: build a few with the real CLI (none exist on a checker without holes)
    from lib import e2e
    seen_ctx = set()
    for r, src in generated:
        key = (r["off"], r["inner"])
        if key in seen_ctx or len(seen_ctx) >= 6:
            continue
        seen_ctx.add(key)
        res = e2e.build_run(os.path.join(ctx.work, "hole_build"), src, name="holecase", timeout=1200)
        if not res["build_ok"]:
            ctx.fail("hole:accepted-by-the-checker-but-does-not-build", {"src": src, "offender": r["off"], "rustc": res["build_out"][-1500:]},
                     "the checker accepts an ill-typed program and the user meets the error in rustc instead",
                     tags=["off:" + r["off"], "expr-ctx:" + r["inner"]])
    stats["holes_accepted_and_generated"] = len(generated)
    stats["holes_checked"] = len(hrows)
    stats["holes_accepted_and_failing"] = n_hole_accepted
    # ---------------------------------------------------------------- corpus: the repository's own single-file programs
    files = sorted(glob.glob(os.path.join(common.VERIF, "corpus", "repo", "**", "*.incn"), recursive=True))
    files = [f for f in files if "/invalid/" not in f]
    creqs = [{"op": "emit", "src": open(f, encoding="utf-8").read()} for f in files]
    with ctx.timed("corpus_emit"):
        couts = common.replay_batch(creqs, timeout=1800)
    n_corpus_ok = 0
    for f, o in zip(files, couts):
        ob = o.get("obs", {})
        name = os.path.relpath(f, os.path.join(common.VERIF, "corpus", "repo"))
        if "crash" in o or "panic" in ob:
            ctx.fail("corpus:emit-panic:" + name, {"file": name, "panic": ob.get("panic") or str(o)})
            continue
        if ob.get("ok"):
            n_corpus_ok += 1
            distinct.add(name)
        elif ob.get("stage") in ("lower", "emit"):
            # the checker accepted (strict policy: lowering only runs after a successful check) but generation failed
            ctx.fail("corpus:" + ob["stage"] + "-error:" + name, {"file": name, "msg": ob.get("msg")},
                     "a repository example passes the checker but code generation fails")
    c0 = cases[len(cases) // 2]
    ctx.sample({"case_source": c0["body"], "tags": c0["tags"]})
    # multi-module projects (spec/GenMod.tla, lib/modproj.py): the same declarations split over several files
    with ctx.timed("modproj"):
        from lib import modproj
        modproj.run(ctx)
    common.write_evidence(ctx, "exploration", {
        "evaluations": len(cases) + len(files),
        "distinct_nontrivial": len(distinct),
        "rule": "cases sampled (stratified by feature-tag set, seeded) from the TLC-enumerated universes GenExpr / GenProg; counted "
                "as non-trivial = accepted by the real checker (the property's antecedent), distinct by source text; plus the "
                "repository's own .incn files that the checker accepts (stage 1 only)",
        "samples": ctx.samples,
        "accepted_by_real_checker": n_accepted, "stage_stats": stats, "corpus_files": len(files), "corpus_generated_ok": n_corpus_ok,
        "tlc_states": sum(r["distinct"] for r in ctx.tlc_runs),
    }, assumptions=["program space = Core Incan subset of the generators + the frozen corpus; multi-file projects are exercised by C14/C15"])


def replay(ctx, path):
    case = json.load(open(path))["case"]
    if "src" in case:
        c = {"id": "r0", "decls": pipeline.HELPER, "body": case["src"], "aborts": False}
        print(json.dumps(pipeline.run_cases(ctx, [c])[0], indent=1)[:3000])
    print("recorded:", json.dumps(case, default=str)[:3000])
