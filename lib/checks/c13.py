"""C13 — any legal Incan name is safe to use.

Model: spec/Rename.tla — consistent renaming Rename(P, sigma) on Core programs and the invariance
theorem TLC checks for every (binding position, candidate name): Accept(Rename(P, s)) = Accept(P) and
Run(Rename(P, s)) = Run(P). This is what makes the expected behaviour of a renamed program known
without re-specifying it: it is the behaviour of the original.
Binding (B1):
 * Core positions (const, function, parameter, `mut` local, `let` local, loop variable): the renamed
   program TLC prints is rendered, compiled by the real CLI and run; stdout must equal Run(Base).
 * positions outside the Core subset (type, model field, method, method parameter, enum type, enum
   variant, match binding, closure parameter, the root variable of a list-element / field / dict-value
   assignment target): a template program with that one position renamed;
   its behaviour must equal the behaviour of the same template with safe names (observed on the real
   compiler - renaming invariance is exactly the property).
 cheap pre-layer for every (position, name): the real checker and emitter in process.
Candidate names: every Rust strict / reserved keyword that Incan does not reserve (rust_keywords.rs minus
keywords.rs), prelude / helper names the generated code relies on, generated temporaries, capitalised
value names and lower-case type names, names differing only in case.
"""
import json

from lib import common, pipeline, render
from lib.common import ToolError

TEMPLATE = '''model {Type}{N}:
    {field}: int

    def {method}(self, {mparam}: int) -> int:
        return self.{field} + {mparam}

enum {Enum}{N}:
    {Variant}
    Other{N}

def pick{N}(v: {Enum}{N}) -> int:
    match v:
        {Enum}{N}.{Variant} => return 1
        {Enum}{N}.Other{N} => return 2

def push_twice{N}(mut {mutl}: list[int], extra: int) -> int:
    {mutl}.append(extra)
    {mutl}.append(extra)
    return len({mutl})

def tmpl{N}() -> None:
    p = {Type}{N}({field}=1)
    println(p.{method}(2))
    println(pick{N}({Enum}{N}.{Variant}))
    match Some(4):
        Some({mbind}) => println({mbind})
        None => println(0)
    f = ({cparam}) => {cparam} + 1
    println(f(1))
    mut {lvl} = [1, 2]
    {lvl}[0] = 5
    {lvl}[1] += 2
    println({lvl}[0] + {lvl}[1])
    mut {lvo} = {Type}{N}({field}=1)
    {lvo}.{field} = 3
    {lvo}.{field} += 4
    println({lvo}.{field})
    mut {lvd} = {"k": 1}
    {lvd}["k"] = 6
    println({lvd}["k"])
    {fsv} = 8
    println(f"{{fsv}}")
    mut grow = [1]
    println(push_twice{N}(grow, 4))
'''
SAFE = {"Type": "Widget", "field": "amount", "method": "total", "mparam": "extra", "Enum": "Shade", "Variant": "Dark",
        "mbind": "got", "cparam": "arg", "lvl": "items", "lvo": "gadget", "lvd": "table", "fsv": "shown", "mutl": "bucket"}
TEMPLATE_OUT = ["3", "1", "4", "2", "9", "7", "6", "8", "3"]
# positions where the name is used bare (no per-case suffix possible): one case per name per position
# lvl / lvo / lvd: a variable used as the ROOT of an assignment target (list element, field, dict value)
# fsv: a variable read inside an f-string hole; mutl: a function parameter that is written to (`mut` list parameter)
BARE = ["field", "method", "mparam", "Variant", "mbind", "cparam", "Type", "Enum", "lvl", "lvo", "lvd", "fsv", "mutl"]


# locals of tmpl bound AFTER the closure / the match, the model's field, a local of the caller
REUSE = {"cparam": ["items", "gadget", "table", "shown", "grow"], "mbind": ["items", "gadget", "table", "shown", "grow"],
         "mparam": ["amount"], "mutl": ["grow", "items"]}


def template_case(pos, name, k):
    names = dict(SAFE)
    names[pos] = name
    text = TEMPLATE
    for key, val in names.items():
        # Type / Enum get the per-case suffix only when they are not the renamed position
        if key in ("Type", "Enum") and key == pos:
            text = text.replace("{" + key + "}{N}", val)
        text = text.replace("{" + key + "}", val)
    return {"id": f"t{k}", "decls": text, "body": ["tmpl{N}()"], "aborts": False,
            "expect": {"out": [{"t": "int", "iv": int(x)} for x in TEMPLATE_OUT], "status": "done", "err": ""},
            "tags": ["pos:" + pos, "name:" + name, "class:" + name_class(name)], "pos": pos, "name": name}


RUSTKW = {"abstract", "become", "box", "do", "dyn", "extern", "final", "impl", "loop", "macro", "mod", "move", "override", "priv", "ref",
          "static", "struct", "try", "typeof", "unsafe", "unsized", "use", "virtual", "where"}


def name_class(n):
    if n in RUSTKW:
        return "rust-keyword"
    if n.startswith("__"):
        return "generated-temporary"
    if n[0].isupper():
        return "capitalised"
    return "helper-or-other"


def core_case(row, k):
    """TLC-renamed Core program -> e2e case (consts + functions rendered from the AST; main's body is the case body)"""
    prog = row["prog"]
    decls = ""
    renames = {}
    # top-level names that are NOT the renamed one get a per-case suffix; the renamed one stays bare
    for c in prog["consts"]:
        decls += f"const {c['name']}: {render.TY[c['ty']]} = {render.render_expr(c['e'])}\n"
    for f in prog["fns"]:
        if f["name"] != "main":
            decls += "\n".join(render.render_fn(f)) + "\n"
    main = next(f for f in prog["fns"] if f["name"] == "main")
    body = []
    for s in main["body"]:
        body += render.render_stmt(s, 0)
    # suffix the untouched base_* names
    import re
    decls = re.sub(r"\bbase_(\w+)\b", r"base_\1{N}", decls)
    body = [re.sub(r"\bbase_(\w+)\b", r"base_\1{N}", l) for l in body]
    return {"id": f"c{k}", "decls": decls, "body": body, "aborts": False,
            "expect": {"out": row["out"], "status": "done", "err": ""},
            "tags": ["pos:" + row["pos"], "name:" + row["name"], "class:" + name_class(row["name"])], "pos": row["pos"], "name": row["name"]}


def run(ctx):
    rnd = common.rng(ctx, "c13")
    with ctx.timed("tlc"):
        res = common.tlc(ctx, "Rename", cfg="Rename", workers=8, timeout=1800)
    common.require_tlc_ok(ctx, res, "Rename / Invariance")
    rows = res["cases"]["CASE"]
    names = sorted(set(r["name"] for r in rows))
    cases = [core_case(r, k) for k, r in enumerate(rows)]
    tcases = []
    k = 0
    for pos in BARE:
        for n in names:
            nm = n
            # type-like positions are conventionally capitalised; lower-case names there are their own class (kept)
            tcases.append(template_case(pos, nm, k))
            k += 1
    # names that the program itself binds in a DISJOINT scope (a later local of the enclosing block, a field, a local of
    # another function): renaming a closure parameter / match binding / method parameter / written parameter to such a
    # name is consistent and non-clashing - the scopes do not overlap - and must change nothing
    for pos, reuse in REUSE.items():
        for nm in reuse:
            c = template_case(pos, nm, k)
            c["tags"] = c["tags"] + ["class:reuse-disjoint-scope"]
            tcases.append(c)
            k += 1
    allc = cases + tcases
    # the templates with safe names must behave as specified (guards the template itself)
    base = template_case("field", SAFE["field"], 99999)
    base["id"] = "base"
    # ---------------------------------------------------------------- cheap layer: checker + emitter on every case
    with ctx.timed("precheck"):
        pre = pipeline.e2e.precheck(ctx, allc + [base])
    if pre[-1] is not None:
        raise ToolError(f"the safe-name template itself is not accepted: {pre[-1]}")
    n = 0
    distinct = set()
    survivors = []
    for c, p in zip(allc, pre[:-1]):
        n += 1
        distinct.add((c["pos"], c["name"]))
        if p is None:
            survivors.append(c)
            continue
        if p["stage"] == "parse":
            # the name is not a legal identifier at this position for the parser: outside the property's quantifier
            ctx.stats.setdefault("not_legal_here", []).append(f"{c['pos']}:{c['name']}")
            continue
        sym = {"check": "renamed-program-rejected-by-checker", "emit": "renamed-program-fails-code-generation"}[p["stage"]]
        detail = p["err"] if isinstance(p["err"], str) else [e.get("msg") for e in (p["err"] or [])][:2]
        ctx.fail(sym, {"pos": c["pos"], "name": c["name"], "detail": detail, "decls": c["decls"][:1500]},
                 "a consistent renaming changed whether the program compiles", tags=c["tags"])
    # ---------------------------------------------------------------- e2e: build + run
    n_e2e = 90 if ctx.quick else len(survivors)
    if len(survivors) > n_e2e:
        # every name at least once, positions spread
        by_name = {}
        for c in survivors:
            by_name.setdefault(c["name"], []).append(c)
        sample = []
        while len(sample) < n_e2e and by_name:
            for nm in list(by_name):
                lst = by_name[nm]
                sample.append(lst.pop(rnd.randrange(len(lst))))
                if not lst:
                    del by_name[nm]
                if len(sample) >= n_e2e:
                    break
        survivors = sample
    # a case that defines a TOP-LEVEL item with the candidate name (function, const, type, enum) can shadow what the
    # other cases of its batch rely on (`std`, `String`, `FieldInfo`, ...): those cases are built alone
    TOP = {"base_func", "base_const", "Type", "Enum"}
    alone = [c for c in survivors if c["pos"] in TOP]
    shared = [c for c in survivors if c["pos"] not in TOP]
    with ctx.timed("e2e"):
        ev_shared = pipeline.evaluate(ctx, shared + [base], per_batch=30)
        ev_alone = pipeline.evaluate(ctx, alone, per_batch=1) if alone else []
    if ev_shared[-1]["symptom"]:
        raise ToolError(f"the safe-name template does not behave as specified: {ev_shared[-1]}")
    n_run = 0
    survivors = shared + alone
    ev = ev_shared[:-1] + ev_alone + [None]
    for c, e in zip(survivors, ev[:-1]):
        if e["stage"] in ("ran", "abort"):
            n_run += 1
        if e["symptom"] and not e["symptom"].startswith("check:"):
            ctx.fail("renamed:" + e["symptom"], {"pos": c["pos"], "name": c["name"], "detail": e["detail"], "decls": c["decls"][:1500]},
                     "a consistent renaming changed whether the program builds or what it does", tags=c["tags"])
    ctx.sample({"position": rows[0]["pos"], "name": rows[0]["name"], "renamed_decls": cases[0]["decls"][:500]})
    ctx.sample({"template_case": tcases[3]["decls"][:600]})
    common.write_evidence(ctx, "translation_validation", {
        "programs": n,
        "disagreements_checked": n_run,
        "states": sum(r["distinct"] for r in ctx.tlc_runs),
        "evaluations": n + n_run,
        "distinct_nontrivial": len(distinct),
        "rule": "one program per (binding position, candidate name): 6 Core positions rendered from the TLC-renamed AST, 8 template "
                "positions; all through the real checker + emitter in process; a per-name-balanced seeded sample (thorough: all) "
                "compiled and run; distinct by (position, name)",
        "names": len(names), "positions": 6 + len(BARE), "built_and_run": n_run,
    }, assumptions=["names that the parser does not accept at a position are outside the quantifier (counted as not_legal_here)",
                    "module file names are not renamed yet"])


def replay(ctx, path):
    case = json.load(open(path))["case"]
    print("recorded:", json.dumps(case, default=str)[:3000])
