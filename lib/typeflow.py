"""Rendering + judging of spec/GenTypes.tla cases (the assignability relation, C03 / C07).

A case = (value type a, value form, declared type b) from TLC, crossed with a flow site. The rendered
program puts the offending flow on ONE line of its own; the real checker must reject exactly the cases
whose verdict is FALSE, with at least one error whose span touches that line, and accept the others."""
from lib import common
from lib.common import ToolError

DECLS = '''model M1:
    v: int

model M2:
    v: int

enum E1:
    A
    B

type N1 = newtype int

'''
ATOM_LIT = {"int": "7", "float": "2.5", "str": '"s"', "bool": "true", "M1": "M1(v=1)", "M2": "M2(v=1)", "E1": "E1.A", "N1": "N1(3)"}


def ty_text(t):
    k = t["k"]
    if k == "atom":
        return t["n"]
    args = [ty_text(x) for x in t["args"]]
    name = {"list": "list", "set": "set", "dict": "dict", "option": "Option", "result": "Result", "tuple": "tuple"}[k]
    return f"{name}[{', '.join(args)}]"


def mangle(t):
    return ty_text(t).replace("[", "_").replace("]", "").replace(", ", "_").replace(" ", "")


def lit(t):
    k = t["k"]
    if k == "atom":
        return ATOM_LIT[t["n"]]
    xs = [lit(x) for x in t["args"]]
    if k == "list":
        return f"[{xs[0]}]"
    if k == "set":
        return "{" + xs[0] + "}"
    if k == "dict":
        return '{"k": ' + xs[1] + "}"
    if k == "option":
        return f"Some({xs[0]})"
    if k == "result":
        return f"Ok({xs[0]})"
    if k == "tuple":
        return "(" + ", ".join(xs) + ")"
    raise ToolError("lit: " + k)


def alt(t):
    k = t["k"]
    if k == "option":
        return "None"
    if k == "result":
        return f"Err({lit(t['args'][1])})"
    if k == "list":
        return "[]"
    if k == "dict":
        return "{}"
    raise ToolError("alt: " + k)


def value(form, a):
    if form == "call":
        return f"mk_{mangle(a)}()"
    return lit(a) if form == "lit" else alt(a)


def program(case, site):
    """-> (source, 1-based line number of the flow)"""
    a, b, form = case["a"], case["b"], case["form"]
    B = ty_text(b)
    v = value(form, a)
    src = DECLS
    mks = {mangle(a): a, mangle(b): b}
    for m in sorted(mks):
        src += f"def mk_{m}() -> {ty_text(mks[m])}:\n    return {lit(mks[m])}\n\n"
    src += f"def take(p: {B}) -> int:\n    return 0\n\n"
    src += f"model Holder:\n    f: {B}\n\n"
    src += f"class Box:\n    n: int\n\n    def put(self, p: {B}) -> int:\n        return self.n\n\n"
    line = None

    def mark(text):
        nonlocal src, line
        line = src.count("\n") + 1
        src += text + "\n"
    if site == "ret":
        src += f"def flow() -> {B}:\n"
        mark(f"    return {v}")
        src += "\n"
    if site == "default":
        mark(f"def dflt(p: {B} = {v}) -> int:")
        src += "    return 0\n\n"
    src += "def main() -> None:\n"
    if site == "let":
        mark(f"    w: {B} = {v}")
    elif site == "arg":
        mark(f"    println(take({v}))")
    elif site == "field":
        mark(f"    h = Holder(f={v})")
    elif site == "reassign":
        src += f"    mut w: {B} = mk_{mangle(b)}()\n"
        mark(f"    w = {v}")
    elif site == "elem":
        mark(f"    ws: list[{B}] = [{v}]")
    elif site == "method-arg":
        src += "    bx = Box(n=1)\n"
        mark(f"    println(bx.put({v}))")
    src += "    println(1)\n"
    if line is None:
        raise ToolError("site: " + site)
    return src, line


def kind_pair(case):
    return case["a"]["k"] + ">" + case["b"]["k"]


def tags(case, site):
    a, b = case["a"], case["b"]
    t = ["site:" + site, "form:" + case["form"], "flow:" + kind_pair(case), "verdict:" + ("accept" if case["accept"] else "reject")]
    if a["k"] == b["k"] and a["k"] != "atom":
        t.append("same-ctor")
        if len(a["args"]) != len(b["args"]):
            t.append("arity-differs")
    if a["k"] == "atom" and b["k"] == "atom":
        t.append("atoms:" + a["n"] + ">" + b["n"])
    if not case.get("exact", True):
        t.append("holes")
    return t


def judge(ctx, cases_sites, timeout=3000):
    """cases_sites: [(case, site)] -> stats; calls ctx.fail for disagreements"""
    progs = [program(c, s) for c, s in cases_sites]
    outs = common.replay_batch([{"op": "check", "src": p[0]} for p in progs], timeout=timeout)
    st = {"accepted": 0, "rejected": 0, "agree": 0}
    # A type whose producer function `def mk_T() -> T: return <literal of T>` the checker itself rejects (nested Ok / Err
    # literals) cannot be used as a witness of anything: every program that declares mk_T is rejected for that reason.
    # Found from the exact twins (function-result form, same type on both sides); the cases that mention such a type are skipped.
    unusable = set()
    for (c, s), o in zip(cases_sites, outs):
        if c["form"] == "call" and c["a"] == c["b"] and not o.get("obs", {}).get("ok") and o.get("obs", {}).get("stage") == "check":
            unusable.add(ty_text(c["a"]))
    st["types_without_a_usable_literal_producer"] = sorted(unusable)
    if len(unusable) > max(3, len({ty_text(c["a"]) for c, _ in cases_sites}) // 4):
        raise ToolError(f"typeflow: too many types whose producer function is rejected ({len(unusable)}): {sorted(unusable)[:5]}")
    for (c, s), (src, line), o in zip(cases_sites, progs, outs):
        if ty_text(c["a"]) in unusable or ty_text(c["b"]) in unusable:
            st["skipped_unusable_type"] = st.get("skipped_unusable_type", 0) + 1
            continue
        ob = o.get("obs", {})
        tg = tags(c, s)
        payload = {"a": ty_text(c["a"]), "b": ty_text(c["b"]), "form": c["form"], "site": s, "src": src, "line": line}
        if "crash" in o or "panic" in ob:
            ctx.fail("typeflow:checker-panic", dict(payload, panic=ob.get("panic") or str(o)[:300]), tags=tg)
            continue
        if ob.get("stage") in ("lex", "parse", "dep"):
            raise ToolError(f"typeflow: rendered program does not parse: {ob.get('errs')}\n{src}")
        ok = bool(ob.get("ok"))
        st["accepted" if ok else "rejected"] += 1
        if c["accept"]:
            if not ok:
                msgs = [e.get("msg") for e in ob.get("errs", [])][:2]
                if c.get("exact", True) and c["form"] == "call":
                    # the well-typed twin of every flow (same type on both sides) guards the renderer itself
                    raise ToolError(f"typeflow: the well-typed twin is rejected ({msgs}):\n{src}")
                # The property (C03) only demands that ILL-typed programs are rejected; a checker that is stricter than the
                # relation on literals with holes (e.g. nested Ok / Err whose open part it fills from the wrong place) is
                # outside it: counted, not reported.
                st["well_typed_literal_rejected"] = st.get("well_typed_literal_rejected", 0) + 1
                if len(st.setdefault("well_typed_literal_rejected_samples", [])) < 5:
                    st["well_typed_literal_rejected_samples"].append({"a": payload["a"], "b": payload["b"], "form": payload["form"],
                                                                      "site": payload["site"], "errors": msgs})
            else:
                st["agree"] += 1
            continue
        if ok:
            ctx.fail("typeflow:ill-typed-flow-accepted", payload,
                     f"a value of type {payload['a']} is accepted where {payload['b']} is declared ({s})", tags=tg)
            continue
        # rejected: at least one error must be located on the offending line
        lines = src.split("\n")
        lo = sum(len(l.encode()) + 1 for l in lines[:line - 1])
        hi = lo + len(lines[line - 1].encode()) + 1
        located = any(e.get("start", -1) < hi and e.get("end", -1) >= lo and e.get("start", -1) >= 0 for e in ob.get("errs", []))
        if located:
            st["agree"] += 1
        else:
            ctx.fail("typeflow:diagnostic-not-on-the-offending-line",
                     dict(payload, errors=[(e.get("msg"), e.get("start"), e.get("end")) for e in ob.get("errs", [])][:3], want=[lo, hi]),
                     "the ill-typed flow is rejected but no error is located inside it", tags=tg)
    return st
