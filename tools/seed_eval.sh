#!/bin/bash
# Confirm an independently seeded change and run the /verif checks against it.
# usage: tools/seed_eval.sh /tmp/seed-out/<Cxx_slug> [base-worktree-with-build]
# Steps: scratch worktree of /repo HEAD + patch -> build -> repository test suite -> demonstration with the change
# (and without it, on the base worktree) -> the owning check(s) via tools/mutant_run.sh -> /verif/seeded/<id>/result.json
set -u
SD=$(readlink -f "$1"); ID=$(basename "$SD"); PROP=${ID%%_*}; BASE=${2:-/tmp/confirm-base}
OUT=/verif/seeded/$ID; mkdir -p "$OUT"
cp "$SD/patch.diff" "$OUT/"; cp "$SD/meta.json" "$OUT/" 2>/dev/null; rm -rf "$OUT/demo"; cp -r "$SD/demo" "$OUT/demo" 2>/dev/null
find "$OUT/demo" -size +200k -delete 2>/dev/null
W=/tmp/confirm-$ID
git -C /repo worktree remove --force "$W" >/dev/null 2>&1; rm -rf "$W"
git -C /repo worktree add --detach "$W" HEAD >/dev/null 2>&1
applies=true; (cd "$W" && git apply "$SD/patch.diff") || applies=false
build=skipped; tests="skipped"; demo_with="not-run"; demo_without="not-run"
if $applies; then
  [ -d "$BASE/target" ] && cp -r "$BASE/target" "$W/target"     # warm start: third-party crates are not rebuilt
  (cd "$W" && cargo build --offline -j 8 >/tmp/confirm-$ID.build.log 2>&1) && build=ok || build=failed
  if [ $build = ok ]; then
    (cd "$W" && cargo test --workspace --no-fail-fast --offline -j 8 >/tmp/confirm-$ID.test.log 2>&1)
    p=$(grep -E "^test result" /tmp/confirm-$ID.test.log | awk '{s+=$4} END{print s+0}'); f=$(grep -E "^test result" /tmp/confirm-$ID.test.log | awk '{s+=$6} END{print s+0}')
    tests="passed=$p failed=$f"
    R=""; for r in run.sh run_demo.sh confirm.sh; do [ -f "$SD/demo/$r" ] && R=$r; done
    if [ -n "$R" ]; then chmod +x "$SD/demo/$R"
      # three conventions among the seed authors: worktree argument, INCAN=<binary> in the environment, binary argument
      A1="$W"; A2="$BASE"
      if grep -q "usage: [a-z_]*.sh /path/to/incan" "$SD/demo/$R"; then A1="$W/target/debug/incan"; A2="$BASE/target/debug/incan"; fi
      (cd "$SD/demo" && INCAN="$W/target/debug/incan" CARGO_NET_OFFLINE=true timeout 2400 ./$R "$A1" >/tmp/confirm-$ID.demo_with.log 2>&1); demo_with="exit=$?"
      if [ -d "$BASE/target/debug" ]; then (cd "$SD/demo" && INCAN="$BASE/target/debug/incan" CARGO_NET_OFFLINE=true timeout 2400 ./$R "$A2" >/tmp/confirm-$ID.demo_without.log 2>&1); demo_without="exit=$?"; fi
    fi
  fi
fi
git -C /repo worktree remove --force "$W" >/dev/null 2>&1; rm -rf "$W"; git -C /repo worktree prune
checks=""
if $applies && [ $build = ok ]; then
  MUT_LINES=30 /verif/tools/mutant_run.sh "$SD/patch.diff" "$PROP" quick > /tmp/confirm-$ID.check.log 2>&1
  checks=$(grep -E "^RESULT|signature" /tmp/confirm-$ID.check.log | sort | uniq -c | head -12 | tr '\n' ';')
  cp /tmp/confirm-$ID.check.log "$OUT/check_output.txt"
fi
python3 - "$OUT" "$ID" "$PROP" "$applies" "$build" "$tests" "$demo_with" "$demo_without" "$checks" <<'PY'
import json,sys
out,id_,prop,applies,build,tests,dw,dwo,checks=sys.argv[1:10]
json.dump({"seed":id_,"property":prop,"applies_to_repo_head":applies=="true","build":build,"repository_test_suite":tests,
           "demo_with_change":dw,"demo_without_change":dwo,"verif_check":checks}, open(out+"/result.json","w"), indent=1)
print(open(out+"/result.json").read())
PY
