"""The table MANIFEST.json is generated from (tools/gen_manifest.py)."""
HOOK_COMMITS = ["c4599b2"]
NOTES = ("Model-based verification with an explicit TLA+ specification (spec/*.tla). Every check: TLC/Apalache on the "
         "model, then conformance of /repo's current working tree (harness/ is rebuilt with path deps on /repo). "
         "See DESIGN.md.")
ENGINES = [
    {"name": "tlc+harness", "path": "/verif/check", "kind_free_text":
     "python driver: TLC (and Apalache for 64-bit obligations) on spec/*.tla, cases replayed into the real code "
     "through harness/ (Rust, path deps on /repo), recorded traces validated against trace specs",
     "serves_properties": []},
]
NOT_APPLICABLE = {}
CHECKS = {
    "C04": {
        "level": "model_checking",
        "technique": "TLA+ spec PyArith: TLC exhaustive window + Apalache over all i64; table replay into both kernel copies; "
                     "recorded 64-bit calls validated by Apalache (KernelTrace)",
        "text": "PyArith.tla states the laws and transcribes both integer kernel copies. TLC proves definitions/laws/"
                "transcriptions agree on a window, Apalache proves the law and absence of overflow for ALL admissible i64 "
                "pairs on the transcription, and the transcription is tied to the code by replaying every table row into "
                "every kernel copy and by validating calls recorded on a 64-bit boundary grid against the spec.",
        "note": "Trusts: the transcription (checked by vectors, not by proof), Apalache/Z3, CPython as QA oracle for the "
                "spec table and as secondary oracle for arbitrary finite f64 pairs (only dyadic floats are specified exactly).",
    },
    "C05": {
        "level": "model_checking",
        "technique": "TLA+ spec PySeq: TLC exhaustive window (slice/index/range/dict, saturation + translation lemmas) + Apalache "
                     "step lemma over all i64; table replay into every kernel copy; recorded calls validated by TLC (PySeqTrace)",
        "text": "PySeq.tla defines Python's slice/index/range (CPython adjustment + walk, independently characterised), "
                "transcribes the slice copies and proves saturation/translation lemmas on a window; Apalache proves for all "
                "i64 that the saturating cursor of the real loops steps exactly like Python's unbounded cursor. Every table "
                "row, with i64 extremes substituted at window edges, is replayed into all copies; random recorded calls are "
                "validated against the spec by TLC.",
        "note": "Trusts the renderer of scalar ids to chars, the induction from the one-step lemma to whole loops (argued in "
                "DESIGN.md), Apalache/Z3; surface syntax s[a:b:c] is covered by the C01/C02 end-to-end layers.",
    },
    "C19": {
        "level": "model_checking",
        "technique": "TLA+ spec Positions (definitions by counting): TLC exhaustive over all documents up to 5 scalars; full "
                     "conversion tables compared cell by cell with src/lsp/diagnostics.rs",
        "text": "Positions.tla defines offset<->position and span->range by counting scalars and newlines and TLC checks "
                "round-trip, strict monotonicity, agreement with counting and in-range/ordered ranges on every document over "
                "1-4 byte scalars, LF, CR up to the bound; the real functions must reproduce the complete tables (every byte "
                "offset incl. mid-scalar and past the end, every position in a window, every span incl. empty/reversed) and "
                "both diagnostic renderers are run on every span.",
        "note": "Bounded document length (quick 4, thorough 5 scalars); the code is two single loops over scalars with no "
                "length-dependent branch. Terminal column (byte-based by construction) is recorded, not judged.",
    },
    "C18": {
        "level": "model_checking",
        "technique": "TLA+ spec Lsp (handlers as segments between awaits, tokio RwLock as FIFO queue): TLC exhaustive safety + "
                     "liveness; transition-cover replay into the real server under a yield-point scheduler; recorded runs "
                     "validated by TLC (LspTrace)",
        "text": "Lsp.tla models every code segment between .await points of the open/change/close handlers, the framework's "
                "start order and concurrency limit, and tokio's fair RwLock. TLC explores all client histories x all "
                "interleavings in the bounded configs (safety, deadlock freedom, liveness) and confirms the regression "
                "counterexamples on the as-originally-written variant. The real IncanLanguageServer is driven poll by poll "
                "through cfg(incan_verif) yield points: one schedule per edge of the TLC state graph is replayed and the real "
                "store / published diagnostics / handler positions compared with the model state; all runs (plus random "
                "schedules) are completed and validated by TLC against LspTrace with every invariant evaluated in every state; "
                "hover and completion are asked through the public protocol at quiescence.",
        "note": "Interleavings are those at await boundaries that carry a yield point; bounded client histories (quick: 1 doc, "
                "thorough: 1 doc x 4 versions, 2 docs x 2 versions); tokio lock fairness and tower-lsp start order as documented.",
    },
    "C10": {
        "level": "model_checking",
        "technique": "TLA+ spec Layout (transcription of the lexer's INDENT/DEDENT/NEWLINE algorithm over character classes): TLC "
                     "exhaustive edit-invariance; token streams replayed into the real lexer; ASTs of real programs compared under "
                     "every edit kind; real token streams validated by TLC (LayoutTrace); GenSyntax rows as edit bases; comment edits with non-ASCII content of every UTF-8 width",
        "text": "Layout.tla transcribes scan_token/handle_indentation; TLC proves on every class string up to the bound and on "
                "structured multi-line texts that every single layout edit and uniform re-indentation leaves the normalised token "
                "stream unchanged. The transcription is tied to the code by feeding every printed text to the real lexer (exact "
                "token-class stream), the parser's insensitivity is checked on real programs (frozen corpus of the repository's "
                ".incn files + construct corpus) under every edit kind at sampled positions by AST equality, and real token "
                "streams of real files are validated against the spec by TLC.",
        "note": "Class abstraction (atoms are single-character tokens); edits are never placed inside multi-line string tokens; "
                "AST-level positions are sampled per file (seeded).",
    },
    "C06": {
        "level": "model_checking",
        "technique": "TLA+ specs ConstEval (cycle-detection state machine, TLC exhaustive over all reference graphs) and "
                     "GenConst/Core (reference semantics of const-evaluable expressions); graphs and expressions replayed into the "
                     "real checker (paths, types, values, error texts) and compiled end to end (const vs function)",
        "text": "ConstEval.tla transcribes eval_const_by_name's cache/state/stack machine; TLC proves termination, "
                "evaluate-once and cycle-reported-iff-cyclic on every graph and every graph is replayed into the real checker "
                "(the set of reported cycle paths must equal the machine's). GenConst enumerates every const-evaluable expression "
                "up to the depth bound; Core.tla gives its value/type/error; the real checker's recorded type, computed value and "
                "diagnostic text are compared for all of them and a seeded sample is compiled and run with the expression both as "
                "a const and in a function body.",
        "note": "Numeric const values are only observable end to end (the front end records types only); compile-time division "
                "by zero is C02 material; programs the back end cannot build are counted and left to C02.",
    },
    "C07": {
        "level": "model_checking",
        "technique": "TLA+ spec Core (ResultKind/ExpKind/TypeOf = the numeric table) + GenNum: TLC enumerates operator x kinds x exponent "
                     "kind x nesting x binding position; each consumer (policy function, checker, const evaluator, backend+rustc) is "
                     "compared with the table",
        "text": "The numeric-semantics table is stated once in Core.tla; GenNum walks it exhaustively to the depth bound in every binding "
                "position with the expected type and accept/reject. The real policy function, the checker's verdict on the generated "
                "binding and the const evaluator's recorded type are compared for every case in process; a stratified sample of accepted "
                "cases is compiled with typed sinks so that rustc assigns the declared kind, and run to compare the value.",
        "note": "Parenthesised-literal exponents are not decided by the documentation (only consumer agreement is judged); the e2e layer "
                "is a seeded stratified sample; known backend defects are catalogued by feature tags in known_findings.json.",
    },
    "C01": {
        "level": "translation_validation",
        "technique": "TLA+ reference semantics Core (Accept/Run) + TLC generators GenExpr/GenProg/GenData/GenCtl/GenColl/GenObj; generated programs compiled by the real "
                     "`incan build`, run, compared with Run(p); recorded executions validated by TLC (PipelineTrace); multi-module projects from GenMod (the same declarations split over files, all placements / import forms): same output as the flat program",
        "text": "Core.tla is an independent statement of the documented static and dynamic semantics of the modelled subset; TLC enumerates "
                "programs (expressions to a depth bound, statement programs via a frame machine, data types / match / `?`, control-flow chains x loop "
                "contexts x jumps, string / collection / closure / comprehension / f-string / tuple operations, models and classes with methods, "
                "mut self, field assignment, trait defaults and inheritance; simulation for deeper ones), checks "
                "soundness of the semantics on each, and prints Run(p) with feature tags. Each sampled case is rendered (self-checked by "
                "parse(render(t)) == t), compiled by the real CLI, executed, and its stdout / error text compared value by value; real "
                "executions are also fed back to TLC, which recomputes Accept/Run from the event's program.",
        "note": "Subset of the language (DESIGN §5 C01/§9), dyadic floats, small ints; seeded stratified sample per run; grouping loss and "
                "len(str) are catalogued genuine defects (pinned snapshots prevent a repair).",
    },
    "C02": {
        "level": "exploration",
        "technique": "Program space from the TLA+ generators (Core-accepted programs with feature tags) + frozen corpus; real checker => real "
                     "emitter => real rustc build, failures mapped back to cases and matched against tag signatures; GenMod projects accepted by the checker must build (each rustc / generator error a symptom, matched with spec-computed module tags)",
        "text": "The specification supplies the program space and its feature tags; the property itself is the pipeline implication observed on "
                "the real tools: every sampled program that the real checker accepts must generate and build. rustc diagnostics are mapped "
                "back to the generated case functions; each failure is a (stage, rustc code, tags) symptom.",
        "note": "Exploration: a seeded stratified sample of the enumerated universe per run plus the repository's own files through the "
                "emitter; several genuine accepted-but-unbuildable classes are catalogued.",
    },
    "C08": {
        "level": "translation_validation",
        "technique": "TLA+ contract Format.RunOK + TLC-generated Core programs, construct corpus and repository corpus; real parser and "
                     "format_source in process, ASTs compared modulo documented equivalences; runs validated by TLC (FormatTrace); spec/GenSyntax.tla: the surface grammar walked by TLC (77 productions x every optional field and spelling, depth 1 exhaustive, deeper by simulation), each row stating its tree (oracle parser = spec) and round-tripped through the formatter",
        "text": "Format.tla states the contract; every input (TLC-generated programs from the Core specification, one construct file "
                "per AST node kind / optional field, the repository's own files) is parsed, formatted, re-parsed and the projected ASTs "
                "compared (the projection is an exhaustive match over the real AST, so no field is silently ignored). Each failure is "
                "identified by the first differing AST field and the feature tags of the original tree.",
        "note": "The construct corpus is hand-written rather than generated by TLC (coverage of node kinds is measured); eleven genuine "
                "printer defects are catalogued by (symptom, tags).",
    },
    "C09": {
        "level": "exploration",
        "technique": "TLA+ contract Format.RunStable/Canonical + `incan fmt` mode machine (TLC); real formatter applied twice to the C08 "
                     "space + layout-edited variants; line traces and real CLI sessions (files as generated / CRLF / no final newline / trailing "
                     "blank lines) validated by TLC (FormatTrace); GenSyntax rows as files of rows, split down to the row on failure",
        "text": "Idempotence and canonical form are evaluated by TLC on the recorded line trace of every real formatter run; the CLI modes "
                "(fmt / --check / --diff) are a small TLC-checked state machine against which recorded real sessions (exit status, file "
                "bytes and mtime before/after) are validated.",
        "note": "Exploration over a finite corpus + seeded variants; --diff's exit status is left open (undocumented).",
    },
    "C11": {
        "level": "exploration",
        "technique": "TLA+-generated inputs (Layout class strings with exact lex verdict, the literal grammar GenLit, Core programs) + seeded mutation operators; every "
                     "front-end stage monitored in a watchdog with catch_unwind; diagnostics checked for well-formedness and rendered; ill-founded declaration graphs (GenDeclGraph: cycles / dangling references through extends, field types, newtypes, payloads, trait signatures)",
        "text": "Totality is a statement about all UTF-8 inputs; the specification structures the walk (all layouts up to the bound with an "
                "exact oracle for the lexer's verdict, valid generated programs as mutation seeds) and the harness monitors lex, parse, "
                "check, format and emit on every input (termination, no panic, non-empty diagnostics, spans in range / on scalar "
                "boundaries / ordered, terminal and editor rendering do not fail).",
        "note": "Exploration level by design (DESIGN §5 C11): sampling of the input space; atom-string enumeration is outside the model.",
    },
    "C15": {
        "level": "model_checking",
        "technique": "TLA+ spec Manifest (prepare_project as Collect/Scan/AddCrates/Emit/Write over feature-placement programs); TLC "
                     "exhaustive on the demanded and as-originally-written variants; every case rendered and generated in process and by "
                     "the real CLI with a stub cargo; Cargo.toml parsed (cross-checked with cargo metadata), generated Rust scanned for crate roots",
        "text": "Manifest.tla models which crates a program needs given where each feature construct sits (entry file or imported module) "
                "and what the generator must declare (declared = expected = referenced, pinned versions/paths, names, refusal of unknown "
                "crates); TLC checks nine invariants on all feature-placement programs and confirms the regression counterexamples on the "
                "as-written variant. Every TLC case is rendered into a real project and generated both in process and through the real "
                "CLI (a stub cargo records whether cargo was reached).",
        "note": "Eleven constructs with one rendering each; mixed placements up to 3 features (quick 2); crate roots by lexical scan of the "
                "generated Rust; the stub cargo stands in for cargo (no network).",
    },
    "C12": {
        "level": "exploration",
        "technique": "TLA+ spec Determinism (every unordered iteration as a nondeterministic draw, order-source table; TLC names the "
                     "components at risk); K fresh-process compilations through 5 paths in different directories, filesystems and "
                     "environments, validated by TLC against DeterminismTrace",
        "text": "The model says which output components can depend on hash / readdir order (and that sorting the sites removes the "
                "dependence); the binding compiles each program K times in fresh processes (fresh RandomState), different working "
                "directories and perturbed environments through --check, --emit-rust, fmt --diff, build (stub cargo) and in-process "
                "generation, and TLC validates that all observations are byte-equal and that recorded orders are the derived ones.",
        "note": "Detection is probabilistic in K (a two-way order dependence is missed with probability 2^-(K-1); quick K=6, thorough K=16); "
                "the flow table is a transcription made by reading the code.",
    },
    "C03": {
        "level": "model_checking",
        "technique": "TLA+ specs GenMut (Core.Accept decides: one mutation at one position in nested blocks; invariant MutantsAreIllTyped), "
                     "Rules (documented rule table x hosts x blocks), GenTypes (assignability relation over a type universe x value forms x 8 flow "
                     "sites) and GenHole (ill-typed expression x expression contexts x statement contexts); every case and its well-typed twin "
                     "through the real checker; "
                     "a diagnostic must intersect the offending construct; GenMod negatives: one needed import dropped in one module (the specification's linker says where the link breaks) must be rejected in that module",
        "text": "For the Core-expressible rules TLC constructs a well-typed program, applies one mutation operator at one position inside "
                "0..3 nested blocks of every kind and emits it only if the specification's Accept rejects it and accepts the twin; the "
                "remaining listed rules are a documented table walked over hosts x nested blocks. The real checker must reject every "
                "mutant with an error located inside the offending construct and accept the twin.",
        "note": "Contexts: if / elif / else / while / for / both match-arm syntaxes / model and class methods; closures, comprehensions and "
                "f-string holes not yet generated. Four genuine acceptance gaps are catalogued; the elif gap was repaired (fix 6e001be).",
    },
    "C14": {
        "level": "model_checking",
        "technique": "TLA+ spec Modules (three resolvers transcribed as instances of one parametric resolver + cause analysis, visibility "
                     "transcription, four collector worklist machines): TLC exhaustive over the bounded layout x import universe and all "
                     "import graphs; every case materialised as a real tree and asked of collect_modules / resolve_import_path / "
                     "ModuleResolver / ModuleCollector / the real language server; visit sequences validated by TLC (ModulesTrace); GenMod.tla (the documented linker: imports written by the generator are resolved by Modules!Resolve, pub exactly on what is imported) - linked projects must be accepted, a dropped `pub` must be rejected",
        "text": "Modules.tla models project layouts as sets of paths, the documented resolution, the three resolver implementations side "
                "by side, the checker's handling of imported symbols and the collectors' worklist loops. TLC proves the transcriptions are "
                "instances of one parametric resolver, names every disagreement by the algorithmic differences that cause it, and proves "
                "termination / visit-once of all collectors on every import graph incl. cycles. Every TLC case is materialised under "
                "work/C14/fs and the real functions (and the real server via didOpen) must answer exactly what their transcription says; "
                "confirmed disagreements, missing diagnostics and visibility leaks are catalogued by cause; real visit sequences are "
                "validated against the machines by TLC.",
        "note": "Bounded universe (entry two directories below the root, <=3 segments, parent levels <=2, five probed file shapes); the "
                "documentation fixes an answer only when exactly one reading has a single .incn candidate; the catalogued classes are "
                "genuine and stay reported as KNOWN-FINDING; three defects were repaired.",
    },
    "C16": {
        "level": "model_checking",
        "technique": "TLA+ spec TestRunner (run_tests as a state machine, ghost ran/fin, harness runs|empty): TLC exhaustive over all "
                     "scenarios with 1-3 tests; seeded feature/pairwise-cover scenarios realised as real test files with begin/end "
                     "marker evidence and run through the real CLI; sessions compared with TLC CASE lines and validated by TLC (RunnerTrace)",
        "text": "TestRunner.tla models every step of run_tests over ground truth x markers x keyword match x options. TLC checks "
                "passed=>ran-to-completion, failed=>not, skip not run, xfail inversion, exact selection, judged = prefix of selection, "
                "counters = verdict lines = summary, exit!=0 <=> FAILED/XPASS, the empty-selection rule and termination for all "
                "three-test scenarios, and requires the empty-harness variant (the original defect) to violate the property. Real "
                "`incan test` sessions on generated directories are compared with the spec's CASE and every recorded step is validated "
                "against the spec with all invariants.",
        "note": "Fixtures/parametrize/async are outside the model; evidence of execution is marker files written through write_file; "
                "whether -x stops on XPASS is left open (undocumented); real sessions use 3 tests over 1-3 files.",
    },
    "C17": {
        "level": "model_checking",
        "technique": "TLA+ spec Newtype (lowering walk: hook registration pre-pass, current_impl_type save/set/restore, Call-arm rewrite) with "
                     "invariant RewrittenIffMust over all declaration orders x hook kinds; generated Rust inspected per construction site; "
                     "sampled programs compiled and run on accepted / rejected arguments; underlying types int, str, List[int], Dict[str, int]",
        "text": "Newtype.tla transcribes the three cooperating mechanisms of checked construction and states MustValidate from the property; "
                "TLC checks for every declaration order and hook kind that exactly the sites that must validate are rewritten. Every "
                "scenario (x underlying int/str) is rendered with one function per construction site (let, argument, return, field "
                "initialiser, list element, nested call, other type's method, own method) and the emitted function bodies must carry "
                "the hook call exactly where the machine says; a seeded sample is compiled and must stop with the validation failure on "
                "a rejected argument and print normally on an accepted one; nominal typing is checked through the checker.",
        "note": "Cross-module construction is observed through the real CLI with a stub cargo (catalogued finding: the hook is bypassed "
                "across modules); programs rustc rejects are counted and left to C02.",
    },
    "C13": {
        "level": "translation_validation",
        "technique": "TLA+ spec Rename (consistent renaming on Core programs; TLC checks Accept/Run invariance for every position x candidate "
                     "name); renamed programs through the real checker, emitter, rustc and execution, compared with the original's behaviour; names reused from a disjoint scope of the same program (closure parameter / match binding / parameter named like a later local or a field)",
        "text": "Rename.tla defines consistent renaming and TLC verifies on the model that it preserves the static verdict and the behaviour, "
                "so the expected behaviour of a renamed program is the original's. For the six Core binding positions the TLC-renamed "
                "program is rendered and compiled; for eight further positions (type, field, method, method parameter, enum, variant, match "
                "binding, closure parameter) a template is instantiated. Every (position, name) goes through the real checker and emitter; "
                "a per-name-balanced sample (thorough: all) is built and run (top-level renamings in isolation).",
        "note": "Candidate names: the 24 Rust keywords Incan does not reserve, runtime/prelude/helper names, generated temporaries, case "
                "variants; module file names not yet renamed. Keyword declarations and a crate-shadowing type name are catalogued defects.",
    },
    "C20": {
        "level": "translation_validation",
        "technique": "TLA+ spec Derive (structural Eq, lexicographic Ord, Hash classes, Clone machine, JSON tree mapping; TLC checks the "
                     "laws on every declaration's value set and prints trees and ==/< matrices); compiled programs print JSON, round "
                     "trips, all pairwise comparisons, set sizes; compared with the spec",
        "text": "Derive.tla defines what the derives mean; TLC verifies round trip, exact field names/order, Eq structural, Ord a strict "
                "total order consistent with Eq, hash consistency and clone independence on the model, and emits per declaration the "
                "values with their JSON trees and complete comparison matrices. One compiled Incan program per declaration and part "
                "prints json_stringify, from_json round trips, every pairwise == and <, and set sizes; the JSON text is parsed keeping "
                "key order and compared as a tree, every boolean with the matrix.",
        "note": "Six declarations (scalars, bools, Option/List, nested model, float, Dict) with small value sets (non-ASCII, quotes, "
                "backslashes, empty strings/collections, negatives); Eq/Ord/Hash not derived for float fields; `.clone()` and dict-literal "
                "fields are catalogued defects.",
    },
}
