"""The table MANIFEST.json is generated from (tools/gen_manifest.py)."""
HOOK_COMMITS = []
NOTES = ("Model-based verification with an explicit TLA+ specification (spec/*.tla). Every check: TLC/Apalache on the "
         "model, then conformance of /repo's current working tree (harness/ is rebuilt with path deps on /repo). "
         "See DESIGN.md.")
ENGINES = [
    {"name": "tlc+harness", "path": "/verif/check", "kind_free_text":
     "python driver: TLC (and Apalache for 64-bit obligations) on spec/*.tla, cases replayed into the real code "
     "through harness/ (Rust, path deps on /repo), recorded traces validated against trace specs",
     "serves_properties": []},
]
NOT_APPLICABLE = {}
CHECKS = {
    "C04": {
        "level": "model_checking",
        "technique": "TLA+ spec PyArith: TLC exhaustive window + Apalache over all i64; table replay into both kernel copies; "
                     "recorded 64-bit calls validated by Apalache (KernelTrace)",
        "text": "PyArith.tla states the laws and transcribes both integer kernel copies. TLC proves definitions/laws/"
                "transcriptions agree on a window, Apalache proves the law and absence of overflow for ALL admissible i64 "
                "pairs on the transcription, and the transcription is tied to the code by replaying every table row into "
                "every kernel copy and by validating calls recorded on a 64-bit boundary grid against the spec.",
        "note": "Trusts: the transcription (checked by vectors, not by proof), Apalache/Z3, CPython as QA oracle for the "
                "spec table and as secondary oracle for arbitrary finite f64 pairs (only dyadic floats are specified exactly).",
    },
}
