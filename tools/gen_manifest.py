#!/usr/bin/env python3
"""Regenerate MANIFEST.json from tools/manifest_table.py and validate it against the schema."""
import json
import os
import subprocess
import sys

HERE = os.path.dirname(os.path.abspath(__file__))
sys.path.insert(0, HERE)
from manifest_table import CHECKS, NOT_APPLICABLE, HOOK_COMMITS, NOTES, ENGINES  # noqa: E402

ids = [json.loads(l)["id"] for l in open(os.path.join(HERE, "..", "properties.jsonl"))]
checks = []
for pid in ids:
    if pid in CHECKS:
        c = CHECKS[pid]
        checks.append({
            "property_id": pid,
            "quick_cmd": f"./check {pid} --tier quick",
            "thorough_cmd": f"./check {pid} --tier thorough",
            "evidence_file": f"/verif/evidence/{pid}.json",
            "replay_cmd_template": f"./check {pid} --replay {{path}}",
            "engine": c.get("engine", "tlc+harness"),
            "level_claimed": {"category": c["level"], "text": c["text"], "design_ref": c.get("design_ref", "DESIGN.md §5 " + pid)},
            "level_note": c["note"],
            "technique": c["technique"],
        })
na = [{"property_id": p, "reason": NOT_APPLICABLE.get(p, "check under construction; not yet claimed")}
      for p in ids if p not in CHECKS]
m = {
    "version": 1,
    "setup_cmd": "cd /verif/harness && CARGO_NET_OFFLINE=true cargo build --offline",
    "hooks": {
        "guard": "incan_verif",
        "enable": "harness/.cargo/config.toml passes `--cfg incan_verif` (rustflags) to every crate the harness builds, "
                  "including the path dependencies on /repo; /repo's own builds never set it",
        "baseline_off_cmd": "cd /repo && cargo test --workspace --no-fail-fast --offline",
        "source_commits": HOOK_COMMITS,
        "add_only": True,
    },
    "engines": ENGINES,
    "checks": checks,
    "notes": NOTES,
    "not_applicable": na,
}
out = os.path.join(HERE, "..", "MANIFEST.json")
json.dump(m, open(out, "w"), indent=1)
r = subprocess.run(["python3-vt", "-c", "import json,jsonschema;jsonschema.validate(json.load(open('%s')),json.load(open('/root/.vp/MANIFEST.schema.json')));print('MANIFEST ok: %d checks, %d not_applicable')" % (out, len(checks), len(na))])
sys.exit(r.returncode)
