#!/bin/bash
# Run checks against a scratch worktree of /repo with a patch applied (never touches /repo's tree).
# usage: tools/mutant_run.sh <patch-file> <Cxx>[,Cyy...] [tier]
# Prints the check output; exit status = 1 if any check reported a VIOLATION, 0 if none, 2 on tool errors.
set -u
PATCH=$(readlink -f "$1"); PROPS=$2; TIER=${3:-quick}
W=$(mktemp -d /tmp/incan-mut-XXXXXX); V=$(mktemp -d /tmp/verif-mut-XXXXXX)
cleanup() { git -C /repo worktree remove --force "$W" >/dev/null 2>&1; rm -rf "$W" "$V"; git -C /repo worktree prune; }
trap cleanup EXIT
rmdir "$W"
git -C /repo worktree add --detach "$W" HEAD >/dev/null 2>&1 || { echo "worktree failed"; exit 2; }
if ! git -C "$W" apply "$PATCH"; then echo "patch does not apply"; exit 2; fi
rsync -a --exclude work --exclude .git /verif/ "$V"/
# exhaustive TLC results are a function of the specification text alone (lib/common.tlc): reuse them
[ -d /verif/work/tlc_cache ] && mkdir -p "$V/work" && cp -r /verif/work/tlc_cache "$V/work/tlc_cache"
sed -i "s#\"/repo#\"$W#g" "$V/harness/Cargo.toml"
rc=0
for P in ${PROPS//,/ }; do
  echo "=== $P ($TIER) on mutant $(basename "$PATCH")"
  (cd "$V" && VERIF_REPO="$W" ./check "$P" --tier "$TIER" > "$V/mut_$P.log" 2>&1; grep -E "^(VIOLATION|KNOWN-FINDING|OK|tool error)|signature" "$V/mut_$P.log" | head -${MUT_LINES:-12})
  s=${PIPESTATUS[0]}
  out=$(cd "$V" && ls work/replay/$P 2>/dev/null | wc -l)
  if (cd "$V" && [ -d work/replay/$P ] && [ "$out" -gt 0 ]); then :; fi
done
# status: look at evidence violations count
for P in ${PROPS//,/ }; do
  n=$(python3 -c "import json;print(json.load(open('$V/evidence/$P.json')).get('violations',0))" 2>/dev/null || echo -1)
  echo "RESULT $P violations=$n"
  [ "$n" -gt 0 ] && rc=1
  [ "$n" -lt 0 ] && [ $rc -eq 0 ] && rc=2
done
exit $rc
