#!/usr/bin/env python3
"""Development-time tool (never run by a check): run a generated universe through the real pipeline,
group failing cases by symptom, and propose minimal feature-tag signatures (DESIGN §7): a tag set T
is a valid signature for symptom S iff EVERY case of the universe whose tags include T fails with S.
usage: tools/catalogue.py <GenModule> <cfg> <expr|prog> [--simulate N --depth D --seed S] [--limit N] [--out file]
"""
import argparse
import collections
import itertools
import json
import os
import sys

sys.path.insert(0, os.path.dirname(os.path.dirname(os.path.abspath(__file__))))
from lib import common, pipeline  # noqa: E402

OWNER = {"run": "C01", "build": "C02", "emit": "C02", "parse": "C05"}


def main():
    ap = argparse.ArgumentParser()
    ap.add_argument("module")
    ap.add_argument("cfg")
    ap.add_argument("kind")
    ap.add_argument("--simulate", type=int, default=0)
    ap.add_argument("--depth", type=int, default=12)
    ap.add_argument("--seed", type=int, default=1)
    ap.add_argument("--limit", type=int, default=0)
    ap.add_argument("--out", default="")
    a = ap.parse_args()
    ctx = common.Ctx("VET", "thorough", a.seed)
    res = common.tlc(ctx, a.module, cfg=a.cfg, workers=8, timeout=3000, want_tags=("CASE",),
                     simulate=a.simulate or None, depth=a.depth)
    rows = res["cases"]["CASE"]
    # dedupe (simulation repeats)
    seen, uniq = set(), []
    for r in rows:
        k = json.dumps(r.get("e") or r.get("body"), sort_keys=True)
        if k not in seen:
            seen.add(k)
            uniq.append(r)
    rows = uniq
    if a.limit and len(rows) > a.limit:
        rows = common.rng(ctx, "lim").sample(rows, a.limit)
    mk = pipeline.expr_case if a.kind == "expr" else pipeline.prog_case
    cases = [mk(r, k) for k, r in enumerate(rows)]
    rej = pipeline.self_check_exprs(ctx, cases) if a.kind == "expr" else pipeline.self_check_progs(ctx, cases)
    print(f"{len(cases)} cases, {len(rej)} rejected by the parser", file=sys.stderr)
    cases = [c for c in cases if c["id"] not in rej]
    ev = pipeline.evaluate(ctx, cases)
    by_sym = collections.defaultdict(list)
    for c, e in zip(cases, ev):
        by_sym[e["symptom"]].append((c, e))
    tagsets = [(set(c["tags"]), e["symptom"]) for c, e in zip(cases, ev)]
    proposals = []
    for sym, xs in by_sym.items():
        if sym is None or sym.startswith("check:"):
            continue
        remaining = list(xs)
        sigs = []
        while remaining:
            c, e = remaining[0]
            tags = sorted(t for t in c["tags"] if not t.startswith("lit:"))
            found = None
            for size in (1, 2, 3):
                best = None
                for combo in itertools.combinations(tags, size):
                    cs = set(combo)
                    holders = [s for (t, s) in tagsets if cs <= t]
                    if holders and all(s == sym for s in holders):
                        if best is None or len(holders) > best[1]:
                            best = (combo, len(holders))
                if best:
                    found = best
                    break
            if not found:
                found = (tuple(tags), 1)
            sigs.append({"tags": list(found[0]), "covers": found[1],
                         "witness": (" ; ".join(c["body"][-3:]) if c["kind"] == "prog" else c["body"][-1]),
                         "detail": e["detail"] if not isinstance(e["detail"], str) else e["detail"][:300]})
            fs = set(found[0])
            remaining = [(c2, e2) for (c2, e2) in remaining if not fs <= set(c2["tags"])]
        proposals.append({"symptom": sym, "property": OWNER.get(sym.split(":")[0], "?"), "cases": len(xs), "signatures": sigs})
    stats = collections.Counter(e["symptom"] or "ok" for e in ev)
    out = {"universe": f"{a.module}/{a.cfg}", "cases": len(cases), "stats": stats, "proposals": proposals,
           "parser_rejects": [{"id": k, "err": v} for k, v in list(rej.items())[:20]]}
    text = json.dumps(out, indent=1, default=str)
    if a.out:
        open(a.out, "w").write(text)
    print(json.dumps({"stats": stats, "n_proposals": sum(len(p["signatures"]) for p in proposals)}, default=str))
    for p in proposals:
        print("==", p["property"], p["symptom"], p["cases"])
        for s in p["signatures"]:
            print("     ", s["tags"], "covers", s["covers"], "|", s["witness"][:90])


if __name__ == "__main__":
    main()
