#!/usr/bin/env python3
"""Regenerate seeded/README.md from seeded/*/meta.json + result.json."""
import glob
import json
import os

ROOT = os.path.join(os.path.dirname(os.path.abspath(__file__)), "..", "seeded")
HEAD = """# Independently seeded property-breaking changes

Each sub-directory holds one change to dannys-code-corner/incan written by a fresh sub-agent that saw ONLY the text of a
property (nothing from /verif) and its own scratch worktree of /repo: `patch.diff`, the demonstration (`demo/`), `meta.json`
(which property it breaks, what it needs in order to manifest, what the author ran) and `result.json` (what I ran:
`tools/seed_eval.sh <dir>` = scratch worktree of /repo HEAD + patch -> `cargo build` -> the unedited repository test suite ->
the demonstration with the change and without it -> the owning check through `tools/mutant_run.sh`; for changes the first
run missed, the re-run after the specification was extended). `check_output.txt` is the check's output against the change.
None of these changes is ever applied to /repo; to run the checks against one:
`tools/mutant_run.sh seeded/<id>/patch.diff Cxx` (scratch worktree + scratch copy of /verif under /tmp, removed afterwards).

Four rounds of 20 changes each (round 2: off the beaten path; rounds 3 and 4: told not to repeat the earlier ideas, evaluated blind;
`result.json` has `"round"`; a round-4 change without `result.json` was delivered but its evaluation did not finish in the session). All evaluated ones build, keep the 491 repository tests green, and fail their demonstration only with the change applied. A first-run cell
that starts with NOT BLIND means that the specification had been extended from the change's one-line summary before the checks
were first run against it.

| change | breaks | needs to manifest | first run of the checks | after strengthening |
|---|---|---|---|---|
"""


def main():
    rows = []
    for d in sorted(glob.glob(os.path.join(ROOT, "C*_*"))):
        sid = os.path.basename(d)
        try:
            meta = json.load(open(os.path.join(d, "meta.json")))
        except (OSError, ValueError):
            meta = {}
        try:
            res = json.load(open(os.path.join(d, "result.json")))
        except (OSError, ValueError):
            res = {}
        need = (meta.get("needs_to_manifest") or "").split(". ")[0][:230]
        first = res.get("first_run") or (res.get("verif_check", "").strip().rstrip(";")[:200] or "?")
        first = " ".join(first.split())
        after = ""
        if res.get("after_strengthening"):
            a = res["after_strengthening"]
            after = f"{res.get('strengthening', '')}: {a.get('violations')} violations" + \
                    (f" ({'; '.join(s for s in a.get('signatures', [])[:2])})" if a.get("signatures") else "")
        rows.append(f"| `{sid}` | {res.get('property') or meta.get('property', '?')} | {need} | {first} | {after} |")
    with open(os.path.join(ROOT, "README.md"), "w") as fh:
        fh.write(HEAD + "\n".join(rows) + "\n")
    print(len(rows), "rows")


if __name__ == "__main__":
    main()
