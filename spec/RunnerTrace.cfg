CONSTANTS NT = 3
          Outcomes = {"pass", "assert_fail", "panic", "nobuild"}
          HarnessModes = {"runs", "empty"}
SPECIFICATION TSpec
INVARIANTS TypeOK TPassedMeansRan FailedMeansRanAndFailed TXfailInverts SkipNotRun OnlySelectedRun
           RanOnlyIfJudgedOrRunning JudgedIsPrefix AllSelectedJudged CountersMatchVerdicts CountsAddUp
           PrintedMatchesVerdicts ExitIffFailure NotDoneNoExit
POSTCONDITION Accepted
CHECK_DEADLOCK FALSE
