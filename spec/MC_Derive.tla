------------------------------ MODULE MC_Derive ------------------------------
EXTENDS Derive, Json, SequencesExt
Ints == {-1, 0, 7}
Strs == {<<>>, <<"a">>, <<"a", "b">>, <<"e2", "dq", "bs">>, <<"u3", "s4">>}
Opts == {<<>>, <<3>>, <<-1>>}
Lists == {<<>>, <<1, 2>>, <<1>>}
Floats == {<<5, 1>>, <<-1, 1>>, <<3, 0>>}
Dicts == {<<>>, << <<"a", 1>> >>, << <<"a", 1>>, <<"b", -2>> >>}
D1 == <<"int", "str">>
D2 == <<"int", "int", "bool">>
D3 == <<"str", "optint", "listint">>
D4 == <<"int", "mD1">>
D5 == <<"float", "optint">>
D6 == <<"int", "dict">>
V1 == {<<i, s>> : i \in {0, 7}, s \in Strs}
V2 == {<<i, j, b>> : i \in {0, 7}, j \in {-1, 7}, b \in BOOLEAN}
V3 == {<<s, o, l>> : s \in {<<>>, <<"a">>, <<"e2", "dq", "bs">>}, o \in Opts, l \in Lists}
V4 == {<<i, v>> : i \in {0, 7}, v \in {<<0, <<>>>>, <<0, <<"a">>>>, <<7, <<"a">>>>}}
V5 == {<<f, o>> : f \in Floats, o \in {<<>>, <<3>>}}
V6 == {<<i, d>> : i \in {0, 7}, d \in Dicts}
\* dflt: the fields declared with a default value (<<index, default>>); kind: model / class. Defaults and the kind of the
\* declaration are matters of construction only: every law below is stated on the declaration order of ALL fields, so a
\* declaration with a defaulted field BEFORE a required one (D7, D8) must order, compare, hash and serialise exactly like
\* the same declaration without defaults (D2, D1).
Decls == << [name |-> "D1", d |-> D1, vals |-> V1, cmp |-> TRUE, dflt |-> <<>>, kind |-> "model"],
            [name |-> "D2", d |-> D2, vals |-> V2, cmp |-> TRUE, dflt |-> <<>>, kind |-> "model"],
            [name |-> "D3", d |-> D3, vals |-> V3, cmp |-> TRUE, dflt |-> <<>>, kind |-> "model"],
            [name |-> "D4", d |-> D4, vals |-> V4, cmp |-> TRUE, dflt |-> <<>>, kind |-> "model"],
            [name |-> "D5", d |-> D5, vals |-> V5, cmp |-> FALSE, dflt |-> <<>>, kind |-> "model"],
            [name |-> "D6", d |-> D6, vals |-> V6, cmp |-> FALSE, dflt |-> <<>>, kind |-> "model"],
            [name |-> "D7", d |-> D2, vals |-> V2, cmp |-> TRUE, dflt |-> << <<1, 0>>, <<3, FALSE>> >>, kind |-> "model"],
            [name |-> "D8", d |-> D1, vals |-> V1, cmp |-> TRUE, dflt |-> << <<1, 7>> >>, kind |-> "class"],
            [name |-> "D9", d |-> D2, vals |-> V2, cmp |-> TRUE, dflt |-> << <<2, 7>> >>, kind |-> "class"] >>
DefaultsIrrelevant == \A pr \in {<<7, 2>>, <<9, 2>>, <<8, 1>>} :
                        LET A == Decls[pr[1]]  B == Decls[pr[2]] IN
                        A.d = B.d /\ \A v, w \in A.vals : ValLt(A.d, v, w) = ValLt(B.d, v, w) /\ ValEq(A.d, v, w) = ValEq(B.d, v, w)
Laws == \A k \in 1..Len(Decls) :
          LET D == Decls[k] IN
          /\ RoundTrip(D.d, D.vals) /\ FieldNamesExact(D.d, D.vals)
          /\ (D.cmp => (EqStructural(D.d, D.vals) /\ LtStrictTotal(D.d, D.vals) /\ HashConsistent(D.d, D.vals)))
ASSUME Laws
ASSUME DefaultsIrrelevant
\* B1 tables: per declaration the values (in a fixed order) with their JSON trees, and the eq / lt matrices
Emit == phase = "start" =>
   \A k \in 1..Len(Decls) :
     LET D == Decls[k]  vs == SetToSeq(D.vals) IN
     PrintT(<<"CASE", ToJson([name |-> D.name, d |-> D.d, cmp |-> D.cmp, vals |-> vs, dflt |-> D.dflt, kind |-> D.kind,
              json |-> [i \in 1..Len(vs) |-> ToJsonTree(D.d, vs[i])],
              eq |-> [i \in 1..Len(vs) |-> [j \in 1..Len(vs) |-> IF D.cmp THEN ValEq(D.d, vs[i], vs[j]) ELSE FALSE]],
              lt |-> [i \in 1..Len(vs) |-> [j \in 1..Len(vs) |-> IF D.cmp THEN ValLt(D.d, vs[i], vs[j]) ELSE FALSE]]])>>)
=============================================================================
