------------------------------ MODULE PyArith ------------------------------
(* Python-style integer and (dyadic) float arithmetic of Incan: the definitions the
   documentation gives (numeric_semantics.md), the three laws, and implementation-shaped
   transcriptions of the two kernel copies
     crates/incan_core/src/lib.rs   py_mod_i64_impl / py_floor_div_i64_impl / py_mod_f64_impl
     crates/incan_stdlib/src/num.rs py_mod_i64_impl / py_floor_div_i64_impl (textually different)
   Integer-only and annotated so that both TLC and Apalache can use it. *)
EXTENDS Integers

\* ---------------------------------------------------------------- definitions
\* @type: Int => Int;
Abs(x) == IF x < 0 THEN -x ELSE x
\* @type: Int => Int;
Sign(x) == IF x < 0 THEN -1 ELSE IF x > 0 THEN 1 ELSE 0

\* Floor division and modulo for b # 0 (TLA+ \div is floor division for a positive divisor).
\* @type: (Int, Int) => Int;
FloorDiv(a, b) == IF b > 0 THEN a \div b ELSE (-a) \div (-b)
\* @type: (Int, Int) => Int;
Mod(a, b) == a - FloorDiv(a, b) * b

\* The law C04 states: a = q*b + r, r has the sign of b (or is 0), |r| < |b|.
\* @type: (Int, Int, Int, Int) => Bool;
Law(a, b, q, r) == /\ a = q * b + r
                   /\ (r = 0 \/ Sign(r) = Sign(b))
                   /\ Abs(r) < Abs(b)

\* ---------------------------------------------------------------- Rust primitives
\* Rust `/` and `%` on i64 truncate toward zero.
\* @type: (Int, Int) => Int;
TruncDiv(a, b) == Sign(a) * Sign(b) * (Abs(a) \div Abs(b))
\* @type: (Int, Int) => Int;
TruncRem(a, b) == a - TruncDiv(a, b) * b

\* ---------------------------------------------------------------- transcriptions
\* incan_core::py_mod_i64_impl and incan_stdlib::num::py_mod_i64_impl (same text):
\*   let r = a.wrapping_rem(b); if (r > 0 && b < 0) || (r < 0 && b > 0) { r + b } else { r }
\* @type: (Int, Int) => Int;
ImplMod(a, b) == LET r == TruncRem(a, b) IN
                 IF (r > 0 /\ b < 0) \/ (r < 0 /\ b > 0) THEN r + b ELSE r

\* incan_core::py_floor_div_i64_impl:
\*   let q = a / b; let r = a % b; if (r > 0 && b < 0) || (r < 0 && b > 0) { q - 1 } else { q }
\* @type: (Int, Int) => Int;
CoreFloorDiv(a, b) == LET q == TruncDiv(a, b)  r == TruncRem(a, b) IN
                      IF (r > 0 /\ b < 0) \/ (r < 0 /\ b > 0) THEN q - 1 ELSE q

\* incan_stdlib::num::py_floor_div_i64_impl:
\*   if r == 0 { return q } if b > 0 { if r < 0 { q - 1 } else { q } } else if r > 0 { q - 1 } else { q }
\* @type: (Int, Int) => Int;
StdFloorDiv(a, b) == LET q == TruncDiv(a, b)  r == TruncRem(a, b) IN
                     IF r = 0 THEN q
                     ELSE IF b > 0 THEN (IF r < 0 THEN q - 1 ELSE q)
                     ELSE IF r > 0 THEN q - 1 ELSE q

\* what C04 demands of the three integer kernels on one operand pair
\* @type: (Int, Int) => Bool;
KernelsOK(a, b) == /\ Law(a, b, CoreFloorDiv(a, b), ImplMod(a, b))
                   /\ StdFloorDiv(a, b) = CoreFloorDiv(a, b)
                   /\ CoreFloorDiv(a, b) = FloorDiv(a, b)
                   /\ ImplMod(a, b) = Mod(a, b)

\* ---------------------------------------------------------------- dyadic floats
\* A float k / 2^D (same D for both operands after scaling) is exact in f64 for the small
\* numerators used; fmod and the `r + b` correction are then exact too, so float % is the
\* integer Mod of the scaled numerators, and floor(a / b) is their FloorDiv.
\* py_mod_f64_impl: let r = a % b; if (r > 0.0 && b < 0.0) || (r < 0.0 && b > 0.0) { r + b } else { r }
\* @type: (Int, Int) => Int;
ImplModF(x, y) == ImplMod(x, y)          \* on scaled numerators; result / 2^D
\* @type: (Int, Int) => Int;
FloorDivF(x, y) == FloorDiv(x, y)        \* an integer-valued float
\* float law: sign rule and magnitude bound (C04: "same sign rule with magnitude below |b|")
\* @type: (Int, Int, Int) => Bool;
LawF(x, y, r) == (r = 0 \/ Sign(r) = Sign(y)) /\ Abs(r) < Abs(y) /\ (x - r) % Abs(y) = 0
=============================================================================
