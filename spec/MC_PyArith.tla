----------------------------- MODULE MC_PyArith -----------------------------
(* TLC: exhaustive window check of PyArith (definitions satisfy the laws, the laws determine
   (q, r) uniquely, the transcriptions equal the definitions) and the B1 case table. *)
EXTENDS PyArith, TLC, Json, Sequences
CONSTANTS W,        \* integer window -W..W
          FW        \* numerator window for dyadic floats (denominator 2^3)
VARIABLES a, b
Win == (-W)..W
Init == a \in Win /\ b \in Win
Next == UNCHANGED <<a, b>>

DefsSatisfyLaw == b # 0 => Law(a, b, FloorDiv(a, b), Mod(a, b))
LawUnique == b # 0 => \A q \in (-(W + 1))..(W + 1) : \A r \in Win :
                         Law(a, b, q, r) => (q = FloorDiv(a, b) /\ r = Mod(a, b))
ImplEqualsDef == b # 0 => KernelsOK(a, b)
FloatLaw == (b # 0 /\ a \in (-FW)..FW /\ b \in (-FW)..FW) =>
              /\ LawF(a, b, ImplModF(a, b))
              /\ ImplModF(a, b) = Mod(a, b)
              \* floor of the exact quotient: q <= a/b < q+1, stated without division
              /\ LET q == FloorDivF(a, b) IN
                 IF b > 0 THEN q * b <= a /\ a < (q + 1) * b ELSE q * b >= a /\ a > (q + 1) * b

\* B1 table: one line per operand pair; "z" marks the zero-divisor rows. The same row serves
\* ints (a, b) and dyadic floats (a/8, b/8); "dx" says the true quotient a/b is dyadic with
\* "dq" = a * 1024 / b (so a/b = dq / 1024 exactly).
Emit == PrintT(<<"CASE", ToJson([a |-> a, b |-> b, z |-> (b = 0),
                                 q |-> IF b = 0 THEN 0 ELSE FloorDiv(a, b),
                                 r |-> IF b = 0 THEN 0 ELSE Mod(a, b),
                                 dx |-> (b # 0 /\ Mod(a * 1024, b) = 0),
                                 dq |-> IF b = 0 THEN 0 ELSE FloorDiv(a * 1024, b)])>>)
=============================================================================
