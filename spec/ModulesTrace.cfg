SPECIFICATION TSpec
INVARIANTS VisitOnce VisitedExist
PROPERTIES TDecreases
POSTCONDITION Accepted
CHECK_DEADLOCK FALSE
