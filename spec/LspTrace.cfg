CONSTANTS Docs = {"d1","d2"}
          MaxVer = 9
          Classes = {"ok","bad"}
          DepDocs = {"d1"}
          AllowClose = TRUE
          Guarded = TRUE
          MaxConc = 4
          MaxMsgs = 12
SPECIFICATION TSpec
INVARIANTS Converged DiagFromSameVersion LatestDiagFromLatestText LockSane
PROPERTIES NoStaleOverwrite
POSTCONDITION Accepted
CHECK_DEADLOCK FALSE
