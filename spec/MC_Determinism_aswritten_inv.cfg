CONSTANTS SortDeps = FALSE
          SortDiag = FALSE
          SortFmt = FALSE
          Crates <- MCCrates
          TopMods <- MCTopMods
          SubMods <- MCSubMods
          Fields <- MCFields
          Methods <- MCMethods
          Files <- MCFiles
SPECIFICATION Spec
INVARIANTS OutputIndependentOfDraws
CHECK_DEADLOCK FALSE
