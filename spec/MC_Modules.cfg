CONSTANTS MaxDirect = 10
          MaxNested = 2
          Modes = {"resolve", "spell", "vis"}
INIT Init
NEXT Next
INVARIANTS GenIsCli GenIsLib GenIsLsp GenIsCol DocIsGen AnswersExist SigSound AgreeCore VisCore PubFromUsable Emit
CHECK_DEADLOCK FALSE
