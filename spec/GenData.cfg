CONSTANT MaxArms = 3
INIT Init
NEXT Next
INVARIANTS Emit Sound NonExhaustiveRejected
CHECK_DEADLOCK FALSE
