CONSTANT MaxOps = 2
INIT Init
NEXT Next
INVARIANTS Sound Emit
CHECK_DEADLOCK FALSE
