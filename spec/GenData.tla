------------------------------- MODULE GenData -------------------------------
(* Generator G3: data types. Programs over a model, an enum with payloads, Option, Result, `match`
   (pattern order, guards, bindings, literals, wildcards; only EXHAUSTIVE matches are well-typed) and `?`.
   The arms of each match are a sequence of distinct candidate arms in every order (first-match
   semantics is observable); constructor arguments are written in every order with side-effecting
   initialisers (evaluation order is observable). *)
EXTENDS Core, Json

EInt(n)     == [k |-> "lit", lk |-> "int", iv |-> n]
EStr(s)     == [k |-> "lit", lk |-> "str", sv |-> s]
EId(x)      == [k |-> "ident", name |-> x]
EPar(e)     == [k |-> "paren", e |-> e]
EBin(o,l,r) == [k |-> "bin", op |-> o, l |-> l, r |-> r]
ECall(f, a) == [k |-> "call", f |-> f, args |-> a]
ECtor(n, fs, as) == [k |-> "ctor", name |-> n, fnames |-> fs, args |-> as]
EField(o, f) == [k |-> "field", obj |-> o, field |-> f]
EVar(t, n, as) == [k |-> "variant", ty |-> t, name |-> n, args |-> as]
ESome(e) == [k |-> "some", e |-> e]
ENone == [k |-> "nonelit"]
EOk(e) == [k |-> "ok", e |-> e]
EErr(e) == [k |-> "errx", e |-> e]
ETry(e) == [k |-> "try", e |-> e]
EMatch(s, arms) == [k |-> "match", subj |-> s, arms |-> arms]
PW == [k |-> "pwild"]
PB(x) == [k |-> "pbind", name |-> x]
PL(l) == [k |-> "plit", lit |-> l]
PC(n, ps) == [k |-> "pctor", name |-> n, pats |-> ps]
Arm(p, g, e) == [pat |-> p, guard |-> g, e |-> e]
SLet(x, ex) == [k |-> "assign", bk |-> "let", name |-> x, ty |-> "", e |-> ex]
SPrint(ex) == [k |-> "print", e |-> ex]
SRet(ex) == [k |-> "return", e |-> ex]
SIf(c, t) == [k |-> "if", cond |-> c, then |-> t, elifs |-> <<>>, else |-> <<>>]

Types == << [k |-> "model", name |-> "P", fields |-> <<[name |-> "x", ty |-> "int"], [name |-> "y", ty |-> "int"]>>],
            [k |-> "model", name |-> "Q", fields |-> <<[name |-> "p", ty |-> "P"], [name |-> "z", ty |-> "int"]>>],
            [k |-> "enum", name |-> "Shape", variants |-> <<[name |-> "Dot", tys |-> <<>>], [name |-> "Circle", tys |-> <<"int">>],
                                                            [name |-> "Rect", tys |-> <<"int", "int">>]>>] >>
Par(n, t) == [name |-> n, ty |-> t, mut |-> FALSE]
Helper == [name |-> "h", params |-> <<Par("a", "int")>>, ret |-> "int",
           body |-> <<SPrint(EId("a")), SRet(<<EBin("+", EId("a"), EInt(1))>>)>>]
SafeDiv == [name |-> "safe_div", params |-> <<Par("a", "int"), Par("b", "int")>>, ret |-> "res[int,str]",
            body |-> << SIf(EBin("==", EId("b"), EInt(0)), <<SRet(<<EErr(EStr(<<"b", "a", "d">>))>>)>>),
                        SRet(<<EOk(EBin("//", EId("a"), EId("b")))>>) >>]
Maybe == [name |-> "maybe", params |-> <<Par("a", "int")>>, ret |-> "opt[int]",
          body |-> << SIf(EBin("<=", EId("a"), EInt(0)), <<SRet(<<ENone>>)>>), SRet(<<ESome(EId("a"))>>) >>]
Twice == [name |-> "twice", params |-> <<Par("a", "int"), Par("b", "int")>>, ret |-> "res[int,str]",
          body |-> << SLet("q", ETry(ECall("safe_div", <<EId("a"), EId("b")>>))), SPrint(EId("q")),
                      SRet(<<EOk(EBin("*", EId("q"), EInt(2)))>>) >>]

\* ---- candidate arms per subject kind
EnumArms == { Arm(PC("Dot", <<>>), <<>>, EInt(0)),
              Arm(PC("Circle", <<PB("r")>>), <<>>, EBin("*", EId("r"), EInt(3))),
              Arm(PC("Rect", <<PB("w"), PB("u")>>), <<>>, EBin("*", EId("w"), EId("u"))),
              Arm(PC("Circle", <<PB("r")>>), <<EBin(">", EId("r"), EInt(1))>>, EBin("+", EId("r"), EInt(100))),
              Arm(PC("Rect", <<PW, PB("u")>>), <<>>, EId("u")),
              Arm(PW, <<>>, EInt(77)), Arm(PB("other"), <<>>, EInt(78)) }
OptArms == { Arm(PC("Some", <<PB("v")>>), <<>>, EBin("+", EId("v"), EInt(1))), Arm(PC("None", <<>>), <<>>, EInt(0)),
             Arm(PC("Some", <<PB("v")>>), <<EBin(">", EId("v"), EInt(2))>>, EBin("*", EId("v"), EInt(10))),
             Arm(PC("Some", <<PL(EInt(3))>>), <<>>, EInt(33)), Arm(PW, <<>>, EInt(9)) }
ResArms == { Arm(PC("Ok", <<PB("v")>>), <<>>, EId("v")), Arm(PC("Err", <<PB("m")>>), <<>>, ECall("len", <<EId("m")>>)),
             Arm(PC("Ok", <<PB("v")>>), <<EBin(">", EId("v"), EInt(3))>>, EBin("-", EInt(0), EId("v"))), Arm(PW, <<>>, EInt(5)) }
IntArms == { Arm(PL(EInt(0)), <<>>, EInt(10)), Arm(PL(EInt(1)), <<>>, EInt(11)),
             Arm(PB("n"), <<EBin(">", EId("n"), EInt(3))>>, EBin("*", EId("n"), EInt(2))), Arm(PB("n"), <<>>, EId("n")), Arm(PW, <<>>, EInt(0)) }
Subjects == [enum |-> {EVar("Shape", "Dot", <<>>), EVar("Shape", "Circle", <<EInt(2)>>), EVar("Shape", "Circle", <<EInt(1)>>), EVar("Shape", "Rect", <<EInt(2), EInt(3)>>)},
             opt |-> {ECall("maybe", <<EInt(3)>>), ECall("maybe", <<EInt(1)>>), ECall("maybe", <<EInt(0)>>), ESome(EInt(3))},
             res |-> {ECall("safe_div", <<EInt(8), EInt(2)>>), ECall("safe_div", <<EInt(1), EInt(0)>>), ECall("twice", <<EInt(9), EInt(3)>>), ECall("twice", <<EInt(9), EInt(0)>>)},
             int |-> {EInt(0), EInt(1), EInt(5), EInt(2)}]
ArmsOf(kd) == CASE kd = "enum" -> EnumArms [] kd = "opt" -> OptArms [] kd = "res" -> ResArms [] kd = "int" -> IntArms

CONSTANT MaxArms
VARIABLES kind, subj, arms, mode
Init == \/ mode = "match" /\ kind \in {"enum", "opt", "res", "int"} /\ subj \in Subjects[kind] /\ arms = <<>>
        \/ mode = "model" /\ kind \in {"xy", "yx", "nested", "nested-rev"} /\ subj = EInt(0) /\ arms = <<>>
Next == /\ mode = "match" /\ Len(arms) < MaxArms
        /\ \E a \in ArmsOf(kind) : (\A i \in 1..Len(arms) : arms[i] # a) /\ arms' = Append(arms, a)
        /\ UNCHANGED <<kind, subj, mode>>

H(n) == ECall("h", <<EInt(n)>>)
Body == IF mode = "match" THEN << SLet("r", EMatch(subj, arms)), SPrint(EId("r")) >>
        ELSE CASE kind = "xy" -> << SLet("p", ECtor("P", <<"x", "y">>, <<H(1), H(2)>>)), SPrint(EBin("-", EField(EId("p"), "x"), EField(EId("p"), "y"))) >>
               [] kind = "yx" -> << SLet("p", ECtor("P", <<"y", "x">>, <<H(1), H(2)>>)), SPrint(EBin("-", EField(EId("p"), "x"), EField(EId("p"), "y"))) >>
               [] kind = "nested" -> << SLet("q", ECtor("Q", <<"p", "z">>, <<ECtor("P", <<"x", "y">>, <<H(1), H(2)>>), H(3)>>)),
                                        SPrint(EBin("+", EField(EField(EId("q"), "p"), "y"), EField(EId("q"), "z"))) >>
               [] kind = "nested-rev" -> << SLet("q", ECtor("Q", <<"z", "p">>, <<H(3), ECtor("P", <<"y", "x">>, <<H(2), H(1)>>)>>)),
                                            SPrint(EBin("+", EField(EField(EId("q"), "p"), "y"), EField(EId("q"), "z"))) >>
Prog == [consts |-> <<>>, types |-> Types,
         fns |-> <<Helper, SafeDiv, Maybe, Twice, [name |-> "main", params |-> <<>>, ret |-> "none", body |-> Body]>>]
\* feature tags of a data case
PatTag(p) == IF p.k = "pctor" THEN "pat:ctor:" \o p.name ELSE "pat:" \o p.k
Tags == IF mode = "model" THEN {"data:model:" \o kind}
        ELSE {"match:" \o kind} \cup {PatTag(arms[i].pat) : i \in 1..Len(arms)}
             \cup {IF arms[i].guard = <<>> THEN "arm:plain" ELSE "arm:guard" : i \in 1..Len(arms)}
             \cup (IF \E i \in 1..Len(arms) : arms[i].pat.k = "pctor" /\ (\E j \in 1..Len(arms[i].pat.pats) : arms[i].pat.pats[j].k = "plit")
                   THEN {"pat:nested-literal"} ELSE {})
             \cup (IF subj.k = "call" THEN {"subject:call:" \o subj.f} ELSE {})
Ready == mode = "model" \/ arms # <<>>
Emit == (Ready /\ Accept(Prog)) =>
          LET r == Run(Prog) IN
          Specified(r) => PrintT(<<"CASE", ToJson([body |-> Body, out |-> r.out, status |-> r.status, err |-> r.err, feats |-> Tags])>>)
Sound == (Ready /\ Accept(Prog)) => Run(Prog).status \in {"done", "error"}
\* a non-exhaustive match is never accepted (C03's rule, on the model)
NonExhaustiveRejected == (mode = "match" /\ arms # <<>> /\ ~Exhaustive(arms, TypeOf(subj, <<EmptyScope, EmptyScope>>, Prog), Prog)) => ~Accept(Prog)
=============================================================================
