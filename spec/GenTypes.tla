------------------------------- MODULE GenTypes -------------------------------
(* C03 / C07, the assignability relation of the static type system.
   The documented language is statically typed with NO implicit conversions (numeric_semantics.md: "no
   implicit variable becomes float later"; C07: `x: int = a / b` is always rejected): a value of type A
   may flow into a place declared with type B iff A and B are the same type - structurally for the
   built-in constructors (list / set / dict / tuple / Option / Result, arity included), nominally for
   models, enums and newtypes. The only latitude is a literal that does not determine all of its type
   (None, Ok(x), Err(e), [] ...): its undetermined part - a HOLE - unifies with anything.

   The specification enumerates a universe of types (atoms, and constructors applied up to MaxDepth), the
   TYPE OF A VALUE FORM (an exact type when the value comes from a function declared to return it, a type
   with holes when it is written as a literal), and the FLOW SITES the checker handles with separate code
   (annotated binding, return, call argument, constructor field, reassignment of an annotated `mut`
   binding, list element). TLC emits every (value type, value form, declared type, site) with the verdict
   Flows(...). The conformance check renders each as a program: the real checker must reject exactly the
   cases with verdict FALSE, with an error located on the offending line. *)
EXTENDS Integers, Sequences, FiniteSets, TLC, Json

CONSTANTS MaxDepth,     \* nesting depth of type constructors
          Atoms,        \* atomic types: primitives and nominal types
          TupleAtoms,   \* element types used inside tuples (keeps the tuple family small)
          KeyAtoms      \* hashable element types (set elements)

Atom(a) == [k |-> "atom", n |-> a, args |-> <<>>]
Hole    == [k |-> "hole", n |-> "", args |-> <<>>]
Ctor(c, as) == [k |-> c, n |-> "", args |-> as]

RECURSIVE TypesAt(_)
TypesAt(d) ==
  IF d = 0 THEN {Atom(a) : a \in Atoms}
  ELSE LET S == TypesAt(d - 1)
           E == IF d = 1 THEN {Atom(a) : a \in TupleAtoms} ELSE {t \in S : t.k \in {"atom", "list", "tuple"} /\ (t.k = "atom" => t.n \in TupleAtoms)}
           K == {Atom(a) : a \in KeyAtoms}
       IN S \cup {Ctor("list", <<t>>) : t \in S}
            \cup {Ctor("set", <<t>>) : t \in K}
            \cup {Ctor("dict", <<Atom("str"), t>>) : t \in S}
            \cup {Ctor("option", <<t>>) : t \in S}
            \cup {Ctor("result", <<t, e>>) : t \in S, e \in {Atom("str"), Atom("int")}}
            \cup (IF d = 1 THEN {Ctor("tuple", <<x, y>>) : x \in E, y \in E} \cup {Ctor("tuple", <<x, y, z>>) : x \in E, y \in E, z \in E}
                  ELSE {Ctor("tuple", <<x, y>>) : x \in {t \in E : t.k # "atom"}, y \in {Atom("int")}})
Types == TypesAt(MaxDepth)

\* ---- the relation: A flows into B
RECURSIVE Same(_, _)
Same(a, b) ==
  \/ a.k = "hole" \/ b.k = "hole"
  \/ /\ a.k = b.k
     /\ a.n = b.n
     /\ Len(a.args) = Len(b.args)
     /\ \A i \in 1..Len(a.args) : Same(a.args[i], b.args[i])

\* ---- the type a VALUE FORM has: "call" = mk_A() declared `-> A` (exact); "lit" = the canonical literal of A
RECURSIVE LitType(_)
LitType(a) ==
  CASE a.k = "atom"   -> a
    [] a.k = "option" -> Ctor("option", <<LitType(a.args[1])>>)                 \* Some(x)
    [] a.k = "result" -> Ctor("result", <<LitType(a.args[1]), Hole>>)           \* Ok(x): the error type is open
    [] OTHER          -> Ctor(a.k, [i \in 1..Len(a.args) |-> LitType(a.args[i])])
\* further literal forms with holes
AltType(a) ==
  CASE a.k = "option" -> Ctor("option", <<Hole>>)                               \* None
    [] a.k = "result" -> Ctor("result", <<Hole, LitType(a.args[2])>>)           \* Err(e)
    [] a.k \in {"list", "set", "dict"} -> Ctor(a.k, [i \in 1..Len(a.args) |-> Hole])   \* [] / set() / {}
    [] OTHER -> a
Forms == {"call", "lit", "alt"}
HasAlt(a) == a.k \in {"option", "result", "list", "dict"}
ValueType(form, a) == CASE form = "call" -> a [] form = "lit" -> LitType(a) [] form = "alt" -> AltType(a)

Sites == {"let", "ret", "arg", "field", "reassign", "elem", "method-arg", "default"}
Flows(form, a, b) == Same(ValueType(form, a), b)

VARIABLES a, b, form
vars == <<a, b, form>>
\* Diagonal + every off-diagonal pair that shares its outermost constructor or differs at the top
Interesting(x, y) == TRUE
Init == /\ a \in Types /\ b \in Types /\ form \in Forms
        /\ (form = "alt" => HasAlt(a))
        /\ Interesting(a, b)
Next == UNCHANGED vars

\* ---- sanity theorems TLC checks over the universe
Reflexive == Flows("call", a, a) /\ Flows("lit", a, a) /\ Flows("alt", a, a)
ExactIsEquality == Flows("call", a, b) <=> a = b
\* arity is part of a tuple type: a tuple never flows into a tuple type of another length
ArityMatters == (a.k = "tuple" /\ b.k = "tuple" /\ Len(a.args) # Len(b.args)) => ~Flows(form, a, b)
HolesOnlyWiden == Flows("call", a, b) => Flows(form, a, b)
Sanity == Reflexive /\ ExactIsEquality /\ ArityMatters /\ HolesOnlyWiden

\* the verdict does not depend on the site (that is the point: one relation, every site); the site list is printed once
ASSUME PrintT(<<"SITES", ToJson(Sites)>>)
Emit == PrintT(<<"CASE", ToJson([a |-> a, b |-> b, form |-> form, accept |-> Flows(form, a, b),
                                 exact |-> (ValueType(form, a) = a)])>>)
=============================================================================
