CONSTANTS N = 4
          MaxRefs = 2
SPECIFICATION Spec
INVARIANTS NoStuck EachOnce CycleReported PathsAreCycles AllFinish Emit
CHECK_DEADLOCK FALSE
