CONSTANT Universes = {"data"}
CONSTANT Negatives = FALSE
CONSTANT LayoutSel = {"child"}
CONSTANT IStyles = {"mixed"}
INIT Init
NEXT Next
INVARIANTS ResolvesRight PubExactly PositiveLinks
CHECK_DEADLOCK FALSE
