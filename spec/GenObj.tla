------------------------------- MODULE GenObj -------------------------------
(* C01 generator: models and classes with methods, `mut self`, field assignment, defaults, traits with default methods
   and overrides, inheritance through `extends`.
   Declarations (fixed, rendered from this module's own AST):
     trait Shape: area() abstract; describe() default = prints 7, returns self.area() + 1
     trait Tagged: tag() default = 5
     model Sq with Shape: side; area() = side * side                       (inherits describe)
     class Rect with Shape, Tagged: w, h = 2; area(); describe() OVERRIDDEN (prints 8, area() + 100);
                                    grow(mut self, k): self.w = self.w + k; self.h += 1;  twice() = area() * 2
     trait HasV: getv() abstract; vplus() default = getv() + 1000
     class Base: v; getv(); name() = 1      class Derived extends Base with HasV: extra; name() = 2 (override); both() = getv() + extra
                                            (HasV.getv is satisfied only by the method inherited from Base)
     model Q2: p: Sq, z
   A program binds one value of each type, applies a short sequence of operations (method calls with side-effecting
   arguments, `mut self` calls, plain / compound / nested field assignment, reads), then dumps every field and method
   result. Behaviour = Core's Run (FindMethod, WritePath). *)
EXTENDS Core, Json

EInt(n)     == [k |-> "lit", lk |-> "int", iv |-> n]
EId(x)      == [k |-> "ident", name |-> x]
EBin(o,l,r) == [k |-> "bin", op |-> o, l |-> l, r |-> r]
ECall(f, a) == [k |-> "call", f |-> f, args |-> a]
EM(o, m, a) == [k |-> "mcall", recv |-> o, name |-> m, args |-> a]
EF(o, f)    == [k |-> "field", obj |-> o, field |-> f]
ECtor(n, fs, as) == [k |-> "ctord", name |-> n, fnames |-> fs, args |-> as]
SAssign(bk, x, ty, ex) == [k |-> "assign", bk |-> bk, name |-> x, ty |-> ty, e |-> ex]
SPrint(ex)  == [k |-> "print", e |-> ex]
SExpr(ex)   == [k |-> "expr", e |-> ex]
SRet(ex)    == [k |-> "return", e |-> <<ex>>]
SSetF(t, o, ex) == [k |-> "setfield", target |-> t, op |-> o, e |-> ex]
H(e) == ECall("h", <<e>>)
Self == EId("self")
Par(n) == [name |-> n, ty |-> "int", mut |-> FALSE]
M(n, rk, ps, ret, body) == [name |-> n, recv |-> rk, params |-> ps, ret |-> ret, body |-> body]

Helper == [name |-> "h", params |-> <<Par("a")>>, ret |-> "int", body |-> <<SPrint(EId("a")), SRet(EBin("+", EId("a"), EInt(1)))>>]
Traits == << [name |-> "Shape", methods |-> << M("area", "self", <<>>, "int", <<>>),
                                               M("describe", "self", <<>>, "int", <<SPrint(EInt(7)), SRet(EBin("+", EM(Self, "area", <<>>), EInt(1)))>>) >>],
             [name |-> "Tagged", methods |-> << M("tag", "self", <<>>, "int", <<SRet(EInt(5))>>) >>],
             \* HasV.getv is required; Derived satisfies it only through the method it inherits from Base
             [name |-> "HasV", methods |-> << M("getv", "self", <<>>, "int", <<>>),
                                              M("vplus", "self", <<>>, "int", <<SRet(EBin("+", EM(Self, "getv", <<>>), EInt(1000)))>>) >>] >>
F(n, t) == [name |-> n, ty |-> t]
Types == <<
  [name |-> "Sq", kind |-> "model", parent |-> "", traits |-> <<"Shape">>, fields |-> <<F("side", "int")>>, defaults |-> <<>>,
   methods |-> << M("area", "self", <<>>, "int", <<SRet(EBin("*", EF(Self, "side"), EF(Self, "side")))>>) >>],
  [name |-> "Rect", kind |-> "class", parent |-> "", traits |-> <<"Shape", "Tagged">>, fields |-> <<F("w", "int"), F("h", "int")>>,
   defaults |-> <<[name |-> "h", e |-> EInt(2)]>>,
   methods |-> << M("area", "self", <<>>, "int", <<SRet(EBin("*", EF(Self, "w"), EF(Self, "h")))>>),
                  M("describe", "self", <<>>, "int", <<SPrint(EInt(8)), SRet(EBin("+", EM(Self, "area", <<>>), EInt(100)))>>),
                  M("grow", "mutself", <<Par("k")>>, "none", <<SSetF(EF(Self, "w"), "", EBin("+", EF(Self, "w"), EId("k"))), SSetF(EF(Self, "h"), "+", EInt(1))>>),
                  M("twice", "self", <<>>, "int", <<SRet(EBin("*", EM(Self, "area", <<>>), EInt(2)))>>) >>],
  [name |-> "Base", kind |-> "class", parent |-> "", traits |-> <<>>, fields |-> <<F("v", "int")>>, defaults |-> <<>>,
   methods |-> << M("getv", "self", <<>>, "int", <<SRet(EF(Self, "v"))>>), M("name", "self", <<>>, "int", <<SRet(EInt(1))>>) >>],
  [name |-> "Derived", kind |-> "class", parent |-> "Base", traits |-> <<"HasV">>, fields |-> <<F("extra", "int")>>, defaults |-> <<>>,
   methods |-> << M("name", "self", <<>>, "int", <<SRet(EInt(2))>>),
                  M("both", "self", <<>>, "int", <<SRet(EBin("+", EM(Self, "getv", <<>>), EF(Self, "extra")))>>) >>],
  [name |-> "Q2", kind |-> "model", parent |-> "", traits |-> <<>>, fields |-> <<F("p", "Sq"), F("z", "int")>>, defaults |-> <<>>, methods |-> <<>>] >>

Prelude == << SAssign("inferred", "s", "", ECtor("Sq", <<"side">>, <<EInt(3)>>)),
              SAssign("mut", "r", "", ECtor("Rect", <<"w">>, <<EInt(3)>>)),
              SAssign("mut", "d", "", ECtor("Derived", <<"v", "extra">>, <<EInt(4), EInt(6)>>)),
              SAssign("mut", "q", "", ECtor("Q2", <<"p", "z">>, <<ECtor("Sq", <<"side">>, <<EInt(1)>>), EInt(2)>>)) >>
VR == EId("r")
VD == EId("d")
VQ == EId("q")
VS == EId("s")
Dump == << SPrint(EF(VR, "w")), SPrint(EF(VR, "h")), SPrint(EM(VR, "area", <<>>)), SPrint(EF(VD, "v")), SPrint(EM(VD, "both", <<>>)),
           SPrint(EF(EF(VQ, "p"), "side")), SPrint(EF(VQ, "z")), SPrint(EM(VS, "area", <<>>)) >>
IntE == {EInt(5), H(EInt(4)), EF(VR, "w"), EM(VS, "area", <<>>)}
Menu ==
  {<<SPrint(EM(o, m, <<>>))>> : o \in {VS, VR}, m \in {"area", "describe"}} \cup
  {<<SPrint(EM(VR, m, <<>>))>> : m \in {"tag", "twice"}} \cup
  {<<SPrint(EM(VD, m, <<>>))>> : m \in {"getv", "name", "both", "vplus"}} \cup
  {<<SPrint(EM(EF(VQ, "p"), m, <<>>))>> : m \in {"area", "describe"}} \cup
  {<<SExpr(EM(VR, "grow", <<e>>))>> : e \in IntE} \cup
  {<<SSetF(EF(VR, f), o, e)>> : f \in {"w", "h"}, o \in {"", "+", "*", "-"}, e \in IntE} \cup
  {<<SSetF(EF(VD, f), o, e)>> : f \in {"v", "extra"}, o \in {"", "+"}, e \in {EInt(5), H(EInt(4))}} \cup
  {<<SSetF(EF(EF(VQ, "p"), "side"), o, e)>> : o \in {"", "+"}, e \in {EInt(5), H(EInt(4))}} \cup
  {<<SSetF(EF(VQ, "z"), "", EM(EF(VQ, "p"), "area", <<>>))>>} \cup
  {<<SAssign("inferred", "r2", "", ECtor("Rect", fs, as)), SPrint(EM(EId("r2"), "area", <<>>))>> :
      fs \in {<<"w", "h">>}, as \in {<<H(EInt(1)), H(EInt(2))>>}} \cup
  {<<SAssign("inferred", "r3", "", ECtor("Rect", <<"w">>, <<EF(VR, "h")>>)), SPrint(EF(EId("r3"), "h")), SPrint(EM(EId("r3"), "describe", <<>>))>>} \cup
  {<<SPrint(EBin("+", EM(VR, "area", <<>>), EM(VS, "describe", <<>>)))>>}

CONSTANT MaxOps
VARIABLES ops, phase
vars == <<ops, phase>>
Defs(op) == {op[i].name : i \in {j \in 1..Len(op) : op[j].k = "assign"}}
Init == ops = <<>> /\ phase = "build"
Add == /\ phase = "build" /\ Len(ops) < MaxOps
       /\ \E op \in Menu : (\A i \in 1..Len(ops) : Defs(op) \cap Defs(ops[i]) = {}) /\ ops' = Append(ops, op)
       /\ UNCHANGED phase
Finish == phase = "build" /\ ops # <<>> /\ phase' = "done" /\ UNCHANGED ops
Next == Add \/ Finish
RECURSIVE Flat(_)
Flat(ss) == IF ss = <<>> THEN <<>> ELSE ss[1] \o Flat(Tail(ss))
Body == Prelude \o Flat(ops) \o Dump
Prog == [consts |-> <<>>, types |-> Types, traits |-> Traits,
         fns |-> <<Helper, [name |-> "main", params |-> <<>>, ret |-> "none", body |-> Body]>>]
Res == Run(Prog)
Sound == phase = "done" => Res.status = "done"
ASSUME PrintT(<<"DECLS", ToJson([types |-> Types, traits |-> Traits])>>)
Emit == phase = "done" => PrintT(<<"CASE", ToJson([body |-> Body, out |-> Res.out, status |-> Res.status, err |-> Res.err,
                                                  feats |-> {"obj"}, nops |-> Len(ops)])>>)
=============================================================================
