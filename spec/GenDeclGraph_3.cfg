CONSTANT N = 3
INIT Init
NEXT Next
INVARIANT Emit
CHECK_DEADLOCK FALSE
