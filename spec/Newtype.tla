------------------------------- MODULE Newtype -------------------------------
(* C17: checked construction of validated newtypes, as the lowering pass implements it
     src/backend/ir/lower/mod.rs   pre-pass: select_newtype_checked_ctor per newtype -> newtype_checked_ctor
     src/backend/ir/lower/expr.rs  Call arm: T(x) is rewritten to T::hook(x).expect(..) iff a hook is registered,
                                   the call has exactly one positional argument and current_impl_type # T
     src/backend/ir/lower/decl.rs  lower_*_methods: current_impl_type saved, set to the type, restored
   and what the property demands (MustValidate).
   A program is a sequence of units in declaration order:
     "NT"  the newtype T with its methods (one of them constructs T(x): the exempt site)
     "OT"  another model whose method constructs T(x)
     "FN"  functions constructing T(x) in every expression position
   Hook kinds of T: none | from_underlying | one well-shaped from_x | two well-shaped from_* (ambiguous:
   nothing selected) | from_x with two parameters | from_x not returning Result[T, _] | from_x with a receiver *)
EXTENDS Integers, Sequences, FiniteSets, TLC

\* from_x_plus_other_shape: one well-shaped from_x AND a static from_t of ANOTHER shape (from_t(s: str)): "a single from_* with the
\* same shape" still singles out from_x (the property counts the same-shape ones)
HookKinds == {"none", "from_underlying", "from_x", "two_from", "from_x_arity2", "from_x_bad_return", "from_x_receiver", "from_x_plus_other_shape"}
\* does the declaration define THE validation hook, and under which name (property statement)
HookName(h) == CASE h = "from_underlying" -> "from_underlying" [] h \in {"from_x", "from_x_plus_other_shape"} -> "from_x" [] OTHER -> ""
HasHook(h) == HookName(h) # ""

\* sites per unit kind: [id, own] - own = written inside one of T's own methods
SitesOf(u) == CASE u = "NT" -> {[id |-> "own-method", own |-> TRUE]}
                [] u = "OT" -> {[id |-> "other-type-method", own |-> FALSE]}
                [] u = "FN" -> {[id |-> s, own |-> FALSE] : s \in {"let", "argument", "return", "field-init", "list-element", "nested-call"}}
AllSites(units) == UNION {SitesOf(units[i]) : i \in 1..Len(units)}
MustValidate(site, h) == HasHook(h) /\ ~site.own

CONSTANT Orders     \* set of unit sequences
VARIABLES units, hook, phase, idx, registered, cur, saved, rewritten, todo
vars == <<units, hook, phase, idx, registered, cur, saved, rewritten, todo>>

Init == /\ units \in Orders /\ hook \in HookKinds
        /\ phase = "prepass" /\ idx = 1 /\ registered = "" /\ cur = "" /\ saved = "" /\ rewritten = {} /\ todo = {}
\* pre-pass over the declarations: register the selected hook of every newtype
PrePass == /\ phase = "prepass"
           /\ registered' = HookName(hook)
           /\ phase' = "walk" /\ UNCHANGED <<units, hook, idx, cur, saved, rewritten, todo>>
\* entering a unit: methods of a type are lowered with current_impl_type = that type (saved / restored)
Enter == /\ phase = "walk" /\ idx <= Len(units) /\ todo = {} /\ cur = "" /\ saved = ""
         /\ todo' = SitesOf(units[idx])
         /\ saved' = "entered"
         /\ cur' = IF units[idx] = "NT" THEN "T" ELSE IF units[idx] = "OT" THEN "O" ELSE ""
         /\ UNCHANGED <<units, hook, phase, idx, registered, rewritten>>
LowerCall == /\ phase = "walk" /\ todo # {}
             /\ \E s \in todo :
                  /\ todo' = todo \ {s}
                  /\ rewritten' = IF registered # "" /\ cur # "T" THEN rewritten \cup {s.id} ELSE rewritten
             /\ UNCHANGED <<units, hook, phase, idx, registered, cur, saved>>
Exit == /\ phase = "walk" /\ saved = "entered" /\ todo = {}
        /\ cur' = "" /\ saved' = "" /\ idx' = idx + 1
        /\ UNCHANGED <<units, hook, phase, registered, rewritten, todo>>
Finish == /\ phase = "walk" /\ idx > Len(units) /\ saved = "" /\ phase' = "done"
          /\ UNCHANGED <<units, hook, idx, registered, cur, saved, rewritten, todo>>
Next == PrePass \/ Enter \/ LowerCall \/ Exit \/ Finish
Spec == Init /\ [][Next]_vars

\* C17 on the machine: exactly the sites that must validate are rewritten, whatever the declaration order
RewrittenIffMust == phase = "done" =>
   rewritten = {s.id : s \in {x \in AllSites(units) : MustValidate(x, hook)}}
=============================================================================
