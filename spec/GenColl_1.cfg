CONSTANT MaxOps = 1
INIT Init
NEXT Next
INVARIANTS Sound Emit
CHECK_DEADLOCK FALSE
