CONSTANTS MaxLen = 4
          PW = 5
INIT Init
NEXT Next
INVARIANTS PRoundTrip PMonotone PCounting PRange Emit
CHECK_DEADLOCK FALSE
