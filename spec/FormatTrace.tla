----------------------------- MODULE FormatTrace -----------------------------
(* B2: recorded real formatter runs and real CLI sessions validated against Format.
   Events (ndjson, TRACE):
     {a:"run", name, parse2, astEqual, idempotent, lines:[[tab,trail,instr]..], finalNl}   judged by `want`:
         want = "C08" -> RunOK, want = "C09" -> RunStable
     {a:"file", state}                      a CLI session starts on a file known to be dirty/clean
     {a:"fmt"|"check"|"diff", exit, modified}   one real CLI invocation: exit status and whether the
                                                file bytes / mtime changed *)
EXTENDS Format, TLC, Json, IOUtils
Rec == ndJsonDeserialize(IOEnv.TRACE)
VARIABLE l
E == Rec[l]
Lines(ev) == [i \in 1..Len(ev.lines) |-> [tab |-> ev.lines[i][1], trail |-> ev.lines[i][2], instr |-> ev.lines[i][3]]]
TRun == /\ E.a = "run" /\ UNCHANGED mvars
        /\ LET r == [parse2 |-> E.parse2, astEqual |-> E.astEqual, idempotent |-> E.idempotent, lines |-> Lines(E), finalNl |-> E.finalNl] IN
           IF E.want = "C08" THEN RunOK(r) ELSE RunStable(r)
TFile == E.a = "file" /\ file' = E.state /\ writes' = 0 /\ lastExit' = 0
TFmt == E.a = "fmt" /\ Fmt /\ E.exit = lastExit' /\ E.modified = (writes' # writes)
TCheck == E.a = "check" /\ Check /\ E.exit = lastExit' /\ E.modified = FALSE
TDiff == E.a = "diff" /\ Diff /\ E.exit = lastExit' /\ E.modified = FALSE
TInit == l = 1 /\ file = "clean" /\ writes = 0 /\ lastExit = 0
TNext == l <= Len(Rec) /\ l' = l + 1 /\ (TRun \/ TFile \/ TFmt \/ TCheck \/ TDiff)
TSpec == TInit /\ [][TNext]_<<l, file, writes, lastExit>>
Accepted == IF TLCGet("stats").diameter - 1 = Len(Rec) THEN TRUE
            ELSE PrintT(<<"REJECT", ToJson([at |-> TLCGet("stats").diameter, a |-> Rec[TLCGet("stats").diameter].a,
                                            name |-> Rec[TLCGet("stats").diameter].name])>>) /\ FALSE
=============================================================================
