----------------------------- MODULE FormatTrace -----------------------------
(* B2: recorded real formatter runs and real CLI sessions validated against Format.
   Events (ndjson, TRACE):
     {a:"run", name, parse2, astEqual, idempotent, lines:[[tab,trail,instr]..], finalNl}   judged by `want`:
         want = "C08" -> RunOK, want = "C09" -> RunStable
     {a:"file", state}                      a CLI session starts on a file known to be dirty/clean
     {a:"fmt"|"check"|"diff", exit, modified}   one real CLI invocation: exit status and whether the
                                                file bytes / mtime changed
     {a:"dir", states:[..]} / {a:"dfmt"|"dcheck", exit, modified:[..]}   the same on a directory of files *)
EXTENDS Format, TLC, Json, IOUtils
Rec == ndJsonDeserialize(IOEnv.TRACE)
VARIABLE l
E == Rec[l]
Lines(ev) == [i \in 1..Len(ev.lines) |-> [tab |-> ev.lines[i][1], trail |-> ev.lines[i][2], instr |-> ev.lines[i][3]]]
TRun == /\ E.a = "run" /\ UNCHANGED mvars
        /\ LET r == [parse2 |-> E.parse2, astEqual |-> E.astEqual, idempotent |-> E.idempotent, lines |-> Lines(E), finalNl |-> E.finalNl] IN
           IF E.want = "C08" THEN RunOK(r) ELSE RunStable(r)
TFile == E.a = "file" /\ file' = E.state /\ writes' = 0 /\ lastExit' = 0
TFmt == E.a = "fmt" /\ Fmt /\ E.exit = lastExit' /\ E.modified = (writes' # writes)
TCheck == E.a = "check" /\ Check /\ E.exit = lastExit' /\ E.modified = FALSE
TDiff == E.a = "diff" /\ Diff /\ E.exit = lastExit' /\ E.modified = FALSE
TCheckDiff == E.a = "checkdiff" /\ CheckDiff /\ E.exit = lastExit' /\ E.modified = FALSE
\* directory sessions ({a:"dir", states:[..]} starts one; {a:"dfmt"|"dcheck", exit, modified:[bool per file]} is one invocation):
\* during such a session the variable `file` holds the SEQUENCE of file states
TDir == E.a = "dir" /\ file' = [i \in 1..Len(E.states) |-> E.states[i]] /\ writes' = 0 /\ lastExit' = 0
TDFmt == /\ E.a = "dfmt" /\ E.exit = 0 /\ lastExit' = 0
         /\ \A i \in DOMAIN file : E.modified[i] = (i \in DirWritten(file))
         /\ file' = DirAfterFmt(file) /\ writes' = writes + 1
TDCheck == /\ E.a = "dcheck" /\ E.exit = DirCheckExit(file) /\ lastExit' = E.exit
           /\ \A i \in DOMAIN file : E.modified[i] = FALSE
           /\ UNCHANGED <<file, writes>>
TInit == l = 1 /\ file = "clean" /\ writes = 0 /\ lastExit = 0
TNext == l <= Len(Rec) /\ l' = l + 1 /\ (TRun \/ TFile \/ TFmt \/ TCheck \/ TDiff \/ TCheckDiff \/ TDir \/ TDFmt \/ TDCheck)
TSpec == TInit /\ [][TNext]_<<l, file, writes, lastExit>>
Accepted == IF TLCGet("stats").diameter - 1 = Len(Rec) THEN TRUE
            ELSE PrintT(<<"REJECT", ToJson([at |-> TLCGet("stats").diameter, a |-> Rec[TLCGet("stats").diameter].a,
                                            name |-> Rec[TLCGet("stats").diameter].name])>>) /\ FALSE
=============================================================================
