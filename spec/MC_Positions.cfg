CONSTANTS MaxLen = 5
          PW = 6
INIT Init
NEXT Next
INVARIANTS PRoundTrip PMonotone PCounting PRange Emit
CHECK_DEADLOCK FALSE
