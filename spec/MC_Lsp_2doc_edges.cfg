CONSTANTS Docs = {"d1","d2"}
          MaxVer = 2
          Classes = {"ok"}
          DepDocs = {"d1"}
          AllowClose = TRUE
          Guarded = TRUE
          MaxConc = 4
          MaxMsgs = 4
SPECIFICATION MCSpec
VIEW View
INVARIANTS Converged DiagFromSameVersion LatestDiagFromLatestText LockSane
PROPERTIES NoStaleOverwrite
CHECK_DEADLOCK TRUE
ACTION_CONSTRAINT EdgeHook
