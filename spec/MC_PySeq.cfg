CONSTANTS MaxN = 5
          W = 8
          RW = 8
INIT Init
NEXT Next
INVARIANTS SliceOK ImplEqualsDef SaturationOK ZeroStep IndexOK RangeOK Emit
CHECK_DEADLOCK FALSE
