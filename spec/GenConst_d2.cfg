CONSTANT Depth = 2
INIT Init
NEXT Next
INVARIANTS Emit SpecAgrees
CHECK_DEADLOCK FALSE
