CONSTANTS SortDeps = TRUE
          SortDiag = TRUE
          SortFmt = TRUE
          Crates <- MCCrates
          TopMods <- MCTopMods
          SubMods <- MCSubMods
          Fields <- MCFields
          Methods <- MCMethods
          Files <- MCFiles
SPECIFICATION Spec
INVARIANTS OutputIndependentOfDraws OnlyStaticRiskDeviates EmitRisk
CHECK_DEADLOCK FALSE
