CONSTANTS Depth = 1
          Profiles = {"max"}
          FreeAnc = FALSE
          RootKinds = {"decl", "stmt", "expr", "type", "pat", "member"}
INIT Init
NEXT Next
INVARIANTS WellFormed Emit
CHECK_DEADLOCK FALSE
