------------------------------- MODULE GenArity -------------------------------
(* C11 generator: generic types applied to the WRONG number of arguments, in every place where the checker takes a type
   apart by position. A type written `Result[int]`, `Option[int, str]`, `dict[str]`, `list[int, int]`, `tuple[]` ... is
   ill-formed; the front end must answer with diagnostics (or accept), never with a panic, whatever is then done with a
   value of that type: matched with the constructor patterns of the well-formed type, unwrapped with `?`, indexed,
   iterated, sliced, compared, returned, stored in a field. (Totality only: no verdict is specified.) *)
EXTENDS Integers, Sequences, TLC, Json
Ctors == {"Result", "Option", "list", "List", "dict", "Dict", "set", "tuple", "Tuple", "FrozenList", "FrozenDict"}
ArgLists == {"", "int", "int, str", "int, str, bool", "Result[int], str", "list[int, int]"}
TypeText(c, a) == IF a = "" THEN c \o "[]" ELSE c \o "[" \o a \o "]"
\* uses of a parameter `v` of that type (function body lines; <NL> = line break)
Uses == { "match v:<NL>        Ok(x) => println(1)<NL>        Err(e) => println(2)",
          "match v:<NL>        case Err(e):<NL>            println(e)<NL>        case Ok(x):<NL>            println(x)",
          "match v:<NL>        Some(x) => println(1)<NL>        None => println(2)",
          "let x = v?<NL>    println(1)",
          "println(v[0])",
          "for x in v:<NL>        println(1)",
          "println(len(v[1:]))",
          "println(v == v)",
          "let (a, b) = v",
          "println(v.0)",
          "println(v.get(1))",
          "let w: list[int] = [x for x in v]",
          "v[0] = 1",
          "println(f\"{v}\")" }
Places == {"param", "return", "field", "let", "alias"}
VARIABLES c, a, use, place
vars == <<c, a, use, place>>
Init == c \in Ctors /\ a \in ArgLists /\ use \in Uses /\ place \in Places
Next == UNCHANGED vars
T == TypeText(c, a)
Text ==
  CASE place = "param"  -> "def f(v: " \o T \o ") -> Result[int, str]:<NL>    " \o use \o "<NL>    return Ok(0)<NL>"
    [] place = "return" -> "def mk() -> " \o T \o ":<NL>    pass<NL><NL>def f() -> Result[int, str]:<NL>    v = mk()<NL>    " \o use \o "<NL>    return Ok(0)<NL>"
    [] place = "field"  -> "model H:<NL>    v: " \o T \o "<NL><NL>def f(h: H) -> Result[int, str]:<NL>    v = h.v<NL>    " \o use \o "<NL>    return Ok(0)<NL>"
    [] place = "let"    -> "def f(u: int) -> Result[int, str]:<NL>    let v: " \o T \o " = u<NL>    " \o use \o "<NL>    return Ok(0)<NL>"
    [] place = "alias"  -> "type A = newtype " \o T \o "<NL><NL>def f(w: A) -> Result[int, str]:<NL>    v = w.0<NL>    " \o use \o "<NL>    return Ok(0)<NL>"
Emit == PrintT(<<"CASE", ToJson([text |-> Text, ctor |-> c, args |-> a, place |-> place])>>)
=============================================================================
