CONSTANTS
  MaxBranches = 3
  CondKinds = {"T", "F", "eT", "eF", "lt2"}
  Ctxs = {"fn", "while", "for-range", "nested"}
INIT Init
NEXT Next
INVARIANTS Sound Emit
CHECK_DEADLOCK FALSE
