--------------------------- MODULE MC_Determinism ---------------------------
(* TLC: all draws of all unordered iterations for a program with 3 rust:: crates, 3 top-level
   modules, 2 submodules, 3 omitted fields, 3 missing trait methods, 3 files. One RISK line per
   final state names the components whose order deviates from the program-determined one. *)
EXTENDS Determinism, Json
MCCrates == <<"c1", "c2", "c3">>
MCTopMods == <<"m1", "m2", "m3">>
MCSubMods == <<"s1", "s2">>
MCFields == <<"f1", "f2", "f3">>
MCMethods == <<"t1", "t2", "t3">>
MCFiles == <<"a", "b", "c">>
EmitRisk == Finished => PrintT(<<"RISK", ToJson([deviating |-> Deviating, static |-> AtRiskStatic,
                                                  flow |-> [c \in Components |-> Flow[c]]])>>)
=============================================================================
