---------------------------- MODULE ModulesTrace ----------------------------
(* B2: validate the runs recorded from the REAL collectors (collect_modules, ModuleResolver,
   the language server's collect_dependency_modules observed through its publishDiagnostics,
   ModuleCollector) as behaviours of the worklist machines of Modules. One event per line of the
   ndjson file named by TRACE:
     {a:"reset", m, files:[path..], imports:[{file:path, imps:[{kind,levels,abs,segs}..]}..], entry:path}
                                      a new run of collector m on that layout
     {a:"visit", file:path}           the collector parsed `file` and added it to its result
     {a:"end", status:"done"|"error", diag:bool, loaded:[path..]}
                                      how the run ended; `loaded` = the result SET (col only: its
                                      visit order is not observable, the result is a HashMap)
   A visit event must be the machine's next Visit action on exactly that file; the steps that
   the code does not expose (skipping a processed entry, the recursion of load_module, an
   unreadable file) are taken silently - they are actions of Modules too. All machine invariants
   are evaluated in every state. Acceptance: the number of consumed events, kept in TLC
   register 7, equals the trace length (POSTCONDITION). *)
EXTENDS Modules, Json, IOUtils
Rec == ndJsonDeserialize(IOEnv.TRACE)
VARIABLE l
tvars == <<vars, l>>
E == Rec[l]
SeqSet(s) == {s[i] : i \in 1..Len(s)}
Note(n) == TLCSet(7, n)

LayFiles(e) == SeqSet(e.files)
LayImports(e) == [f \in {e.imports[i].file : i \in 1..Len(e.imports)} |->
                    LET k == CHOOSE i \in 1..Len(e.imports) : e.imports[i].file = f IN e.imports[k].imps]

TReset == /\ l <= Len(Rec) /\ E.a = "reset" /\ (l = 1 \/ status # "run")
          /\ files' = LayFiles(E) /\ imports' = LayImports(E) /\ entry' = E.entry /\ m' = E.m
          /\ stack' = InitStack(LayFiles(E), LayImports(E), E.entry, E.m)
          /\ seen' = {} /\ loading' = {} /\ visited' = <<>> /\ status' = "run" /\ diag' = FALSE
          /\ l' = l + 1 /\ Note(l + 1)
TVisit == /\ l <= Len(Rec) /\ E.a = "visit"
          /\ (WlVisit \/ LspVisit)
          /\ visited' = Append(visited, E.file)
          /\ l' = l + 1 /\ Note(l + 1)
TEnd == /\ l <= Len(Rec) /\ E.a = "end"
        /\ status # "run" /\ status = E.status /\ diag = E.diag
        /\ ((m = "col" /\ status = "done") => SeqSet(visited) \ {entry} = SeqSet(E.loaded))
        /\ UNCHANGED vars /\ l' = l + 1 /\ Note(l + 1)
TSilent == /\ \/ WlSkip \/ WlDone \/ LspSkip
              \/ ((WlVisit \/ LspVisit) /\ visited' = visited)        \* unreadable file
              \/ ColStart \/ ColUnresolved \/ ColCycle \/ ColCall \/ ColReturn
           /\ UNCHANGED l

TInit == /\ l = 1 /\ Note(1)
         /\ files = {} /\ imports = <<>> /\ entry = <<>> /\ m = "none" /\ stack = <<>> /\ seen = {} /\ loading = {}
         /\ visited = <<>> /\ status = "done" /\ diag = FALSE
TNext == TReset \/ TVisit \/ TEnd \/ TSilent
TSpec == TInit /\ [][TNext]_tvars
TDecreases == [][status = "run" => Measure' < Measure]_vars      \* within a run every step makes progress

Accepted == IF TLCGet(7) = Len(Rec) + 1 THEN TRUE
            ELSE PrintT(<<"REJECT", ToJson([at |-> TLCGet(7), ev |-> Rec[TLCGet(7)]])>>) /\ FALSE
=============================================================================
