CONSTANT Depth = 2
INIT Init
NEXT Next
INVARIANTS Emit Sound
CHECK_DEADLOCK FALSE
