------------------------------- MODULE PySeq -------------------------------
(* Python sequence semantics of Incan (strings as sequences of Unicode scalars, lists, dict
   lookup, range): definitions after CPython (PySlice_AdjustIndices + walk), an independent
   set characterisation, the canonical error texts of incan_core/src/errors.rs, and an
   implementation-shaped transcription of the two slice copies
     crates/incan_core/src/strings.rs   str_slice
     crates/incan_stdlib/src/collections.rs list_slice   (same text)
   Optional arguments are sequences of length 0 (absent) or 1. *)
EXTENDS Integers, Sequences, FiniteSets, TLC

Has(o) == o # <<>>
Val(o) == o[1]
Clamp(x, lo, hi) == IF x < lo THEN lo ELSE IF x > hi THEN hi ELSE x

\* ---------------------------------------------------------------- errors (canonical texts)
ErrStrIndex   == "IndexError: string index out of range"
ErrSliceStep  == "ValueError: slice step cannot be zero"
ErrRangeStep  == "ValueError: range() arg 3 must not be zero"
ErrListIndex(i, n) == "IndexError: index " \o ToString(i) \o " out of range for list of length " \o ToString(n)
ErrDictKey(k) == "KeyError: '" \o ToString(k) \o "' not found in dict"

\* ---------------------------------------------------------------- index
\* 0-based normalised index or -1 when out of range
NormIndex(n, i) == LET j == IF i < 0 THEN i + n ELSE i IN IF j < 0 \/ j >= n THEN -1 ELSE j

\* ---------------------------------------------------------------- slice (definition)
StepOf(step) == IF Has(step) THEN Val(step) ELSE 1
AdjStart(n, start, st) ==
  IF ~Has(start) THEN (IF st > 0 THEN 0 ELSE n - 1)
  ELSE LET s == Val(start) IN
       IF s < 0 THEN (IF s + n < 0 THEN (IF st < 0 THEN -1 ELSE 0) ELSE s + n)
       ELSE IF s >= n THEN (IF st < 0 THEN n - 1 ELSE n) ELSE s
AdjStop(n, stop, st) ==
  IF ~Has(stop) THEN (IF st > 0 THEN n ELSE -1)
  ELSE LET s == Val(stop) IN
       IF s < 0 THEN (IF s + n < 0 THEN (IF st < 0 THEN -1 ELSE 0) ELSE s + n)
       ELSE IF s >= n THEN (IF st < 0 THEN n - 1 ELSE n) ELSE s

RECURSIVE Walk(_, _, _)
Walk(i, stop, st) == IF (st > 0 /\ i < stop) \/ (st < 0 /\ i > stop) THEN <<i>> \o Walk(i + st, stop, st) ELSE <<>>

\* sequence of selected 0-based indices; step # 0
SliceIdx(n, start, stop, step) ==
  LET st == StepOf(step) IN Walk(AdjStart(n, start, st), AdjStop(n, stop, st), st)

\* independent characterisation: the set of selected indices
SliceSet(n, start, stop, step) ==
  LET st == StepOf(step)  a == AdjStart(n, start, st)  b == AdjStop(n, stop, st) IN
  {i \in 0..(n - 1) : \E k \in 0..n : i = a + k * st /\ (IF st > 0 THEN i < b ELSE i > b)}

Pick(s, idx) == [k \in 1..Len(idx) |-> s[idx[k] + 1]]
Slice(s, start, stop, step) ==
  IF StepOf(step) = 0 THEN [err |-> ErrSliceStep, val |-> <<>>]
  ELSE [err |-> "", val |-> Pick(s, SliceIdx(Len(s), start, stop, step))]

\* ---------------------------------------------------------------- slice (transcription)
\* Saturating i64 addition is the identity on the small values TLC sees; the i64 obligations
\* of the loop are discharged separately (PySeqI64.tla, Apalache).
RECURSIVE ImplWalk(_, _, _, _)
ImplWalk(n, i, endIdx, st) ==
  IF (st > 0 /\ i < endIdx) \/ (st < 0 /\ i > endIdx)
    THEN (IF 0 <= i /\ i < n THEN <<i>> ELSE <<>>) \o ImplWalk(n, i + st, endIdx, st)   \* chars.get(i as usize)
    ELSE <<>>
ImplSliceIdx(n, start, stop, step) ==
  LET st == StepOf(step)
      s0 == IF Has(start) THEN Val(start) ELSE (IF st > 0 THEN 0 ELSE n - 1)
      e0 == IF Has(stop) THEN Val(stop) ELSE (IF st > 0 THEN n ELSE -1)
      s1 == IF s0 < 0 THEN s0 + n ELSE s0
      e1 == IF Has(stop) /\ e0 < 0 THEN e0 + n ELSE e0
      s2 == IF st > 0 THEN Clamp(s1, 0, n) ELSE Clamp(s1, -1, n - 1)
      e2 == IF st > 0 THEN Clamp(e1, 0, n) ELSE Clamp(e1, -1, n - 1)
  IN ImplWalk(n, s2, e2, st)

\* ---------------------------------------------------------------- saturation
\* Arguments beyond the window behave like the clamped ones: this is what lets the harness
\* substitute i64 extremes for the window edge.
Sat(n, o)     == IF ~Has(o) THEN o ELSE <<Clamp(Val(o), -(n + 1), n + 1)>>
SatStep(n, o) == IF ~Has(o) THEN o ELSE <<Clamp(Val(o), -(n + 1), n + 1)>>

\* ---------------------------------------------------------------- dict
DictGet(keys, k) == IF k \in keys THEN [err |-> "", found |-> TRUE] ELSE [err |-> ErrDictKey(k), found |-> FALSE]

\* ---------------------------------------------------------------- range
RECURSIVE RangeSeq(_, _, _)
RangeSeq(a, b, c) == IF (c > 0 /\ a < b) \/ (c < 0 /\ a > b) THEN <<a>> \o RangeSeq(a + c, b, c) ELSE <<>>
RangeLen(a, b, c) == IF c > 0 THEN (IF a < b THEN ((b - a - 1) \div c) + 1 ELSE 0)
                     ELSE (IF a > b THEN ((a - b - 1) \div (-c)) + 1 ELSE 0)
Range(a, b, c) == IF c = 0 THEN [err |-> ErrRangeStep, val |-> <<>>] ELSE [err |-> "", val |-> RangeSeq(a, b, c)]
Shift(s, t) == [k \in 1..Len(s) |-> s[k] + t]
=============================================================================
