CONSTANTS Docs = {"d1"}
          MaxVer = 2
          Classes = {"ok","bad"}
          DepDocs = {"d1"}
          AllowClose = TRUE
          Guarded = TRUE
          MaxConc = 4
          MaxMsgs = 3
SPECIFICATION FairSpec
PROPERTIES Termination
CHECK_DEADLOCK TRUE
