------------------------------- MODULE GenExpr -------------------------------
(* Generator G1: every expression up to depth 2 over typed leaves in a fixed environment,
   built only as PRECEDENCE-CONSISTENT trees (a child that binds less tightly than its parent,
   or equally on the non-associative side, is always an explicit Paren node), so that printing
   is a plain token walk and grouping is never invented by the renderer. Each finished case is
   the one-statement program  `println(<e>)`  in the body of a function with the bindings below;
   the specification's verdict (Accept) and behaviour (Run) are printed with it. *)
EXTENDS Core, Json

\* ---- syntax constructors (the encoding shared with the harness projection)
EInt(n)     == [k |-> "lit", lk |-> "int", iv |-> n]
EFloat(n,d) == [k |-> "lit", lk |-> "float", fn |-> n, fd |-> d]
EBool(b)    == [k |-> "lit", lk |-> "bool", bv |-> b]
EStr(s)     == [k |-> "lit", lk |-> "str", sv |-> s]
EId(x)      == [k |-> "ident", name |-> x]
EPar(e)     == [k |-> "paren", e |-> e]
EUn(o, e)   == [k |-> "un", op |-> o, e |-> e]
EBin(o,l,r) == [k |-> "bin", op |-> o, l |-> l, r |-> r]
ECall(f, a) == [k |-> "call", f |-> f, args |-> a]
EIndex(o,i) == [k |-> "index", obj |-> o, idx |-> i]
ESlice(o, a, b, c) == [k |-> "slice", obj |-> o, start |-> a, end |-> b, step |-> c]
EList(xs)   == [k |-> "list", items |-> xs]

\* ---- the fixed environment of every case (rendered as `let` bindings before the println)
EnvDecls == << [name |-> "x", e |-> EInt(7)], [name |-> "y", e |-> EUn("-", EInt(3))], [name |-> "z", e |-> EInt(2)],
               [name |-> "f", e |-> EFloat(5, 1)], [name |-> "g", e |-> EUn("-", EFloat(1, 1))],
               [name |-> "s", e |-> EStr(<<"a", "e2", "u3", "s4", "b">>)], [name |-> "t", e |-> EStr(<<"e2">>)],
               [name |-> "p", e |-> EBool(TRUE)], [name |-> "q", e |-> EBool(FALSE)],
               [name |-> "xs", e |-> EList(<<EInt(3), EInt(1), EInt(4)>>)] >>

\* ---- precedence (operator table of the language reference)
Prec(op) == CASE op \in {"and", "or", "in", "not in"} -> 35 [] op \in CmpOps -> 40 [] op \in {"+", "-"} -> 50
              [] op \in {"*", "/", "//", "%"} -> 60 [] op = "**" -> 70
PrecOf(e) == IF e.k = "bin" THEN Prec(e.op) ELSE IF e.k = "un" THEN (IF e.op = "not" THEN 45 ELSE 65) ELSE 100
\* child placed on the left / right of a binary operator: parenthesise when grouping would otherwise change.
\* The word operators (and / or / in / not in / not) are never mixed without explicit parentheses: their
\* relative order is not something the generated programs may depend on (DESIGN §6).
BoolGroup == {"and", "or", "in", "not in"}
Mixed(op, e) == (e.k = "bin" /\ e.op # op /\ (op \in BoolGroup \/ e.op \in BoolGroup) /\ Prec(e.op) <= Prec(op) + 5 /\ Prec(op) <= 40)
                \/ (e.k = "un" /\ e.op = "not") \/ (e.k = "un" /\ op = "**")
WrapL(op, e) == IF Mixed(op, e) \/ PrecOf(e) < Prec(op) \/ (PrecOf(e) = Prec(op) /\ op = "**") THEN EPar(e) ELSE e
WrapR(op, e) == IF Mixed(op, e) \/ PrecOf(e) < Prec(op) \/ (PrecOf(e) = Prec(op) /\ op # "**") THEN EPar(e) ELSE e
WrapU(op, e) == IF e.k \in {"bin", "un"} THEN EPar(e) ELSE e

AllOps == ArithOps \cup CmpOps \cup {"and", "or", "in", "not in"}
NumLeaves  == {EInt(0), EInt(1), EInt(2), EInt(3), EId("x"), EId("y"), EId("z"), EFloat(3, 1), EId("f"), EId("g")}
OtherLeaves == {EId("s"), EId("t"), EStr(<<"u3", "s4">>), EBool(TRUE), EId("p"), EId("q")}
Leaves == NumLeaves \cup OtherLeaves
D1 == {EBin(o, l, r) : o \in AllOps, l \in Leaves, r \in Leaves}
      \cup {EUn(o, l) : o \in {"-", "not"}, l \in Leaves}
      \cup {EIndex(o, i) : o \in {EId("s"), EId("xs")}, i \in {EInt(0), EInt(4), EInt(5), EUn("-", EInt(1)), EUn("-", EInt(6)), EId("z")}}
      \cup {ESlice(o, a, b, c) : o \in {EId("s"), EId("xs")}, a \in {<<>>, <<EInt(1)>>, <<EUn("-", EInt(2))>>},
                                 b \in {<<>>, <<EInt(4)>>, <<EUn("-", EInt(1))>>}, c \in {<<>>, <<EInt(2)>>, <<EUn("-", EInt(1))>>, <<EInt(0)>>}}
      \cup {ECall("len", <<o>>) : o \in {EId("s"), EId("xs"), EId("t")}} \cup {ECall("abs", <<o>>) : o \in {EId("y"), EId("g")}}

\* ---- the case program: environment bindings, then println(e)
SLet(x, ex) == [k |-> "assign", bk |-> "let", name |-> x, ty |-> "", e |-> ex]
EnvStmts == [i \in 1..Len(EnvDecls) |-> SLet(EnvDecls[i].name, EnvDecls[i].e)]
Prog(ex) == [consts |-> <<>>,
             fns |-> << [name |-> "main", params |-> <<>>, ret |-> "none",
                         body |-> EnvStmts \o << [k |-> "print", e |-> ex] >>] >>]

\* the static scope the expression is typed in (for feature tags)
RECURSIVE ScopeAfter(_, _, _)
ScopeAfter(ss, sc, P) == IF ss = <<>> THEN sc ELSE ScopeAfter(Tail(ss), CheckStmt(ss[1], sc, [loop |-> FALSE, ret |-> "none"], P).sc, P)
EnvScope == ScopeAfter(EnvStmts, <<EmptyScope, EmptyScope>>, Prog(EInt(0)))

CONSTANT Depth
VARIABLES e, dep
Init == e \in (Leaves \cup D1) /\ dep = 1
\* grow: combine the current tree with a leaf on either side, negate it, wrap it, index it
Next == /\ dep < Depth
        /\ dep' = dep + 1
        /\ \/ \E o \in AllOps, l \in Leaves : e' = EBin(o, WrapL(o, e), WrapR(o, l)) \/ e' = EBin(o, WrapL(o, l), WrapR(o, e))
           \/ \E o \in {"-", "not"} : e' = EUn(o, WrapU(o, e))
           \/ (e.k # "paren" /\ e' = EPar(e))
           \/ \E i \in {EInt(0), EUn("-", EInt(1))} : e' = EIndex(IF e.k \in {"ident", "paren", "index", "call"} THEN e ELSE EPar(e), i)
           \/ e' = ECall("abs", <<e>>)
        \* prune ill-typed trees: their extensions are ill-typed too
        /\ Accept(Prog(e'))

Emit == LET acc == Accept(Prog(e)) IN
        IF ~acc THEN PrintT(<<"REJ", ToJson([e |-> e])>>)
        ELSE LET r == Run(Prog(e)) IN
             Specified(r) => PrintT(<<"CASE", ToJson([e |-> e, out |-> r.out, status |-> r.status, err |-> r.err,
                                                      feats |-> Feats(e, EnvScope, Prog(e))])>>)
\* soundness of the specification itself: an accepted program never gets stuck
Sound == Accept(Prog(e)) => Run(Prog(e)).status \in {"done", "error"}
=============================================================================
