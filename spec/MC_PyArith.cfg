CONSTANTS W = 64
          FW = 64
INIT Init
NEXT Next
INVARIANTS DefsSatisfyLaw LawUnique ImplEqualsDef FloatLaw Emit
CHECK_DEADLOCK FALSE
