----------------------------- MODULE MC_LspLive -----------------------------
(* Liveness of Lsp (no history variable, no state constraint): under weak fairness of every
   handler's steps the server always becomes and stays quiescent - no lost wake-up, no lock cycle. *)
EXTENDS Lsp
=============================================================================
