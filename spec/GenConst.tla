------------------------------- MODULE GenConst -------------------------------
(* C06 generator: const-evaluable expressions (literals, other consts, unary / binary numeric,
   boolean and comparison operators, str concatenation / indexing / slicing / membership) up to
   Depth, WITHOUT Paren nodes (parentheses are not allowed in const initializers, phase 1), so
   only trees that need no grouping are built. The case program declares the base consts, then
       const K = <e>            (compile-time evaluation)
       def f() -> T: return <e> (run-time evaluation of the same expression)
   and main prints K and f(). In the specification both denote EvalE(e); the property is that both
   real evaluators agree with it (value, type, and error text). *)
EXTENDS Core, Json

EInt(n)     == [k |-> "lit", lk |-> "int", iv |-> n]
EFloat(n,d) == [k |-> "lit", lk |-> "float", fn |-> n, fd |-> d]
EBool(b)    == [k |-> "lit", lk |-> "bool", bv |-> b]
EStr(s)     == [k |-> "lit", lk |-> "str", sv |-> s]
EId(x)      == [k |-> "ident", name |-> x]
EUn(o, e)   == [k |-> "un", op |-> o, e |-> e]
EBin(o,l,r) == [k |-> "bin", op |-> o, l |-> l, r |-> r]
EIndex(o,i) == [k |-> "index", obj |-> o, idx |-> i]
ESlice(o, a, b, c) == [k |-> "slice", obj |-> o, start |-> a, end |-> b, step |-> c]

BaseConsts == << [name |-> "CI", ty |-> "int", e |-> EInt(7)], [name |-> "CN", ty |-> "int", e |-> EUn("-", EInt(3))],
                 [name |-> "CF", ty |-> "float", e |-> EFloat(5, 1)],
                 [name |-> "CS", ty |-> "str", e |-> EStr(<<"a", "e2", "u3", "s4", "b">>)], [name |-> "CT", ty |-> "str", e |-> EStr(<<"e2">>)],
                 [name |-> "CB", ty |-> "bool", e |-> EBool(TRUE)], [name |-> "CE", ty |-> "str", e |-> EStr(<<>>)] >>

Prec(op) == CASE op \in {"and", "or", "in", "not in"} -> 35 [] op \in CmpOps -> 40 [] op \in {"+", "-"} -> 50
              [] op \in {"*", "/", "//", "%"} -> 60 [] op = "**" -> 70
PrecOf(e) == IF e.k = "bin" THEN Prec(e.op) ELSE IF e.k = "un" THEN (IF e.op = "not" THEN 45 ELSE 65) ELSE 100
\* may `e` stand on that side of `op` without parentheses?
\* word operators are never mixed (their relative order is not something a generated program may depend on)
BoolGroup == {"and", "or", "in", "not in"}
Mixed(op, e) == (e.k = "bin" /\ e.op # op /\ (op \in BoolGroup \/ e.op \in BoolGroup) /\ Prec(e.op) <= Prec(op) + 5 /\ Prec(op) <= 40)
                \/ (e.k = "un" /\ e.op = "not")
OkL(op, e) == ~(Mixed(op, e) \/ PrecOf(e) < Prec(op) \/ (PrecOf(e) = Prec(op) /\ op = "**"))
OkR(op, e) == ~(Mixed(op, e) \/ PrecOf(e) < Prec(op) \/ (PrecOf(e) = Prec(op) /\ op # "**"))
OkU(op, e) == e.k \notin {"bin", "un"}

AllOps == (ArithOps \ {"**"}) \cup CmpOps \cup {"and", "or", "in", "not in"}
Leaves == {EInt(0), EInt(2), EInt(3), EId("CI"), EId("CN"), EFloat(3, 1), EId("CF"), EId("CS"), EId("CT"),
           EStr(<<"u3", "s4">>), EBool(FALSE), EId("CB")}
IdxLeaves == {EInt(0), EInt(1), EInt(2), EInt(4), EInt(5), EUn("-", EInt(1)), EUn("-", EInt(2)), EUn("-", EInt(3)), EUn("-", EInt(5)), EUn("-", EInt(6))}
D1 == {EBin(o, l, r) : o \in AllOps, l \in Leaves, r \in Leaves}
      \cup {EUn(o, l) : o \in {"-", "not"}, l \in Leaves}
      \* powers: the result is int only for int ** non-negative int LITERAL; a const used as exponent is not a literal
      \cup {EBin("**", l, x) : l \in {EInt(2), EInt(3), EId("CI"), EFloat(3, 1), EId("CF")},
                               x \in {EInt(2), EInt(0), EUn("-", EInt(1)), EId("CI"), EId("CN"), EFloat(3, 1), EId("CF")}}
      \cup {EIndex(o, i) : o \in {EId("CS"), EId("CT"), EStr(<<"u3", "s4">>)}, i \in IdxLeaves}
      \* the empty string: every index is out of range, every slice is empty - and a zero step is still an error
      \cup {EIndex(o, i) : o \in {EId("CE"), EStr(<<>>)}, i \in {EInt(0), EUn("-", EInt(1))}}
      \cup {ESlice(o, a, b, c) : o \in {EId("CE"), EStr(<<>>), EBin("+", EId("CE"), EId("CE"))}, a \in {<<>>, <<EInt(1)>>}, b \in {<<>>, <<EUn("-", EInt(1))>>},
                                 c \in {<<>>, <<EInt(0)>>, <<EUn("-", EInt(1))>>}}
      \cup {ESlice(o, a, b, c) : o \in {EId("CS")}, a \in {<<>>, <<EInt(1)>>, <<EUn("-", EInt(2))>>},
                                 b \in {<<>>, <<EInt(4)>>, <<EUn("-", EInt(1))>>}, c \in {<<>>, <<EInt(2)>>, <<EUn("-", EInt(1))>>, <<EInt(0)>>}}

CONSTANT Depth
VARIABLES e, dep
Init == e \in (Leaves \cup D1) /\ dep = 1
TyOfCase(ex) == TypeOf(ex, ConstScope(BaseConsts, <<EmptyScope>>, [consts |-> BaseConsts, fns |-> <<>>]), [consts |-> BaseConsts, fns |-> <<>>])
Next == /\ dep < Depth /\ dep' = dep + 1
        /\ \/ \E o \in AllOps, l \in Leaves : (OkL(o, e) /\ OkR(o, l) /\ e' = EBin(o, e, l)) \/ (OkL(o, l) /\ OkR(o, e) /\ e' = EBin(o, l, e))
           \/ \E o \in {"-", "not"} : OkU(o, e) /\ e' = EUn(o, e)
           \/ \E i \in {EInt(0), EUn("-", EInt(1)), EInt(9)} : e.k \in {"ident", "index", "slice"} /\ e' = EIndex(e, i)
        /\ TyOfCase(e') \in {"int", "float", "bool", "str"}

Ty == TyOfCase(e)
Prog == [consts |-> Append(BaseConsts, [name |-> "K", ty |-> "", e |-> e]),
         fns |-> << [name |-> "f", params |-> <<>>, ret |-> Ty, body |-> << [k |-> "return", e |-> <<e>>] >>],
                    [name |-> "main", params |-> <<>>, ret |-> "none",
                     body |-> << [k |-> "print", e |-> EId("K")], [k |-> "print", e |-> [k |-> "call", f |-> "f", args |-> <<>>]] >>] >>]
\* the run-time-only variant (for error cases: what does evaluating e in a function do?)
Emit == (Ty \in {"int", "float", "bool", "str"}) =>
          LET r == Run(Prog) IN
          \* a power whose value lies outside the exact model is still a case: its TYPE is specified (status "typeonly")
          (Specified(r) \/ r.err = Inexact) =>
                          PrintT(<<"CASE", ToJson([e |-> e, ty |-> Ty, status |-> IF r.err = Inexact THEN "typeonly" ELSE r.status, err |-> r.err,
                                                   val |-> IF r.status = "done" THEN <<r.out[1]>> ELSE <<>>,
                                                   agree |-> (r.status # "done" \/ r.out[1] = r.out[2])])>>)
\* in the specification compile-time and run-time evaluation agree by construction
SpecAgrees == (Ty \in {"int", "float", "bool", "str"}) => LET r == Run(Prog) IN (r.status = "done" => r.out[1] = r.out[2])
=============================================================================
