CONSTANTS Docs = {"d1"}
          MaxVer = 3
          Classes = {"ok","bad"}
          DepDocs = {"d1"}
          AllowClose = TRUE
          Guarded = TRUE
          MaxConc = 4
          MaxMsgs = 4
SPECIFICATION MCSpec
VIEW View
INVARIANTS Converged DiagFromSameVersion LatestDiagFromLatestText LockSane
PROPERTIES NoStaleOverwrite
CHECK_DEADLOCK TRUE
ACTION_CONSTRAINT EdgeHook
