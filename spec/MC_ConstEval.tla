---------------------------- MODULE MC_ConstEval ----------------------------
EXTENDS ConstEval, Json
\* B1: one line per finished graph: the reference lists, the reported paths, acceptance
Emit == AllDone => PrintT(<<"CASE", ToJson([refs |-> refs, errs |-> errs, cyclic |-> Cyclic, accepted |-> (errs = {})])>>)
=============================================================================
