CONSTANTS NT = 1
          Outcomes = {"pass", "assert_fail", "panic", "nobuild"}
          HarnessModes = {"runs", "empty"}
SPECIFICATION MCSpec
INVARIANTS TypeOK PassedMeansRanAndPassed
CHECK_DEADLOCK TRUE
