CONSTANT Universes = {"data"}
CONSTANT Negatives = FALSE
CONSTANT LayoutSel = {"flat", "child", "nested-siblings", "cousins"}
CONSTANT IStyles = {"from", "mod", "mixed"}
INIT Init
NEXT Next
INVARIANTS ResolvesRight PubExactly PositiveLinks
CHECK_DEADLOCK FALSE
