------------------------------- MODULE GenIter -------------------------------
(* C01 generator: iteration protocols, Option helpers, `?` / `return` inside loops and match arms, recursion, sets,
   membership, conversions. A program is a fixed prelude (a list of ints, a list of strs, a dict, a set, an accumulator),
   a short sequence of operations drawn from a menu and a fixed dump of the final state. The helper functions print
   what they are given (h, mb, mk), so the order in which iterables, zip arguments, receivers and defaults are
   evaluated is part of the printed behaviour. Behaviour = Core's Run; every program is also Accept-ed by Core's
   static rules (invariant AllAccepted), and programs that iterate a dict / a set behave the same under every
   iteration order tried (invariant OrderFree), because the documentation promises no order.

   Families (feature tag `iter:<family>` plus one tag per construct, computed here):
     enumerate  for it in enumerate(<list variable / literal / call / sorted(..) / range / list of strs>): index and item through
                it.0 / it.1 (printed, in arithmetic, compared, in an f-string); `for i, x in enumerate(xs)`; a comprehension
     zip        for p in zip(a, b) with operands of different lengths and element types, effectful operands (order),
                `for a, b in zip(..)`; a comprehension
     unpack     `a, b = <pair>` (literal pair with effectful components, a pair variable)
     dict       for k in d / d.keys() / d.values(), order-free observations (sums, counts, one-entry dicts, sorted keys)
     range      range with 1 / 2 / 3 arguments (negative step, empty ranges, effectful arguments, zero step = ValueError) as a loop
                and as a comprehension source
     nest       two nested loops, every combination of 4 outer forms (range with 1 / 2 / 3 arguments, while) x 5 inner
                forms (range, range depending on the outer variable, list, enumerate, while) x no jump / break / continue
                in the inner loop x no jump / break / continue in the outer loop
     option     unwrap_or (the default is always evaluated), unwrap (None panics), is_some / is_none, dict.get, Option in a loop
     try        `?` inside for / while / nested for / match-expression arms / statement-match arms; `return` from nested loops
     rec        recursion (factorial, fibonacci, mutual recursion), bounded by Core's fuel
     set        set literals (duplicates, effectful items), len, in / not in / contains, order-free iteration, set(list)
     member     `not in` / `in` on dicts, lists, strs
     conv       int(s) / float(x) / str(n) and their documented ValueError texts
   NOT generated because the documentation (workspaces/docs-site/docs/language) does not describe them: default parameter
   values and keyword arguments of functions, generic functions, function types, chained comparisons, `is None`, iteration
   over a str, dict.items(), set.add, Result.unwrap / is_ok / is_err, the text println / f-strings give a float (floats are
   compared by value), int(float), str(float), str(bool). *)
EXTENDS Core, Json

EInt(n)     == [k |-> "lit", lk |-> "int", iv |-> n]
EStr(s)     == [k |-> "lit", lk |-> "str", sv |-> s]
EId(x)      == [k |-> "ident", name |-> x]
EUn(o, e)   == [k |-> "un", op |-> o, e |-> e]
EBin(o,l,r) == [k |-> "bin", op |-> o, l |-> l, r |-> r]
ECall(f, a) == [k |-> "call", f |-> f, args |-> a]
EList(xs)   == [k |-> "list", items |-> xs]
EIdx(o, i)  == [k |-> "index", obj |-> o, idx |-> i]
EM(o, m, a) == [k |-> "mcall", recv |-> o, name |-> m, args |-> a]
ETuple(xs)  == [k |-> "tuple", items |-> xs]
ETF(o, i)   == [k |-> "tfield", obj |-> o, idx |-> i]
EDict(ks, vs) == [k |-> "dict", keys |-> ks, vals |-> vs]
ESet(xs)    == [k |-> "setlit", items |-> xs]
EComp(el, v, it, c) == [k |-> "listcomp", elem |-> el, var |-> v, iter |-> it, cond |-> c]
EFStr(ps)   == [k |-> "fstr", parts |-> ps]
FS(sv) == [pk |-> "s", sv |-> sv, e |-> EInt(0)]
FE(e)  == [pk |-> "e", sv |-> <<>>, e |-> e]
ERange(a)   == [k |-> "call", f |-> "range", args |-> a]
EEnum(e)    == [k |-> "enumerate", e |-> e]
EZip(a, b)  == [k |-> "zip", a |-> a, b |-> b]
ESome(e)    == [k |-> "some", e |-> e]
ENone       == [k |-> "nonelit"]
EOk(e)      == [k |-> "ok", e |-> e]
EErr(e)     == [k |-> "errx", e |-> e]
ETry(e)     == [k |-> "try", e |-> e]
EMatch(s, arms) == [k |-> "match", subj |-> s, arms |-> arms]
XArm(p, e)  == [pat |-> p, guard |-> <<>>, e |-> e]
SArm(p, b)  == [pat |-> p, guard |-> <<>>, body |-> b]
PC(n, ps)   == [k |-> "pctor", name |-> n, pats |-> ps]
PB(x)       == [k |-> "pbind", name |-> x]
PL(l)       == [k |-> "plit", lit |-> l]
PW          == [k |-> "pwild"]
SAssign(bk, x, ty, ex) == [k |-> "assign", bk |-> bk, name |-> x, ty |-> ty, e |-> ex]
SPrint(ex)  == [k |-> "print", e |-> ex]
SExpr(ex)   == [k |-> "expr", e |-> ex]
SComp(x, o, ex) == [k |-> "compound", name |-> x, op |-> o, e |-> ex]
SSetIdx(x, i, ex) == [k |-> "setidx", name |-> x, idx |-> i, op |-> "", e |-> ex]
SIf(c, t)   == [k |-> "if", cond |-> c, then |-> t, elifs |-> <<>>, else |-> <<>>]
SFor(v, it, b) == [k |-> "for", var |-> v, iter |-> it, body |-> b]
SForUn(vs, it, b) == [k |-> "forun", vars |-> vs, iter |-> it, body |-> b]
SUnpack(ns, ex) == [k |-> "unpack", names |-> ns, e |-> ex]
SWhile(c, b) == [k |-> "while", cond |-> c, body |-> b]
SMatch(s, arms) == [k |-> "matchs", subj |-> s, arms |-> arms, form |-> "case"]
SRet(ex)    == [k |-> "return", e |-> <<ex>>]
SBreak      == [k |-> "break"]
SCont       == [k |-> "continue"]
Acc(ex)     == SComp("acc", "+", ex)
H(e)        == ECall("h", <<e>>)
Par(n, t)   == [name |-> n, ty |-> t, mut |-> FALSE]
Fn(n, ps, ret, body) == [name |-> n, params |-> ps, ret |-> ret, body |-> body]

\* ---------------------------------------------------------------- helper functions (printed once as the DECLS row; a case carries the
\* ones its body uses)
RES == "res[int,str]"
OPT == "opt[int]"
Bad == EStr(<<"b", "a", "d">>)
Fns == <<
  Fn("h", <<Par("a", "int")>>, "int", <<SPrint(EId("a")), SRet(EBin("+", EId("a"), EInt(1)))>>),
  \* mb(a): prints a; None for a <= 0, Some(a) otherwise
  Fn("mb", <<Par("a", "int")>>, OPT, <<SPrint(EId("a")), SIf(EBin("<=", EId("a"), EInt(0)), <<SRet(ENone)>>), SRet(ESome(EId("a")))>>),
  \* mk(a): prints a; the list [a, a + 1]
  Fn("mk", <<Par("a", "int")>>, "list[int]", <<SPrint(EId("a")), SRet(EList(<<EId("a"), EBin("+", EId("a"), EInt(1))>>))>>),
  Fn("sd", <<Par("a", "int"), Par("b", "int")>>, RES, <<SIf(EBin("==", EId("b"), EInt(0)), <<SRet(EErr(Bad))>>), SRet(EOk(EBin("//", EId("a"), EId("b"))))>>),
  \* `?` inside a for loop
  Fn("tot_for", <<Par("ys", "list[int]")>>, RES,
     <<SAssign("mut", "t", "", EInt(0)),
       SFor("y", EId("ys"), <<SPrint(EId("y")), SComp("t", "+", ETry(ECall("sd", <<EInt(12), EId("y")>>)))>>),
       SRet(EOk(EId("t")))>>),
  \* `?` inside a while loop
  Fn("tot_while", <<Par("n", "int")>>, RES,
     <<SAssign("mut", "t", "", EInt(0)), SAssign("mut", "i", "", EId("n")),
       SWhile(EBin(">", EId("i"), EUn("-", EInt(2))),
              <<SComp("t", "+", ETry(ECall("sd", <<EInt(12), EId("i")>>))), SPrint(EId("t")), SComp("i", "-", EInt(1))>>),
       SRet(EOk(EId("t")))>>),
  \* `?` inside two nested for loops
  Fn("tot_nest", <<Par("ys", "list[int]")>>, RES,
     <<SAssign("mut", "t", "", EInt(0)),
       SFor("y", EId("ys"), <<SFor("z", EId("ys"), <<SComp("t", "+", ETry(ECall("sd", <<EId("z"), EId("y")>>))), SPrint(EId("t"))>>)>>),
       SRet(EOk(EId("t")))>>),
  \* `?` inside the arms of a match expression
  Fn("pick", <<Par("k", "int")>>, RES,
     <<SAssign("inferred", "v", "", EMatch(EId("k"), <<XArm(PL(EInt(0)), ETry(ECall("sd", <<EInt(1), EInt(0)>>))),
                                                       XArm(PL(EInt(1)), ETry(ECall("sd", <<EInt(8), EInt(2)>>))),
                                                       XArm(PW, EInt(5))>>)),
       SPrint(EId("v")), SRet(EOk(EBin("+", EId("v"), EInt(1))))>>),
  \* `?` inside the arms of a match statement
  Fn("picks", <<Par("k", "int")>>, RES,
     <<SAssign("mut", "r", "", EInt(0)),
       SMatch(EId("k"), <<SArm(PL(EInt(0)), <<SAssign("inferred", "r", "", ETry(ECall("sd", <<EInt(1), EInt(0)>>)))>>),
                          SArm(PL(EInt(1)), <<SAssign("inferred", "r", "", ETry(ECall("sd", <<EInt(8), EInt(2)>>)))>>),
                          SArm(PW, <<SAssign("inferred", "r", "", EInt(5))>>)>>),
       SPrint(EId("r")), SRet(EOk(EBin("+", EId("r"), EInt(1))))>>),
  \* `return` out of two nested for loops
  Fn("find", <<Par("ys", "list[int]"), Par("t", "int")>>, "int",
     <<SFor("i", ERange(<<EInt(3)>>),
            <<SFor("y", EId("ys"), <<SPrint(EBin("+", EBin("*", EId("i"), EInt(10)), EId("y"))),
                                     SIf(EBin("==", EBin("+", EBin("*", EId("i"), EInt(10)), EId("y")), EId("t")), <<SRet(EId("i"))>>)>>)>>),
       SRet(EUn("-", EInt(1)))>>),
  \* `return` out of a for loop inside a while loop
  Fn("findw", <<Par("t", "int")>>, "int",
     <<SAssign("mut", "i", "", EInt(0)),
       SWhile(EBin("<", EId("i"), EInt(3)),
              <<SFor("j", ERange(<<EInt(3)>>), <<SIf(EBin("==", EBin("*", EId("i"), EId("j")), EId("t")),
                                                     <<SRet(EBin("+", EBin("*", EId("i"), EInt(10)), EId("j")))>>)>>),
                SComp("i", "+", EInt(1))>>),
       SRet(EUn("-", EInt(1)))>>),
  \* `return` out of a range loop inside an enumerate loop
  Fn("finde", <<Par("ys", "list[int]"), Par("t", "int")>>, "int",
     <<SFor("it", EEnum(EId("ys")),
            <<SFor("j", ERange(<<EInt(2)>>), <<SIf(EBin("==", EBin("+", ETF(EId("it"), 1), EId("j")), EId("t")), <<SRet(ETF(EId("it"), 0))>>)>>)>>),
       SRet(EUn("-", EInt(1)))>>),
  Fn("fact", <<Par("n", "int")>>, "int",
     <<SIf(EBin("<=", EId("n"), EInt(1)), <<SRet(EInt(1))>>), SRet(EBin("*", EId("n"), ECall("fact", <<EBin("-", EId("n"), EInt(1))>>)))>>),
  Fn("fib", <<Par("n", "int")>>, "int",
     <<SIf(EBin("<", EId("n"), EInt(2)), <<SRet(EId("n"))>>),
       SRet(EBin("+", ECall("fib", <<EBin("-", EId("n"), EInt(1))>>), ECall("fib", <<EBin("-", EId("n"), EInt(2))>>)))>>),
  Fn("even", <<Par("n", "int")>>, "bool",
     <<SIf(EBin("==", EId("n"), EInt(0)), <<SRet([k |-> "lit", lk |-> "bool", bv |-> TRUE])>>), SRet(ECall("odd", <<EBin("-", EId("n"), EInt(1))>>))>>),
  Fn("odd", <<Par("n", "int")>>, "bool",
     <<SIf(EBin("==", EId("n"), EInt(0)), <<SRet([k |-> "lit", lk |-> "bool", bv |-> FALSE])>>), SRet(ECall("even", <<EBin("-", EId("n"), EInt(1))>>))>>)
>>

\* ---------------------------------------------------------------- prelude and dump
XS == EId("xs")
WS == EId("ws")
DV  == EId("d")
UV  == EId("u")
SA == EStr(<<"a">>)
SB == EStr(<<"b">>)
SC == EStr(<<"c">>)
Prelude == << SAssign("mut", "xs", "", EList(<<EInt(3), EInt(1), EInt(2)>>)),
              SAssign("inferred", "ws", "", EList(<<SA, SB>>)),
              SAssign("mut", "d", "", EDict(<<SA, SB>>, <<EInt(1), EInt(2)>>)),
              SAssign("inferred", "u", "", ESet(<<EInt(1), EInt(2), EInt(3), EInt(2)>>)),
              SAssign("mut", "acc", "", EInt(0)) >>
Dump == << SPrint(EId("acc")), SPrint(ECall("len", <<XS>>)), SFor("x", XS, <<SPrint(EId("x"))>>), SPrint(ECall("len", <<DV>>)),
           SFor("key", EList(<<SA, SB, SC>>), <<SIf(EBin("in", EId("key"), DV), <<SPrint(EIdx(DV, EId("key")))>>)>>) >>

\* ---------------------------------------------------------------- the menu: operations with their tags; `seq` = also used in 2-sequences
Op(fam, tags, seq, ss) == [ss |-> ss, tags |-> {"iter:" \o fam} \cup tags, seq |-> seq]
It0 == ETF(EId("it"), 0)
It1 == ETF(EId("it"), 1)
Pa == ETF(EId("p"), 0)
Pb == ETF(EId("p"), 1)
Dash == FS(<<"da">>)
IntSrc == [var |-> XS, lit |-> EList(<<EInt(7), EInt(8)>>), call |-> ECall("mk", <<EInt(5)>>),
           sorted |-> ECall("sorted", <<XS>>), range |-> ERange(<<EInt(2), EInt(4)>>)]
EnumBody == [print |-> <<SPrint(It0), SPrint(It1)>>,
             arith |-> <<Acc(EBin("+", EBin("*", It0, EInt(10)), It1))>>,
             idxcmp |-> <<SIf(EBin("==", It0, EInt(1)), <<SCont>>), SPrint(It1)>>,
             elemcmp |-> <<SIf(EBin("==", It1, EInt(1)), <<SBreak>>), SPrint(It0)>>,
             fstr |-> <<SPrint(EFStr(<<FE(It0), Dash, FE(It1)>>))>>,
             upper |-> <<SPrint(EM(It1, "upper", <<>>))>>]
EnumOps ==
  {Op("enumerate", {"enum-src:" \o s, "enum-body:" \o b}, (s = "var" /\ b \in {"print", "idxcmp", "fstr"}) \/ (s \in {"lit", "call"} /\ b = "print"), <<SFor("it", EEnum(IntSrc[s]), EnumBody[b])>>)
     : s \in {"var", "lit", "call"}, b \in {"print", "arith", "idxcmp", "elemcmp", "fstr"}} \cup
  {Op("enumerate", {"enum-src:" \o s, "enum-body:print"}, FALSE, <<SFor("it", EEnum(IntSrc[s]), EnumBody["print"])>>) : s \in {"sorted", "range"}} \cup
  {Op("enumerate", {"enum-src:strs", "enum-body:" \o b}, b = "print", <<SFor("it", EEnum(WS), EnumBody[b])>>) : b \in {"print", "idxcmp", "fstr", "upper"}} \cup
  {Op("enumerate", {"for-unpack", "enum-src:var"}, FALSE, <<SForUn(<<"i", "x">>, EEnum(XS), <<SPrint(EId("i")), SPrint(EId("x"))>>)>>),
   Op("enumerate", {"for-unpack", "enum-src:strs"}, FALSE, <<SForUn(<<"i", "w">>, EEnum(WS), <<SPrint(EId("w")), SPrint(EId("i"))>>)>>)} \cup
  {Op("enumerate", {"enum-comp", IF c = <<>> THEN "comp-nofilter" ELSE "comp-filter"}, FALSE,
      <<SAssign("inferred", "ys", "", EComp(EBin("+", It0, It1), "it", EEnum(XS), c)), SPrint(ECall("len", <<EId("ys")>>)), SFor("y", EId("ys"), <<SPrint(EId("y"))>>)>>)
     : c \in {<<>>, <<EBin("!=", It0, EInt(1))>>}}
ZipPair == [is |-> <<XS, WS>>, si |-> <<WS, XS>>, longer |-> <<XS, EList(<<EInt(5), EInt(6), EInt(7), EInt(8)>>)>>,
            calls |-> <<ECall("mk", <<EInt(1)>>), ECall("mk", <<EInt(5)>>)>>, lits |-> <<EList(<<EInt(1), EInt(2)>>), EList(<<EInt(9)>>)>>,
            varcall |-> <<XS, ECall("mk", <<EInt(7)>>)>>, range |-> <<ERange(<<EInt(3)>>), XS>>, sorted |-> <<XS, ECall("sorted", <<XS>>)>>]
ZipBody == [print |-> <<SPrint(Pa), SPrint(Pb)>>,
            fstr |-> <<SPrint(EFStr(<<FE(Pa), Dash, FE(Pb)>>))>>,
            arith |-> <<Acc(EBin("*", Pa, Pb))>>,
            cmp |-> <<SIf(EBin("<", Pa, Pb), <<SPrint(Pa)>>)>>]
ZipSel == {<<"is", "print">>, <<"is", "fstr">>, <<"si", "print">>, <<"longer", "print">>, <<"longer", "arith">>, <<"longer", "cmp">>,
           <<"calls", "arith">>, <<"calls", "print">>, <<"lits", "print">>, <<"varcall", "cmp">>, <<"range", "print">>,
           <<"sorted", "cmp">>, <<"sorted", "arith">>}
ZipOps ==
  {Op("zip", {"zip-src:" \o z[1], "zip-body:" \o z[2]}, z \in {<<"is", "print">>, <<"longer", "arith">>, <<"si", "print">>, <<"calls", "arith">>, <<"sorted", "cmp">>},
      <<SFor("p", EZip(ZipPair[z[1]][1], ZipPair[z[1]][2]), ZipBody[z[2]])>>) : z \in ZipSel} \cup
  {Op("zip", {"for-unpack", "zip-src:is"}, FALSE, <<SForUn(<<"a", "b">>, EZip(XS, WS), <<SPrint(EId("a")), SPrint(EId("b"))>>)>>),
   Op("zip", {"zip-comp"}, FALSE,
      <<SAssign("inferred", "zs", "", EComp(EBin("+", Pa, Pb), "p", EZip(XS, XS), <<>>)), SFor("z", EId("zs"), <<SPrint(EId("z"))>>)>>)}
UnpackOps ==
  {Op("unpack", {"unpack-src:tuple-literal"}, FALSE, <<SUnpack(<<"a", "b">>, ETuple(<<H(EInt(1)), H(EInt(2))>>)), SPrint(EId("b")), SPrint(EId("a"))>>),
   Op("unpack", {"unpack-src:variable"}, FALSE,
      <<SAssign("inferred", "tp", "", ETuple(<<EInt(1), SA>>)), SUnpack(<<"c", "g">>, EId("tp")), SPrint(EId("g")), SPrint(EId("c"))>>)}
E1 == EId("e1")
OneEntry == SAssign("inferred", "e1", "", EDict(<<EStr(<<"c">>)>>, <<EInt(9)>>))
Keys(x) == EM(x, "keys", <<>>)
Vals(x) == EM(x, "values", <<>>)
DictOps ==
  {Op("dict", {"dict-iter:direct", "unord"}, FALSE, <<SFor("k", DV, <<Acc(ECall("len", <<EId("k")>>))>>)>>),
   Op("dict", {"dict-iter:direct", "unord"}, FALSE, <<SFor("k", DV, <<Acc(EIdx(DV, EId("k")))>>)>>),
   Op("dict", {"dict-iter:direct", "unord", "loop-count"}, FALSE, <<SFor("k", DV, <<Acc(EInt(1))>>)>>),
   Op("dict", {"dict-iter:direct", "unord", "loop-break"}, FALSE, <<SFor("k", DV, <<Acc(EInt(1)), SBreak>>)>>),
   Op("dict", {"dict-iter:keys", "unord"}, TRUE, <<SFor("k", Keys(DV), <<Acc(EIdx(DV, EId("k")))>>)>>),
   Op("dict", {"dict-iter:keys", "unord"}, TRUE, <<SFor("k", Keys(DV), <<Acc(ECall("len", <<EId("k")>>))>>)>>),
   Op("dict", {"dict-iter:values", "unord"}, TRUE, <<SFor("v", Vals(DV), <<Acc(EId("v"))>>)>>),
   Op("dict", {"dict-len:keys"}, TRUE, <<SPrint(ECall("len", <<Keys(DV)>>))>>),
   Op("dict", {"dict-len:values"}, FALSE, <<SPrint(ECall("len", <<Vals(DV)>>))>>),
   Op("dict", {"dict-iter:direct", "one-entry"}, FALSE, <<OneEntry, SFor("k", E1, <<SPrint(EId("k"))>>)>>),
   Op("dict", {"dict-iter:keys", "one-entry"}, TRUE, <<OneEntry, SFor("k", Keys(E1), <<SPrint(EId("k"))>>)>>),
   Op("dict", {"dict-iter:values", "one-entry"}, FALSE, <<OneEntry, SFor("v", Vals(E1), <<SPrint(EId("v"))>>)>>),
   Op("dict", {"dict-iter:sorted-keys", "unord"}, FALSE, <<SFor("k", ECall("sorted", <<Keys(DV)>>), <<SPrint(EId("k")), SPrint(EIdx(DV, EId("k")))>>)>>),
   Op("dict", {"dict-sum:values", "unord"}, FALSE, <<SPrint(ECall("sum", <<Vals(DV)>>))>>),
   Op("dict", {"dict-comp:keys", "one-entry"}, FALSE,
      <<OneEntry, SAssign("inferred", "ks", "", EComp(EId("k"), "k", Keys(E1), <<>>)), SPrint(EIdx(EId("ks"), EInt(0)))>>),
   Op("dict", {"dict-comp:values", "unord"}, FALSE,
      <<SAssign("inferred", "vs", "", EComp(EBin("*", EId("v"), EInt(2)), "v", Vals(DV), <<>>)), SPrint(ECall("sum", <<EId("vs")>>))>>),
   Op("dict", {"dict-iter:enumerate-keys", "one-entry"}, FALSE, <<OneEntry, SFor("it", EEnum(Keys(E1)), <<SPrint(It0), SPrint(It1)>>)>>)}
MutOps ==
  {Op("mutate", {"mut:dict-new-key"}, TRUE, <<SSetIdx("d", SC, EInt(3))>>),
   Op("mutate", {"mut:dict-old-key"}, TRUE, <<SSetIdx("d", SA, H(EInt(5)))>>),
   Op("mutate", {"mut:append"}, TRUE, <<SExpr(EM(XS, "append", <<H(EInt(4))>>))>>),
   Op("mutate", {"mut:acc"}, TRUE, <<Acc(ECall("len", <<XS>>))>>)}

\* nested loops: the outer loop wraps the inner one; J is what the inner jump tests; the marker i * 10 + J is printed per inner pass
I == EId("i")
Mark(j) == SPrint(EBin("+", EBin("*", I, EInt(10)), j))
Jump(c, kind) == IF kind = "none" THEN <<>> ELSE <<SIf(c, <<IF kind = "break" THEN SBreak ELSE SCont>>)>>
InnerLoop(f, kind) ==
  CASE f = "range" -> <<SFor("j", ERange(<<EInt(2)>>), Jump(EBin("==", EId("j"), EInt(1)), kind) \o <<Mark(EId("j"))>>)>>
    [] f = "rangedep" -> <<SFor("j", ERange(<<I>>), Jump(EBin("==", EId("j"), EInt(1)), kind) \o <<Mark(EId("j"))>>)>>
    [] f = "list" -> <<SFor("x", XS, Jump(EBin("==", EId("x"), EInt(1)), kind) \o <<Mark(EId("x"))>>)>>
    [] f = "enumerate" -> <<SFor("it", EEnum(XS), Jump(EBin("==", It0, EInt(1)), kind) \o <<Mark(It1)>>)>>
    [] f = "while" -> <<SAssign("mut", "j", "", EInt(0)),
                        SWhile(EBin("<", EId("j"), EInt(2)), <<SComp("j", "+", EInt(1))>> \o Jump(EBin("==", EId("j"), EInt(1)), kind) \o <<Mark(EId("j"))>>)>>
OuterLoop(f, body) ==
  CASE f = "range1" -> <<SFor("i", ERange(<<EInt(3)>>), body)>>
    [] f = "range2" -> <<SFor("i", ERange(<<EInt(1), EInt(3)>>), body)>>
    [] f = "range3" -> <<SFor("i", ERange(<<EInt(4), EInt(0), EUn("-", EInt(2))>>), body)>>
    [] f = "while" -> <<SAssign("mut", "i", "", EInt(0)), SWhile(EBin("<", I, EInt(3)), <<SComp("i", "+", EInt(1))>> \o body)>>
NestOps ==
  {Op("nest", {"outer:" \o o, "inner:" \o n, "inner-jump:" \o ji, "outer-jump:" \o jo},
      <<o, n, ji, jo>> \in {<<"range1", "list", "break", "continue">>, <<"while", "range", "continue", "break">>, <<"range3", "while", "none", "none">>,
                             <<"range2", "enumerate", "continue", "none">>},
      OuterLoop(o, InnerLoop(n, ji) \o Jump(EBin("==", I, EInt(2)), jo) \o <<SPrint(I)>>))
     : o \in {"range1", "range2", "range3", "while"}, n \in {"range", "rangedep", "list", "enumerate", "while"},
       ji \in {"none", "break", "continue"}, jo \in {"none", "break", "continue"}}

Mb(k) == ECall("mb", <<EInt(k)>>)
OptOps ==
  {Op("option", {"opt:unwrap_or", IF k > 0 THEN "opt:some" ELSE "opt:none"}, k = 0, <<SPrint(EM(Mb(k), "unwrap_or", <<H(EInt(9))>>))>>) : k \in {3, 0}} \cup
  {Op("option", {"opt:unwrap", IF k > 0 THEN "opt:some" ELSE "opt:none"}, TRUE, <<SPrint(EM(Mb(k), "unwrap", <<>>))>>) : k \in {3, 0}} \cup
  {Op("option", {"opt:is_some", "opt:some"}, FALSE, <<SPrint(EM(Mb(3), "is_some", <<>>))>>),
   Op("option", {"opt:is_none", "opt:none"}, FALSE, <<SPrint(EM(Mb(0), "is_none", <<>>))>>)} \cup
  {Op("option", {"opt:unwrap_or", "opt:unwrap", "opt:variable"}, TRUE,
      <<SAssign("inferred", "o", "", Mb(2)), SPrint(EM(EId("o"), "unwrap_or", <<EInt(5)>>)), SPrint(EM(EId("o"), "unwrap", <<>>))>>),
   Op("option", {"opt:unwrap_or", "opt:some-literal"}, FALSE, <<SPrint(EM(ESome(EInt(3)), "unwrap_or", <<EInt(1)>>))>>),
   Op("option", {"opt:unwrap_or", "opt:in-loop"}, TRUE, <<SFor("x", XS, <<SPrint(EM(ECall("mb", <<EBin("-", EId("x"), EInt(2))>>), "unwrap_or", <<EInt(7)>>))>>)>>),
   Op("option", {"opt:match-in-loop"}, FALSE,
      <<SFor("x", XS, <<SMatch(ECall("mb", <<EBin("-", EId("x"), EInt(2))>>),
                               <<SArm(PC("Some", <<PB("v")>>), <<Acc(EId("v"))>>), SArm(PC("None", <<>>), <<SPrint(EInt(0))>>)>>)>>)>>),
   \* Result.unwrap() (explanation/error_handling.md: "extracts a value from Option/Result, and panics if it is None/Err(...)")
   Op("option", {"res:unwrap", "res:ok"}, FALSE, <<SPrint(EM(ECall("sd", <<EInt(4), EInt(2)>>), "unwrap", <<>>))>>),
   Op("option", {"res:unwrap", "res:err"}, FALSE, <<SPrint(EM(ECall("sd", <<EInt(4), EInt(0)>>), "unwrap", <<>>))>>),
   Op("option", {"opt:unwrap_or", "opt:accumulate"}, TRUE, <<Acc(EM(Mb(4), "unwrap_or", <<EInt(0)>>))>>)} \cup
  {Op("option", {"opt:dict-get", "opt:unwrap_or"}, FALSE, <<SPrint(EM(EM(DV, "get", <<SA>>), "unwrap_or", <<EInt(0)>>)), SPrint(EM(EM(DV, "get", <<SC>>), "unwrap_or", <<EInt(0)>>))>>)}

\* a Result-valued call, shown by a statement match (the documented way to look at a Result)
Show(call) == <<SMatch(call, <<SArm(PC("Ok", <<PB("v")>>), <<SPrint(EId("v"))>>), SArm(PC("Err", <<PB("m")>>), <<SPrint(EId("m"))>>)>>)>>
IL(ns) == EList([i \in 1..Len(ns) |-> IF ns[i] < 0 THEN EUn("-", EInt(-ns[i])) ELSE EInt(ns[i])])
TryOps ==
  {Op("try", {"try:in-for"}, ns = <<1, 0, 3>>, Show(ECall("tot_for", <<IL(ns)>>))) : ns \in {<<1, 2, 3>>, <<1, 0, 3>>, <<0>>, <<4>>}} \cup
  {Op("try", {"try:in-for", "arg:variable"}, TRUE, Show(ECall("tot_for", <<XS>>)))} \cup
  {Op("try", {"try:in-while"}, n = 2, Show(ECall("tot_while", <<IF n < 0 THEN EUn("-", EInt(-n)) ELSE EInt(n)>>))) : n \in {2, -1}} \cup
  {Op("try", {"try:in-nested-for"}, ns = <<2, 0>>, Show(ECall("tot_nest", <<IL(ns)>>))) : ns \in {<<1, 2>>, <<2, 0>>}} \cup
  {Op("try", {"try:in-match-expr-arm"}, k = 0, Show(ECall("pick", <<EInt(k)>>))) : k \in {0, 1, 2}} \cup
  {Op("try", {"try:in-match-stmt-arm"}, k = 1, Show(ECall("picks", <<EInt(k)>>))) : k \in {0, 1, 2}} \cup
  {Op("try", {"return:nested-for"}, t = 12, <<SPrint(ECall("find", <<EList(<<EInt(1), EInt(2)>>), EInt(t)>>))>>) : t \in {12, 99, 1}} \cup
  {Op("try", {"return:nested-for", "arg:variable"}, FALSE, <<SPrint(ECall("find", <<XS, EInt(21)>>))>>)} \cup
  {Op("try", {"return:for-in-while"}, t = 2, <<SPrint(ECall("findw", <<EInt(t)>>))>>) : t \in {2, 7, 0}} \cup
  {Op("try", {"return:range-in-enumerate"}, FALSE, <<SPrint(ECall("finde", <<XS, EInt(t)>>))>>) : t \in {3, 99}}
\* range with 1 / 2 / 3 arguments (negative step, empty, effectful arguments, the documented zero-step error) as a loop and as a
\* comprehension source (the nest family walks the loop forms)
Neg(n) == EUn("-", EInt(n))
RangeArgs == [one |-> <<EInt(3)>>, two |-> <<EInt(1), EInt(3)>>, three |-> <<EInt(1), EInt(6), EInt(2)>>, down |-> <<EInt(4), EInt(0), Neg(2)>>,
              empty |-> <<EInt(3), EInt(1)>>, downempty |-> <<EInt(1), EInt(3), Neg(1)>>, negstart |-> <<Neg(2), EInt(1)>>,
              effects |-> <<H(EInt(0)), H(EInt(3)), H(EInt(1))>>, zerostep |-> <<EInt(0), EInt(5), EInt(0)>>]
RangeNames == {"one", "two", "three", "down", "empty", "downempty", "negstart", "effects", "zerostep"}
RangeOps ==
  {Op("range", {"range-args:" \o a, "range-in:for"}, a \in {"down", "effects"}, <<SFor("i", ERange(RangeArgs[a]), <<SPrint(EId("i"))>>)>>) : a \in RangeNames} \cup
  {Op("range", {"range-args:" \o a, "range-in:comprehension"}, FALSE,
      <<SAssign("inferred", "rs", "", EComp(EBin("*", EId("i"), EInt(2)), "i", ERange(RangeArgs[a]), <<>>)), SPrint(ECall("len", <<EId("rs")>>)), SFor("r", EId("rs"), <<SPrint(EId("r"))>>)>>)
     : a \in RangeNames \ {"effects"}}
RecOps ==
  {Op("rec", {"rec:fact"}, n = 5, <<SPrint(ECall("fact", <<EInt(n)>>))>>) : n \in {0, 1, 5}} \cup
  {Op("rec", {"rec:fib"}, n = 6, <<SPrint(ECall("fib", <<EInt(n)>>))>>) : n \in {0, 1, 6}} \cup
  {Op("rec", {"rec:mutual"}, TRUE, <<SPrint(ECall("even", <<EInt(3)>>))>>), Op("rec", {"rec:mutual"}, FALSE, <<SPrint(ECall("odd", <<EInt(4)>>))>>)}
SetOps ==
  {Op("set", {"set:len"}, TRUE, <<SPrint(ECall("len", <<UV>>))>>),
   Op("set", {"set:contains"}, TRUE, <<SPrint(EM(UV, "contains", <<EInt(3)>>))>>),
   Op("set", {"set:iterate", "unord"}, TRUE, <<SFor("x", UV, <<Acc(EId("x"))>>)>>),
   Op("set", {"set:iterate", "unord", "loop-continue"}, FALSE, <<SFor("x", UV, <<SIf(EBin("==", EId("x"), EInt(2)), <<SCont>>), Acc(EId("x"))>>)>>),
   Op("set", {"set:literal-duplicates", "set:iterate"}, TRUE,
      <<SAssign("inferred", "s1", "", ESet(<<EInt(7), EInt(7)>>)), SPrint(ECall("len", <<EId("s1")>>)), SFor("x", EId("s1"), <<SPrint(EId("x"))>>)>>),
   Op("set", {"set:literal-effects"}, FALSE, <<SAssign("inferred", "s2", "", ESet(<<H(EInt(1)), H(EInt(1)), H(EInt(2))>>)), SPrint(ECall("len", <<EId("s2")>>))>>),
   Op("set", {"set:of-strs"}, FALSE,
      <<SAssign("inferred", "t1", "", ESet(<<SA, SB, SA>>)), SPrint(ECall("len", <<EId("t1")>>)), SPrint(EBin("in", SB, EId("t1"))), SPrint(EBin("not in", SC, EId("t1")))>>),
   Op("set", {"set:from-list", "set-src:variable"}, FALSE,
      <<SAssign("inferred", "v1", "", ECall("set", <<XS>>)), SPrint(ECall("len", <<EId("v1")>>)), SPrint(EBin("in", EInt(3), EId("v1")))>>),
   Op("set", {"set:from-list", "set-src:strs"}, FALSE, <<SAssign("inferred", "v2", "", ECall("set", <<WS>>)), SPrint(EBin("in", SA, EId("v2")))>>),
   Op("set", {"set:from-list", "set-src:literal"}, FALSE,
      <<SAssign("inferred", "v3", "", ECall("set", <<EList(<<EInt(1), EInt(1), EInt(2)>>)>>)), SPrint(ECall("len", <<EId("v3")>>))>>)} \cup
  {Op("set", {"set:" \o o}, (o = "in" /\ k = 2) \/ (o = "not in" /\ k = 5), <<SPrint(EBin(o, EInt(k), UV))>>) : o \in {"in", "not in"}, k \in {2, 5}}
MemberOps ==
  {Op("member", {"member:dict:" \o o}, o = "in" /\ kk = SA, <<SPrint(EBin(o, kk, DV))>>) : o \in {"in", "not in"}, kk \in {SA, SC}} \cup
  {Op("member", {"member:list:" \o o}, o = "not in" /\ k = 9, <<SPrint(EBin(o, EInt(k), XS))>>) : o \in {"in", "not in"}, k \in {2, 9}} \cup
  {Op("member", {"member:strs:" \o o}, FALSE, <<SPrint(EBin(o, kk, WS))>>) : o \in {"in", "not in"}, kk \in {SA, SC}} \cup
  {Op("member", {"member:list:" \o o, "member:effects"}, FALSE, <<SPrint(EBin(o, H(EInt(1)), ECall("mk", <<EInt(2)>>)))>>) : o \in {"in", "not in"}} \cup
  {Op("member", {"member:str:" \o o}, FALSE, <<SPrint(EBin(o, kk, EStr(<<"a", "b", "c">>)))>>) : o \in {"in", "not in"}, kk \in {EStr(<<"b", "c">>), EStr(<<"c", "b">>)}}
Txt(s) == EStr(s)
ConvOps ==
  {Op("conv", {"conv:int", "conv-ok"}, s \in {<<"4", "2">>, <<"da", "7">>}, <<SPrint(EBin("+", ECall("int", <<Txt(s)>>), EInt(1)))>>) : s \in {<<"4", "2">>, <<"da", "7">>, <<"0", "0", "7">>, <<"da", "0">>}} \cup
  {Op("conv", {"conv:int", "conv-error"}, s = <<"a", "b", "c">>, <<SPrint(ECall("int", <<Txt(s)>>))>>) : s \in {<<"a", "b", "c">>, <<"1", "2", "a">>, <<>>, <<"da">>, <<"2", "dt", "5">>}} \cup
  {Op("conv", {"conv:int", "conv-ok", "arg:variable"}, TRUE, <<SAssign("inferred", "sv", "", Txt(<<"1", "2">>)), SPrint(EBin("*", ECall("int", <<EId("sv")>>), EInt(2))), SPrint(ECall("len", <<EId("sv")>>))>>)} \cup
  {Op("conv", {"conv:str", "conv-arg:" \o a[1]}, a[1] = "literal", <<SPrint(ECall("str", <<a[2]>>))>>)
     : a \in {<<"literal", EInt(12)>>, <<"negative-literal", EUn("-", EInt(3))>>, <<"call", ECall("len", <<XS>>)>>, <<"index", EIdx(XS, EInt(0))>>, <<"binary", EBin("-", EInt(2), EInt(5))>>}} \cup
  {Op("conv", {"conv:str", "conv-use:len"}, FALSE, <<SPrint(ECall("len", <<ECall("str", <<EInt(100)>>)>>))>>),
   Op("conv", {"conv:str", "conv-use:fstr"}, FALSE, <<SPrint(EFStr(<<FS(<<"a">>), FE(ECall("str", <<EInt(5)>>)), FS(<<"b">>)>>))>>)} \cup
  {Op("conv", {"conv:float", "conv-ok", "conv-arg:str"}, s = <<"2", "dt", "5">>, <<SPrint(ECall("float", <<Txt(s)>>))>>) : s \in {<<"2", "dt", "5">>, <<"7">>, <<"da", "0", "dt", "5">>, <<"0", "dt", "1", "2", "5">>}} \cup
  {Op("conv", {"conv:float", "conv-ok", "conv-arg:int"}, FALSE, <<SPrint(EBin("/", ECall("float", <<EInt(3)>>), EInt(2)))>>),
   Op("conv", {"conv:float", "conv-ok", "conv-arg:str", "conv-use:arith"}, FALSE, <<SPrint(EBin("+", ECall("float", <<Txt(<<"2", "dt", "5">>)>>), EInt(1)))>>)} \cup
  {Op("conv", {"conv:float", "conv-error"}, FALSE, <<SPrint(ECall("float", <<Txt(s)>>))>>) : s \in {<<"a", "b", "c">>, <<"1", "dt", "2", "dt", "3">>, <<>>}}

Menu == RangeOps \cup EnumOps \cup ZipOps \cup UnpackOps \cup DictOps \cup MutOps \cup NestOps \cup OptOps \cup TryOps \cup RecOps \cup SetOps \cup MemberOps \cup ConvOps
SeqMenu == {op \in Menu : op.seq}

CONSTANTS MaxOps,      \* longest operation sequence
          SeqOnly      \* TRUE: every operation is drawn from SeqMenu and a program has at least 3 of them (simulation of longer
                       \* sequences); FALSE: the first one from the whole Menu
VARIABLES ops, phase
vars == <<ops, phase>>
Init == ops = <<>> /\ phase = "build"
\* names an operation binds in the scope of main (an immutable binding cannot be bound twice in one scope)
Defs(op) == {op.ss[i].name : i \in {j \in 1..Len(op.ss) : op.ss[j].k = "assign"}}
            \cup UNION {{op.ss[i].names[1], op.ss[i].names[2]} : i \in {j \in 1..Len(op.ss) : op.ss[j].k = "unpack"}}
Add == /\ phase = "build" /\ Len(ops) < MaxOps
       /\ \E op \in (IF ops = <<>> /\ ~SeqOnly THEN Menu ELSE SeqMenu) :
            /\ (IF ops = <<>> THEN TRUE ELSE ops[1].seq)
            /\ \A i \in 1..Len(ops) : Defs(op) \cap Defs(ops[i]) = {}
            /\ ops' = Append(ops, op)
       /\ UNCHANGED phase
Finish == phase = "build" /\ ops # <<>> /\ (SeqOnly => Len(ops) >= 3) /\ phase' = "done" /\ UNCHANGED ops
Next == Add \/ Finish

RECURSIVE Flat(_)
Flat(os) == IF os = <<>> THEN <<>> ELSE os[1].ss \o Flat(Tail(os))
Body == Prelude \o Flat(ops) \o Dump
ProgOrd(o) == [consts |-> <<>>, fns |-> Append(Fns, Fn("main", <<>>, "none", Body)), ord |-> o]
Prog == ProgOrd("fwd")
Res == Run(Prog)
Tags == UNION {ops[i].tags : i \in 1..Len(ops)}
\* every generated program is well-typed by Core's static rules
AllAccepted == phase = "done" => Accept(Prog)
\* an accepted program never gets stuck: it finishes or ends in a documented error
Stuck == {"UNSPECIFIED: unknown expression kind", "UNSPECIFIED: unknown statement kind", "UNSPECIFIED: no arm matched"}
Sound == (phase = "done" /\ Accept(Prog)) => (Res.status \in {"done", "error"} /\ Res.err \notin Stuck)
\* the iteration order of dicts and sets is not promised: the behaviour must not depend on it
OrderFree == (phase = "done" /\ "unord" \in Tags) => (Run(ProgOrd("rev")) = Res /\ Run(ProgOrd("rot")) = Res)
ASSUME PrintT(<<"DECLS", ToJson([fns |-> Fns])>>)
Emit == (phase = "done" /\ Specified(Res)) =>
          PrintT(<<"CASE", ToJson([body |-> Body, out |-> Res.out, status |-> Res.status, err |-> Res.err,
                                   feats |-> Tags, nops |-> Len(ops)])>>)
=============================================================================
