------------------------------- MODULE Layout -------------------------------
(* Layout algorithm of the Incan lexer over character classes: a transcription of
     crates/incan_syntax/src/lexer/mod.rs   scan_token / tokenize (INDENT/DEDENT/NEWLINE, brackets, comments, CR)
     crates/incan_syntax/src/lexer/indent.rs handle_indentation
   written as a step function on a state record, so that the same ScanToken serves as
   `Lex(t)` (fold; model-level theorem and B1 oracle), as a state machine (per-branch coverage)
   and for trace validation (LayoutTrace).
   Classes: sp, tab, cr, lf, hash (#), open/close (any bracket), a (any other token character;
   each `a` is one token - rendered as a comma, which never merges with a neighbour). *)
EXTENDS Integers, Sequences, FiniteSets

Cls == {"sp", "tab", "cr", "lf", "hash", "open", "close", "a"}

Last(s) == s[Len(s)]
Front(s) == SubSeq(s, 1, Len(s) - 1)

\* i: next char (1-based); stack: indent stack; pend: pending dedents; als: at_line_start;
\* depth: bracket depth; toks: emitted token classes; err: an error was recorded
InitSt == [i |-> 1, stack |-> <<0>>, pend |-> 0, als |-> TRUE, depth |-> 0, toks |-> <<>>, err |-> FALSE]

AtEnd(t, st) == st.i > Len(t)
Peek(t, st) == IF AtEnd(t, st) THEN "eof" ELSE t[st.i]

RECURSIVE SkipComment(_, _)      \* to (not past) the next lf
SkipComment(t, i) == IF i > Len(t) \/ t[i] = "lf" THEN i ELSE SkipComment(t, i + 1)
RECURSIVE SkipWs(_, _)
SkipWs(t, i) == IF i <= Len(t) /\ t[i] \in {"sp", "tab"} THEN SkipWs(t, i + 1) ELSE i

\* number of stack levels strictly greater than indent, counted from the top
RECURSIVE CountAbove(_, _)
CountAbove(stack, indent) == IF stack = <<>> \/ indent >= Last(stack) THEN 0 ELSE 1 + CountAbove(Front(stack), indent)
RECURSIVE PopAbove(_, _)
PopAbove(stack, indent) == IF indent >= Last(stack) THEN stack
                           ELSE IF Len(stack) = 1 THEN <<0>> ELSE PopAbove(Front(stack), indent)

\* handle_indentation (one call)
RECURSIVE Indentation(_, _, _)
Indentation(t, st, indent) ==
  LET c == Peek(t, st) IN
  IF c = "sp"  THEN Indentation(t, [st EXCEPT !.i = @ + 1], indent + 1)
  ELSE IF c = "tab" THEN Indentation(t, [st EXCEPT !.i = @ + 1], indent + 4)
  ELSE IF c = "cr"  THEN Indentation(t, [st EXCEPT !.i = @ + 1], indent)
  ELSE IF c = "hash" THEN LET j == SkipComment(t, st.i) IN
                          [st EXCEPT !.i = IF j <= Len(t) THEN j + 1 ELSE j]       \* comment line: stay at line start
  ELSE IF c = "lf" THEN [st EXCEPT !.i = @ + 1]                                    \* blank line: stay at line start
  ELSE IF c = "eof" THEN [st EXCEPT !.als = FALSE]
  ELSE LET cur == Last(st.stack) IN
       IF indent > cur THEN [st EXCEPT !.stack = Append(@, indent), !.toks = Append(@, "INDENT"), !.als = FALSE]
       ELSE IF indent < cur THEN
            LET n == CountAbove(st.stack, indent)
                ns == PopAbove(st.stack, indent) IN
            [st EXCEPT !.stack = ns, !.err = @ \/ (indent # Last(ns)),
                       !.toks = IF n > 0 THEN Append(@, "DEDENT") ELSE @,
                       !.pend = IF n > 1 THEN n - 1 ELSE 0, !.als = FALSE]
       ELSE [st EXCEPT !.als = FALSE]

\* scan_token (one call)
ScanToken(t, st) ==
  IF st.pend > 0 THEN [st EXCEPT !.pend = @ - 1, !.toks = Append(@, "DEDENT")]
  ELSE IF st.als THEN Indentation(t, st, 0)
  ELSE LET j == SkipWs(t, st.i) IN
       IF j > Len(t) THEN [st EXCEPT !.i = j]
       ELSE LET c == t[j]  s1 == [st EXCEPT !.i = j + 1] IN
            CASE c = "hash"  -> [s1 EXCEPT !.i = SkipComment(t, j + 1)]
              [] c = "lf"    -> IF st.depth > 0 THEN s1
                                ELSE [s1 EXCEPT !.toks = Append(@, "NEWLINE"), !.als = TRUE]
              [] c = "cr"    -> s1
              [] c = "open"  -> [s1 EXCEPT !.depth = @ + 1, !.toks = Append(@, "OPEN")]
              [] c = "close" -> [s1 EXCEPT !.depth = IF @ = 0 THEN 0 ELSE @ - 1, !.err = @ \/ (st.depth = 0),
                                           !.toks = Append(@, "CLOSE")]
              [] OTHER       -> [s1 EXCEPT !.toks = Append(@, "ATOM")]

\* tokenize: loop until the input is consumed, then flush dedents and EOF
RECURSIVE Flush(_)
Flush(st) == IF Len(st.stack) > 1 THEN Flush([st EXCEPT !.stack = Front(@), !.toks = Append(@, "DEDENT")])
             ELSE [st EXCEPT !.toks = Append(@, "EOF")]
RECURSIVE Loop(_, _)
Loop(t, st) == IF AtEnd(t, st) THEN Flush(st) ELSE Loop(t, ScanToken(t, st))

Lex(t) == LET r == Loop(t, InitSt) IN [toks |-> r.toks, err |-> r.err]

\* The parser's view of the stream: a NEWLINE directly before DEDENT / EOF / NEWLINE is
\* immaterial (statement and block parsers skip newlines; the final NEWLINE is optional).
RECURSIVE Norm(_)
Norm(ts) == IF Len(ts) <= 1 THEN ts
            ELSE IF ts[1] = "NEWLINE" /\ ts[2] \in {"DEDENT", "EOF", "NEWLINE"} THEN Norm(Tail(ts))
            ELSE <<ts[1]>> \o Norm(Tail(ts))

\* ---------------------------------------------------------------- meaning-preserving edits (class level)
Ins(s, k, x) == SubSeq(s, 1, k) \o x \o SubSeq(s, k + 1, Len(s))
LineStarts(s) == {1} \cup {k + 1 : k \in {j \in 1..Len(s) : s[j] = "lf"}}
Lfs(s) == {j \in 1..Len(s) : s[j] = "lf"}

Edits(s) ==
     {Ins(s, k - 1, <<"hash", "a", "lf">>) : k \in LineStarts(s)}                 \* comment line at column 0
  \cup {Ins(s, k - 1, <<"sp", "sp", "hash", "lf">>) : k \in LineStarts(s)}       \* indented comment line
  \cup {Ins(s, k - 1, <<"tab", "hash", "open", "lf">>) : k \in LineStarts(s)}    \* comment containing a bracket
  \cup {Ins(s, k - 1, <<"lf">>) : k \in LineStarts(s)}                          \* blank line
  \cup {Ins(s, k - 1, <<"sp", "tab", "lf">>) : k \in LineStarts(s)}             \* whitespace-only line
  \cup {Ins(s, k - 1, <<"sp">>) : k \in Lfs(s)}                                  \* trailing blank
  \cup {Ins(s, k - 1, <<"sp", "hash", "a">>) : k \in Lfs(s)}                     \* trailing comment
  \cup {Ins(s, k - 1, <<"cr">>) : k \in Lfs(s)}                                  \* CRLF on one line
  \cup (IF s # <<>> /\ Last(s) \notin {"lf", "hash"} THEN {Append(s, "lf")} ELSE {})   \* final newline

\* edits are judged only on texts whose own comments cannot swallow the insertion point
InComment(s, k) == \E h \in 1..k : s[h] = "hash" /\ \A m \in h..k : s[m] # "lf"
=============================================================================
