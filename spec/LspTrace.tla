------------------------------ MODULE LspTrace ------------------------------
(* B2: validate executions recorded from the real language server against Lsp.
   The ndjson file named by TRACE holds, per line, one harness step with what was observed
   afterwards:
     {a:"reset"}                                               a new run starts (fresh server)
     {a:"send", h, kind, doc, ver, cls}
     {a:"start"|"step"|"resume", h, pcs:[..], locked, store:{doc:{ver,tv,ast}}, pub:{doc:[[ver,from]..]}}
     {a:"end"}                                                 the run ended: must be quiescent + Converged
   Each event must be explained by the corresponding action(s) of Lsp for handler h, and the
   projected real state must equal the specification's state after it. A poll that made no
   progress (handler still blocked inside the lock acquisition) is a stuttering step, accepted
   only if the specification also has that handler blocked. All invariants of Lsp are evaluated
   in every state of the trace. *)
EXTENDS Lsp, Json, IOUtils
Rec == ndJsonDeserialize(IOEnv.TRACE)
VARIABLE l
tvars == <<hs, lock, store, pub, latest, sentVer, closed, removed, l>>

E == Rec[l]
\* the harness reports a handler that is blocked inside a lock acquisition as "unknown"
PcName(pc) == IF pc \in {"waitR", "waitW", "cwaitW"} THEN "unknown" ELSE pc
ObsMatches(e) ==
  /\ e.pcs = [i \in DOMAIN hs' |-> PcName(hs'[i].pc)]
  \* try_read fails exactly while a writer holds the map or a request is queued (fair lock)
  /\ e.locked = (lock'.writer # 0 \/ lock'.q # <<>>)
  /\ (e.locked \/ \A u \in Docs : e.store[u] = store'[u])
  /\ \A u \in Docs : e.pub[u] = [k \in 1..Len(pub'[u]) |-> <<pub'[u][k].ver, pub'[u][k].from>>]

TReset == /\ E.a = "reset"
          /\ hs' = <<>> /\ lock' = [readers |-> {}, writer |-> 0, q |-> <<>>]
          /\ store' = [u \in Docs |-> NoDoc] /\ pub' = [u \in Docs |-> <<>>]
          /\ latest' = [u \in Docs |-> 0] /\ sentVer' = [u \in Docs |-> 0]
          /\ closed' = [u \in Docs |-> FALSE] /\ removed' = [u \in Docs |-> FALSE]
TSend == /\ E.a = "send"
         /\ ClientSend(E.doc)
         /\ LET m == hs'[Len(hs')] IN m.kind = E.kind /\ m.ver = E.ver /\ m.cls = E.cls /\ Len(hs') = E.h
TStart == E.a = "start" /\ Start(E.h) /\ ObsMatches(E)
TStep == /\ E.a = "step"
         /\ (AcqRead(E.h) \/ DepPublish(E.h) \/ AcqWrite(E.h) \/ Publish(E.h) \/ CloseAcqWrite(E.h) \/ ClosePublish(E.h))
         /\ ObsMatches(E)
TResume == /\ E.a = "resume"
           /\ \/ (ResumeRead(E.h) \/ ResumeWrite(E.h) \/ CloseResumeWrite(E.h))
              \/ /\ E.h \in Ids
                 /\ \/ hs[E.h].pc = "waitR" /\ E.h \notin lock.readers
                    \/ hs[E.h].pc \in {"waitW", "cwaitW"} /\ lock.writer # E.h
                 /\ UNCHANGED vars
           /\ ObsMatches(E)
TEnd == E.a = "end" /\ Quiescent /\ UNCHANGED vars

TInit == Init /\ l = 1
TNext == l <= Len(Rec) /\ l' = l + 1 /\ (TReset \/ TSend \/ TStart \/ TStep \/ TResume \/ TEnd)
TSpec == TInit /\ [][TNext]_tvars

Accepted == IF TLCGet("stats").diameter - 1 = Len(Rec) THEN TRUE
            ELSE PrintT(<<"REJECT", ToJson([at |-> TLCGet("stats").diameter, ev |-> Rec[TLCGet("stats").diameter]])>>) /\ FALSE
=============================================================================
