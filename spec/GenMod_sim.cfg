CONSTANT Universes = {"data", "obj"}
CONSTANT Negatives = TRUE
CONSTANT LayoutSel = {"flat", "child", "nested-siblings", "cousins"}
CONSTANT IStyles = {"from", "mod", "mixed"}
INIT Init
NEXT Next
INVARIANTS ResolvesRight PubExactly PositiveLinks NegativeBreaks Emit
CHECK_DEADLOCK FALSE
