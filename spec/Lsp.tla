-------------------------------- MODULE Lsp --------------------------------
(* The language server's document store (src/lsp/backend.rs) under concurrency.

   tower-lsp turns every client notification into a handler future, starts them in arrival
   order and runs up to MaxConc of them concurrently; a handler can be suspended at every
   `.await`. One action of this module = one code segment between two awaits, i.e. exactly what
   one poll of the real handler future executes when the cfg(incan_verif) yield points (placed
   immediately before each real .await) are scheduler-controlled:

     did_open / did_change -> announce(latest) ; analyze_document:
        Start      lex, parse (synchronous)                        -> Y1 (ok text) | Y3 (text that
                                                                      does not lex/parse)
        Y1         documents.read().await  [may queue: waitR]      -> Y2 (has dependency) | Y3
        Y2         dependency publish while HOLDING the read guard;
                   guard dropped, typecheck                        -> Y3
        Y3         documents.write().await [may queue: waitW];
                   store unless stale; guard dropped; stale test   -> Y4 | done
        Y4         publish diagnostics                             -> done
     did_close -> announce(closed):
        Start                                                      -> Yc1
        Yc1        documents.write().await [may queue]; remove     -> Yc2 (write guard HELD)
        Yc2        publish the clearing diagnostics; guard dropped -> done

   tokio's RwLock is a fair FIFO queue of permit requests: a queued writer blocks later readers.

   Guarded = TRUE is the code as it is now (fix 59b9fc5: announce on entry, store on every path,
   store/publish only while still the latest announced version). Guarded = FALSE is the code as
   originally written (unconditional store, nothing stored when the text does not lex/parse),
   kept as a regression model: TLC must find the counterexamples there. *)
EXTENDS Integers, Sequences, FiniteSets, TLC

CONSTANTS Docs,        \* set of document ids
          MaxVer,      \* highest version the client sends per document
          Classes,     \* subset of {"ok", "bad"}: does the text lex+parse
          DepDocs,     \* documents whose text imports a dependency (dependency publish under the read guard)
          AllowClose,  \* client may close documents
          Guarded,     \* TRUE: current code; FALSE: as originally written
          MaxConc,     \* framework concurrency (4)
          MaxMsgs      \* bound on the total number of client notifications

NoDoc == [ver |-> 0, tv |-> 0, ast |-> FALSE]

VARIABLES
  hs,        \* Seq of handlers in arrival order: [kind, uri, ver, cls, pc]
  lock,      \* [readers : SUBSET ids, writer : id or 0, q : Seq([id, mode])]
  store,     \* Docs -> NoDoc or [ver, tv (which version's text), ast]
  pub,       \* Docs -> Seq of [ver, from]  (ver 0 = the version-less clearing publish of close)
  latest,    \* Docs -> latest announced version, 0 = none/closed   (Guarded only)
  sentVer,   \* Docs -> last version the client sent
  closed,    \* Docs -> client has sent close
  removed    \* ghost: Docs -> the close handler has removed the document

vars == <<hs, lock, store, pub, latest, sentVer, closed, removed>>

Ids == DOMAIN hs
Started(i) == hs[i].pc # "new"
Running == {i \in Ids : hs[i].pc \notin {"new", "done"}}

Init == /\ hs = <<>>
        /\ lock = [readers |-> {}, writer |-> 0, q |-> <<>>]
        /\ store = [u \in Docs |-> NoDoc]
        /\ pub = [u \in Docs |-> <<>>]
        /\ latest = [u \in Docs |-> 0]
        /\ sentVer = [u \in Docs |-> 0]
        /\ closed = [u \in Docs |-> FALSE]
        /\ removed = [u \in Docs |-> FALSE]

\* ---------------------------------------------------------------- client + framework
ClientSend(u) ==
  /\ Len(hs) < MaxMsgs /\ ~closed[u]
  /\ \/ /\ sentVer[u] < MaxVer
        /\ \E c \in Classes :
             hs' = Append(hs, [kind |-> IF sentVer[u] = 0 THEN "open" ELSE "change", uri |-> u,
                               ver |-> sentVer[u] + 1, cls |-> c, pc |-> "new"])
        /\ sentVer' = [sentVer EXCEPT ![u] = @ + 1]
        /\ UNCHANGED closed
     \/ /\ AllowClose /\ sentVer[u] > 0
        /\ hs' = Append(hs, [kind |-> "close", uri |-> u, ver |-> 0, cls |-> "none", pc |-> "new"])
        /\ closed' = [closed EXCEPT ![u] = TRUE]
        /\ UNCHANGED sentVer
  /\ UNCHANGED <<lock, store, pub, latest, removed>>

\* first poll of handler i: handlers are first polled in arrival order, at most MaxConc run
Start(i) ==
  /\ i \in Ids /\ hs[i].pc = "new"
  /\ \A j \in 1..(i - 1) : Started(j)
  /\ Cardinality(Running) < MaxConc
  /\ LET h == hs[i] IN
     /\ latest' = IF ~Guarded THEN latest
                  ELSE [latest EXCEPT ![h.uri] = IF h.kind = "close" THEN 0 ELSE h.ver]
     /\ hs' = [hs EXCEPT ![i].pc = IF h.kind = "close" THEN "Yc1"
                                   ELSE IF h.cls = "bad" THEN (IF Guarded THEN "Y3" ELSE "YE4")
                                   ELSE "Y1"]
  /\ UNCHANGED <<lock, store, pub, sentVer, closed, removed>>

\* ---------------------------------------------------------------- tokio RwLock (fair FIFO)
CanRead(l)  == l.writer = 0 /\ l.q = <<>>
CanWrite(l) == l.writer = 0 /\ l.readers = {} /\ l.q = <<>>

RECURSIVE Grant(_)
Grant(l) ==
  IF l.q = <<>> THEN l
  ELSE LET h == Head(l.q) IN
       IF h.mode = "r" /\ l.writer = 0
         THEN Grant([l EXCEPT !.readers = @ \cup {h.id}, !.q = Tail(@)])
       ELSE IF h.mode = "w" /\ l.writer = 0 /\ l.readers = {}
         THEN [l EXCEPT !.writer = h.id, !.q = Tail(@)]
       ELSE l
RelRead(l, i) == Grant([l EXCEPT !.readers = @ \ {i}])
RelWrite(l)   == Grant([l EXCEPT !.writer = 0])

\* ---------------------------------------------------------------- analyze_document
Stale(i) == Guarded /\ latest[hs[i].uri] # hs[i].ver

\* code after the read guard has been obtained (lockNow = lock with i among the readers)
AfterReadAcquired(i, lockNow) ==
  IF hs[i].uri \in DepDocs
    THEN /\ lock' = lockNow /\ hs' = [hs EXCEPT ![i].pc = "Y2"]                 \* guard held across the await
    ELSE /\ lock' = RelRead(lockNow, i) /\ hs' = [hs EXCEPT ![i].pc = "Y3"]   \* no await inside: guard dropped

AcqRead(i) ==       \* at Y1: documents.read().await
  /\ hs[i].pc = "Y1"
  /\ IF CanRead(lock)
       THEN AfterReadAcquired(i, [lock EXCEPT !.readers = @ \cup {i}])
       ELSE /\ lock' = [lock EXCEPT !.q = Append(@, [id |-> i, mode |-> "r"])]
            /\ hs' = [hs EXCEPT ![i].pc = "waitR"]
  /\ UNCHANGED <<store, pub, latest, sentVer, closed, removed>>

ResumeRead(i) ==    \* the queue has granted the read permit
  /\ hs[i].pc = "waitR" /\ i \in lock.readers
  /\ AfterReadAcquired(i, lock)
  /\ UNCHANGED <<store, pub, latest, sentVer, closed, removed>>

DepPublish(i) ==    \* at Y2: publish for the dependency, then drop the read guard and typecheck
  /\ hs[i].pc = "Y2"
  /\ lock' = RelRead(lock, i)
  /\ hs' = [hs EXCEPT ![i].pc = "Y3"]
  /\ UNCHANGED <<store, pub, latest, sentVer, closed, removed>>

\* code after the write guard has been obtained: store (unless stale), drop the guard, stale test
StoreAndRelease(i, lockNow) ==
  LET h == hs[i] IN
  /\ store' = IF Stale(i) THEN store
              ELSE [store EXCEPT ![h.uri] = [ver |-> h.ver, tv |-> h.ver, ast |-> (h.cls = "ok")]]
  /\ lock' = RelWrite(lockNow)
  /\ hs' = [hs EXCEPT ![i].pc = IF Stale(i) THEN "done" ELSE "Y4"]

AcqWrite(i) ==      \* at Y3: documents.write().await
  /\ hs[i].pc = "Y3"
  /\ IF CanWrite(lock)
       THEN StoreAndRelease(i, [lock EXCEPT !.writer = i])
       ELSE /\ lock' = [lock EXCEPT !.q = Append(@, [id |-> i, mode |-> "w"])]
            /\ hs' = [hs EXCEPT ![i].pc = "waitW"]
            /\ UNCHANGED store
  /\ UNCHANGED <<pub, latest, sentVer, closed, removed>>

ResumeWrite(i) ==
  /\ hs[i].pc = "waitW" /\ lock.writer = i
  /\ StoreAndRelease(i, lock)
  /\ UNCHANGED <<pub, latest, sentVer, closed, removed>>

Publish(i) ==       \* at Y4 (or YE4: the error-path publish of the original code, which stored nothing)
  /\ hs[i].pc \in {"Y4", "YE4"}
  /\ pub' = [pub EXCEPT ![hs[i].uri] = Append(@, [ver |-> hs[i].ver, from |-> hs[i].ver])]
  /\ hs' = [hs EXCEPT ![i].pc = "done"]
  /\ UNCHANGED <<lock, store, latest, sentVer, closed, removed>>

\* ---------------------------------------------------------------- did_close
RemoveHolding(i, lockNow) ==
  /\ store' = [store EXCEPT ![hs[i].uri] = NoDoc]
  /\ removed' = [removed EXCEPT ![hs[i].uri] = TRUE]
  /\ lock' = lockNow                                \* write guard stays held across the publish await
  /\ hs' = [hs EXCEPT ![i].pc = "Yc2"]

CloseAcqWrite(i) == \* at Yc1
  /\ hs[i].pc = "Yc1"
  /\ IF CanWrite(lock)
       THEN RemoveHolding(i, [lock EXCEPT !.writer = i])
       ELSE /\ lock' = [lock EXCEPT !.q = Append(@, [id |-> i, mode |-> "w"])]
            /\ hs' = [hs EXCEPT ![i].pc = "cwaitW"]
            /\ UNCHANGED <<store, removed>>
  /\ UNCHANGED <<pub, latest, sentVer, closed>>

CloseResumeWrite(i) ==
  /\ hs[i].pc = "cwaitW" /\ lock.writer = i
  /\ RemoveHolding(i, lock)
  /\ UNCHANGED <<pub, latest, sentVer, closed>>

ClosePublish(i) ==  \* at Yc2
  /\ hs[i].pc = "Yc2"
  /\ pub' = [pub EXCEPT ![hs[i].uri] = Append(@, [ver |-> 0, from |-> 0])]
  /\ lock' = RelWrite(lock)
  /\ hs' = [hs EXCEPT ![i].pc = "done"]
  /\ UNCHANGED <<store, latest, sentVer, closed, removed>>

Step(i) == \/ Start(i) \/ AcqRead(i) \/ ResumeRead(i) \/ DepPublish(i) \/ AcqWrite(i) \/ ResumeWrite(i)
           \/ Publish(i) \/ CloseAcqWrite(i) \/ CloseResumeWrite(i) \/ ClosePublish(i)

ClientDone == \A u \in Docs : closed[u] \/ sentVer[u] = MaxVer \/ Len(hs) = MaxMsgs
Quiescent == \A i \in Ids : hs[i].pc = "done"
Idle == Quiescent /\ UNCHANGED vars          \* makes quiescent end states non-deadlocks

Next == (\E u \in Docs : ClientSend(u)) \/ (\E i \in Ids : Step(i)) \/ Idle
Spec == Init /\ [][Next]_vars
FairSpec == Spec /\ \A i \in 1..MaxMsgs : WF_vars(i \in Ids /\ Step(i))

\* ---------------------------------------------------------------- properties (C18)
LastSentCls(u) == LET S == {i \in Ids : hs[i].uri = u /\ hs[i].ver = sentVer[u] /\ hs[i].kind # "close"} IN
                  hs[CHOOSE i \in S : TRUE].cls

\* once idle, the stored text is the highest version sent (or nothing after close)
Converged ==
  Quiescent => \A u \in Docs :
     IF closed[u] THEN store[u] = NoDoc
     ELSE sentVer[u] > 0 =>
            /\ store[u].ver = sentVer[u] /\ store[u].tv = sentVer[u]
            /\ store[u].ast = (LastSentCls(u) = "ok")

\* a store never lowers the stored version and never re-creates a closed document
NoStaleOverwrite ==
  [][\A u \in Docs : (store'[u] # store[u] /\ store'[u] # NoDoc)
                        => (store'[u].ver >= store[u].ver /\ ~removed[u])]_vars

\* every published diagnostic set was computed from the version it is labelled with
DiagFromSameVersion == \A u \in Docs : \A k \in 1..Len(pub[u]) : pub[u][k].from = pub[u][k].ver

\* once idle, diagnostics for the latest version exist and the last ones came from its text
LatestDiagFromLatestText ==
  Quiescent => \A u \in Docs :
     (~closed[u] /\ sentVer[u] > 0) =>
        LET K == {k \in 1..Len(pub[u]) : pub[u][k].ver = sentVer[u]} IN
        K # {} /\ pub[u][CHOOSE k \in K : \A j \in K : j <= k].from = sentVer[u]

\* informational (stronger than C18): the very last publish is for the latest version
LastDiagIsLatest ==
  Quiescent => \A u \in Docs : (~closed[u] /\ sentVer[u] > 0) => pub[u][Len(pub[u])].ver = sentVer[u]

LockSane == /\ (lock.writer # 0 => lock.readers = {})
            /\ \A i \in Ids : (hs[i].pc \in {"Y2"} => i \in lock.readers)
            /\ \A i \in Ids : (hs[i].pc = "Yc2" => lock.writer = i)

Termination == <>[]Quiescent
=============================================================================
