CONSTANTS
  MaxBranches = 4
  CondKinds = {"T", "F", "eT", "eF", "eq1", "lt2", "andTF", "orFT"}
  Ctxs = {"fn", "while", "for-range", "for-list", "nested", "while-in-for"}
INIT Init
NEXT Next
INVARIANTS Sound Emit
CHECK_DEADLOCK FALSE
