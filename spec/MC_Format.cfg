SPECIFICATION MSpec
PROPERTIES ReadOnlyModes CheckAfterFmt
CHECK_DEADLOCK FALSE
CONSTRAINT Bound
