CONSTANTS MaxLen = 5
          PrintLen = 4
          MaxLines = 2
INIT Init
NEXT Next
INVARIANTS Invariance Reindent WellFormed Emit
CHECK_DEADLOCK FALSE
