CONSTANT MaxOps = 2
CONSTANT SeqOnly = FALSE
INIT Init
NEXT Next
INVARIANTS AllAccepted Sound OrderFree Emit
CHECK_DEADLOCK FALSE
