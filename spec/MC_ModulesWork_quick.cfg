CONSTANTS Vocab = {"a", "db", "main", "zz", "b"}
          MaxMain = 2
          MaxOther = 1
          Machines = {"cli", "lib", "lsp", "col"}
SPECIFICATION MCSpec
INVARIANTS VisitOnce VisitedExist Emit
PROPERTIES Decreases
CHECK_DEADLOCK TRUE
