CONSTANT Depth = 1
INIT Init
NEXT Next
INVARIANTS Emit Sound
CHECK_DEADLOCK FALSE
