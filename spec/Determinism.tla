---------------------------- MODULE Determinism ----------------------------
(* C12 - compilation is deterministic.

   The compilation pipeline as a state machine in which every UNORDERED collection of the real
   code yields its elements in an order drawn nondeterministically at the moment it is iterated
   (std HashMap/HashSet: per-process RandomState; fs::read_dir: filesystem order). One action per
   iteration site that can reach an output; each output component is tagged with where its order
   comes from. The property: every output component is a function of the program alone.

   Iteration sites (file:line on the pinned tree) and the component they feed:

     site              collection                                   order source   sorted?    component
     ----------------  -------------------------------------------  -------------  ---------  -------------------------
     CollectModules    to_process: Vec (stack), processed: HashSet   declaration    -          modules (codegen order)
                       used for membership only (commands.rs:191)
     CheckCtor         fields: HashMap<String, FieldInfo>            hash           SortDiag   diag.ctor  ("Missing required
                       (typechecker/check_expr/calls.rs:71)                                   field" diagnostics)
     CheckTrait        trait_info.methods: HashMap                   hash           SortDiag   diag.trait ("Trait requires
                       (typechecker/check_decl.rs:240, :385)                                  method" diagnostics)
     EmitUses          program.declarations: Vec                     declaration    -          main.uses  (`use` lines)
     CargoDeps         rust_crate_deps: HashMap (project.rs:630)     hash           SortDeps   cargo.rustdeps (dependency lines
                                                                                              of the `rust::` crates)
     NestedTop         top_level_modules: HashSet (project.rs:457)   hash           yes :527   main.mods  (`mod x;` lines)
     NestedSub         modules.keys(): HashMap -> dir_submodules     hash           yes :474   modrs.mods (`pub mod x;` lines)
                       values pushed in key order (project.rs:459)
     WriteFiles        modules / dir_submodules: HashMap             hash           write-set  files      (one distinct path per
                       (project.rs:479, :504)                                                 key: the final tree does not
                                                                                              depend on the write order)
     FmtDir            fs::read_dir (commands.rs:571)                readdir        SortFmt    fmt.files  (order of per-file
                                                                                              output of `incan fmt <dir>`)
   Membership-only collections (no iteration reaches an output; listed for completeness):
   IrCodegen.rust_crates / external_rust_functions / fixtures, IrEmitter.struct_derives /
   enum_variant_fields / struct_field_types / struct_field_defaults / const_string_literals /
   internal_module_roots, FunctionRegistry.signatures (merge of key-disjoint maps), TypeChecker
   const_decls / dependency_exports, AstLowering.* maps.

   Constants SortDeps / SortDiag / SortFmt say whether the site sorts before emitting:
   all FALSE = as written; TRUE = the proposed repairs. TLC shows
     OutputIndependentOfDraws  holds  <=>  no hash/readdir-ordered iteration reaches a component unsorted
   and NAMES the components at risk (AtRisk). *)
EXTENDS Naturals, FiniteSets, Sequences, TLC

CONSTANTS SortDeps, SortDiag, SortFmt,
          Crates,      \* sequence (declaration order) of distinct `rust::` crates that are not feature crates
          TopMods,     \* sequence (import order) of top-level module directory names
          SubMods,     \* sequence of submodule names inside the first top-level directory
          Fields,      \* sequence (declaration order) of required fields omitted by a constructor call
          Methods,     \* sequence (declaration order) of trait methods an adopter lacks
          Files        \* sequence (creation order) of .incn files in a directory given to `incan fmt`

\* ---------------------------------------------------------------- order vocabulary (shared with DeterminismTrace)
ToSet(s) == {s[i] : i \in 1..Len(s)}
IsPermOf(s, S) == Len(s) = Cardinality(S) /\ ToSet(s) = S
Perms(S) == {s \in [1..Cardinality(S) -> S] : ToSet(s) = S}
\* strings are compared through an explicit rank (TLC has no string order): the trace spec passes
\* the rank recorded with the observation, the model uses declaration position as rank
SortedBy(s, rank(_)) == \A i, j \in 1..Len(s) : i < j => rank(s[i]) < rank(s[j])
SortSeqBy(S, rank(_)) == CHOOSE s \in Perms(S) : SortedBy(s, rank)

Pos(seq, x) == CHOOSE i \in 1..Len(seq) : seq[i] = x
\* in the model the alphabetical rank of an element is its position in the constant sequence
\* REVERSED, so that "sorted" and "declaration order" are different orders and cannot be confused
Rank(seq, x) == Len(seq) + 1 - Pos(seq, x)
SortOf(seq) == SortSeqBy(ToSet(seq), LAMBDA x : Rank(seq, x))

Components == {"modules", "diag.ctor", "diag.trait", "main.uses", "cargo.rustdeps", "main.mods", "modrs.mods",
               "files", "fmt.files"}
\* order source of each component and whether the site sorts before emitting
Flow == [c \in Components |->
  CASE c = "modules"        -> [source |-> "decl",    sorted |-> FALSE]
    [] c = "main.uses"      -> [source |-> "decl",    sorted |-> FALSE]
    [] c = "diag.ctor"      -> [source |-> "hash",    sorted |-> SortDiag]
    [] c = "diag.trait"     -> [source |-> "hash",    sorted |-> SortDiag]
    [] c = "cargo.rustdeps" -> [source |-> "hash",    sorted |-> SortDeps]
    [] c = "main.mods"      -> [source |-> "hash",    sorted |-> TRUE]
    [] c = "modrs.mods"     -> [source |-> "hash",    sorted |-> TRUE]
    [] c = "files"          -> [source |-> "hash",    sorted |-> TRUE]     \* a set of distinct paths
    [] c = "fmt.files"      -> [source |-> "readdir", sorted |-> SortFmt]]
AtRiskStatic == {c \in Components : Flow[c].source \in {"hash", "readdir"} /\ ~Flow[c].sorted}

\* the order a component has when it is a function of the program alone
Canon(c) ==
  CASE c = "modules"        -> TopMods
    [] c = "main.uses"      -> Crates
    [] c = "diag.ctor"      -> SortOf(Fields)
    [] c = "diag.trait"     -> SortOf(Methods)
    [] c = "cargo.rustdeps" -> SortOf(Crates)
    [] c = "main.mods"      -> SortOf(TopMods)
    [] c = "modrs.mods"     -> SortOf(SubMods)
    [] c = "files"          -> SortOf(TopMods)     \* stands for the set of written paths
    [] c = "fmt.files"      -> SortOf(Files)

\* ---------------------------------------------------------------- the state machine
VARIABLES pc, out
vars == <<pc, out>>
Steps == <<"CollectModules", "CheckCtor", "CheckTrait", "EmitUses", "CargoDeps", "NestedTop", "NestedSub",
           "WriteFiles", "FmtDir", "done">>
Init == pc = 1 /\ out = [c \in Components |-> <<>>]

Advance(c, seq) == /\ out' = [out EXCEPT ![c] = seq]
                   /\ pc' = pc + 1
\* iterate an unordered collection holding the elements of `seq`: any order may come out
HashIter(c, seq, sortIt) ==
  \E d \in Perms(ToSet(seq)) :           \* the draw itself is not kept: only what reaches the output matters
     Advance(c, IF sortIt THEN SortOf(seq) ELSE d)
DeclIter(c, seq) == Advance(c, seq)

CollectModules == Steps[pc] = "CollectModules" /\ DeclIter("modules", TopMods)
CheckCtor      == Steps[pc] = "CheckCtor"      /\ HashIter("diag.ctor", Fields, SortDiag)
CheckTrait     == Steps[pc] = "CheckTrait"     /\ HashIter("diag.trait", Methods, SortDiag)
EmitUses       == Steps[pc] = "EmitUses"       /\ DeclIter("main.uses", Crates)
CargoDeps      == Steps[pc] = "CargoDeps"      /\ HashIter("cargo.rustdeps", Crates, SortDeps)
NestedTop      == Steps[pc] = "NestedTop"      /\ HashIter("main.mods", TopMods, TRUE)      \* sorted_top.sort()
NestedSub      == Steps[pc] = "NestedSub"      /\ HashIter("modrs.mods", SubMods, TRUE)     \* subs.sort(); subs.dedup()
\* files are written in hash order, but to pairwise distinct paths: what is observable afterwards is the SET
WriteFiles     == Steps[pc] = "WriteFiles"     /\ HashIter("files", TopMods, TRUE)
FmtDir         == Steps[pc] = "FmtDir"         /\ HashIter("fmt.files", Files, SortFmt)     \* read_dir order
Done           == Steps[pc] = "done" /\ UNCHANGED vars
Next == CollectModules \/ CheckCtor \/ CheckTrait \/ EmitUses \/ CargoDeps \/ NestedTop \/ NestedSub
        \/ WriteFiles \/ FmtDir \/ Done
Spec == Init /\ [][Next]_vars

Finished == Steps[pc] = "done"
\* ---------------------------------------------------------------- the property
OutputIndependentOfDraws == Finished => \A c \in Components : out[c] = Canon(c)
\* per-state list of deviating components (for NAMING the components at risk)
Deviating == {c \in Components : out[c] # Canon(c)}
\* the "iff": a component can deviate in some behaviour exactly if it is statically at risk
\* (checked by the driver: union of Deviating over all final states = AtRiskStatic, when every collection has >= 2 elements)
OnlyStaticRiskDeviates == Finished => Deviating \subseteq AtRiskStatic
=============================================================================
