CONSTANT Depth = 1
INIT Init
NEXT Next
INVARIANTS Emit SpecAgrees
CHECK_DEADLOCK FALSE
