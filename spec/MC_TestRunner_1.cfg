CONSTANTS NT = 1
          Outcomes = {"pass", "assert_fail", "panic", "nobuild"}
          HarnessModes = {"runs"}
SPECIFICATION MCSpec
INVARIANTS TypeOK PassedMeansRanAndPassed FailedMeansRanAndFailed XfailInverts SkipNotRun OnlySelectedRun
           RanOnlyIfJudgedOrRunning JudgedIsPrefix AllSelectedJudged CountersMatchVerdicts CountsAddUp
           PrintedMatchesVerdicts ExitIffFailure NotDoneNoExit
PROPERTIES Progress Termination
CHECK_DEADLOCK TRUE
