CONSTANT Depth = 0
SPECIFICATION TSpec
POSTCONDITION Accepted
CHECK_DEADLOCK FALSE
