CONSTANTS MaxStmts = 3
          MaxDepth = 2
INIT Init
NEXT Next
INVARIANTS Emit Sound
CHECK_DEADLOCK FALSE
