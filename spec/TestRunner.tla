----------------------------- MODULE TestRunner -----------------------------
(* C16 -- `incan test` reports the truth.

   State machine of src/cli/test_runner.rs `run_tests` (one action per step of the code) over an
   abstract test directory with NT test functions in discovery order (files sorted, functions
   in file order).

   The SCENARIO is chosen in Init and never changes:
     truth[t]    what happens if the body of test t is executed:
                   "pass"        runs to completion, no failed assertion, no panic
                   "assert_fail" a testing.assert_* helper panics
                   "panic"       a run-time panic (ZeroDivisionError, ...)
                   "nobuild"     the file of t does not compile: the body cannot run at all
     marks[t]    subset of {"skip", "xfail", "slow"}         (decorators of t)
     matches[t]  the name of t contains the -k keyword
     opt         [filter, includeSlow, stopOnFail, failOnEmpty]   (-k given, --slow, -x, --fail-on-empty)
     xpassStops  the documentation leaves open whether -x also stops after an XPASS
                 (how-to: "stop on first failure", XPASS "reported as failure"; RFC 019 (planned): yes;
                 run_tests: no) -- both choices are behaviours of the specification
     harness[t]  "runs":  the generated cargo project contains t as a #[test] and `cargo test`
                          executes exactly its body: the verdict of run_single_test is the truth
                 "empty": the generated project contains no #[test] (IrCodegen::set_test_function is
                          stored and never reaches the emitter): `cargo test` runs zero tests and exits
                          0, run_single_test answers Passed and the body never runs.
                 The documented runner is HarnessModes = {"runs"}; {"runs","empty"} is the machine that
                 also explains the pinned tree (used for the regression/non-vacuity run and to validate
                 sessions whose deviation is catalogued, everything else being checked strictly).

   Ghosts: ran[t] = the body of t started executing, fin[t] = it ran to completion.            *)
EXTENDS Integers, Sequences, FiniteSets, TLC

CONSTANTS NT, Outcomes, HarnessModes
Tests == 1..NT
Markers == {"skip", "xfail", "slow"}
Verdicts == {"PASSED", "FAILED", "SKIPPED", "XFAIL", "XPASS"}
ZeroCnt == [passed |-> 0, failed |-> 0, skipped |-> 0, xfailed |-> 0, xpassed |-> 0]

VARIABLES truth, marks, matches, opt, xpassStops, harness,   \* the scenario
          pc,        \* "discover" | "select" | "session" | "test" | "judge" | "exit" | "noexit" | "done"
          all,       \* all_tests: discovered test functions, in order
          sel,       \* filtered_tests
          idx,       \* position of the `for test in filtered_tests` loop
          raw,       \* result of run_single_test for sel[idx]: "none" | "pass" | "fail"
          verdict,   \* Tests -> "none" | verdict (the `results` vector)
          cnt,       \* the five counters of run_tests (the summary and the exit status are computed from THEM)
          out,       \* what was printed: <<[k |-> "collected", n], [k |-> "line", t, v], [k |-> "summary", c], ...>>
          ran, fin,  \* ghosts
          exit       \* -1 until the process ends
scen == <<truth, marks, matches, opt, xpassStops, harness>>
vars == <<truth, marks, matches, opt, xpassStops, harness, pc, all, sel, idx, raw, verdict, cnt, out, ran, fin, exit>>

Options == [filter : BOOLEAN, includeSlow : BOOLEAN, stopOnFail : BOOLEAN, failOnEmpty : BOOLEAN]

Start == /\ pc = "discover" /\ all = <<>> /\ sel = <<>> /\ idx = 1 /\ raw = "none"
         /\ verdict = [t \in Tests |-> "none"] /\ cnt = ZeroCnt /\ out = <<>>
         /\ ran = [t \in Tests |-> FALSE] /\ fin = [t \in Tests |-> FALSE] /\ exit = -1

\* every scenario; `matches` and `xpassStops` are normalised where they cannot matter
Init == /\ truth \in [Tests -> Outcomes] /\ marks \in [Tests -> SUBSET Markers]
        /\ opt \in Options
        /\ matches \in [Tests -> BOOLEAN] /\ (~opt.filter => \A t \in Tests : matches[t])
        /\ xpassStops \in BOOLEAN /\ (~opt.stopOnFail => ~xpassStops)
        /\ harness \in [Tests -> HarnessModes]
        /\ Start

----------------------------------------------------------------------------
\* run_tests:307-320  the filter closure
Selected(t) == (opt.filter => matches[t]) /\ (("slow" \in marks[t]) => opt.includeSlow)
RECURSIVE Filter(_)
Filter(s) == IF s = <<>> THEN <<>> ELSE (IF Selected(Head(s)) THEN <<Head(s)>> ELSE <<>>) \o Filter(Tail(s))

Count(v) == Cardinality({t \in Tests : verdict[t] = v})
Judged == {t \in Tests : verdict[t] # "none"}
Failing == Count("FAILED") > 0 \/ Count("XPASS") > 0

\* :248-272  discover_test_files + discover_tests_and_fixtures: every `def test_*` of every test file, in order
Discover == /\ pc = "discover"
            /\ all' = [k \in 1..NT |-> k]
            /\ pc' = "select"
            /\ UNCHANGED <<scen, sel, idx, raw, verdict, cnt, out, ran, fin, exit>>

\* :307-328  keyword and slow filter; nothing left -> "No tests collected"
Select == /\ pc = "select"
          /\ sel' = Filter(all)
          /\ pc' = IF Filter(all) = <<>> THEN "noexit" ELSE "session"
          /\ UNCHANGED <<scen, all, idx, raw, verdict, cnt, out, ran, fin, exit>>

\* :322-328
NoTestsCollected == /\ pc = "noexit"
                    /\ out' = Append(out, [k |-> "nocollect"])
                    /\ exit' = IF opt.failOnEmpty THEN 1 ELSE 0
                    /\ pc' = "done"
                    /\ UNCHANGED <<scen, all, sel, idx, raw, verdict, cnt, ran, fin>>

\* :330-339  "test session starts", "collected N item(s)"
SessionStart == /\ pc = "session"
                /\ out' = Append(out, [k |-> "collected", n |-> Len(sel)])
                /\ pc' = "test" /\ idx' = 1
                /\ UNCHANGED <<scen, all, sel, raw, verdict, cnt, ran, fin, exit>>

\* :349-355  a @skip test is reported and counted without being run
SkipTest == /\ pc = "test" /\ idx <= Len(sel)
            /\ LET t == sel[idx] IN
               /\ "skip" \in marks[t]
               /\ verdict' = [verdict EXCEPT ![t] = "SKIPPED"]
               /\ cnt' = [cnt EXCEPT !.skipped = @ + 1]
               /\ out' = Append(out, [k |-> "line", t |-> t, v |-> "SKIPPED"])
            /\ idx' = idx + 1
            /\ UNCHANGED <<scen, pc, all, sel, raw, ran, fin, exit>>

\* :359, :752-818  run_single_test: generate the project, `cargo test`, verdict from the exit status
RunSingleTest ==
  /\ pc = "test" /\ idx <= Len(sel)
  /\ LET t == sel[idx] IN
     /\ "skip" \notin marks[t]
     /\ IF truth[t] = "nobuild"                      \* code generation / rustc error -> Failed, nothing runs
          THEN raw' = "fail" /\ UNCHANGED <<ran, fin>>
        ELSE IF harness[t] = "runs"                  \* the body of t is executed by cargo test
          THEN /\ ran' = [ran EXCEPT ![t] = TRUE]
               /\ fin' = [fin EXCEPT ![t] = (truth[t] = "pass")]
               /\ raw' = IF truth[t] = "pass" THEN "pass" ELSE "fail"
        ELSE raw' = "pass" /\ UNCHANGED <<ran, fin>>  \* zero tests in the harness: cargo test exits 0
  /\ pc' = "judge"
  /\ UNCHANGED <<scen, all, sel, idx, verdict, cnt, out, exit>>

\* after a "failure" -x leaves the loop
Stops(v) == opt.stopOnFail /\ (v = "FAILED" \/ (v = "XPASS" /\ xpassStops))

\* :357-400  xfail inversion, counters, the verdict line, -x
Judge ==
  /\ pc = "judge"
  /\ LET t == sel[idx]
         v == IF "xfail" \in marks[t] THEN (IF raw = "pass" THEN "XPASS" ELSE "XFAIL")
                                      ELSE (IF raw = "pass" THEN "PASSED" ELSE "FAILED") IN
     /\ verdict' = [verdict EXCEPT ![t] = v]
     /\ cnt' = CASE v = "PASSED" -> [cnt EXCEPT !.passed = @ + 1]
                 [] v = "FAILED" -> [cnt EXCEPT !.failed = @ + 1]
                 [] v = "XFAIL"  -> [cnt EXCEPT !.xfailed = @ + 1]
                 [] v = "XPASS"  -> [cnt EXCEPT !.xpassed = @ + 1]
     /\ out' = Append(out, [k |-> "line", t |-> t, v |-> v])
     /\ idx' = IF Stops(v) THEN Len(sel) + 1 ELSE idx + 1
  /\ raw' = "none" /\ pc' = "test"
  /\ UNCHANGED <<scen, all, sel, ran, fin, exit>>

\* :439-468  the summary line, from the counters
Summarise == /\ pc = "test" /\ idx > Len(sel)
             /\ out' = Append(out, [k |-> "summary", c |-> cnt])
             /\ pc' = "exit"
             /\ UNCHANGED <<scen, all, sel, idx, raw, verdict, cnt, ran, fin, exit>>

\* :470-475
Exit == /\ pc = "exit"
        /\ exit' = IF cnt.failed > 0 \/ cnt.xpassed > 0 THEN 1 ELSE 0
        /\ pc' = "done"
        /\ UNCHANGED <<scen, all, sel, idx, raw, verdict, cnt, out, ran, fin>>

Next == Discover \/ Select \/ NoTestsCollected \/ SessionStart \/ SkipTest \/ RunSingleTest \/ Judge \/ Summarise \/ Exit
Spec == Init /\ [][Next]_vars /\ WF_vars(Next)

----------------------------------------------------------------------------
\* C16, stated on the machine (all are state invariants, evaluated in every state)
TypeOK == /\ pc \in {"discover", "select", "session", "test", "judge", "exit", "noexit", "done"}
          /\ verdict \in [Tests -> Verdicts \cup {"none"}] /\ raw \in {"none", "pass", "fail"}
          /\ exit \in {-1, 0, 1} /\ idx \in 1..(NT + 1)
          /\ \A f \in DOMAIN cnt : cnt[f] \in 0..NT

\* "reported as passed only if its body actually ran to completion without a failed assertion or panic"
PassedMeansRanAndPassed == \A t \in Tests : verdict[t] = "PASSED" => fin[t] /\ truth[t] = "pass"
\* "... and as failed otherwise"
FailedMeansRanAndFailed == \A t \in Tests : verdict[t] = "FAILED" =>
                              ~fin[t] /\ truth[t] # "pass" /\ (ran[t] <=> truth[t] # "nobuild")
\* "@xfail inverts the verdict"
XfailInverts == \A t \in Tests :
   /\ verdict[t] = "XPASS" => "xfail" \in marks[t] /\ fin[t]
   /\ verdict[t] = "XFAIL" => "xfail" \in marks[t] /\ ~fin[t] /\ truth[t] # "pass"
   /\ verdict[t] \in {"PASSED", "FAILED"} => "xfail" \notin marks[t]
\* "@skip tests are not run"
SkipNotRun == \A t \in Tests : /\ "skip" \in marks[t] => ~ran[t] /\ verdict[t] \in {"none", "SKIPPED"}
                               /\ verdict[t] = "SKIPPED" => "skip" \in marks[t]
\* "-k and --slow select exactly the documented subset"
OnlySelectedRun == \A t \in Tests : (ran[t] \/ verdict[t] # "none") => Selected(t)
RanOnlyIfJudgedOrRunning == \A t \in Tests : ran[t] => verdict[t] \notin {"none", "SKIPPED"} \/ (pc = "judge" /\ sel[idx] = t)
\* every selected test gets a verdict, in order; the only way to leave tests unjudged is -x after a failure
JudgedIsPrefix == \E n \in 0..Len(sel) : Judged = {sel[k] : k \in 1..n}
AllSelectedJudged ==
  pc \in {"exit", "done"} /\ sel # <<>> =>
     \/ \A k \in 1..Len(sel) : verdict[sel[k]] # "none"
     \/ /\ opt.stopOnFail
        /\ \E n \in 1..Len(sel) : /\ Judged = {sel[k] : k \in 1..n}
                                   /\ Stops(verdict[sel[n]])
                                   /\ \A k \in 1..(n - 1) : ~Stops(verdict[sel[k]])
\* "the printed counts match the individual verdicts"
CountersMatchVerdicts ==
  /\ cnt.passed = Count("PASSED") /\ cnt.failed = Count("FAILED") /\ cnt.skipped = Count("SKIPPED")
  /\ cnt.xfailed = Count("XFAIL") /\ cnt.xpassed = Count("XPASS")
CountsAddUp == cnt.passed + cnt.failed + cnt.skipped + cnt.xfailed + cnt.xpassed = Cardinality(Judged)
Lines == SelectSeq(out, LAMBDA r : r.k = "line")
PrintedMatchesVerdicts ==
  /\ Len(Lines) = Cardinality(Judged)
  /\ \A k \in 1..Len(Lines) : Lines[k].t = sel[k] /\ Lines[k].v = verdict[sel[k]]
  /\ \A k \in 1..Len(out) : out[k].k = "summary" => out[k].c = cnt /\ CountersMatchVerdicts
  /\ \A k \in 1..Len(out) : out[k].k = "collected" => out[k].n = Len(sel) /\ k = 1
\* "the exit status is non-zero iff some selected test failed (or an xfail passed)"; the documented empty rule
ExitIffFailure == pc = "done" => IF sel = <<>> THEN exit = (IF opt.failOnEmpty THEN 1 ELSE 0)
                                 ELSE (exit # 0 <=> Failing) /\ exit \in {0, 1}
NotDoneNoExit == pc # "done" <=> exit = -1
Termination == <>(pc = "done")
=============================================================================
