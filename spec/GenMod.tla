------------------------------- MODULE GenMod -------------------------------
(* Multi-module programs: what a PROJECT of several source files means, and a generator of projects.

   The documented module system (language/reference/imports_and_modules.md, tutorials/book/05_modules_and_imports.md,
   examples/advanced/multifile): a module is a file; `pub` declarations of a module can be brought into another module
   by `from path import X, Y` or `import path::X`; the path is relative to the importing file's directory (`..` /
   `super` climb) or absolute from the project root (`crate`); an imported name is used exactly like a local one.
   Hence the MEANING of a project is the meaning of the single-file program that holds all its declarations
   (`Link`): splitting a program into modules never changes what it does. That is the oracle: for every project the
   generator emits, the real `incan build` + run must print exactly what Core's Run assigns to the flat program
   (the Run results are the CASE rows of GenObj / GenData, computed by Core; this module adds the module layer).

   Modelled here, as the linker the documentation describes (one operator per step):
     NeededNames(m)    the names module m refers to that it does not declare (from the declaration dependency relation)
     ImportsOf(m)      the import declarations the generator writes for them (style from / mod, relative / crate paths)
     Target(m, imp)    the file an import denotes - Modules!Resolve, the DOCUMENTED resolution (C14's Part 1), reused
     Lookup(m, x)      name resolution inside m: local declaration, else the import that binds x, else unknown
     LinkOK            every reference resolves to the declaration of that name, and that declaration is `pub`
   Invariants (TLC, every generated project):
     ResolvesRight     every written import is resolved by the documentation to the intended file (the answer is fixed)
     PubExactly        a declaration is `pub` iff some other module imports it
     PositiveLinks     a project without a seeded fault links; its meaning is the flat program
     NegativeBreaks    a project with one seeded fault (a `pub` dropped / an import dropped) does NOT link, and the
                       specification names the module and the name at which it breaks
   A placement whose module graph is cyclic is emitted with cyc = TRUE (C14 decides whether a diagnostic is due there;
   here it must either be diagnosed or behave like the flat program - never hang, crash or misbehave). *)
EXTENDS Integers, Sequences, FiniteSets, TLC, Json

Mod == INSTANCE Modules WITH files <- {}, imports <- <<>>, entry <- <<>>, m <- "", stack <- <<>>, seen <- {},
                             loading <- {}, visited <- <<>>, status <- "", diag <- FALSE

\* ---------------------------------------------------------------- declaration universes (names, kinds, dependencies)
\* "obj" = the declarations of GenObj (traits, models, classes, inheritance), "data" = those of GenData (models, an enum
\* with payloads, functions returning Option / Result, `?`). deps = the names a declaration's text refers to.
It(n, k, d) == [name |-> n, kind |-> k, deps |-> d, attrs |-> {}]
ItA(n, k, d, a) == [name |-> n, kind |-> k, deps |-> d, attrs |-> a]      \* attrs: "defaults" = a field with a default value
Universe ==
  [obj  |-> [items |-> << It("Shape", "trait", {}), It("Tagged", "trait", {}), It("HasV", "trait", {}),
                          It("Sq", "model", {"Shape"}), ItA("Rect", "class", {"Shape", "Tagged"}, {"defaults"}), It("Base", "class", {}),
                          It("Derived", "class", {"Base", "HasV"}), It("Q2", "model", {"Sq"}), It("h", "fn", {}) >>,
              main  |-> {"Sq", "Rect", "Derived", "Q2", "h"}],
   data |-> [items |-> << It("P", "model", {}), It("Q", "model", {"P"}), It("Shape", "enum", {}), It("h", "fn", {}),
                          It("safe_div", "fn", {}), It("maybe", "fn", {}), It("twice", "fn", {"safe_div"}) >>,
              main  |-> {"P", "Q", "Shape", "h", "safe_div", "maybe", "twice"}]]

\* ---------------------------------------------------------------- layouts
\* module ids and their files; a layout = main + two further modules X, Y
ModFile == [main |-> <<"main.incn">>, a |-> <<"a.incn">>, b |-> <<"b.incn">>, pc |-> <<"p", "c.incn">>,
            pd |-> <<"p", "d.incn">>, qd |-> <<"q", "d.incn">>]
ModPath(mm) == LET f == ModFile[mm] IN [f EXCEPT ![Len(f)] = SubSeq(@, 1, Len(@) - 5)]     \* without ".incn"
Layouts == { <<"a", "b">>, <<"a", "pc">>, <<"pc", "pd">>, <<"pc", "qd">> }
LayoutTag(l) == CASE l = <<"a", "b">> -> "flat" [] l = <<"a", "pc">> -> "child" [] l = <<"pc", "pd">> -> "nested-siblings"
                  [] OTHER -> "cousins"

CONSTANTS Universes,    \* subset of {"obj", "data"}
          Negatives,    \* TRUE: also emit projects with one seeded fault
          LayoutSel,    \* subset of {"flat", "child", "nested-siblings", "cousins"} (LayoutTag)
          IStyles       \* subset of {"from", "mod", "mixed", "alias"}

VARIABLES u, lay, istyle, pstyle, place, neg, phase,
          cohesive,    \* TRUE: a type is placed in the module of the traits it adopts and of the class it extends
          closed       \* TRUE: a module that refers to a type also imports the traits / classes that type is built from
vars == <<u, lay, istyle, pstyle, place, neg, phase, cohesive, closed>>

Items == Universe[u].items
Names == {Items[i].name : i \in 1..Len(Items)}
ItemOf(n) == Items[CHOOSE i \in 1..Len(Items) : Items[i].name = n]
Mods == {"main", lay[1], lay[2]}
Placed == DOMAIN place
Complete == Placed = Names
UsedMods == {"main"} \cup {place[n] : n \in Placed}
\* the files of the project; crate-style paths are only fixed by the documentation when a Cargo.toml marks the root
Files == {ModFile[mm] : mm \in UsedMods} \cup (IF pstyle = "abs" THEN {<<"Cargo.toml">>} ELSE {})
ItemsIn(mm) == {n \in Placed : place[n] = mm}

\* ---------------------------------------------------------------- the linker
RECURSIVE Clo(_, _)
Clo(S, k) == IF k = 0 THEN S ELSE Clo(S \cup UNION {ItemOf(n).deps : n \in S}, k - 1)
DirectRefs(mm) == UNION {ItemOf(n).deps : n \in ItemsIn(mm)} \cup (IF mm = "main" THEN Universe[u].main ELSE {})
Refs(mm) == IF closed THEN Clo(DirectRefs(mm), 3) ELSE DirectRefs(mm)
NeededNames(mm) == {n \in Refs(mm) : n \in Placed /\ place[n] # mm}
\* import path from module mm to module t
CommonLen(p, q) == LET S == {k \in 0..Len(p) : k <= Len(q) /\ SubSeq(p, 1, k) = SubSeq(q, 1, k)} IN
                   CHOOSE k \in S : \A j \in S : j <= k
PathTo(mm, t) ==
  LET fd == Mod!DirOf(ModFile[mm])  tp == ModPath(t)  cp == CommonLen(fd, Mod!DirOf(ModFile[t])) IN
  IF pstyle = "abs" THEN [levels |-> 0, abs |-> TRUE, segs |-> tp]
  ELSE [levels |-> Len(fd) - cp, abs |-> FALSE, segs |-> SubSeq(tp, cp + 1, Len(tp))]
\* the import declarations of mm: one `from` per target module listing its items, or one `import path::item` per item
Targets(mm) == {place[n] : n \in NeededNames(mm)}
\* istyle "alias": `from path import X as X_x` - the module then refers to X by its local name X_x (documented form; the
\* linker's Lookup goes through the alias, the declaration that is meant stays the same)
Style(mm) == IF istyle = "mixed" THEN (IF mm = "main" THEN "from" ELSE "mod") ELSE IF istyle = "alias" THEN "from" ELSE istyle
Aliased == istyle = "alias"
Dropped(mm, n) == neg.k = "noimport" /\ neg.m = mm /\ neg.name = n
ImportsOf(mm) ==
  {[style |-> Style(mm), t |-> t, path |-> PathTo(mm, t), names |-> {n \in NeededNames(mm) : place[n] = t /\ ~Dropped(mm, n)}] : t \in Targets(mm)}
ImpRecs(i) ==      \* the ast::ImportDecl records of one import declaration (Modules' encoding)
  IF i.style = "from" THEN {Mod!Imp("from", i.path.levels, i.path.abs, i.path.segs)}
  ELSE {Mod!Imp("mod", i.path.levels, i.path.abs, Append(i.path.segs, n)) : n \in i.names}
Target(mm, rec) == Mod!Resolve(Files, ModFile[mm], rec)
IsPub(n) == (\E mm \in UsedMods : n \in NeededNames(mm)) /\ ~(neg.k = "unpub" /\ neg.name = n)
Lookup(mm, n) ==
  IF n \in ItemsIn(mm) THEN "local"
  ELSE LET B == {i \in ImportsOf(mm) : n \in i.names} IN
       IF B = {} THEN "unknown"
       ELSE LET i == CHOOSE x \in B : TRUE
                r == Target(mm, IF i.style = "from" THEN Mod!Imp("from", i.path.levels, i.path.abs, i.path.segs)
                                ELSE Mod!Imp("mod", i.path.levels, i.path.abs, Append(i.path.segs, n))) IN
            IF ~r.fixed \/ r.file = Mod!NoFile THEN "unresolved"
            ELSE IF r.file # ModFile[place[n]] THEN "wrong-file"
            ELSE IF ~IsPub(n) THEN "private" ELSE "imported"
LinkOK == \A mm \in UsedMods : \A n \in Refs(mm) \cap Placed : Lookup(mm, n) \in {"local", "imported"}
\* module graph
Edge(x, y) == x # y /\ y \in Targets(x)
RECURSIVE Reach(_, _)
Reach(S, k) == IF k = 0 THEN S ELSE Reach(S \cup {y \in UsedMods : \E x \in S : Edge(x, y)}, k - 1)
Cyclic == \E x \in UsedMods : x \in Reach({y \in UsedMods : Edge(x, y)}, 3)

\* ---------------------------------------------------------------- the generator (one item placed per step)
NoNeg == [k |-> "none", m |-> "", name |-> ""]
Init == /\ u \in Universes /\ lay \in {l \in Layouts : LayoutTag(l) \in LayoutSel} /\ istyle \in IStyles /\ pstyle \in {"rel", "abs"}
        /\ place = << >> /\ neg = NoNeg /\ phase = "place" /\ closed \in BOOLEAN
        /\ cohesive \in (IF u = "obj" THEN BOOLEAN ELSE {FALSE})      \* the data universe has no traits / parents
ASSUME LayoutSel \subseteq {"flat", "child", "nested-siblings", "cousins"}
NextItem == Items[Cardinality(Placed) + 1].name
Place == /\ phase = "place" /\ ~Complete
         /\ \E mm \in Mods :
              /\ cohesive => \A d \in ItemOf(NextItem).deps : ItemOf(d).kind \in {"trait", "class"} => place[d] = mm
              /\ place' = [n \in Placed \cup {NextItem} |-> IF n = NextItem THEN mm ELSE place[n]]
         /\ UNCHANGED <<u, lay, istyle, pstyle, neg, phase, cohesive, closed>>
\* the entry module is the root of the project: no module imports from it
Rooted == \A mm \in UsedMods \ {"main"} : "main" \notin Targets(mm)
Finish == /\ phase = "place" /\ Complete /\ UsedMods # {"main"} /\ Rooted
          /\ phase' = "done" /\ UNCHANGED <<u, lay, istyle, pstyle, place, neg, cohesive, closed>>
\* one seeded fault: a needed `pub` is dropped, or one needed name is left out of the imports of one module
Negate == /\ Negatives /\ phase = "done" /\ neg = NoNeg /\ ~Cyclic
          /\ \/ \E n \in Names : (\E mm \in UsedMods : n \in NeededNames(mm)) /\ neg' = [k |-> "unpub", m |-> "", name |-> n]
             \/ \E mm \in UsedMods : \E n \in NeededNames(mm) : neg' = [k |-> "noimport", m |-> mm, name |-> n]
          /\ UNCHANGED <<u, lay, istyle, pstyle, place, phase, cohesive, closed>>
Next == Place \/ Finish \/ Negate

\* ---------------------------------------------------------------- invariants
Done == phase = "done"
ResolvesRight == Done => \A mm \in UsedMods : \A i \in ImportsOf(mm) : \A rec \in ImpRecs(i) :
                   LET r == Target(mm, rec) IN r.fixed /\ r.file = ModFile[i.t]
PubExactly == (Done /\ neg = NoNeg) => \A n \in Names : IsPub(n) <=> (\E mm \in UsedMods : mm # place[n] /\ n \in Refs(mm))
PositiveLinks == (Done /\ neg = NoNeg) => LinkOK
\* where a seeded fault breaks the link: the set of (module, name, reason)
Breaks == {[m |-> mm, name |-> n, why |-> Lookup(mm, n)] : mm \in UsedMods, n \in Names} \
          {[m |-> mm, name |-> n, why |-> w] : mm \in UsedMods, n \in Names, w \in {"local", "imported"}}
BreaksIn == {b \in Breaks : b.name \in Refs(b.m)}
NegativeBreaks == (Done /\ neg # NoNeg) =>
                    /\ ~LinkOK /\ BreaksIn # {}
                    /\ \A b \in BreaksIn : b.name = neg.name /\ b.why = (IF neg.k = "unpub" THEN "private" ELSE "unknown")
                    /\ (neg.k = "noimport" => \A b \in BreaksIn : b.m = neg.m)

\* ---------------------------------------------------------------- emission
EdgeTag(x, y) == LET dx == Mod!DirOf(ModFile[x])  dy == Mod!DirOf(ModFile[y]) IN
                 IF dx = dy THEN (IF dx = <<>> THEN "top-sibling" ELSE "nested-sibling")
                 ELSE IF dx = <<>> THEN "down" ELSE IF dy = <<>> THEN "up" ELSE "across"
Feats == {"u:" \o u, "layout:" \o LayoutTag(lay), "istyle:" \o istyle, "pstyle:" \o pstyle, "neg:" \o neg.k}
         \cup {"imp:" \o EdgeTag(e[1], e[2]) \o ":" \o pstyle \o ":" \o Style(e[1]) : e \in {w \in UsedMods \X UsedMods : Edge(w[1], w[2])}}
         \cup {"ximp:" \o ItemOf(w[1]).kind \o ":" \o Style(w[2]) : w \in {v \in Names \X UsedMods : v[1] \in NeededNames(v[2])}}
         \cup {"xkind:" \o ItemOf(n).kind : n \in {k \in Names : IsPub(k)}}
         \cup {"dep:" \o ItemOf(e[2]).kind \o "<-" \o ItemOf(e[1]).kind :
                   e \in {w \in Names \X Names : w[2] \in ItemOf(w[1]).deps /\ place[w[2]] # place[w[1]]}}
         \cup {"ximp:inherits" : w \in {v \in Names \X UsedMods : v[1] \in NeededNames(v[2]) /\ \E d \in ItemOf(v[1]).deps : ItemOf(d).kind = "class"}}
         \cup {"ximp:adopts" : w \in {v \in Names \X UsedMods : v[1] \in NeededNames(v[2]) /\ \E d \in ItemOf(v[1]).deps : ItemOf(d).kind = "trait"}}
         \cup {"ximp:defaults" : w \in {v \in Names \X UsedMods : v[1] \in NeededNames(v[2]) /\ "defaults" \in ItemOf(v[1]).attrs}}
         \cup (IF cohesive THEN {"cohesive"} ELSE {}) \cup (IF closed THEN {"closed"} ELSE {})
         \cup (IF neg = NoNeg THEN {} ELSE {"negkind:" \o ItemOf(neg.name).kind, "negwhere:" \o (IF neg.m = "main" THEN "main" ELSE IF neg.m = "" THEN "decl" ELSE "dep"),
                                             "negstyle:" \o (IF neg.k = "noimport" THEN Style(neg.m)
                                                             ELSE IF \A w \in {v \in UsedMods : neg.name \in NeededNames(v)} : Style(w) = "from" THEN "from"
                                                             ELSE IF \A w \in {v \in UsedMods : neg.name \in NeededNames(v)} : Style(w) = "mod" THEN "mod" ELSE "both")})
         \cup (IF Cyclic THEN {"cyclic"} ELSE {}) \cup (IF UsedMods = Mods THEN {"mods:3"} ELSE {"mods:2"})
SeqOf(S) == LET RECURSIVE go(_) go(T) == IF T = {} THEN <<>> ELSE LET x == CHOOSE y \in T : TRUE IN <<x>> \o go(T \ {x}) IN go(S)
ModRow(mm) == [mod |-> mm, file |-> ModFile[mm],
               items |-> [i \in 1..Len(Items) |-> IF place[Items[i].name] = mm THEN Items[i].name ELSE ""],
               pubs |-> {n \in ItemsIn(mm) : IsPub(n)},
               imports |-> SeqOf({[style |-> i.style, levels |-> i.path.levels, abs |-> i.path.abs, segs |-> i.path.segs,
                                   names |-> i.names, aliased |-> Aliased] : i \in {x \in ImportsOf(mm) : x.names # {}}})]
Emit == Done => PrintT(<<"CASE", ToJson([u |-> u, mods |-> SeqOf({ModRow(mm) : mm \in UsedMods}), cargo |-> pstyle = "abs",
                                           cyc |-> Cyclic, neg |-> neg, breaks |-> BreaksIn, links |-> LinkOK, feats |-> Feats])>>)
=============================================================================
