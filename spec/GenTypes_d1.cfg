CONSTANTS
  MaxDepth = 1
  Atoms = {"int", "float", "str", "bool", "M1", "M2", "E1", "N1"}
  TupleAtoms = {"int", "str", "float"}
  KeyAtoms = {"int", "str"}
INIT Init
NEXT Next
INVARIANTS Sanity Emit
CHECK_DEADLOCK FALSE
