--------------------------- MODULE MC_TestRunner ---------------------------
(* Model checking and case generation for TestRunner (C16).
   MC_TestRunner_1 / _2 / _3 (.cfg): EVERY scenario with 1 / 2 / 3 test functions (ground truth x marker set x
     keyword match per test x the four options x the open -x/XPASS choice), all C16 invariants in
     every state, deadlock freedom before "done", a strictly decreasing measure (=> termination; the
     1-test config also checks <>(pc = "done") as a temporal property).
   MC_TestRunner_asis (.cfg): the same machine with HarnessModes = {"runs", "empty"} must VIOLATE
     PassedMeansRanAndPassed (non-vacuity of the invariant; the model of the catalogued defect).
   MC_TestRunner_cases (.cfg): the scenarios listed in the ndjson file $SCEN (chosen by the driver:
     seeded feature / pairwise cover) are run on the documented machine and printed as CASE lines:
     what the real `incan test` session must look like (B1).                                     *)
EXTENDS TestRunner, Json, IOUtils

VARIABLE sid                       \* scenario id (cases config only; 0 otherwise)
mcvars == <<vars, sid>>

Done == pc = "done" /\ UNCHANGED vars
MCInit == Init /\ sid = 0
MCNext == (Next \/ Done) /\ UNCHANGED sid
MCSpec == MCInit /\ [][MCNext]_mcvars /\ WF_vars(Next)

\* termination without temporal checking: no deadlock before "done" and every step decreases Measure
Measure == CASE pc = "discover" -> 2 * NT + 6
             [] pc = "select"   -> 2 * NT + 5
             [] pc = "session"  -> 2 * NT + 4
             [] pc = "test"     -> 2 * (Len(sel) + 1 - idx) + 3
             [] pc = "judge"    -> 2 * (Len(sel) + 1 - idx) + 2
             [] pc = "noexit"   -> 1
             [] pc = "exit"     -> 1
             [] pc = "done"     -> 0
Progress == [][Measure' < Measure /\ Measure' >= 0]_vars

\* ---- case generation from a scenario file
Scen == ndJsonDeserialize(IOEnv.SCEN)
ToSet(s) == {s[i] : i \in DOMAIN s}
CaseInitOf(h) ==
  /\ \E i \in DOMAIN Scen :
       LET s == Scen[i] IN
       /\ sid = s.id
       /\ truth = [t \in Tests |-> s.truth[t]]
       /\ marks = [t \in Tests |-> ToSet(s.marks[t])]
       /\ matches = [t \in Tests |-> s.matches[t]]
       /\ opt = [filter |-> s.opt.filter, includeSlow |-> s.opt.includeSlow,
                 stopOnFail |-> s.opt.stopOnFail, failOnEmpty |-> s.opt.failOnEmpty]
  /\ xpassStops \in BOOLEAN /\ (~opt.stopOnFail => ~xpassStops)
  /\ harness = [t \in Tests |-> h]
  /\ Start
CaseSpec == CaseInitOf("runs") /\ [][MCNext]_mcvars
\* what the machine with an empty harness (the pinned tree) does in the same scenarios: used at development
\* time to test the driver's classifier on every scenario of the pool (MC_TestRunner_cases_asis.cfg)
CaseSpecAsIs == CaseInitOf("empty") /\ [][MCNext]_mcvars

SeqOf(f) == [t \in Tests |-> f[t]]
CaseHook == pc = "done" =>
  PrintT(<<"CASE", ToJson([id |-> sid, xpassStops |-> xpassStops, sel |-> sel,
                           selected |-> [t \in Tests |-> Selected(t)],
                           verdict |-> SeqOf(verdict), ran |-> SeqOf(ran), fin |-> SeqOf(fin),
                           cnt |-> cnt, exit |-> exit, nlines |-> Len(Lines)])>>)
=============================================================================
