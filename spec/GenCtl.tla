-------------------------------- MODULE GenCtl --------------------------------
(* C01 generator, control flow: branching chains (if / elif* / else and statement-level match with
   literal, binding, guarded and wildcard arms) whose conditions are pure, effectful (helpers t(k) / f(k)
   print k and return true / false, so evaluation order and short-circuiting of the chain are observable)
   or depend on the loop variable; one branch may carry a jump (break / continue / return), directly or
   inside a nested if; the chain sits in a plain function body, a while loop, a for loop over range() or
   over a list, or the inner loop of a nest - followed by a trailing print in the loop body, after the
   loop and at the end of the function, so that fall-through, break, continue and return all differ in
   what is printed. Behaviour = Core's Run. *)
EXTENDS Core, Json

EInt(n)     == [k |-> "lit", lk |-> "int", iv |-> n]
EBool(b)    == [k |-> "lit", lk |-> "bool", bv |-> b]
EId(x)      == [k |-> "ident", name |-> x]
EBin(o,l,r) == [k |-> "bin", op |-> o, l |-> l, r |-> r]
ECall(f, a) == [k |-> "call", f |-> f, args |-> a]
EList(xs)   == [k |-> "list", items |-> xs]
SAssign(bk, x, ty, ex) == [k |-> "assign", bk |-> bk, name |-> x, ty |-> ty, e |-> ex]
SCompound(x, o, ex)    == [k |-> "compound", name |-> x, op |-> o, e |-> ex]
SPrint(ex)             == [k |-> "print", e |-> ex]
SIf(c, t, el, e)       == [k |-> "if", cond |-> c, then |-> t, elifs |-> el, else |-> e]
SWhile(c, b)           == [k |-> "while", cond |-> c, body |-> b]
SFor(v, it, b)         == [k |-> "for", var |-> v, iter |-> it, body |-> b]
SRet(ex)               == [k |-> "return", e |-> ex]
SMatch(subj, arms, form) == [k |-> "matchs", subj |-> subj, arms |-> arms, form |-> form]

TFn == [name |-> "t", params |-> <<[name |-> "k", ty |-> "int", mut |-> FALSE]>>, ret |-> "bool",
        body |-> <<SPrint(EId("k")), SRet(<<EBool(TRUE)>>)>>]
FFn == [name |-> "f", params |-> <<[name |-> "k", ty |-> "int", mut |-> FALSE]>>, ret |-> "bool",
        body |-> <<SPrint(EId("k")), SRet(<<EBool(FALSE)>>)>>]

CONSTANTS MaxBranches,   \* branches of a chain besides the optional else / wildcard: 1..MaxBranches
          CondKinds,     \* subset of {"T", "F", "eT", "eF", "eq1", "lt2", "andTF", "orFT"}
          Ctxs           \* subset of {"fn", "while", "for-range", "for-list", "nested", "while-in-for"}
Jumps == {"none", "break", "continue", "return"}
\* condition number p of kind ck (v = the loop variable / parameter)
Cond(ck, p) ==
  CASE ck = "T" -> EBool(TRUE) [] ck = "F" -> EBool(FALSE)
    [] ck = "eT" -> ECall("t", <<EInt(10 + p)>>) [] ck = "eF" -> ECall("f", <<EInt(10 + p)>>)
    [] ck = "eq1" -> EBin("==", EId("v"), EInt(1)) [] ck = "lt2" -> EBin("<", EId("v"), EInt(2))
    [] ck = "andTF" -> EBin("and", ECall("t", <<EInt(10 + p)>>), ECall("f", <<EInt(20 + p)>>))
    [] ck = "orFT" -> EBin("or", ECall("f", <<EInt(10 + p)>>), ECall("t", <<EInt(20 + p)>>))
\* match arms: literal patterns 0..2, a binding with a guard, a bare binding; kinds reuse the branch positions
ArmKinds == {"lit0", "lit1", "lit2", "bind-guard-lt2", "bind-guard-eT", "bind"}
Arm(ak, p, body) ==
  CASE ak = "lit0" -> [pat |-> [k |-> "plit", lit |-> EInt(0)], guard |-> <<>>, body |-> body]
    [] ak = "lit1" -> [pat |-> [k |-> "plit", lit |-> EInt(1)], guard |-> <<>>, body |-> body]
    [] ak = "lit2" -> [pat |-> [k |-> "plit", lit |-> EInt(2)], guard |-> <<>>, body |-> body]
    [] ak = "bind-guard-lt2" -> [pat |-> [k |-> "pbind", name |-> "b"], guard |-> <<EBin("<", EId("b"), EInt(2))>>, body |-> body]
    [] ak = "bind-guard-eT" -> [pat |-> [k |-> "pbind", name |-> "b"], guard |-> <<ECall("t", <<EInt(10 + p)>>)>>, body |-> body]
    [] ak = "bind" -> [pat |-> [k |-> "pbind", name |-> "b"], guard |-> <<>>, body |-> (<<SPrint(EId("b"))>> \o body)]

JumpStmt(j, p) == CASE j = "none" -> <<>> [] j = "break" -> <<[k |-> "break"]>> [] j = "continue" -> <<[k |-> "continue"]>>
                    [] j = "return" -> <<SRet(<<EInt(50 + p)>>)>>
\* body of branch p; the jumping branch carries the jump directly or inside a nested if on v
Body(p, jb, j, nest) ==
  IF p # jb THEN <<SPrint(EInt(p))>>
  ELSE IF ~nest THEN <<SPrint(EInt(p))>> \o JumpStmt(j, p)
  ELSE <<SPrint(EInt(p)), SIf(EBin("==", EId("v"), EInt(2)), <<SPrint(EInt(70 + p))>> \o JumpStmt(j, p), <<>>, <<<<SPrint(EInt(80 + p))>>>>)>>

VARIABLES kind, ctx, cks, els, jb, jump, nest, form, phase
vars == <<kind, ctx, cks, els, jb, jump, nest, form, phase>>
NB == Len(cks)
Chain ==
  IF kind = "if" THEN
     SIf(Cond(cks[1], 1), Body(1, jb, jump, nest),
         [i \in 1..(NB - 1) |-> [cond |-> Cond(cks[i + 1], i + 1), body |-> Body(i + 1, jb, jump, nest)]],
         IF els THEN <<Body(NB + 1, jb, jump, nest)>> ELSE <<>>)
  ELSE SMatch(EId("v"), [i \in 1..NB |-> Arm(cks[i], i, Body(i, jb, jump, nest))] \o
                        <<[pat |-> [k |-> "pwild"], guard |-> <<>>, body |-> Body(NB + 1, jb, jump, nest)]>>, form)
InLoop == ctx # "fn"
Tail1 == SPrint(EBin("+", EInt(100), EId("v")))
GBody ==
  CASE ctx = "fn" -> <<SAssign("let", "v", "", EId("n")), Chain, SPrint(EInt(999)), SRet(<<EInt(0)>>)>>
    [] ctx = "while" -> <<SAssign("mut", "v", "", [k |-> "un", op |-> "-", e |-> EInt(1)]),
                          SWhile(EBin("<", EId("v"), EInt(2)), <<SCompound("v", "+", EInt(1)), Chain, Tail1>>),
                          SPrint(EInt(999)), SRet(<<EInt(0)>>)>>
    [] ctx = "for-range" -> <<SFor("v", ECall("range", <<EInt(3)>>), <<Chain, Tail1>>), SPrint(EInt(999)), SRet(<<EInt(0)>>)>>
    [] ctx = "for-list" -> <<SFor("v", EList(<<EInt(2), EInt(0), EInt(1)>>), <<Chain, Tail1>>), SPrint(EInt(999)), SRet(<<EInt(0)>>)>>
    [] ctx = "nested" -> <<SFor("w", ECall("range", <<EInt(2)>>),
                                <<SFor("v", ECall("range", <<EInt(3)>>), <<Chain, Tail1>>), SPrint(EBin("+", EInt(200), EId("w")))>>),
                           SPrint(EInt(999)), SRet(<<EInt(0)>>)>>
    [] ctx = "while-in-for" -> <<SFor("w", ECall("range", <<EInt(2)>>),
                                <<SAssign("mut", "v", "", [k |-> "un", op |-> "-", e |-> EInt(1)]),
                                  SWhile(EBin("<", EId("v"), EInt(2)), <<SCompound("v", "+", EInt(1)), Chain, Tail1>>),
                                  SPrint(EBin("+", EInt(200), EId("w")))>>),
                           SPrint(EInt(999)), SRet(<<EInt(0)>>)>>
G == [name |-> "g", params |-> <<[name |-> "n", ty |-> "int", mut |-> FALSE]>>, ret |-> "int", body |-> GBody]
Prog == [consts |-> <<>>, fns |-> <<TFn, FFn, G,
           [name |-> "main", params |-> <<>>, ret |-> "none", body |-> <<SPrint(ECall("g", <<EInt(1)>>))>>]>>]

\* the chain is built branch by branch (TLC's workers share the work; initial states are computed by one thread only)
Init == /\ kind \in {"if", "match"} /\ ctx \in Ctxs /\ cks = <<>> /\ phase = "build"
        /\ els = FALSE /\ jb = 0 /\ jump = "none" /\ nest = FALSE /\ form = "-"
AddBranch == /\ phase = "build" /\ Len(cks) < MaxBranches
             /\ \E ck \in (IF kind = "if" THEN CondKinds ELSE ArmKinds) : cks' = Append(cks, ck)
             /\ UNCHANGED <<kind, ctx, els, jb, jump, nest, form, phase>>
Finish == /\ phase = "build" /\ cks # <<>> /\ phase' = "done"
          /\ els' \in (IF kind = "if" THEN BOOLEAN ELSE {TRUE})
          /\ form' \in (IF kind = "match" THEN {"arrow", "case"} ELSE {"-"})
          /\ jump' \in (IF ctx = "fn" THEN {"none", "return"} ELSE Jumps)
          /\ jb' \in (IF jump' = "none" THEN {0} ELSE 1..(Len(cks) + (IF els' THEN 1 ELSE 0)))
          /\ nest' \in (IF jump' = "none" THEN {FALSE} ELSE BOOLEAN)
          \* guards exist only in the `case` syntax
          /\ (kind = "match" /\ form' = "arrow") => \A i \in 1..Len(cks) : cks[i] \notin {"bind-guard-lt2", "bind-guard-eT"}
          /\ UNCHANGED <<kind, ctx, cks>>
Next == AddBranch \/ Finish

Res == Run(Prog)
Sound == phase = "done" => Res.status = "done"
Tags == {"ctl:" \o kind, "ctx:" \o ctx, "jump:" \o jump} \cup {"cond:" \o cks[i] : i \in 1..Len(cks)}
          \cup (IF nest THEN {"jump-nested"} ELSE {}) \cup (IF kind = "match" THEN {"matchform:" \o form} ELSE {})
Emit == phase = "done" => PrintT(<<"CASE", ToJson([g |-> G, out |-> Res.out, status |-> Res.status, err |-> Res.err, feats |-> Tags,
                                 branches |-> Len(cks), els |-> els])>>)
=============================================================================
