------------------------------- MODULE MC_Lsp -------------------------------
(* Model checking + behaviour generation for Lsp.
   `tr` is a history variable (the schedule that led here: one record per harness step); the
   VIEW hides it, so TLC explores every distinct state once and `tr` is the BFS-tree path to it.
   EdgeHook (an ACTION_CONSTRAINT, evaluated on EVERY generated transition, also those leading to
   known states) prints, for each edge (s, a, t) of the state graph, the schedule reaching t
   through that edge together with the projection of t: the transition cover replayed in the
   real server (B1). *)
EXTENDS Lsp, Json
VARIABLE tr
mcvars == <<hs, lock, store, pub, latest, sentVer, closed, removed, tr>>
View == vars

Ev(a, h) == [a |-> a, h |-> h, kind |-> "", doc |-> "", ver |-> 0, cls |-> ""]
MCInit == Init /\ tr = <<>>
MCNext ==
  \/ \E u \in Docs : ClientSend(u)
        /\ tr' = Append(tr, LET m == hs'[Len(hs')] IN
                            [a |-> "send", h |-> Len(hs'), kind |-> m.kind, doc |-> m.uri, ver |-> m.ver, cls |-> m.cls])
  \/ \E i \in Ids : Start(i) /\ tr' = Append(tr, Ev("start", i))
  \/ \E i \in Ids : (AcqRead(i) \/ DepPublish(i) \/ AcqWrite(i) \/ Publish(i) \/ CloseAcqWrite(i) \/ ClosePublish(i))
        /\ tr' = Append(tr, Ev("step", i))
  \/ \E i \in Ids : (ResumeRead(i) \/ ResumeWrite(i) \/ CloseResumeWrite(i)) /\ tr' = Append(tr, Ev("resume", i))
  \/ Idle /\ UNCHANGED tr
MCSpec == MCInit /\ [][MCNext]_mcvars

Proj == [pcs |-> [i \in DOMAIN hs |-> hs[i].pc], store |-> store, pub |-> pub, writer |-> lock.writer,
         readers |-> lock.readers, locked |-> (lock.writer # 0 \/ lock.q # <<>>), quiescent |-> Quiescent]
EdgeHook == (tr' # tr) => PrintT(<<"EDGE", ToJson([tr |-> tr', st |-> Proj'])>>)
=============================================================================
