------------------------------- MODULE GenProg -------------------------------
(* Generator G2: statement-level programs, built as a frame stack (state machine): simple
   statements are appended to the innermost open block; Open / Elif / Else / Close manage the
   block structure. The program is  helper `h` (prints its argument, returns it plus one - so
   evaluation order and short-circuiting are observable) + the generated `main`. For every
   complete program the specification's verdict and behaviour are printed. *)
EXTENDS Core, Json

EInt(n)     == [k |-> "lit", lk |-> "int", iv |-> n]
EFloat(n,d) == [k |-> "lit", lk |-> "float", fn |-> n, fd |-> d]
EBool(b)    == [k |-> "lit", lk |-> "bool", bv |-> b]
EStr(s)     == [k |-> "lit", lk |-> "str", sv |-> s]
EId(x)      == [k |-> "ident", name |-> x]
EPar(e)     == [k |-> "paren", e |-> e]
EUn(o, e)   == [k |-> "un", op |-> o, e |-> e]
EBin(o,l,r) == [k |-> "bin", op |-> o, l |-> l, r |-> r]
ECall(f, a) == [k |-> "call", f |-> f, args |-> a]
EList(xs)   == [k |-> "list", items |-> xs]

SAssign(bk, x, ty, ex) == [k |-> "assign", bk |-> bk, name |-> x, ty |-> ty, e |-> ex]
SCompound(x, o, ex)    == [k |-> "compound", name |-> x, op |-> o, e |-> ex]
SPrint(ex)             == [k |-> "print", e |-> ex]
SIf(c, t, el, e)       == [k |-> "if", cond |-> c, then |-> t, elifs |-> el, else |-> e]
SWhile(c, b)           == [k |-> "while", cond |-> c, body |-> b]
SFor(v, it, b)         == [k |-> "for", var |-> v, iter |-> it, body |-> b]
SRet(ex)               == [k |-> "return", e |-> ex]

Helper == [name |-> "h", params |-> <<[name |-> "a", ty |-> "int", mut |-> FALSE]>>, ret |-> "int",
           body |-> <<SPrint(EId("a")), SRet(<<EBin("+", EId("a"), EInt(1))>>)>>]

CONSTANTS MaxStmts, MaxDepth
Names == {"x", "y"}
Exprs == { EInt(1), EInt(0), EId("x"), EId("y"),
           EBin("+", EId("x"), EInt(1)), EBin("-", EId("x"), EId("y")),
           EBin("*", EPar(EBin("+", EId("x"), EInt(1))), EInt(2)),
           EBin("//", EInt(7), EId("x")), EBin("%", EUn("-", EInt(7)), EInt(3)),
           ECall("h", <<EId("x")>>), EBin("+", ECall("h", <<EInt(1)>>), EBin("*", ECall("h", <<EInt(2)>>), ECall("h", <<EInt(3)>>))),
           EFloat(3, 1), EBin("/", EId("x"), EInt(2)) }
Conds == { EBin("<", EId("x"), EInt(3)), EBin("==", EId("x"), EId("y")), EBool(TRUE),
           EUn("not", EPar(EBin("and", EBin("<", EId("x"), EInt(3)), EBin("<", EInt(0), EId("x"))))),
           EBin("or", EBin(">", ECall("h", <<EInt(5)>>), EInt(0)), EBin(">", ECall("h", <<EInt(6)>>), EInt(0))) }
Iters == { ECall("range", <<EInt(3)>>), ECall("range", <<EInt(1), EId("x")>>), ECall("range", <<EInt(4), EInt(0), EUn("-", EInt(2))>>),
           EList(<<EInt(3), EInt(1), EInt(4)>>) }
Kinds == {"let", "mut", "inferred"}
CompoundOps == {"+", "-", "*", "//", "%"}

VARIABLES frames, count
\* frame: [kind, cond, var, iter, then, elifs, cur, phase]; bottom frame = body of main
Frame(kd, c, v, it) == [kind |-> kd, cond |-> c, var |-> v, iter |-> it, then |-> <<>>, elifs |-> <<>>, cur |-> <<>>, phase |-> "then"]
Top == frames[Len(frames)]
PushStmt(s) == frames' = [frames EXCEPT ![Len(frames)].cur = Append(@, s)]

Init == frames = <<Frame("prog", EBool(TRUE), "", EInt(0))>> /\ count = 0
AddSimple == /\ count < MaxStmts
             /\ \/ \E bk \in Kinds, x \in Names, ex \in Exprs : PushStmt(SAssign(bk, x, "", ex))
                \/ \E x \in Names, o \in CompoundOps, ex \in {EInt(1), EInt(2), EId("y")} : PushStmt(SCompound(x, o, ex))
                \/ \E ex \in Exprs \cup Conds : PushStmt(SPrint(ex))
                \/ PushStmt([k |-> "break"]) \/ PushStmt([k |-> "continue"])
             /\ count' = count + 1
Open == /\ count < MaxStmts /\ Len(frames) <= MaxDepth
        /\ \/ \E kd \in {"if", "while"}, c \in Conds : frames' = Append(frames, Frame(kd, c, "", EInt(0)))
           \/ \E v \in {"i", "x"}, it \in Iters : frames' = Append(frames, Frame("for", EBool(TRUE), v, it))
        /\ count' = count + 1
\* close the current branch of an `if` and start an elif / else branch
Branch == /\ Len(frames) > 1 /\ Top.kind = "if" /\ Top.phase # "else" /\ Top.cur # <<>> /\ count < MaxStmts
          /\ LET f == Top
                 done == IF f.phase = "then" THEN [f EXCEPT !.then = f.cur, !.cur = <<>>]
                         ELSE [f EXCEPT !.elifs = Append(@, [cond |-> f.cond2, body |-> f.cur]), !.cur = <<>>] IN
             \/ \E c \in Conds : frames' = [frames EXCEPT ![Len(frames)] = [done EXCEPT !.phase = "elif"] @@ [cond2 |-> c]]
             \/ frames' = [frames EXCEPT ![Len(frames)] = [done EXCEPT !.phase = "else"] @@ [cond2 |-> EBool(TRUE)]]
          /\ UNCHANGED count
Close == /\ Len(frames) > 1 /\ Top.cur # <<>>
         /\ LET f == Top
                s == IF f.kind = "while" THEN SWhile(f.cond, f.cur)
                     ELSE IF f.kind = "for" THEN SFor(f.var, f.iter, f.cur)
                     ELSE IF f.phase = "then" THEN SIf(f.cond, f.cur, <<>>, <<>>)
                     ELSE IF f.phase = "elif" THEN SIf(f.cond, f.then, Append(f.elifs, [cond |-> f.cond2, body |-> f.cur]), <<>>)
                     ELSE SIf(f.cond, f.then, f.elifs, <<f.cur>>)
                rest == SubSeq(frames, 1, Len(frames) - 1) IN
            frames' = [rest EXCEPT ![Len(rest)].cur = Append(@, s)]
         /\ UNCHANGED count
Next == AddSimple \/ Open \/ Branch \/ Close

Complete == Len(frames) = 1 /\ frames[1].cur # <<>>
Prog == [consts |-> <<>>, fns |-> <<Helper, [name |-> "main", params |-> <<>>, ret |-> "none", body |-> frames[1].cur]>>]
MainScope == <<EmptyScope, EmptyScope>>

Emit == Complete =>
          IF ~Accept(Prog) THEN PrintT(<<"REJ", ToJson([body |-> frames[1].cur])>>)
          ELSE LET r == Run(Prog) IN
               (Specified(r) /\ r.out # <<>>) =>
                  PrintT(<<"CASE", ToJson([body |-> frames[1].cur, out |-> r.out, status |-> r.status, err |-> r.err,
                                           feats |-> BFeats(frames[1].cur, MainScope, Prog, 0)])>>)
Sound == (Complete /\ Accept(Prog)) => Run(Prog).status \in {"done", "error"}
=============================================================================
