------------------------------- MODULE GenSyntax -------------------------------
(* C08 / C09 / C10 / C11 generator: the SURFACE GRAMMAR of Incan walked systematically.

   The grammar machine derives abstract syntax trees by leftmost refinement of ONE path:
     chain = <<node_1, ..., node_n>>      node = [id, par, o, at, infs]
   node_1 is a declaration or statement production (the skeleton), node_{i+1} is the production placed in slot `at` of
   node_i; every other slot holds the default leaf of its category (an identifier, `int`, a binding pattern, a call
   statement, a plain method / field / parameter / decorator / arm), distinct per slot so that swapped positions show.
   Every production has OPTIONS (OptSpec: a sequence of <<name, max>>, value 0..max): one per optional field / marker /
   list of the AST node (absent / present; 0 / 1 / 2 elements) and per surface spelling that the parser must map to
   the same tree (separators of import paths, `..` vs `super`, `case` vs `=>` arms, inline vs block arm bodies, a
   body-less method written with a bare newline or `: ...`, trailing commas, quote styles, numeric spellings,
   `newtype X = T`, `...` for `pass`, `(A, B)` tuple types, `Foo()` patterns ...).
   Skeletons: every declaration and statement production; and, so that Depth = 1 reaches every (production, position,
   production) triple, every expression (in `v = _`), type (in `let v: _ = a`), pattern and arm (in `match subj:`), method (in
   a trait and in a class), field (in a model), parameter and decorator (on a function) - WrapRoot.
   The LAST node of a chain takes every valid option vector (SetOpt, one choice per action); its ancestors take PROFILES
   (CONSTANT Profiles): `min` the poorest form, `one` the poorest form with ONE option raised to its richest value, `need` the
   poorest forms that expose a position no `min` / `one` vector has (an intermediate value or two options at once), `max` the
   richest form; operator productions (bin, un, compound assignments) take EVERY operator when the production below them is
   one whose precedence matters. With FreeAnc = TRUE (used with `tlc -simulate`) ancestors take every valid vector.
   Depth = number of refinements: Depth = 1 is "one sub-construct drawn from the menu of the category the position needs".
   A sub-construct under a poor ancestor is a case in which a printer defect of the sub-construct shows in isolation (no
   known-bad feature of the ancestor in the same row).

   What a row states (Emit): the abstract syntax tree the case DENOTES, in the JSON shape of harness/src/project.rs -
   the oracle "the parser returns THIS tree" is the specification's, not the parser's. Fields named sx* are surface
   hints for the renderer (lib/gensyntax.py) and are not part of the tree. Where the parser is documented / written to
   normalise, the row states the normal form: fields of a `pub` model / class are public, `a.f += e` on a field or
   element target denotes `a.f = a.f + e` WITHOUT grouping of e (sxcompound), `(T)` is T, `newtype X = T` is
   `type X = newtype T`, `...` is `pass`, a `case` arm body is a block even when written inline.
   Operands that bind less tightly than their position demands are wrapped in a Paren node by the machine (Wrap) -
   necessary parentheses; the `paren` production gives the redundant ones.

   Invariants on the generator itself:
     WellFormed   every emitted tree is a tree the documented grammar can produce: operand precedence (PrecOK, written
                  from the precedence ladder, independently of Wrap), block expressions (match / if) only where a
                  statement ends, a body-less method only inside a trait, a guard only on a `case` arm, an expression
                  body only on an inline `=>` arm, closure parameters untyped, `crate` / parents / segments of import
                  paths consistent, public containers have public fields, a constructor pattern without arguments is
                  qualified or written with parentheses, no `.0.1`.
     (coverage and pairwise distinctness of the rows are measured by the driver against OptDomains, printed once, and
      written into the evidence; TLC's count of distinct final states = number of rows.) *)
EXTENDS Integers, Sequences, TLC, Json

CONSTANTS Depth,      \* maximal number of refinements below the skeleton
          Profiles,   \* subset of {"min", "one", "need", "max"}: option vectors of the ancestors of the last node
          FreeAnc,    \* TRUE: ancestors may take every valid option vector (simulation)
          RootKinds   \* subset of {"decl", "stmt", "expr", "type", "pat", "member"}: the categories that supply skeletons

\* ================================================================== abstract syntax (project.rs shape)
Opt(c, x) == IF c THEN <<x>> ELSE <<>>
Id(n) == [k |-> "ident", name |-> n]
IntL(n) == [k |-> "lit", lk |-> "int", iv |-> n]
StrL(s) == [k |-> "lit", lk |-> "str", sv |-> s]
BoolL(b) == [k |-> "lit", lk |-> "bool", bv |-> b]
NoneL == [k |-> "lit", lk |-> "none"]
Bin(o, l, r) == [k |-> "bin", op |-> o, l |-> l, r |-> r]
Un(o, e) == [k |-> "un", op |-> o, e |-> e]
Pos(e) == [ak |-> "pos", e |-> e]
Named(n, e) == [ak |-> "named", name |-> n, e |-> e]
Call(f, a) == [k |-> "call", f |-> f, args |-> a]
Index(o, i) == [k |-> "index", obj |-> o, idx |-> i]
FieldX(o, f) == [k |-> "fieldx", obj |-> o, field |-> f]
Paren(e) == [k |-> "paren", e |-> e]
TSimple(n) == [k |-> "tsimple", name |-> n]
PBind(n) == [k |-> "pbind", name |-> n]
PLit(l) == [k |-> "plit", lit |-> l]
ExprS(e) == [k |-> "expr", e |-> e]
ParamA(m, n, t, d) == [k |-> "param", mut |-> m, name |-> n, ty |-> t, default |-> d]
Num(i) == ToString(i)

\* ================================================================== productions: options
OptSpec(id, par) ==
  CASE id = "import_module"    -> << <<"parents", 3>>, <<"abs", 1>>, <<"segs", 3>>, <<"alias", 1>>, <<"sep", 1>>, <<"dots", 1>> >>
    [] id = "import_from"      -> << <<"parents", 3>>, <<"abs", 1>>, <<"segs", 2>>, <<"items", 1>>, <<"ialias", 3>>, <<"sep", 1>>, <<"dots", 1>> >>
    [] id = "import_python"    -> << <<"alias", 1>> >>
    [] id = "import_rustcrate" -> << <<"segs", 2>>, <<"alias", 1>> >>
    [] id = "import_rustfrom"  -> << <<"segs", 2>>, <<"items", 1>>, <<"ialias", 3>> >>
    [] id = "const"   -> << <<"pub", 1>>, <<"ty", 1>> >>
    [] id = "model"   -> << <<"pub", 1>>, <<"decos", 2>>, <<"tparams", 2>>, <<"traits", 2>>, <<"fields", 2>>, <<"methods", 2>> >>
    [] id = "class"   -> << <<"pub", 1>>, <<"decos", 2>>, <<"tparams", 2>>, <<"extends", 1>>, <<"traits", 2>>, <<"fields", 2>>, <<"methods", 2>> >>
    [] id = "trait"   -> << <<"pub", 1>>, <<"decos", 2>>, <<"tparams", 2>>, <<"methods", 2>> >>
    [] id = "newtype" -> << <<"pub", 1>>, <<"methods", 2>>, <<"alt", 1>> >>
    [] id = "enum"    -> << <<"pub", 1>>, <<"tparams", 2>>, <<"variants", 1>>, <<"payload", 2>>, <<"parens", 1>> >>
    [] id = "fn"      -> << <<"pub", 1>>, <<"async", 1>>, <<"decos", 2>>, <<"tparams", 2>>, <<"params", 2>> >>
    [] id = "doc"     -> << <<"form", 4>> >>
    \* members
    [] id = "method"  -> << <<"decos", 1>>, <<"async", 1>>, <<"recv", 2>>, <<"params", 2>>, <<"body", IF par = "trait" THEN 2 ELSE 0>> >>
    [] id = "field"   -> << <<"pub", 1>>, <<"default", 1>> >>
    [] id = "param"   -> << <<"mut", 1>>, <<"default", 1>> >>
    [] id = "deco"    -> << <<"args", 2>>, <<"a1", 2>>, <<"a2", 2>>, <<"parens", 1>> >>
    [] id = "arm"     -> << <<"syn", 1>>, <<"guard", 1>>, <<"body", 3>> >>
    \* statements
    [] id = "assign"  -> << <<"bk", 2>>, <<"ty", 1>> >>
    [] id = "compound" -> << <<"op", 5>> >>
    [] id = "cfield"  -> << <<"op", 5>> >>
    [] id = "cindex"  -> << <<"op", 5>> >>
    [] id = "return"  -> << <<"val", 1>> >>
    [] id = "if"      -> << <<"elifs", 2>>, <<"else", 1>> >>
    [] id = "pass"    -> << <<"dots", 1>> >>
    [] id = "unpack"  -> << <<"bk", 2>>, <<"names", 1>> >>
    [] id = "chained" -> << <<"bk", 2>>, <<"targets", 1>> >>
    \* expressions
    [] id = "int"     -> << <<"sp", 2>> >>
    [] id = "float"   -> << <<"v", 6>> >>
    [] id = "str"     -> << <<"v", 7>> >>
    [] id = "bytes"   -> << <<"v", 4>> >>
    [] id = "bool"    -> << <<"v", 1>>, <<"cap", 1>> >>
    [] id = "bin"     -> << <<"op", 17>> >>
    [] id = "un"      -> << <<"op", 1>> >>
    [] id = "call"    -> << <<"args", 2>>, <<"named", 3>>, <<"tc", 1>> >>
    [] id = "mcall"   -> << <<"args", 2>>, <<"named", 3>>, <<"tc", 1>> >>
    [] id = "slice"   -> << <<"start", 1>>, <<"end", 1>>, <<"step", 1>>, <<"c2", 1>> >>
    [] id = "match"   -> << <<"arms", 1>> >>
    [] id = "ifx"     -> << <<"else", 1>> >>
    [] id = "listcomp" -> << <<"filter", 1>> >>
    [] id = "dictcomp" -> << <<"filter", 1>> >>
    [] id = "closure" -> << <<"params", 2>> >>
    [] id = "tuple"   -> << <<"n", 3>>, <<"tc", 1>> >>
    [] id = "list"    -> << <<"n", 2>>, <<"tc", 1>> >>
    [] id = "dict"    -> << <<"n", 2>>, <<"tc", 1>> >>
    [] id = "set"     -> << <<"n", 1>>, <<"tc", 1>> >>
    [] id = "fstr"    -> << <<"v", 8>> >>
    [] id = "yield"   -> << <<"val", 1>> >>
    [] id = "range"   -> << <<"incl", 1>> >>
    \* patterns, types
    [] id = "plit"    -> << <<"v", 5>> >>
    [] id = "pctor"   -> << <<"q", 1>>, <<"pats", 2>>, <<"parens", 1>> >>
    [] id = "ptuple"  -> << <<"n", 3>> >>
    [] id = "tsimple" -> << <<"v", 3>> >>
    [] id = "tgeneric" -> << <<"v", 5>> >>
    [] id = "tfn"     -> << <<"params", 2>> >>
    [] id = "ttuple"  -> << <<"n", 2>> >>
    [] OTHER -> <<>>

OIdx(n, f) == CHOOSE i \in 1..Len(OptSpec(n.id, n.par)) : OptSpec(n.id, n.par)[i][1] = f
O(n, f) == n.o[OIdx(n, f)]
Complete(n) == Len(n.o) = Len(OptSpec(n.id, n.par))
Pow2(i) == IF i = 0 THEN 1 ELSE IF i = 1 THEN 2 ELSE 4
Bit(mask, i) == (mask \div Pow2(i - 1)) % 2 = 1          \* i = 1, 2

\* option vectors the grammar allows (dependent options)
PathOK(n) == /\ (O(n, "abs") = 1 => O(n, "parents") = 0 /\ O(n, "segs") >= 1)
             /\ (O(n, "parents") = 0 => O(n, "segs") >= 1)
             /\ (O(n, "dots") = 1 => O(n, "parents") \in 1..2)       \* `..` one level, `...` two (imports_and_modules.md)
             /\ (O(n, "sep") = 1 => O(n, "segs") >= 2)               \* a separator is written
Valid(n) ==
  CASE n.id = "import_module" -> PathOK(n)
    [] n.id = "import_from" -> PathOK(n) /\ O(n, "ialias") < Pow2(O(n, "items") + 1)
    [] n.id = "import_rustfrom" -> O(n, "ialias") < Pow2(O(n, "items") + 1)
    [] n.id \in {"model", "class"} -> O(n, "fields") + O(n, "methods") >= 1
    [] n.id = "enum" -> (O(n, "parens") = 1 => O(n, "payload") = 0)
    [] n.id = "deco" -> /\ (O(n, "args") < 1 => O(n, "a1") = 0) /\ (O(n, "args") < 2 => O(n, "a2") = 0)
                        /\ (O(n, "parens") = 1 => O(n, "args") = 0)
    [] n.id = "arm" -> (O(n, "guard") = 1 => O(n, "syn") = 1)
    [] n.id = "param" -> (n.cx = "first-noself" => O(n, "mut") = 0)     \* `def m(mut ...` announces the receiver `mut self`
    [] n.id \in {"call", "mcall"} -> O(n, "named") < Pow2(O(n, "args")) /\ (O(n, "tc") = 1 => O(n, "args") >= 1)
    [] n.id = "slice" -> (O(n, "c2") = 1 => O(n, "step") = 0)
    [] n.id = "tuple" -> (O(n, "tc") = 1 => O(n, "n") >= 2)
    [] n.id \in {"list", "dict"} -> (O(n, "tc") = 1 => O(n, "n") >= 1)
    [] n.id = "pctor" -> /\ (O(n, "parens") = 1 => O(n, "pats") = 0)
                         /\ (O(n, "q") = 0 /\ O(n, "pats") = 0 => O(n, "parens") = 1)
    [] OTHER -> TRUE

\* ================================================================== productions: slots
S(nm, c) == [n |-> nm, c |-> c, l |-> 0, b |-> FALSE]
SL(nm, l) == [n |-> nm, c |-> "expr", l |-> l, b |-> FALSE]      \* operand position: minimal precedence level l
ST(nm) == [n |-> nm, c |-> "expr", l |-> 0, b |-> TRUE]          \* the expression ends the statement: block expressions fit
SN(p, cnt, c) == [i \in 1..cnt |-> S(p \o Num(i), c)]
BinOps == <<"or", "and", "==", "!=", "<", ">", "<=", ">=", "in", "not in", "is", "+", "-", "*", "/", "//", "%", "**">>
CompoundOps == <<"+=", "-=", "*=", "/=", "//=", "%=">>
CompoundBin == <<"+", "-", "*", "/", "//", "%">>
\* the precedence ladder of the expression grammar: or < and < not < comparison < range < additive < multiplicative <
\* power < unary minus / await < postfix < primary; closures, yield, match and if expressions extend as far as they can
OpLvl(op) == CASE op = "or" -> 1 [] op = "and" -> 2 [] op \in {"==", "!=", "<", ">", "<=", ">=", "in", "not in", "is"} -> 4
               [] op \in {"+", "-"} -> 6 [] op \in {"*", "/", "//", "%"} -> 7 [] op = "**" -> 8
LReq(op) == IF op = "**" THEN 9 ELSE OpLvl(op)                   \* left-associative chains; `-a ** b` is (-a) ** b
RReq(op) == CASE op = "or" -> 2 [] op = "and" -> 3 [] OpLvl(op) = 4 -> 5 [] OpLvl(op) = 6 -> 7 [] OpLvl(op) = 7 -> 8 [] op = "**" -> 8
ELvl(e) == CASE e.k = "bin" -> OpLvl(e.op)
             [] e.k = "un" -> IF e.op = "not" THEN 3 ELSE 9
             [] e.k = "await" -> 9
             [] e.k = "range" -> 5
             [] e.k \in {"call", "index", "slice", "fieldx", "mcall", "try"} -> 10
             [] e.k \in {"closure", "yield", "match", "ifx"} -> 0
             [] OTHER -> 11

Slots(n) ==
  CASE n.id = "const" -> (IF O(n, "ty") = 1 THEN <<S("ty", "type")>> ELSE <<>>) \o <<ST("e")>>
    [] n.id \in {"model", "class"} -> SN("deco", O(n, "decos"), "deco") \o SN("field", O(n, "fields"), "field") \o SN("method", O(n, "methods"), "method")
    [] n.id = "trait" -> SN("deco", O(n, "decos"), "deco") \o SN("method", O(n, "methods"), "method")
    [] n.id = "newtype" -> <<S("ty", "type")>> \o SN("method", O(n, "methods"), "method")
    [] n.id = "enum" -> SN("pay", O(n, "payload"), "type")
    [] n.id = "fn" -> SN("deco", O(n, "decos"), "deco") \o SN("param", O(n, "params"), "param") \o <<S("ret", "type"), S("body", "stmt")>>
    [] n.id = "method" -> SN("deco", O(n, "decos"), "deco") \o SN("param", O(n, "params"), "param") \o <<S("ret", "type")>>
                          \o (IF O(n, "body") = 0 THEN <<S("body", "stmt")>> ELSE <<>>)
    [] n.id \in {"field", "param"} -> <<S("ty", "type")>> \o (IF O(n, "default") = 1 THEN <<S("default", "expr")>> ELSE <<>>)
    [] n.id = "deco" -> [i \in 1..O(n, "args") |-> S("arg" \o Num(i), IF O(n, "a" \o Num(i)) = 2 THEN "type" ELSE "expr")]
    [] n.id = "arm" -> <<S("pat", "pat")>> \o (IF O(n, "guard") = 1 THEN <<S("guard", "expr")>> ELSE <<>>)
                       \o (IF O(n, "body") \in {0, 1} THEN <<S("e", "expr")>> ELSE IF O(n, "body") = 2 THEN <<S("s", "stmt")>> ELSE <<>>)
    [] n.id = "assign" -> (IF O(n, "ty") = 1 THEN <<S("ty", "type")>> ELSE <<>>) \o <<ST("e")>>
    [] n.id = "fassign" -> <<SL("obj", 10), ST("e")>>
    [] n.id = "iassign" -> <<SL("obj", 10), S("idx", "expr"), ST("e")>>
    [] n.id = "compound" -> <<ST("e")>>
    [] n.id = "cfield" -> <<SL("obj", 10), S("e", "expr")>>
    [] n.id = "cindex" -> <<SL("obj", 10), S("idx", "expr"), S("e", "expr")>>
    [] n.id = "return" -> IF O(n, "val") = 1 THEN <<ST("e")>> ELSE <<>>
    [] n.id = "if" -> <<S("cond", "expr"), S("then", "stmt")>>
                      \o [i \in 1..(2 * O(n, "elifs")) |-> IF i % 2 = 1 THEN S("econd" \o Num((i + 1) \div 2), "expr") ELSE S("ebody" \o Num(i \div 2), "stmt")]
                      \o (IF O(n, "else") = 1 THEN <<S("else", "stmt")>> ELSE <<>>)
    [] n.id = "while" -> <<S("cond", "expr"), S("body", "stmt")>>
    [] n.id = "for" -> <<S("iter", "expr"), S("body", "stmt")>>
    [] n.id = "exprstmt" -> <<ST("e")>>
    [] n.id \in {"unpack", "tassign", "chained"} -> <<ST("e")>>
    [] n.id = "bin" -> LET op == BinOps[O(n, "op") + 1] IN <<SL("l", LReq(op)), SL("r", RReq(op))>>
    [] n.id = "un" -> <<SL("e", IF O(n, "op") = 1 THEN 3 ELSE 9)>>
    [] n.id = "call" -> <<SL("f", 10)>> \o SN("arg", O(n, "args"), "expr")
    [] n.id = "mcall" -> <<SL("recv", 10)>> \o SN("arg", O(n, "args"), "expr")
    [] n.id = "index" -> <<SL("obj", 10), S("idx", "expr")>>
    [] n.id = "slice" -> <<SL("obj", 10)>> \o (IF O(n, "start") = 1 THEN <<S("start", "expr")>> ELSE <<>>)
                         \o (IF O(n, "end") = 1 THEN <<S("end", "expr")>> ELSE <<>>) \o (IF O(n, "step") = 1 THEN <<S("step", "expr")>> ELSE <<>>)
    [] n.id \in {"fieldx", "tupidx", "try"} -> <<SL("obj", 10)>>
    [] n.id = "await" -> <<SL("obj", 9)>>
    [] n.id = "match" -> <<S("subj", "expr")>> \o SN("arm", O(n, "arms") + 1, "arm")
    [] n.id = "ifx" -> <<S("cond", "expr"), S("then", "stmt")>> \o (IF O(n, "else") = 1 THEN <<S("else", "stmt")>> ELSE <<>>)
    [] n.id = "listcomp" -> <<S("e", "expr"), S("iter", "expr")>> \o (IF O(n, "filter") = 1 THEN <<S("filter", "expr")>> ELSE <<>>)
    [] n.id = "dictcomp" -> <<S("key", "expr"), S("val", "expr"), S("iter", "expr")>> \o (IF O(n, "filter") = 1 THEN <<S("filter", "expr")>> ELSE <<>>)
    [] n.id = "closure" -> <<S("e", "expr")>>
    [] n.id = "tuple" -> SN("item", O(n, "n"), "expr")
    [] n.id = "list" -> SN("item", O(n, "n"), "expr")
    [] n.id = "set" -> SN("item", O(n, "n") + 1, "expr")
    [] n.id = "dict" -> [i \in 1..(2 * O(n, "n")) |-> IF i % 2 = 1 THEN S("key" \o Num((i + 1) \div 2), "expr") ELSE S("val" \o Num(i \div 2), "expr")]
    [] n.id = "paren" -> <<S("e", "expr")>>
    [] n.id = "fstr" -> IF O(n, "v") = 8 THEN <<S("e", "expr")>> ELSE <<>>
    [] n.id = "yield" -> IF O(n, "val") = 1 THEN <<S("e", "expr")>> ELSE <<>>
    [] n.id = "range" -> <<SL("start", 6), SL("end", 6)>>
    [] n.id = "pctor" -> SN("p", O(n, "pats"), "pat")
    [] n.id = "ptuple" -> SN("p", O(n, "n"), "pat")
    [] n.id = "tgeneric" -> SN("t", IF O(n, "v") \in {1, 3, 5} THEN 2 ELSE 1, "type")
    [] n.id = "tfn" -> SN("p", O(n, "params"), "type") \o <<S("ret", "type")>>
    [] n.id = "ttuple" -> SN("t", O(n, "n") + 1, "type")
    [] OTHER -> <<>>

\* ================================================================== default leaves
DefMethod(j) == [k |-> "method", decos |-> <<>>, async |-> FALSE, name |-> "m" \o Num(j), recv |-> "self", params |-> <<>>,
                 ret |-> TSimple("int"), mbody |-> << <<[k |-> "return", e |-> <<Id("a")>>]>> >>]
DefArm(j) == [k |-> "arm", pat |-> PLit(IntL(j)), guard |-> <<>>, abk |-> "expr", e |-> <<Id("r" \o Num(j))>>, body |-> <<>>,
              sxcase |-> FALSE, sxinline |-> TRUE]
Default(slot, j) ==
  CASE slot.c = "expr" -> Id(<<"a", "b", "c", "d", "g", "h", "u", "w">>[j])
    [] slot.c = "type" -> TSimple(<<"int", "str", "bool", "float", "bytes", "A", "B", "C">>[j])
    [] slot.c = "pat" -> PBind("p" \o Num(j))
    [] slot.c = "stmt" -> ExprS(Call(Id("s" \o Num(j)), <<>>))
    [] slot.c = "method" -> DefMethod(j)
    [] slot.c = "field" -> [k |-> "field", pub |-> FALSE, name |-> "x" \o Num(j), ty |-> TSimple("int"), default |-> <<>>, sxpub |-> FALSE]
    [] slot.c = "param" -> ParamA(FALSE, "q" \o Num(j), TSimple("int"), <<>>)
    [] slot.c = "deco" -> [k |-> "deco", name |-> "d" \o Num(j), dargs |-> <<>>, sxparens |-> FALSE]
    [] slot.c = "arm" -> DefArm(j)

\* ================================================================== productions: the tree a node denotes
Floats == << [bits |-> "4609434218613702656", ftxt |-> "1.5", sxtxt |-> "1.5"],
             [bits |-> "4611686018427387904", ftxt |-> "2.0", sxtxt |-> "2.0"],
             [bits |-> "4756540486875873280", ftxt |-> "10000000000.0", sxtxt |-> "1e10"],
             [bits |-> "4567911030049346683", ftxt |-> "0.0025", sxtxt |-> "2.5e-3"],
             [bits |-> "4621959855077326848", ftxt |-> "10.25", sxtxt |-> "1_0.2_5"],
             [bits |-> "4846369599423283200", ftxt |-> "1e16", sxtxt |-> "1E16"],
             [bits |-> "4591870180066957722", ftxt |-> "0.1", sxtxt |-> "0.1"] >>
\* <E> stands for a non-ASCII scalar (substituted by the driver in the tree and in the text), <BS> for one backslash
Strs == << [sv |-> "hello", sxtxt |-> "\"hello\""],
           [sv |-> "single", sxtxt |-> "'single'"],
           [sv |-> "", sxtxt |-> "\"\""],
           [sv |-> "a\nb\t\"q\"<BS>", sxtxt |-> "\"a<BS>nb<BS>t<BS>\"q<BS>\"<BS><BS>\""],
           [sv |-> "{x} {{y}}", sxtxt |-> "\"{x} {{y}}\""],
           [sv |-> "caf<E> '1'", sxtxt |-> "\"caf<E> '1'\""],
           [sv |-> "two\nlines", sxtxt |-> "\"\"\"two\nlines\"\"\""],
           [sv |-> "it's \"q\"", sxtxt |-> "'it<BS>'s \"q\"'"] >>
Bytess == << [bytes |-> <<97, 98>>, sxtxt |-> "b\"ab\""],
             [bytes |-> <<0, 255, 10>>, sxtxt |-> "b'<BS>x00<BS>xff<BS>n'"],
             [bytes |-> <<>>, sxtxt |-> "b\"\""],
             [bytes |-> <<113, 34, 117>>, sxtxt |-> "b'q\"u'"],
             [bytes |-> <<98, 92, 115>>, sxtxt |-> "b\"b<BS><BS>s\""] >>
FExpr(e) == [pk |-> "expr", e |-> e]
FLit(s) == [pk |-> "lit", sv |-> s]
FStrs == << [parts |-> <<FLit("plain")>>, sxtxt |-> "f\"plain\""],
            [parts |-> <<FExpr(Id("a"))>>, sxtxt |-> "f\"{a}\""],
            [parts |-> <<FLit("x="), FExpr(Id("a")), FLit(", y="), FExpr(FieldX(Id("b"), "c"))>>, sxtxt |-> "f\"x={a}, y={b.c}\""],
            [parts |-> <<FLit("{lit} "), FExpr(Id("a"))>>, sxtxt |-> "f\"{{lit}} {a}\""],
            [parts |-> <<FExpr(Id("a")), FLit(" \"q\"")>>, sxtxt |-> "f'{a} \"q\"'"],
            [parts |-> <<FLit("tab\t"), FExpr(Id("a")), FLit("\n")>>, sxtxt |-> "f\"tab<BS>t{a}<BS>n\""],
            [parts |-> <<FExpr(Id("a"))>>, sxtxt |-> "f\"{a:?}\""],
            [parts |-> <<FExpr(Index(Id("d"), StrL("k")))>>, sxtxt |-> "f\"{d[\"k\"]}\""] >>
Docs == << [sv |-> "Module docstring.", sxtxt |-> "\"\"\"Module docstring.\"\"\""],
           [sv |-> "\nFirst line.\n\nSecond paragraph.\n", sxtxt |-> "\"\"\"\nFirst line.\n\nSecond paragraph.\n\"\"\""],
           [sv |-> "plain string", sxtxt |-> "\"plain string\""],
           [sv |-> "single quoted", sxtxt |-> "'single quoted'"],
           [sv |-> "escape <BS>n written out", sxtxt |-> "\"\"\"escape <BS><BS>n written out\"\"\""] >>
PLits == << IntL(1), StrL("s"), BoolL(TRUE), NoneL, [k |-> "lit", lk |-> "float", bits |-> Floats[1].bits, ftxt |-> Floats[1].ftxt],
            [k |-> "lit", lk |-> "bytes", bytes |-> <<97>>, sxtxt |-> "b\"a\""] >>
Generics == << <<"List", 1>>, <<"Dict", 2>>, <<"Option", 1>>, <<"Result", 2>>, <<"Box", 1>>, <<"Pair", 2>> >>
Segs == <<"pkg", "sub", "leaf">>
ImportPath(n) == [parents |-> O(n, "parents"), abs |-> O(n, "abs") = 1, segs |-> SubSeq(Segs, 1, O(n, "segs"))]
Items(n) == [i \in 1..(O(n, "items") + 1) |-> [name |-> <<"Item", "other">>[i], alias |-> Opt(Bit(O(n, "ialias"), i), <<"Al", "al2">>[i])]]
PathHints(n) == [sxsep |-> IF O(n, "sep") = 1 THEN "." ELSE "::", sxdots |-> O(n, "dots") = 1]
TParams(cnt) == SubSeq(<<"T", "U">>, 1, cnt)
TraitNames(cnt) == SubSeq(<<"Shape", "Named">>, 1, cnt)

Build(n, sl, kd) ==
  LET G(nm) == kd[CHOOSE j \in 1..Len(sl) : sl[j].n = nm]
      GN(p, cnt) == [i \in 1..cnt |-> G(p \o Num(i))]
      Args == [i \in 1..O(n, "args") |-> IF Bit(O(n, "named"), i) THEN Named("kw" \o Num(i), G("arg" \o Num(i))) ELSE Pos(G("arg" \o Num(i)))]
      PubFields(cnt, pub) == [i \in 1..cnt |-> [G("field" \o Num(i)) EXCEPT !.pub = @ \/ pub]]
  IN
  CASE n.id = "import_module" -> [k |-> "import", ik |-> "module", path |-> ImportPath(n), alias |-> Opt(O(n, "alias") = 1, "m")] @@ PathHints(n)
    [] n.id = "import_from" -> [k |-> "import", ik |-> "from", path |-> ImportPath(n), items |-> Items(n), alias |-> <<>>] @@ PathHints(n)
    [] n.id = "import_python" -> [k |-> "import", ik |-> "python", sv |-> "numpy", alias |-> Opt(O(n, "alias") = 1, "np")]
    [] n.id = "import_rustcrate" -> [k |-> "import", ik |-> "rustcrate", crate |-> "serde_json", segs |-> SubSeq(<<"value", "Value">>, 1, O(n, "segs")),
                                     alias |-> Opt(O(n, "alias") = 1, "sj")]
    [] n.id = "import_rustfrom" -> [k |-> "import", ik |-> "rustfrom", crate |-> "std", segs |-> SubSeq(<<"collections", "hash_map">>, 1, O(n, "segs")),
                                    items |-> Items(n), alias |-> <<>>]
    [] n.id = "const" -> [k |-> "const", pub |-> O(n, "pub") = 1, name |-> "LIMIT", ty |-> IF O(n, "ty") = 1 THEN <<G("ty")>> ELSE <<>>, e |-> G("e")]
    [] n.id = "model" -> [k |-> "model", pub |-> O(n, "pub") = 1, decos |-> GN("deco", O(n, "decos")), name |-> "M", tparams |-> TParams(O(n, "tparams")),
                          traits |-> TraitNames(O(n, "traits")), fields |-> PubFields(O(n, "fields"), O(n, "pub") = 1), methods |-> GN("method", O(n, "methods"))]
    [] n.id = "class" -> [k |-> "class", pub |-> O(n, "pub") = 1, decos |-> GN("deco", O(n, "decos")), name |-> "K", tparams |-> TParams(O(n, "tparams")),
                          extends |-> Opt(O(n, "extends") = 1, "Base"), traits |-> TraitNames(O(n, "traits")),
                          fields |-> PubFields(O(n, "fields"), O(n, "pub") = 1), methods |-> GN("method", O(n, "methods"))]
    [] n.id = "trait" -> [k |-> "trait", pub |-> O(n, "pub") = 1, decos |-> GN("deco", O(n, "decos")), name |-> "Tr", tparams |-> TParams(O(n, "tparams")),
                          methods |-> GN("method", O(n, "methods"))]
    [] n.id = "newtype" -> [k |-> "newtype", pub |-> O(n, "pub") = 1, name |-> "UserId", ty |-> G("ty"), methods |-> GN("method", O(n, "methods")),
                            sxalt |-> O(n, "alt") = 1]
    [] n.id = "enum" -> [k |-> "enum", pub |-> O(n, "pub") = 1, name |-> "Color", tparams |-> TParams(O(n, "tparams")),
                         variants |-> (IF O(n, "variants") = 1 THEN <<[name |-> "Red", tys |-> <<>>, sxparens |-> FALSE]>> ELSE <<>>)
                                      \o <<[name |-> "Rgb", tys |-> GN("pay", O(n, "payload")), sxparens |-> O(n, "parens") = 1]>>]
    [] n.id = "fn" -> [k |-> "fn", pub |-> O(n, "pub") = 1, decos |-> GN("deco", O(n, "decos")), async |-> O(n, "async") = 1, name |-> "f",
                       tparams |-> TParams(O(n, "tparams")), params |-> GN("param", O(n, "params")), ret |-> G("ret"), body |-> <<G("body")>>]
    [] n.id = "doc" -> [k |-> "doc"] @@ Docs[O(n, "form") + 1]
    [] n.id = "method" -> [k |-> "method", decos |-> GN("deco", O(n, "decos")), async |-> O(n, "async") = 1, name |-> "run",
                           recv |-> <<"none", "self", "mutself">>[O(n, "recv") + 1], params |-> GN("param", O(n, "params")), ret |-> G("ret"),
                           mbody |-> IF O(n, "body") = 0 THEN << <<G("body")>> >> ELSE <<>>]
                          @@ (IF O(n, "body") = 0 THEN << >> ELSE [sxbodyless |-> <<"newline", "ellipsis">>[O(n, "body")]])
    [] n.id = "field" -> [k |-> "field", pub |-> O(n, "pub") = 1, name |-> "fld", ty |-> G("ty"),
                          default |-> IF O(n, "default") = 1 THEN <<G("default")>> ELSE <<>>, sxpub |-> O(n, "pub") = 1]
    [] n.id = "param" -> ParamA(O(n, "mut") = 1, "arg", G("ty"), IF O(n, "default") = 1 THEN <<G("default")>> ELSE <<>>)
    [] n.id = "deco" -> [k |-> "deco", name |-> "route",
                         dargs |-> [i \in 1..O(n, "args") |->
                                      LET kd2 == O(n, "a" \o Num(i)) IN
                                      IF kd2 = 0 THEN [ak |-> "pos", e |-> G("arg" \o Num(i))]
                                      ELSE IF kd2 = 1 THEN [ak |-> "named", name |-> "opt" \o Num(i), vk |-> "expr", e |-> G("arg" \o Num(i))]
                                      ELSE [ak |-> "named", name |-> "opt" \o Num(i), vk |-> "type", ty |-> G("arg" \o Num(i))]],
                         sxparens |-> O(n, "parens") = 1]
    [] n.id = "arm" -> LET bd == O(n, "body")
                           blk == IF bd = 0 THEN <<ExprS(G("e"))>> ELSE IF bd = 1 THEN <<[k |-> "return", e |-> <<G("e")>>]>>
                                  ELSE IF bd = 2 THEN <<G("s")>> ELSE <<[k |-> "pass"]>>
                           isexpr == O(n, "syn") = 0 /\ bd = 0 IN
                       [k |-> "arm", pat |-> G("pat"), guard |-> IF O(n, "guard") = 1 THEN <<G("guard")>> ELSE <<>>,
                        abk |-> IF isexpr THEN "expr" ELSE "block", e |-> IF isexpr THEN <<G("e")>> ELSE <<>>, body |-> IF isexpr THEN <<>> ELSE blk,
                        sxcase |-> O(n, "syn") = 1, sxinline |-> bd # 2]
    \* ---- statements
    [] n.id = "assign" -> [k |-> "assign", bk |-> <<"inferred", "let", "mut">>[O(n, "bk") + 1], name |-> "x",
                           ty |-> IF O(n, "ty") = 1 THEN <<G("ty")>> ELSE <<>>, e |-> G("e")]
    [] n.id = "fassign" -> [k |-> "fassign", obj |-> G("obj"), field |-> "fld", e |-> G("e")]
    [] n.id = "iassign" -> [k |-> "iassign", obj |-> G("obj"), idx |-> G("idx"), e |-> G("e")]
    [] n.id = "compound" -> [k |-> "compound", name |-> "x", op |-> CompoundOps[O(n, "op") + 1], e |-> G("e")]
    [] n.id = "cfield" -> [k |-> "fassign", obj |-> G("obj"), field |-> "fld",
                           e |-> Bin(CompoundBin[O(n, "op") + 1], FieldX(G("obj"), "fld"), G("e")), sxcompound |-> CompoundOps[O(n, "op") + 1]]
    [] n.id = "cindex" -> [k |-> "iassign", obj |-> G("obj"), idx |-> G("idx"),
                           e |-> Bin(CompoundBin[O(n, "op") + 1], Index(G("obj"), G("idx")), G("e")), sxcompound |-> CompoundOps[O(n, "op") + 1]]
    [] n.id = "return" -> [k |-> "return", e |-> IF O(n, "val") = 1 THEN <<G("e")>> ELSE <<>>]
    [] n.id = "if" -> [k |-> "if", cond |-> G("cond"), then |-> <<G("then")>>,
                       elifs |-> [i \in 1..O(n, "elifs") |-> [cond |-> G("econd" \o Num(i)), body |-> <<G("ebody" \o Num(i))>>]],
                       else |-> IF O(n, "else") = 1 THEN << <<G("else")>> >> ELSE <<>>]
    [] n.id = "while" -> [k |-> "while", cond |-> G("cond"), body |-> <<G("body")>>]
    [] n.id = "for" -> [k |-> "for", var |-> "i", iter |-> G("iter"), body |-> <<G("body")>>]
    [] n.id = "exprstmt" -> ExprS(G("e"))
    [] n.id = "pass" -> [k |-> "pass", sxtxt |-> IF O(n, "dots") = 1 THEN "..." ELSE "pass"]
    [] n.id = "break" -> [k |-> "break"]
    [] n.id = "continue" -> [k |-> "continue"]
    [] n.id = "unpack" -> [k |-> "unpack", bk |-> <<"inferred", "let", "mut">>[O(n, "bk") + 1], names |-> SubSeq(<<"x", "y", "z">>, 1, O(n, "names") + 2), e |-> G("e")]
    [] n.id = "tassign" -> [k |-> "tassign", targets |-> <<Index(Id("xs"), IntL(0)), FieldX(Id("o"), "fld")>>, e |-> G("e")]
    [] n.id = "chained" -> [k |-> "chained", bk |-> <<"inferred", "let", "mut">>[O(n, "bk") + 1], targets |-> SubSeq(<<"x", "y", "z">>, 1, O(n, "targets") + 2), e |-> G("e")]
    \* ---- expressions
    [] n.id = "ident" -> Id("v")
    [] n.id = "int" -> IntL(<<7, 1000, 0>>[O(n, "sp") + 1]) @@ [sxtxt |-> <<"7", "1_000", "0">>[O(n, "sp") + 1]]
    [] n.id = "float" -> [k |-> "lit", lk |-> "float"] @@ Floats[O(n, "v") + 1]
    [] n.id = "str" -> [k |-> "lit", lk |-> "str"] @@ Strs[O(n, "v") + 1]
    [] n.id = "bytes" -> [k |-> "lit", lk |-> "bytes"] @@ Bytess[O(n, "v") + 1]
    [] n.id = "bool" -> BoolL(O(n, "v") = 1) @@ [sxtxt |-> IF O(n, "cap") = 1 THEN (IF O(n, "v") = 1 THEN "True" ELSE "False") ELSE (IF O(n, "v") = 1 THEN "true" ELSE "false")]
    [] n.id = "none" -> NoneL
    [] n.id = "self" -> [k |-> "self"]
    [] n.id = "bin" -> Bin(BinOps[O(n, "op") + 1], G("l"), G("r"))
    [] n.id = "un" -> Un(<<"-", "not">>[O(n, "op") + 1], G("e"))
    [] n.id = "call" -> Call(G("f"), Args) @@ [sxtc |-> O(n, "tc") = 1]
    [] n.id = "mcall" -> [k |-> "mcall", recv |-> G("recv"), name |-> "meth", args |-> Args, sxtc |-> O(n, "tc") = 1]
    [] n.id = "index" -> Index(G("obj"), G("idx"))
    [] n.id = "slice" -> [k |-> "slice", obj |-> G("obj"), start |-> IF O(n, "start") = 1 THEN <<G("start")>> ELSE <<>>,
                          end |-> IF O(n, "end") = 1 THEN <<G("end")>> ELSE <<>>, step |-> IF O(n, "step") = 1 THEN <<G("step")>> ELSE <<>>,
                          sxc2 |-> O(n, "c2") = 1]
    [] n.id = "fieldx" -> FieldX(G("obj"), "attr")
    [] n.id = "tupidx" -> FieldX(G("obj"), "0")
    [] n.id = "await" -> [k |-> "await", e |-> G("obj")]
    [] n.id = "try" -> [k |-> "try", e |-> G("obj")]
    [] n.id = "match" -> [k |-> "match", subj |-> G("subj"), arms |-> GN("arm", O(n, "arms") + 1)]
    [] n.id = "ifx" -> [k |-> "ifx", cond |-> G("cond"), then |-> <<G("then")>>, else |-> IF O(n, "else") = 1 THEN << <<G("else")>> >> ELSE <<>>]
    [] n.id = "listcomp" -> [k |-> "listcomp", e |-> G("e"), var |-> "it", iter |-> G("iter"), filter |-> IF O(n, "filter") = 1 THEN <<G("filter")>> ELSE <<>>]
    [] n.id = "dictcomp" -> [k |-> "dictcomp", key |-> G("key"), val |-> G("val"), var |-> "it", iter |-> G("iter"),
                             filter |-> IF O(n, "filter") = 1 THEN <<G("filter")>> ELSE <<>>]
    [] n.id = "closure" -> [k |-> "closure", params |-> [i \in 1..O(n, "params") |-> ParamA(FALSE, <<"p", "q">>[i], TSimple("_"), <<>>)], e |-> G("e")]
    [] n.id = "tuple" -> [k |-> "tuple", items |-> GN("item", O(n, "n")), sxtc |-> O(n, "tc") = 1]
    [] n.id = "list" -> [k |-> "list", items |-> GN("item", O(n, "n")), sxtc |-> O(n, "tc") = 1]
    [] n.id = "set" -> [k |-> "set", items |-> GN("item", O(n, "n") + 1), sxtc |-> O(n, "tc") = 1]
    [] n.id = "dict" -> [k |-> "dict", pairs |-> [i \in 1..O(n, "n") |-> [key |-> G("key" \o Num(i)), val |-> G("val" \o Num(i))]], sxtc |-> O(n, "tc") = 1]
    [] n.id = "paren" -> Paren(G("e"))
    [] n.id = "fstr" -> IF O(n, "v") = 8 THEN [k |-> "fstr", parts |-> <<FLit("<"), FExpr(G("e")), FLit(">")>>, sxhole |-> TRUE]
                        ELSE [k |-> "fstr"] @@ FStrs[O(n, "v") + 1]
    [] n.id = "yield" -> [k |-> "yield", e |-> IF O(n, "val") = 1 THEN <<G("e")>> ELSE <<>>]
    [] n.id = "range" -> [k |-> "range", start |-> G("start"), end |-> G("end"), incl |-> O(n, "incl") = 1]
    \* ---- patterns
    [] n.id = "pwild" -> [k |-> "pwild"]
    [] n.id = "pbind" -> PBind("bound")
    [] n.id = "plit" -> PLit(PLits[O(n, "v") + 1])
    [] n.id = "pctor" -> [k |-> "pctor", name |-> IF O(n, "q") = 1 THEN "Color::Rgb" ELSE "Some", pats |-> GN("p", O(n, "pats")), sxparens |-> O(n, "parens") = 1]
    [] n.id = "ptuple" -> [k |-> "ptuple", pats |-> GN("p", O(n, "n"))]
    \* ---- types
    [] n.id = "tsimple" -> TSimple(<<"i32", "FrozenStr", "Point", "None">>[O(n, "v") + 1])
    [] n.id = "tgeneric" -> [k |-> "tgeneric", name |-> Generics[O(n, "v") + 1][1], targs |-> GN("t", Generics[O(n, "v") + 1][2])]
    [] n.id = "tfn" -> [k |-> "tfn", targs |-> GN("p", O(n, "params")), ret |-> G("ret")]
    [] n.id = "tunit" -> [k |-> "tunit"]
    [] n.id = "ttuple" -> [k |-> "ttuple", targs |-> GN("t", O(n, "n") + 1)]
    [] n.id = "tself" -> [k |-> "tself"]

\* ================================================================== menus
DeclIds == <<"import_module", "import_from", "import_python", "import_rustcrate", "import_rustfrom", "const", "model", "class", "trait",
             "newtype", "enum", "fn", "doc">>
StmtIds == <<"assign", "fassign", "iassign", "compound", "cfield", "cindex", "return", "if", "while", "for", "exprstmt", "pass", "break",
             "continue", "unpack", "tassign", "chained">>
ExprIds == <<"ident", "int", "float", "str", "bytes", "bool", "none", "self", "bin", "un", "call", "mcall", "index", "slice", "fieldx", "tupidx",
             "await", "try", "match", "ifx", "listcomp", "dictcomp", "closure", "tuple", "list", "set", "dict", "paren", "fstr", "yield", "range">>
TypeIds == <<"tsimple", "tgeneric", "tfn", "tunit", "ttuple", "tself">>
PatIds == <<"pwild", "pbind", "plit", "pctor", "ptuple">>
MemberIds == <<"method", "field", "param", "deco", "arm">>
Menu(c) == CASE c = "expr" -> ExprIds
             [] c = "stmt" -> StmtIds
             [] c = "type" -> TypeIds
             [] c = "pat" -> PatIds
             [] c = "method" -> <<"method">>
             [] c = "field" -> <<"field">>
             [] c = "param" -> <<"param">>
             [] c = "deco" -> <<"deco">>
             [] c = "arm" -> <<"arm">>
Range(s) == {s[i] : i \in 1..Len(s)}
\* which production fits which position (beyond the category)
Compatible(n, slot, c) ==
  /\ (c \in {"match", "ifx"} => slot.b)                          \* a block expression needs the statement's line end
  /\ ~(n.id = "exprstmt" /\ c = "ifx")                            \* `if` at the start of a statement IS the if statement
  /\ ~(n.id = "tupidx" /\ c \in {"tupidx", "int", "float"})       \* `t.0.1` / `1.0` lex as floats; `.0` on a float literal reads as one
  /\ ~(n.id = "call" /\ slot.n = "f" /\ c = "fieldx")              \* `a.attr(..)` IS the method call
  /\ ~(n.id = "yield" /\ c = "yield")                              \* `yield yield`: the operand may not start with `yield`
  /\ ~(n.id \in {"listcomp", "dictcomp"} /\ slot.n = "iter" /\ c = "yield")   \* a bare `yield` would take the filter's `if` as its operand
  /\ ((n.infs \/ n.id = "fstr") => c \notin {"str", "bytes", "fstr", "dict", "set", "dictcomp", "match", "ifx"})   \* hole text: no braces / quotes

\* ================================================================== the machine
VARIABLES chain, phase
vars == <<chain, phase>>
Node(id, par, infs, cx) == [id |-> id, par |-> par, o |-> <<>>, at |-> 0, infs |-> infs, cx |-> cx]
\* what a production must know about its position beyond its parent's kind
CxOf(n, slot) == IF n.id = "method" /\ O(n, "recv") = 0 /\ slot.n = "param1" THEN "first-noself" ELSE ""
Last == chain[Len(chain)]
CatOf(id) == CASE id \in Range(DeclIds) -> "decl" [] id \in Range(StmtIds) -> "stmt" [] id \in Range(ExprIds) -> "expr"
               [] id \in Range(TypeIds) -> "type" [] id \in Range(PatIds) -> "pat" [] OTHER -> id
\* every category has skeletons of its own, so that Depth = 1 reaches every (production, position, production) triple:
\* an expression stands in `v = _`, a type in `let v: _ = a`, a pattern / arm in `match subj:`, a method in a trait and in a
\* class, a field in a model, a parameter and a decorator on a function (WrapRoot)
RootNodes == UNION { IF "decl" \in RootKinds THEN {Node(r, "root", FALSE, "") : r \in Range(DeclIds)} ELSE {},
                     IF "stmt" \in RootKinds THEN {Node(r, "root", FALSE, "") : r \in Range(StmtIds)} ELSE {},
                     IF "expr" \in RootKinds THEN {Node(r, "root", FALSE, "") : r \in Range(ExprIds)} ELSE {},
                     IF "type" \in RootKinds THEN {Node(r, "root", FALSE, "") : r \in Range(TypeIds)} ELSE {},
                     IF "pat" \in RootKinds THEN {Node(r, "root", FALSE, "") : r \in Range(PatIds)} ELSE {},
                     IF "member" \in RootKinds THEN {Node(r, "root", FALSE, "") : r \in {"field", "param", "deco", "arm"}}
                                                     \cup {Node("method", "trait", FALSE, ""), Node("method", "class", FALSE, "")} ELSE {} }
Init == phase = "opts" /\ \E r \in RootNodes : chain = <<r>>

MaxVec(n) == LET sp == OptSpec(n.id, n.par) IN
  CASE n.id = "deco" -> <<2, 2, 2, 0>>
    [] n.id = "arm" -> <<1, 1, 2>>
    [] n.id = "slice" -> <<1, 1, 1, 0>>
    [] n.id = "pctor" -> <<1, 2, 0>>
    [] n.id = "enum" -> <<1, 2, 1, 2, 0>>
    [] n.id = "method" -> <<1, 1, 2, 2, 0>>
    [] OTHER -> [i \in 1..Len(sp) |-> sp[i][2]]
MinVec(n) == LET sp == OptSpec(n.id, n.par) IN
  CASE n.id = "model" -> <<0, 0, 0, 0, 1, 0>>
    [] n.id = "class" -> <<0, 0, 0, 0, 0, 0, 1>>
    [] OTHER -> [i \in 1..Len(sp) |-> 0]
\* "one": the poorest form with ONE option raised to its richest value (a position that exists only when its list is
\* non-empty is then reached in an otherwise bare skeleton, so a defect in a sub-construct shows in isolation)
OneVecs(n) == {[MinVec(n) EXCEPT ![i] = OptSpec(n.id, n.par)[i][2]] : i \in 1..Len(OptSpec(n.id, n.par))}
\* "need": positions that exist only under an option value the `min` / `one` vectors never take (an intermediate value: the block
\* body of an arm; or two options at once: the TYPE argument of a decorator needs an argument and its kind, a guard needs the
\* `case` syntax). The poorest vectors with one or two options raised to ANY value that expose such a position - and only it.
With(n, v) == [n EXCEPT !.o = v]
SlotKeys(n, v) == LET sl == Slots(With(n, v)) IN {sl[j].n \o ":" \o sl[j].c : j \in 1..Len(sl)}
BaseVecs(n) == {v \in OneVecs(n) \cup {MinVec(n)} : Valid(With(n, v))}
BaseKeys(n) == UNION {SlotKeys(n, v) : v \in BaseVecs(n)}
RaisedVecs(n) == LET sp == OptSpec(n.id, n.par) IN
                 {[MinVec(n) EXCEPT ![i] = v] : i \in 1..Len(sp), v \in 1..3}
                 \cup {[MinVec(n) EXCEPT ![i] = v, ![j] = w] : i \in 1..Len(sp), j \in 1..Len(sp), v \in 1..3, w \in 1..3}
InRange(n, v) == \A i \in 1..Len(v) : v[i] <= OptSpec(n.id, n.par)[i][2]
NeedVecs(n) == {v \in RaisedVecs(n) : InRange(n, v) /\ Valid(With(n, v)) /\ SlotKeys(n, v) \ BaseKeys(n) # {}}
ProfVecs(n) == (IF "max" \in Profiles THEN {MaxVec(n)} ELSE {}) \cup (IF "min" \in Profiles THEN {MinVec(n)} ELSE {})
               \cup (IF "one" \in Profiles THEN OneVecs(n) ELSE {}) \cup (IF "need" \in Profiles THEN NeedVecs(n) ELSE {})
\* operator families: the one option IS the operator, so an ancestor takes every value when the production below it is one
\* whose precedence matters (every operator pair, on both sides, with the parentheses the ladder demands)
Family(n) == n.id \in {"bin", "un", "compound", "cfield", "cindex"}
LevelIds == {"bin", "un", "range", "await", "try", "closure", "yield", "paren"}
DescOpts(n) == IF Len(n.o) = 0 /\ Family(n) THEN {<<v>> : v \in 0..OptSpec(n.id, n.par)[1][2]}
               ELSE IF Len(n.o) = 0 THEN ProfVecs(n)
               ELSE IF FreeAnc /\ Complete(n) THEN {n.o} ELSE {}

SetOpt == /\ phase = "opts" /\ ~Complete(Last)
          /\ \E v \in 0..OptSpec(Last.id, Last.par)[Len(Last.o) + 1][2] : chain' = [chain EXCEPT ![Len(chain)].o = Append(@, v)]
          /\ UNCHANGED phase
Finish == /\ phase = "opts" /\ Complete(Last) /\ Valid(Last) /\ phase' = "done" /\ UNCHANGED chain
Descend == /\ phase = "opts" /\ Len(chain) <= Depth
           /\ \E ov \in DescOpts(Last) :
                LET n == [Last EXCEPT !.o = ov]
                    sl == Slots(n) IN
                /\ Valid(n)
                /\ \E j \in 1..Len(sl) : \E i \in 1..Len(Menu(sl[j].c)) :
                     LET c == Menu(sl[j].c)[i] IN
                     /\ Compatible(n, sl[j], c)
                     /\ (Len(Last.o) = 0 /\ Family(n) /\ ov \notin ProfVecs(n) => c \in LevelIds)
                     /\ (Len(Last.o) = 0 /\ ~Family(n) /\ "need" \in Profiles /\ ov \in NeedVecs(n) /\ ov \notin BaseVecs(n) /\ ov # MaxVec(n)
                           => (sl[j].n \o ":" \o sl[j].c) \notin BaseKeys(n))
                     /\ chain' = Append([chain EXCEPT ![Len(chain)] = [n EXCEPT !.at = j]], Node(c, n.id, n.infs \/ n.id = "fstr", CxOf(n, sl[j])))
           /\ UNCHANGED phase
Next == SetOpt \/ Finish \/ Descend
Spec == Init /\ [][Next]_vars

\* ================================================================== the tree of a chain
Wrap(slot, e) == IF slot.c = "expr" /\ ELvl(e) < slot.l THEN Paren(e) ELSE e
RECURSIVE Ast(_)
Ast(ch) == LET n == ch[1]
               sl == Slots(n)
               kd == [j \in 1..Len(sl) |-> IF j = n.at THEN Wrap(sl[j], Ast(Tail(ch))) ELSE Default(sl[j], j)]
           IN Build(n, sl, kd)
MainFn(body) == [k |-> "fn", pub |-> FALSE, decos |-> <<>>, async |-> FALSE, name |-> "main", tparams |-> <<>>, params |-> <<>>,
                 ret |-> TSimple("None"), body |-> body]
MatchS(arm) == ExprS([k |-> "match", subj |-> Id("subj"), arms |-> <<arm>>])
WrapRoot(n, t) ==
  LET cat == CatOf(n.id) IN
  CASE cat = "decl" -> t
    [] cat = "stmt" -> MainFn(<<t>>)
    [] cat = "expr" -> MainFn(<<[k |-> "assign", bk |-> "inferred", name |-> "v", ty |-> <<>>, e |-> t]>>)
    [] cat = "type" -> MainFn(<<[k |-> "assign", bk |-> "let", name |-> "v", ty |-> <<t>>, e |-> Id("a")]>>)
    [] cat = "pat" -> MainFn(<<MatchS([DefArm(1) EXCEPT !.pat = t])>>)
    [] cat = "arm" -> MainFn(<<MatchS(t)>>)
    [] cat = "method" -> IF n.par = "trait"
                         THEN [k |-> "trait", pub |-> FALSE, decos |-> <<>>, name |-> "HostTrait", tparams |-> <<>>, methods |-> <<t>>]
                         ELSE [k |-> "class", pub |-> FALSE, decos |-> <<>>, name |-> "HostClass", tparams |-> <<>>, extends |-> <<>>, traits |-> <<>>,
                               fields |-> <<>>, methods |-> <<t>>]
    [] cat = "field" -> [k |-> "model", pub |-> FALSE, decos |-> <<>>, name |-> "HostModel", tparams |-> <<>>, traits |-> <<>>, fields |-> <<t>>, methods |-> <<>>]
    [] cat = "param" -> [MainFn(<<[k |-> "pass"]>>) EXCEPT !.params = <<t>>, !.name = "host"]
    [] cat = "deco" -> [MainFn(<<[k |-> "pass"]>>) EXCEPT !.decos = <<t>>, !.name = "host"]
Program == [k |-> "program", decls |-> <<WrapRoot(chain[1], Ast(chain))>>]

\* ================================================================== feature tags
NodeTags(n) == <<"node:" \o n.id>> \o (IF n.id = "method" THEN <<"in:" \o n.par>> ELSE <<>>) \o [i \in 1..Len(n.o) |-> "opt:" \o n.id \o "." \o OptSpec(n.id, n.par)[i][1] \o "=" \o Num(n.o[i])]
RECURSIVE ChainTags(_)
ChainTags(ch) == IF Len(ch) = 0 THEN <<>>
                 ELSE NodeTags(ch[1])
                      \o (IF ch[1].at = 0 THEN <<>>
                          ELSE LET pos == ch[1].id \o "." \o Slots(ch[1])[ch[1].at].n IN <<"ctx:" \o pos, "sub:" \o pos \o "=" \o ch[2].id>>)
                      \o ChainTags(Tail(ch))

\* ================================================================== well-formedness of the emitted tree (written from the grammar)
RECURSIVE WFE(_, _), WFS(_), WFBlock(_), WFP(_), WFT(_), WFArgs(_)
WFT(t) == CASE t.k = "tsimple" -> t.name # "" [] t.k = "tgeneric" -> Len(t.targs) >= 1 /\ \A i \in 1..Len(t.targs) : WFT(t.targs[i])
            [] t.k = "tfn" -> WFT(t.ret) /\ \A i \in 1..Len(t.targs) : WFT(t.targs[i])
            [] t.k = "ttuple" -> Len(t.targs) >= 1 /\ \A i \in 1..Len(t.targs) : WFT(t.targs[i])
            [] t.k \in {"tunit", "tself"} -> TRUE
WFP(p) == CASE p.k \in {"pwild", "pbind"} -> TRUE
            [] p.k = "plit" -> p.lit.k = "lit"
            [] p.k = "pctor" -> /\ \A i \in 1..Len(p.pats) : WFP(p.pats[i])
                                /\ (Len(p.pats) = 0 => (p.sxparens \/ p.name = "Color::Rgb"))      \* otherwise the text is a binding
                                /\ (p.sxparens => Len(p.pats) = 0)
            [] p.k = "ptuple" -> \A i \in 1..Len(p.pats) : WFP(p.pats[i])
WFArgs(a) == \A i \in 1..Len(a) : WFE(a[i].e, FALSE)
IsTupIdx(e) == e.k = "fieldx" /\ e.field = "0"
\* tail = the expression is the last thing on its statement's line
WFE(e, tail) ==
  CASE e.k \in {"ident", "lit", "self"} -> TRUE
    [] e.k = "bin" -> WFE(e.l, FALSE) /\ WFE(e.r, FALSE) /\ ELvl(e.l) >= LReq(e.op) /\ ELvl(e.r) >= RReq(e.op)
    [] e.k = "un" -> WFE(e.e, FALSE) /\ ELvl(e.e) >= (IF e.op = "not" THEN 3 ELSE 9)
    [] e.k = "await" -> WFE(e.e, FALSE) /\ ELvl(e.e) >= 9
    [] e.k = "try" -> WFE(e.e, FALSE) /\ ELvl(e.e) >= 10
    [] e.k = "call" -> WFE(e.f, FALSE) /\ ELvl(e.f) >= 10 /\ WFArgs(e.args) /\ (e.f.k = "fieldx" => IsTupIdx(e.f))
    [] e.k = "mcall" -> WFE(e.recv, FALSE) /\ ELvl(e.recv) >= 10 /\ WFArgs(e.args)
    [] e.k = "index" -> WFE(e.obj, FALSE) /\ ELvl(e.obj) >= 10 /\ WFE(e.idx, FALSE)
    [] e.k = "slice" -> /\ WFE(e.obj, FALSE) /\ ELvl(e.obj) >= 10
                        /\ \A i \in 1..Len(e.start) : WFE(e.start[i], FALSE)
                        /\ \A i \in 1..Len(e.end) : WFE(e.end[i], FALSE)
                        /\ \A i \in 1..Len(e.step) : WFE(e.step[i], FALSE)
                        /\ (e.sxc2 => Len(e.step) = 0)
    [] e.k = "fieldx" -> /\ WFE(e.obj, FALSE) /\ ELvl(e.obj) >= 10
                         /\ (IsTupIdx(e) => ~IsTupIdx(e.obj) /\ ~(e.obj.k = "lit" /\ e.obj.lk \in {"int", "float"}))
    [] e.k = "range" -> WFE(e.start, FALSE) /\ WFE(e.end, FALSE) /\ ELvl(e.start) >= 6 /\ ELvl(e.end) >= 6
    [] e.k = "paren" -> WFE(e.e, FALSE)
    [] e.k \in {"tuple", "list", "set"} -> \A i \in 1..Len(e.items) : WFE(e.items[i], FALSE)
    [] e.k = "dict" -> \A i \in 1..Len(e.pairs) : WFE(e.pairs[i].key, FALSE) /\ WFE(e.pairs[i].val, FALSE)
    [] e.k = "listcomp" -> e.iter.k # "yield" /\ WFE(e.e, FALSE) /\ WFE(e.iter, FALSE) /\ \A i \in 1..Len(e.filter) : WFE(e.filter[i], FALSE)
    [] e.k = "dictcomp" -> e.iter.k # "yield" /\ WFE(e.key, FALSE) /\ WFE(e.val, FALSE) /\ WFE(e.iter, FALSE) /\ \A i \in 1..Len(e.filter) : WFE(e.filter[i], FALSE)
    [] e.k = "closure" -> /\ WFE(e.e, FALSE)
                          /\ \A i \in 1..Len(e.params) : e.params[i].ty = TSimple("_") /\ ~e.params[i].mut /\ Len(e.params[i].default) = 0
    [] e.k = "yield" -> \A i \in 1..Len(e.e) : WFE(e.e[i], FALSE) /\ e.e[i].k # "yield"
    [] e.k = "fstr" -> \A i \in 1..Len(e.parts) : (e.parts[i].pk = "expr" => WFE(e.parts[i].e, FALSE) /\ e.parts[i].e.k \notin {"match", "ifx", "dict", "set", "dictcomp", "fstr"})
    [] e.k = "match" -> /\ tail /\ WFE(e.subj, FALSE) /\ Len(e.arms) >= 1
                        /\ \A i \in 1..Len(e.arms) :
                             LET a == e.arms[i] IN
                             /\ WFP(a.pat)
                             /\ \A g \in 1..Len(a.guard) : WFE(a.guard[g], FALSE)
                             /\ (Len(a.guard) = 1 => a.sxcase)                                  \* `P if c =>` is not in the grammar
                             /\ (a.abk = "expr" <=> (~a.sxcase /\ a.sxinline /\ Len(a.e) = 1 /\ Len(a.body) = 0))
                             /\ (a.abk = "block" => Len(a.e) = 0 /\ Len(a.body) >= 1 /\ WFBlock(a.body))
                             /\ (a.abk = "block" /\ a.sxinline => Len(a.body) = 1 /\ a.body[1].k \in {"return", "pass", "expr"}
                                                                  /\ (a.body[1].k = "expr" => a.sxcase))
                             /\ (a.abk = "expr" => WFE(a.e[1], FALSE))
    [] e.k = "ifx" -> tail /\ WFE(e.cond, FALSE) /\ WFBlock(e.then) /\ \A i \in 1..Len(e.else) : WFBlock(e.else[i])
WFBlock(b) == Len(b) >= 1 /\ \A i \in 1..Len(b) : WFS(b[i])
WFS(s) ==
  CASE s.k = "assign" -> WFE(s.e, TRUE) /\ \A i \in 1..Len(s.ty) : WFT(s.ty[i])
    [] s.k \in {"fassign", "iassign"} ->
         /\ WFE(s.obj, FALSE) /\ ELvl(s.obj) >= 10
         /\ (s.k = "iassign" => WFE(s.idx, FALSE))
         /\ IF "sxcompound" \in DOMAIN s
            THEN s.e.k = "bin" /\ WFE(s.e.r, FALSE) /\ s.e.l = (IF s.k = "fassign" THEN FieldX(s.obj, s.field) ELSE Index(s.obj, s.idx))
            ELSE WFE(s.e, TRUE)
    [] s.k \in {"compound", "unpack", "tassign", "chained"} -> WFE(s.e, TRUE)
    [] s.k = "return" -> \A i \in 1..Len(s.e) : WFE(s.e[i], TRUE)
    [] s.k = "expr" -> WFE(s.e, TRUE) /\ s.e.k # "ifx"
    [] s.k = "if" -> /\ WFE(s.cond, FALSE) /\ WFBlock(s.then)
                     /\ \A i \in 1..Len(s.elifs) : WFE(s.elifs[i].cond, FALSE) /\ WFBlock(s.elifs[i].body)
                     /\ \A i \in 1..Len(s.else) : WFBlock(s.else[i])
    [] s.k = "while" -> WFE(s.cond, FALSE) /\ WFBlock(s.body)
    [] s.k = "for" -> WFE(s.iter, FALSE) /\ WFBlock(s.body)
    [] s.k \in {"pass", "break", "continue"} -> TRUE
WFParam(p) == WFT(p.ty) /\ \A i \in 1..Len(p.default) : WFE(p.default[i], FALSE)
WFDeco(d) == /\ \A i \in 1..Len(d.dargs) : IF d.dargs[i].ak = "named" /\ d.dargs[i].vk = "type" THEN WFT(d.dargs[i].ty) ELSE WFE(d.dargs[i].e, FALSE)
             /\ (d.sxparens => Len(d.dargs) = 0)
WFMethod(m, intrait) == /\ \A i \in 1..Len(m.decos) : WFDeco(m.decos[i])
                        /\ \A i \in 1..Len(m.params) : WFParam(m.params[i])
                        /\ WFT(m.ret) /\ m.recv \in {"none", "self", "mutself"}
                        /\ (m.recv = "none" /\ Len(m.params) >= 1 => ~m.params[1].mut)      \* `mut` first announces `mut self`
                        /\ (Len(m.mbody) = 0 => intrait)                               \* a body-less method only inside a trait
                        /\ (Len(m.mbody) = 0 <=> "sxbodyless" \in DOMAIN m)
                        /\ \A i \in 1..Len(m.mbody) : WFBlock(m.mbody[i])
WFField(f, cpub) == WFT(f.ty) /\ (cpub => f.pub) /\ (f.sxpub => f.pub) /\ \A i \in 1..Len(f.default) : WFE(f.default[i], FALSE)
WFPath(p, d) == /\ (p.abs => p.parents = 0 /\ Len(p.segs) >= 1) /\ (p.parents = 0 => Len(p.segs) >= 1) /\ (d.sxdots => p.parents \in 1..2)
WFDecl(d) ==
  CASE d.k = "import" -> /\ (d.ik \in {"module", "from"} => WFPath(d.path, d))
                         /\ (d.ik \in {"from", "rustfrom"} => Len(d.items) >= 1 /\ Len(d.alias) = 0)
    [] d.k = "const" -> WFE(d.e, TRUE) /\ \A i \in 1..Len(d.ty) : WFT(d.ty[i])
    [] d.k \in {"model", "class"} -> /\ Len(d.fields) + Len(d.methods) >= 1
                                     /\ \A i \in 1..Len(d.decos) : WFDeco(d.decos[i])
                                     /\ \A i \in 1..Len(d.fields) : WFField(d.fields[i], d.pub)
                                     /\ \A i \in 1..Len(d.methods) : WFMethod(d.methods[i], FALSE)
    [] d.k = "trait" -> (\A i \in 1..Len(d.decos) : WFDeco(d.decos[i])) /\ \A i \in 1..Len(d.methods) : WFMethod(d.methods[i], TRUE)
    [] d.k = "newtype" -> WFT(d.ty) /\ \A i \in 1..Len(d.methods) : WFMethod(d.methods[i], FALSE)
    [] d.k = "enum" -> /\ Len(d.variants) >= 1
                       /\ \A i \in 1..Len(d.variants) : (d.variants[i].sxparens => Len(d.variants[i].tys) = 0) /\ \A j \in 1..Len(d.variants[i].tys) : WFT(d.variants[i].tys[j])
    [] d.k = "fn" -> /\ \A i \in 1..Len(d.decos) : WFDeco(d.decos[i])
                     /\ \A i \in 1..Len(d.params) : WFParam(d.params[i])
                     /\ WFT(d.ret) /\ WFBlock(d.body)
    [] d.k = "doc" -> TRUE

Done == phase = "done"
WellFormed == Done => LET p == Program IN \A i \in 1..Len(p.decls) : WFDecl(p.decls[i])
Emit == Done => PrintT(<<"CASE", ToJson([ast |-> Program, tags |-> ChainTags(chain), depth |-> Len(chain) - 1, root |-> chain[1].id,
                                         last |-> Last.id])>>)

\* the option domains, for the coverage measurement of the driver: every (production, option, value) must occur in a row
AllIds == DeclIds \o StmtIds \o ExprIds \o TypeIds \o PatIds \o MemberIds
OptDomains == [i \in 1..Len(AllIds) |-> [id |-> AllIds[i], opts |-> OptSpec(AllIds[i], IF AllIds[i] = "method" THEN "trait" ELSE "root")]]
ASSUME PrintT(<<"DOMAINS", ToJson(OptDomains)>>)
=============================================================================
