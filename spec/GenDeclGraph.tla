----------------------------- MODULE GenDeclGraph -----------------------------
(* C11 generator: ILL-FOUNDED declaration graphs. Declarations refer to each other through `extends`, `with`, field
   types, newtype underlying types, variant payloads, const initialisers and default values; every pass that FOLLOWS
   such a reference recursively (inherited fields / methods in the checker and in the lowering pass, trait method
   tables, size / derive computations, const evaluation) must terminate on a graph with a cycle and answer with a
   diagnostic or a result - never with a stack overflow or a hang. (Totality only: whether a cycle is an error is not
   specified here; ConstEval.tla specifies it for consts.)
   A case = up to three declarations D1, D2, D3 of one KIND each and a set of reference edges between them drawn
   from the edge forms that kind offers; every graph on 1..3 nodes whose edge set contains a cycle (self loop,
   2-cycle, 3-cycle) or a dangling reference is enumerated, in every declaration ORDER. *)
EXTENDS Integers, Sequences, FiniteSets, TLC, Json
Kinds == {"class", "model", "newtype", "enum", "trait"}
Names == <<"A", "B", "C">>
CONSTANT N     \* number of declarations
\* reference forms a declaration of kind k can hold to a name t
Ref(k, t, i) ==
  CASE k = "class"   -> <<"extends " \o t, "    f" \o ToString(i) \o ": int">>
    [] k = "model"   -> <<"", "    f" \o ToString(i) \o ": " \o t>>
    [] k = "newtype" -> <<t, "">>
    [] k = "enum"    -> <<"", "    V" \o ToString(i) \o "(" \o t \o ")">>
    [] k = "trait"   -> <<"", "    def m" \o ToString(i) \o "(self) -> " \o t>>
VARIABLES kinds, edge, order
vars == <<kinds, edge, order>>
Idx == 1..N
Perms == {p \in [Idx -> Idx] : \A i, j \in Idx : i # j => p[i] # p[j]}
\* edge[i] = the declaration that declaration i refers to (0 = none, N + 1 = a name that is not declared)
Init == /\ kinds \in [Idx -> Kinds] /\ edge \in [Idx -> 0..(N + 1)] /\ order \in Perms
        /\ \E i \in Idx : edge[i] # 0
Next == UNCHANGED vars
RECURSIVE Walk(_, _)
Walk(i, k) == IF k = 0 THEN i ELSE IF i \in Idx /\ edge[i] \in Idx THEN Walk(edge[i], k - 1) ELSE 0
Cyclic == \E i \in Idx : \E k \in 1..N : Walk(i, k) = i
Dangling == \E i \in Idx : edge[i] = N + 1
Interesting == Cyclic \/ Dangling
Target(i) == IF edge[i] = N + 1 THEN "Missing" ELSE Names[edge[i]]
Decl(i) ==
  LET k == kinds[i]  nm == Names[i]
      r == IF edge[i] = 0 THEN <<"", "    g" \o ToString(i) \o ": int">> ELSE Ref(k, Target(i), i) IN
  CASE k = "class"   -> "class " \o nm \o (IF r[1] = "" THEN "" ELSE " " \o r[1]) \o ":<NL>" \o r[2] \o "<NL>"
    [] k = "model"   -> "model " \o nm \o ":<NL>" \o r[2] \o "<NL>"
    [] k = "newtype" -> "type " \o nm \o " = newtype " \o (IF edge[i] = 0 THEN "int" ELSE r[1]) \o "<NL>"
    [] k = "enum"    -> "enum " \o nm \o ":<NL>    U" \o ToString(i) \o "<NL>" \o (IF edge[i] = 0 THEN "" ELSE r[2] \o "<NL>")
    [] k = "trait"   -> "trait " \o nm \o ":<NL>" \o (IF edge[i] = 0 THEN "    def k" \o ToString(i) \o "(self) -> int" ELSE r[2]) \o "<NL>"
RECURSIVE Cat(_)
Cat(s) == IF s = <<>> THEN "" ELSE s[1] \o "<NL>" \o Cat(Tail(s))
Text == Cat([j \in Idx |-> Decl(order[j])])
Emit == Interesting => PrintT(<<"CASE", ToJson([text |-> Text, cyclic |-> Cyclic, dangling |-> Dangling,
                                                kinds |-> [j \in Idx |-> kinds[order[j]]]])>>)
=============================================================================
