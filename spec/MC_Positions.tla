---------------------------- MODULE MC_Positions ----------------------------
(* TLC: C19 on every document up to MaxLen scalars, and the B1 tables. *)
EXTENDS Positions, TLC, Json
CONSTANTS MaxLen, PW       \* position window 0..PW x 0..PW
VARIABLE d
Docs == UNION {[1..n -> Scalars] : n \in 0..MaxLen}
Init == d \in Docs
Next == UNCHANGED d
PRoundTrip == RoundTrip(d)
PMonotone == Monotone(d)
PCounting == CountingOK(d)
PRange == RangeOK(d)
N == ByteLen(d) + 2
Emit == PrintT(<<"CASE", ToJson([doc |-> d, bytes |-> ByteLen(d),
           o2p |-> [o \in 1..(N + 1) |-> OffsetToPos(d, o - 1)],
           p2o |-> [l \in 1..(PW + 1) |-> [c \in 1..(PW + 1) |-> PosToOffset(d, <<l - 1, c - 1>>)]],
           s2r |-> [s \in 1..(N + 1) |-> [e \in 1..(N + 1) |->
                       LET r == SpanToRange(d, s - 1, e - 1) IN <<r[1][1], r[1][2], r[2][1], r[2][2]>>]],
           tline |-> [s \in 1..(N + 1) |-> OffsetToPos(d, s - 1)[1] + 1]])>>)
=============================================================================
