-------------------------------- MODULE GenLit --------------------------------
(* C11 generator: the lexical grammar of literals, walked systematically.
   A literal is  prefix quote piece* [quote]  placed in a context. The pieces are the units the lexer's string /
   f-string / byte-string scanners distinguish: plain ASCII, non-ASCII and astral scalars (placeholders <E>, <U>,
   substituted by the driver), every escape form complete and cut short (\n, \x41, \x4, \x, \u{41}, \u{, a lone
   backslash, an escaped quote, \x followed by a non-ASCII scalar), brace forms of f-strings ({x}, {x, {, }, {{, }})
   and a raw line break (<NL>). The literal is closed or left open, so that EVERY piece also occurs as the last thing
   in the file. The property (totality, well-formed diagnostics) is evaluated by the monitor on every text. *)
EXTENDS Integers, Sequences, TLC, Json

Kinds == { [p |-> "", q |-> "\""], [p |-> "", q |-> "'"], [p |-> "", q |-> "\"\"\""], [p |-> "f", q |-> "\""], [p |-> "f", q |-> "'"],
           [p |-> "b", q |-> "\""], [p |-> "b", q |-> "'"], [p |-> "f", q |-> "\"\"\""], [p |-> "r", q |-> "\""] }
Pieces == { "a", "<E>", "<U>", " ", "\\n", "\\x41", "\\x4", "\\x", "\\x7<E>", "\\u{41}", "\\u{", "\\", "\\\"", "\\'",
            "{x}", "{x", "{", "}", "{{", "}}", "{x:?}", "<NL>", "#" }
Contexts == {"alone", "assign", "call", "block"}
CONSTANT MaxPieces
VARIABLES kind, body, n, phase, closed, cx
vars == <<kind, body, n, phase, closed, cx>>
Init == kind \in Kinds /\ body = "" /\ n = 0 /\ phase = "build" /\ closed = FALSE /\ cx = "alone"
Add == phase = "build" /\ n < MaxPieces /\ \E p \in Pieces : body' = body \o p /\ n' = n + 1 /\ UNCHANGED <<kind, phase, closed, cx>>
Finish == phase = "build" /\ phase' = "done" /\ closed' \in BOOLEAN /\ cx' \in Contexts /\ UNCHANGED <<kind, body, n>>
Next == Add \/ Finish
Lit == kind.p \o kind.q \o body \o (IF closed THEN kind.q ELSE "")
Text == CASE cx = "alone" -> Lit
          [] cx = "assign" -> "x = " \o Lit \o "<NL>"
          [] cx = "call" -> "println(" \o Lit \o ")<NL>"
          [] cx = "block" -> "def main() -> None:<NL>    v = " \o Lit \o "<NL>    println(v)<NL>"
Emit == phase = "done" => PrintT(<<"CASE", ToJson([text |-> Text, closed |-> closed, prefix |-> kind.p, pieces |-> n])>>)
=============================================================================
