----------------------------- MODULE LayoutTrace -----------------------------
(* B2: token streams recorded from the real lexer on real source files (the repository's
   examples and edited variants), abstracted to character classes, must be exactly what the
   transcribed layout algorithm produces:  Lex(ev.text) = [toks |-> ev.toks, err |-> ev.err]. *)
EXTENDS Layout, TLC, Json, IOUtils
Rec == ndJsonDeserialize(IOEnv.TRACE)
VARIABLE l
TInit == l = 1
EvOK(e) == LET L == Lex(e.text) IN L.err = e.err /\ (e.err \/ L.toks = e.toks)
TNext == l <= Len(Rec) /\ EvOK(Rec[l]) /\ l' = l + 1
TSpec == TInit /\ [][TNext]_l
Accepted == IF TLCGet("stats").diameter - 1 = Len(Rec) THEN TRUE
            ELSE PrintT(<<"REJECT", ToJson([at |-> TLCGet("stats").diameter,
                                            name |-> Rec[TLCGet("stats").diameter].name])>>) /\ FALSE
=============================================================================
