-------------------------------- MODULE Derive --------------------------------
(* C20: what the derives mean (language/reference/derives/{comparison,serialization,copying_default}.md).
   A declaration is a sequence of field types; a value is a sequence of field values.
     Eq    structural: all fields equal
     Ord   lexicographic in declaration order (per-type orders: ints, false < true, strings by code
           point, None < Some, lists lexicographic, nested models recursively)
     Hash  equal values fall in the same class (the class of a value is the value: structural)
     Clone a clone is equal to and independent of the original (two-reference machine)
     JSON  object with exactly the declared field names in declaration order; int/float -> number,
           bool, str -> string, List -> array, Dict[str, T] -> object, Option -> value or null,
           nested model -> object; FromJsonTree inverts ToJsonTree *)
EXTENDS Integers, Sequences, FiniteSets, TLC

\* field types: "int" "bool" "str" "optint" "listint" "float" "dict" and "mD1" = a nested model with declaration D1
NestedDecl(t) == <<"int", "str">>        \* the only nested declaration used: D1
\* code-point rank of the scalars used in string values
Rank(c) == CASE c = "dq" -> 34 [] c = "bs" -> 92 [] c = "a" -> 97 [] c = "b" -> 98 [] c = "e2" -> 233 [] c = "u3" -> 8364 [] c = "s4" -> 128512
RECURSIVE IntSeqLt(_, _)
IntSeqLt(a, b) == IF b = <<>> THEN FALSE ELSE IF a = <<>> THEN TRUE
                  ELSE IF a[1] < b[1] THEN TRUE ELSE IF b[1] < a[1] THEN FALSE ELSE IntSeqLt(Tail(a), Tail(b))
RECURSIVE StrLt(_, _)
StrLt(a, b) == IF b = <<>> THEN FALSE ELSE IF a = <<>> THEN TRUE
               ELSE IF Rank(a[1]) < Rank(b[1]) THEN TRUE ELSE IF Rank(b[1]) < Rank(a[1]) THEN FALSE ELSE StrLt(Tail(a), Tail(b))
RECURSIVE FieldLt(_, _, _)
RECURSIVE ValLt(_, _, _)
FieldLt(t, x, y) ==
  CASE t = "int" -> x < y
    [] t = "bool" -> ~x /\ y
    [] t = "str" -> StrLt(x, y)
    [] t = "optint" -> IF x = <<>> THEN y # <<>> ELSE IF y = <<>> THEN FALSE ELSE x[1] < y[1]
    [] t = "listint" -> IntSeqLt(x, y)
    [] OTHER -> ValLt(NestedDecl(t), x, y)
\* lexicographic over the fields of declaration d
ValLt(d, v, w) == \E i \in 1..Len(d) : FieldLt(d[i], v[i], w[i]) /\ \A j \in 1..(i - 1) : v[j] = w[j]
ValEq(d, v, w) == \A i \in 1..Len(d) : v[i] = w[i]

\* ---- JSON trees
JNum(n) == [j |-> "num", n |-> n]
JFlt(fn, fd) == [j |-> "flt", fn |-> fn, fd |-> fd]
JStr(s) == [j |-> "str", s |-> s]
JBool(b) == [j |-> "bool", b |-> b]
JNull == [j |-> "null"]
JArr(xs) == [j |-> "arr", xs |-> xs]
JObj(kvs) == [j |-> "obj", kvs |-> kvs]      \* sequence of <<key, tree>> in order
FName(i) == CASE i = 1 -> "f1" [] i = 2 -> "f2" [] i = 3 -> "f3" [] OTHER -> "f4"
RECURSIVE ToJsonTree(_, _)
FieldToJson(t, x) ==
  CASE t = "int" -> JNum(x)
    [] t = "float" -> JFlt(x[1], x[2])
    [] t = "bool" -> JBool(x)
    [] t = "str" -> JStr(x)
    [] t = "optint" -> IF x = <<>> THEN JNull ELSE JNum(x[1])
    [] t = "listint" -> JArr([i \in 1..Len(x) |-> JNum(x[i])])
    [] t = "dict" -> JObj([i \in 1..Len(x) |-> <<x[i][1], JNum(x[i][2])>>])
    [] OTHER -> ToJsonTree(NestedDecl(t), x)
ToJsonTree(d, v) == JObj([i \in 1..Len(d) |-> <<FName(i), FieldToJson(d[i], v[i])>>])
RECURSIVE FromJsonTree(_, _)
FieldFromJson(t, j) ==
  CASE t = "int" -> j.n
    [] t = "float" -> <<j.fn, j.fd>>
    [] t = "bool" -> j.b
    [] t = "str" -> j.s
    [] t = "optint" -> IF j.j = "null" THEN <<>> ELSE <<j.n>>
    [] t = "listint" -> [i \in 1..Len(j.xs) |-> j.xs[i].n]
    [] t = "dict" -> [i \in 1..Len(j.kvs) |-> <<j.kvs[i][1], j.kvs[i][2].n>>]
    [] OTHER -> FromJsonTree(NestedDecl(t), j)
FromJsonTree(d, j) == [i \in 1..Len(d) |-> FieldFromJson(d[i], j.kvs[i][2])]

\* ---- laws (C20) on a set of values V of declaration d
RoundTrip(d, V) == \A v \in V : FromJsonTree(d, ToJsonTree(d, v)) = v
FieldNamesExact(d, V) == \A v \in V : [i \in 1..Len(d) |-> ToJsonTree(d, v).kvs[i][1]] = [i \in 1..Len(d) |-> FName(i)]
EqStructural(d, V) == \A v, w \in V : ValEq(d, v, w) <=> (v = w)
LtStrictTotal(d, V) == /\ \A v \in V : ~ValLt(d, v, v)
                       /\ \A v, w \in V : (v # w) => (ValLt(d, v, w) /\ ~ValLt(d, w, v)) \/ (ValLt(d, w, v) /\ ~ValLt(d, v, w))
                       /\ \A u, v, w \in V : (ValLt(d, u, v) /\ ValLt(d, v, w)) => ValLt(d, u, w)
HashConsistent(d, V) == \A v, w \in V : ValEq(d, v, w) => (v = w)     \* the class of a value is the value

\* ---- Clone: two references; mutating the clone leaves the original unchanged
VARIABLES orig, copy, phase
CloneInit == orig = <<1, <<"a">>>> /\ copy = <<>> /\ phase = "start"
DoClone == phase = "start" /\ copy' = orig /\ phase' = "cloned" /\ UNCHANGED orig
Mutate == phase = "cloned" /\ copy' = [copy EXCEPT ![1] = 99] /\ phase' = "mutated" /\ UNCHANGED orig
CloneNext == DoClone \/ Mutate
CloneEqualAtClone == phase = "cloned" => copy = orig
CloneIndependent == phase = "mutated" => (orig = <<1, <<"a">>>> /\ copy # orig)
=============================================================================
