-------------------------------- MODULE Rules --------------------------------
(* C03, rules outside the Core subset: the documented static rules as a table, walked over every
   context the checker traverses with separate code. The verdict is the rule table itself
   (language/explanation/{error_handling,enums,models_and_classes,derives_and_traits}.md): the
   `bad` variant of every rule must be rejected in every context, its `good` twin accepted.
     R5unpack            writing a name bound by tuple unpacking (`a, b = t`), which is not declared `mut`
     R7field / R7index   mutating a field / an element through a binding not declared `mut`
     R8                  `?` applied to a value that is not a Result
     R9                  `?` whose error type is incompatible with the function's error type
     R10enum/option/result  `match` omitting a variant of an enum / None / Err
     R10guard-enum/option   `match` whose only arm for a variant carries a guard (a guarded arm may be skipped: it covers nothing)
     R11missing/dup/unknown constructing a model with a missing / duplicated / unknown field
     R12method / R12requires adopting a trait without its required method / `@requires` field
     R12requires-stacked     the missing field is named by the SECOND of two stacked `@requires` decorators
     R12method-second-trait  the missing method belongs to the SECOND adopted trait (`with A, B`) *)
EXTENDS Integers, Sequences, TLC, Json
StmtRules == {"R5unpack", "R7field", "R7index", "R8", "R9", "R10enum", "R10option", "R10result", "R10guard-enum", "R10guard-option",
              "R11missing", "R11dup", "R11unknown"}
DeclRules == {"R12method", "R12requires", "R12requires-stacked", "R12method-second-trait"}
Blocks == {"if", "elif", "else", "while", "for", "case", "arrow"}
Hosts == {"fn", "method-model", "method-class"}
DeclHosts == {"model", "class"}
\* what stands immediately BEFORE the offending statement in the same block: the static rules are per construct, so nothing that
\* precedes a construct may switch its rule off (a checker keeps per-function state - the expected error type of `?`, the
\* set of mutable bindings, the loop flag - and every one of these statement forms touches some of it)
Pres == {"none", "closure", "listcomp", "dictcomp", "match-stmt", "for-loop", "try-ok", "nested-call", "if-else"}
\* what stands BEFORE the host function: the rules are per function, so nothing an EARLIER function declares may switch a rule off
\* in a later one ("mut-same-names": an earlier function declares, as `mut`, every name the offending statement writes through)
PreFns == {"none", "mut-same-names"}
CONSTANT MaxNest
VARIABLES rule, host, kinds, pre, prefn
Init == \/ rule \in StmtRules /\ host \in Hosts /\ kinds = <<>> /\ pre \in Pres /\ prefn \in PreFns
        \/ rule \in DeclRules /\ host \in DeclHosts /\ kinds = <<>> /\ pre = "none" /\ prefn = "none"
Next == rule \in StmtRules /\ Len(kinds) < MaxNest /\ \E b \in Blocks : kinds' = Append(kinds, b) /\ UNCHANGED <<rule, host, pre, prefn>>
\* the table: a `bad` variant is ill-typed whatever the context, a `good` variant well-typed
Verdict(variant) == variant = "good"
Emit == PrintT(<<"CASE", ToJson([rule |-> rule, host |-> host, kinds |-> kinds, pre |-> pre, prefn |-> prefn, bad_accept |-> Verdict("bad"), good_accept |-> Verdict("good")])>>)
=============================================================================
