CONSTANT N = 2
INIT Init
NEXT Next
INVARIANT Emit
CHECK_DEADLOCK FALSE
