CONSTANTS
  MaxDepth = 2
  Atoms = {"int", "str", "M1"}
  TupleAtoms = {"int", "str"}
  KeyAtoms = {"int"}
INIT Init
NEXT Next
INVARIANTS Sanity Emit
CHECK_DEADLOCK FALSE
