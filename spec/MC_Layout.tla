------------------------------ MODULE MC_Layout ------------------------------
(* TLC: (1) edit invariance of the transcribed algorithm on ALL class strings up to MaxLen,
   (2) B1 table (text, Lex(text)) for all class strings up to PrintLen,
   (3) the same on structured texts built line by line (deeper nesting, brackets, re-indentation). *)
EXTENDS Layout, TLC, Json
CONSTANTS MaxLen, PrintLen, MaxLines
VARIABLES mode, t, lines

vars == <<mode, t, lines>>
Indents == {0, 2, 4, 8}
Bodies == {<<"a">>, <<"a", "open">>, <<"close">>, <<"a", "open", "a", "close">>, <<"close", "a">>}
Tails == {<<>>, <<"sp", "hash", "a">>, <<"sp">>, <<"cr">>}
Spaces(n) == [k \in 1..n |-> "sp"]
RECURSIVE Flat(_)
Flat(ls) == IF ls = <<>> THEN <<>> ELSE Spaces(ls[1].ind) \o ls[1].body \o ls[1].tail \o <<"lf">> \o Flat(Tail(ls))
\* re-indentation: every indent scaled (2 -> 4 columns) or written with tabs (4 columns -> 1 tab)
RECURSIVE FlatScaled(_)
FlatScaled(ls) == IF ls = <<>> THEN <<>>
                  ELSE Spaces(2 * ls[1].ind) \o ls[1].body \o ls[1].tail \o <<"lf">> \o FlatScaled(Tail(ls))
TabsFor(n) == [k \in 1..(n \div 4) |-> "tab"] \o Spaces(n % 4)
RECURSIVE FlatTabs(_)
FlatTabs(ls) == IF ls = <<>> THEN <<>>
                ELSE TabsFor(ls[1].ind) \o ls[1].body \o ls[1].tail \o <<"lf">> \o FlatTabs(Tail(ls))
\* a line break (+ arbitrary indentation) after every bracket that is open at the end of ... inside brackets
BreakAfterOpens(s) == {Ins(s, k, <<"lf", "sp", "sp", "sp">>) : k \in {j \in 1..Len(s) : s[j] = "open" /\ ~InComment(s, j)}}

Init == mode = "chars" /\ t = <<>> /\ lines = <<>>
Grow == /\ mode = "chars" /\ Len(t) < MaxLen /\ \E c \in Cls : t' = Append(t, c)
        /\ UNCHANGED <<mode, lines>>
ToLines == mode = "chars" /\ t = <<>> /\ mode' = "lines" /\ UNCHANGED <<t, lines>>
AddLine == /\ mode = "lines" /\ Len(lines) < MaxLines
           /\ \E i \in Indents, b \in Bodies, tl \in Tails : lines' = Append(lines, [ind |-> i, body |-> b, tail |-> tl])
           /\ t' = Flat(lines') /\ UNCHANGED mode
Next == Grow \/ ToLines \/ AddLine

Invariance ==
  LET L == Lex(t) IN
  ~L.err => /\ \A e \in Edits(t) : LET M == Lex(e) IN ~M.err /\ Norm(M.toks) = Norm(L.toks)
            /\ \A e \in BreakAfterOpens(t) : LET M == Lex(e) IN ~M.err /\ Norm(M.toks) = Norm(L.toks)
Reindent ==
  (mode = "lines" /\ ~Lex(t).err) =>
     /\ LET M == Lex(FlatScaled(lines)) IN ~M.err /\ M.toks = Lex(t).toks
     /\ LET M == Lex(FlatTabs(lines)) IN ~M.err /\ M.toks = Lex(t).toks
\* structural sanity of every emitted stream
WellFormed ==
  LET L == Lex(t)
      cnt(k) == Cardinality({j \in 1..Len(L.toks) : L.toks[j] = k}) IN
  /\ Last(L.toks) = "EOF" /\ cnt("EOF") = 1
  /\ cnt("INDENT") = cnt("DEDENT")
Emit == ((mode = "chars" /\ Len(t) <= PrintLen) \/ mode = "lines") =>
          PrintT(<<"CASE", ToJson([text |-> t, toks |-> Lex(t).toks, err |-> Lex(t).err, mode |-> mode])>>)
=============================================================================
