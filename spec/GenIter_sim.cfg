CONSTANT MaxOps = 4
CONSTANT SeqOnly = TRUE
INIT Init
NEXT Next
INVARIANTS AllAccepted Sound OrderFree Emit
CHECK_DEADLOCK FALSE
