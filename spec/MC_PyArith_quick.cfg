CONSTANTS W = 24
          FW = 24
INIT Init
NEXT Next
INVARIANTS DefsSatisfyLaw LawUnique ImplEqualsDef FloatLaw Emit
CHECK_DEADLOCK FALSE
