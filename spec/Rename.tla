-------------------------------- MODULE Rename --------------------------------
(* C13: consistent renaming. Rename(P, sigma) renames every binding occurrence and every use of the
   names in DOMAIN sigma (sigma injective, target names fresh). The semantics of Core Incan is
   invariant under it:  Accept(Rename(P, s)) = Accept(P)  and  Run(Rename(P, s)) = Run(P)
   (values carry no names), which is what makes the expected behaviour of a renamed program known.
   The base program uses every Core binding position: const, function, parameter, `mut` local,
   `let` local, loop variable. *)
EXTENDS Core, Json

Ren(s, x) == IF x \in DOMAIN s THEN s[x] ELSE x
RECURSIVE RenE(_, _)
RECURSIVE RenSeqE(_, _)
RenSeqE(s, es) == [i \in 1..Len(es) |-> RenE(s, es[i])]
RenE(s, e) ==
  CASE e.k = "lit" -> e
    [] e.k = "ident" -> [e EXCEPT !.name = Ren(s, @)]
    [] e.k = "paren" -> [e EXCEPT !.e = RenE(s, @)]
    [] e.k = "un" -> [e EXCEPT !.e = RenE(s, @)]
    [] e.k = "bin" -> [e EXCEPT !.l = RenE(s, @), !.r = RenE(s, @)]
    [] e.k = "call" -> [e EXCEPT !.f = Ren(s, @), !.args = RenSeqE(s, @)]
    [] e.k = "index" -> [e EXCEPT !.obj = RenE(s, @), !.idx = RenE(s, @)]
    [] e.k = "slice" -> [e EXCEPT !.obj = RenE(s, @), !.start = RenSeqE(s, @), !.end = RenSeqE(s, @), !.step = RenSeqE(s, @)]
    [] e.k = "list" -> [e EXCEPT !.items = RenSeqE(s, @)]
RECURSIVE RenB(_, _)
RenS(s, st) ==
  CASE st.k \in {"print", "expr"} -> [st EXCEPT !.e = RenE(s, @)]
    [] st.k \in {"pass", "break", "continue"} -> st
    [] st.k = "return" -> [st EXCEPT !.e = RenSeqE(s, @)]
    [] st.k = "assign" -> [st EXCEPT !.name = Ren(s, @), !.e = RenE(s, @)]
    [] st.k = "compound" -> [st EXCEPT !.name = Ren(s, @), !.e = RenE(s, @)]
    [] st.k = "if" -> [st EXCEPT !.cond = RenE(s, @), !.then = RenB(s, @),
                                 !.elifs = [i \in 1..Len(@) |-> [cond |-> RenE(s, @[i].cond), body |-> RenB(s, @[i].body)]],
                                 !.else = [i \in 1..Len(@) |-> RenB(s, @[i])]]
    [] st.k = "while" -> [st EXCEPT !.cond = RenE(s, @), !.body = RenB(s, @)]
    [] st.k = "for" -> [st EXCEPT !.var = Ren(s, @), !.iter = RenE(s, @), !.body = RenB(s, @)]
RenB(s, ss) == [i \in 1..Len(ss) |-> RenS(s, ss[i])]
Rename(P, s) ==
  [consts |-> [i \in 1..Len(P.consts) |-> [P.consts[i] EXCEPT !.name = Ren(s, @), !.e = RenE(s, @)]],
   fns |-> [i \in 1..Len(P.fns) |->
              [P.fns[i] EXCEPT !.name = Ren(s, @),
                               !.params = [j \in 1..Len(@) |-> [@[j] EXCEPT !.name = Ren(s, @)]],
                               !.body = RenB(s, @)]]]

\* ---- base program
EInt(n) == [k |-> "lit", lk |-> "int", iv |-> n]
EId(x) == [k |-> "ident", name |-> x]
EBin(o, l, r) == [k |-> "bin", op |-> o, l |-> l, r |-> r]
ECall(f, a) == [k |-> "call", f |-> f, args |-> a]
Base == [consts |-> << [name |-> "base_const", ty |-> "int", e |-> EInt(3)] >>,
         fns |-> << [name |-> "base_func", params |-> <<[name |-> "base_param", ty |-> "int", mut |-> FALSE]>>, ret |-> "int",
                     body |-> << [k |-> "assign", bk |-> "mut", name |-> "base_mut", ty |-> "", e |-> EId("base_param")],
                                 [k |-> "for", var |-> "base_loop", iter |-> ECall("range", <<EInt(3)>>),
                                  body |-> << [k |-> "compound", name |-> "base_mut", op |-> "+", e |-> EId("base_loop")] >>],
                                 [k |-> "assign", bk |-> "let", name |-> "base_let", ty |-> "", e |-> EBin("*", EId("base_mut"), EId("base_const"))],
                                 [k |-> "return", e |-> <<EId("base_let")>>] >>],
                    [name |-> "main", params |-> <<>>, ret |-> "none",
                     body |-> << [k |-> "print", e |-> ECall("base_func", <<EInt(4)>>)], [k |-> "print", e |-> EId("base_const")] >>] >>]
Positions == {"base_const", "base_func", "base_param", "base_mut", "base_loop", "base_let"}

CONSTANT Names
VARIABLES pos, nm
Init == pos \in Positions /\ nm \in Names
Next == UNCHANGED <<pos, nm>>
Sigma == (pos :> nm)
Invariance == /\ Accept(Base) /\ Accept(Rename(Base, Sigma))
              /\ Run(Rename(Base, Sigma)) = Run(Base)
Emit == PrintT(<<"CASE", ToJson([pos |-> pos, name |-> nm, prog |-> Rename(Base, Sigma), out |-> Run(Base).out])>>)
=============================================================================
