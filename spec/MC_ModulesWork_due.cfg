CONSTANTS Vocab = {"a", "main", "zz"}
          MaxMain = 1
          MaxOther = 1
          Machines = {"cli", "lib", "lsp", "col"}
SPECIFICATION MCSpec
INVARIANTS DiagWhenDue
PROPERTIES Decreases
CHECK_DEADLOCK TRUE
