INIT CloneInit
NEXT CloneNext
INVARIANTS CloneEqualAtClone CloneIndependent Emit
CHECK_DEADLOCK FALSE
