CONSTANT Universes = {"data"}
CONSTANT Negatives = TRUE
CONSTANT LayoutSel = {"flat", "child", "nested-siblings", "cousins"}
CONSTANT IStyles = {"from", "mod", "mixed"}
INIT Init
NEXT Next
INVARIANTS ResolvesRight PubExactly PositiveLinks NegativeBreaks
CHECK_DEADLOCK FALSE
