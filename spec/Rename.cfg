CONSTANT Names = {"abstract", "become", "box", "do", "dyn", "extern", "final", "impl", "loop", "macro", "mod", "move", "override", "priv", "ref", "static", "struct", "try", "typeof", "unsafe", "unsized", "use", "virtual", "where", "String", "Box", "HashSet", "std", "core", "incan_stdlib", "incan_derive", "FieldInfo", "IncanClass", "Serialize", "__parts", "__args", "Upper", "lower_x", "union", "default", "auto", "macro_rules", "usize", "u32", "vec", "format", "panic", "r", "Ordering", "Display", "Clone", "main_fn", "new", "len_of", "append", "upper", "get", "keys", "contains"}
INIT Init
NEXT Next
INVARIANTS Invariance Emit
CHECK_DEADLOCK FALSE
