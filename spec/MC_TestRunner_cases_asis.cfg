CONSTANTS NT = 3
          Outcomes = {"pass", "assert_fail", "panic", "nobuild"}
          HarnessModes = {"runs", "empty"}
SPECIFICATION CaseSpecAsIs
INVARIANTS TypeOK CaseHook
CHECK_DEADLOCK TRUE
