CONSTANTS SortDeps = TRUE
          SortDiag = TRUE
          SortFmt = TRUE
          Crates <- TEmpty
          TopMods <- TEmpty
          SubMods <- TEmpty
          Fields <- TEmpty
          Methods <- TEmpty
          Files <- TEmpty
SPECIFICATION TSpec
INVARIANT AllAccepted
POSTCONDITION Accepted
CHECK_DEADLOCK FALSE
