CONSTANTS NT = 3
          Outcomes = {"pass", "assert_fail", "panic", "nobuild"}
          HarnessModes = {"runs"}
SPECIFICATION CaseSpec
INVARIANTS TypeOK PassedMeansRanAndPassed FailedMeansRanAndFailed XfailInverts SkipNotRun OnlySelectedRun
           RanOnlyIfJudgedOrRunning JudgedIsPrefix AllSelectedJudged CountersMatchVerdicts CountsAddUp
           PrintedMatchesVerdicts ExitIffFailure NotDoneNoExit CaseHook
PROPERTIES Progress
CHECK_DEADLOCK TRUE
