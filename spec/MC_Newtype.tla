------------------------------ MODULE MC_Newtype ------------------------------
EXTENDS Newtype, Json
Perms3 == {<<"NT", "OT", "FN">>, <<"NT", "FN", "OT">>, <<"OT", "NT", "FN">>, <<"OT", "FN", "NT">>, <<"FN", "NT", "OT">>, <<"FN", "OT", "NT">>,
           <<"NT", "FN">>, <<"FN", "NT">>, <<"FN", "NT", "FN">>}
Emit == phase = "done" => PrintT(<<"CASE", ToJson([units |-> units, hook |-> hook, rewritten |-> rewritten, hookname |-> HookName(hook)])>>)
=============================================================================
