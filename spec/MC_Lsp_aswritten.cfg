CONSTANTS Docs = {"d1"}
          MaxVer = 2
          Classes = {"ok"}
          DepDocs = {"d1"}
          AllowClose = TRUE
          Guarded = FALSE
          MaxConc = 4
          MaxMsgs = 3
SPECIFICATION MCSpec
VIEW View
INVARIANTS Converged DiagFromSameVersion LatestDiagFromLatestText LockSane
PROPERTIES NoStaleOverwrite
CHECK_DEADLOCK TRUE
