CONSTANTS ScanDepModules = FALSE
          StrictUnknown = FALSE
          MaxMixed = 2
          MaxUniform = 4
          Names = {"main", "app2", "my_app", "_x1", "a", "my-app", "x-1-y"}
          Layouts = {"flat", "nested"}
SPECIFICATION Spec
INVARIANTS Emit1
CHECK_DEADLOCK FALSE
