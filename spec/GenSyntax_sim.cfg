CONSTANTS Depth = 4
          Profiles = {"min", "one", "need", "max"}
          FreeAnc = TRUE
          RootKinds = {"decl", "stmt", "expr", "type", "pat", "member"}
INIT Init
NEXT Next
INVARIANTS WellFormed Emit
CHECK_DEADLOCK FALSE
