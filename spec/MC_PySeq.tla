------------------------------ MODULE MC_PySeq ------------------------------
(* TLC: exhaustive window check of PySeq and the B1 case tables (index level: the harness
   instantiates a sequence of n distinct scalars of byte widths 1..4). *)
EXTENDS PySeq, TLC, Json
CONSTANTS MaxN, W, RW   \* sequence lengths 0..MaxN; slice/index args in -W..W; range args in -RW..RW
VARIABLES mode, n, x, y, z       \* x,y,z: optional args (slice) / ints wrapped as <<v>> (others)

Opt == {<<>>} \cup {<<v>> : v \in (-W)..W}
Init == \/ mode = "slice" /\ n \in 0..MaxN /\ x \in Opt /\ y \in Opt /\ z \in Opt
        \/ mode = "index" /\ n \in 0..MaxN /\ x \in {<<v>> : v \in (-W)..W} /\ y = <<>> /\ z = <<>>
        \/ mode = "range" /\ n = 0 /\ x \in {<<v>> : v \in (-RW)..RW} /\ y \in {<<v>> : v \in (-RW)..RW}
                          /\ z \in {<<v>> : v \in (-RW)..RW}
        \/ mode = "dict"  /\ n \in 0..MaxN /\ x \in {<<v>> : v \in (-2)..(MaxN + 1)} /\ y = <<>> /\ z = <<>>
Next == UNCHANGED <<mode, n, x, y, z>>

ToSet(s) == {s[k] : k \in 1..Len(s)}
Monotone(s, st) == \A k \in 1..(Len(s) - 1) : s[k + 1] = s[k] + st
Ident(m) == [k \in 1..m |-> k - 1]      \* the sequence 0,1,..,m-1 so that Slice returns indices

SliceOK == (mode = "slice" /\ StepOf(z) # 0) =>
   LET idx == SliceIdx(n, x, y, z) IN
   /\ ToSet(idx) = SliceSet(n, x, y, z)
   /\ Monotone(idx, StepOf(z))
   /\ \A k \in 1..Len(idx) : idx[k] \in 0..(n - 1)
   /\ Slice(Ident(n), x, y, z).val = idx
ImplEqualsDef == (mode = "slice" /\ StepOf(z) # 0) => ImplSliceIdx(n, x, y, z) = SliceIdx(n, x, y, z)
SaturationOK == (mode = "slice" /\ StepOf(z) # 0) =>
   SliceIdx(n, x, y, z) = SliceIdx(n, Sat(n, x), Sat(n, y), SatStep(n, z))
ZeroStep == (mode = "slice" /\ StepOf(z) = 0) => Slice(Ident(n), x, y, z).err = ErrSliceStep
IndexOK == mode = "index" =>
   LET j == NormIndex(n, Val(x)) IN
   (j # -1) <=> (\E k \in 0..(n - 1) : k = Val(x) \/ k = Val(x) + n)
RangeOK == (mode = "range" /\ Val(z) # 0) =>
   LET a == Val(x)  b == Val(y)  c == Val(z)  r == RangeSeq(a, b, c) IN
   /\ Len(r) = RangeLen(a, b, c)
   /\ \A k \in 1..Len(r) : r[k] = a + (k - 1) * c /\ (IF c > 0 THEN r[k] < b ELSE r[k] > b)
   /\ (Len(r) = 0 \/ ~((c > 0 /\ r[Len(r)] + c < b) \/ (c < 0 /\ r[Len(r)] + c > b)))     \* maximal
   /\ \A t \in {-3, 5} : RangeSeq(a + t, b + t, c) = Shift(r, t)                            \* translation
   /\ ((c > 0 /\ a < b /\ c >= b - a) \/ (c < 0 /\ a > b /\ -c >= a - b)) => r = <<a>>      \* big step

Emit ==
  CASE mode = "slice" ->
         PrintT(<<"CASE", ToJson([m |-> "slice", n |-> n, start |-> x, stop |-> y, step |-> z,
                                  err |-> IF StepOf(z) = 0 THEN ErrSliceStep ELSE "",
                                  idx |-> IF StepOf(z) = 0 THEN <<>> ELSE SliceIdx(n, x, y, z)])>>)
    [] mode = "index" ->
         PrintT(<<"CASE", ToJson([m |-> "index", n |-> n, i |-> Val(x), j |-> NormIndex(n, Val(x)),
                                  errs |-> ErrStrIndex, errl |-> ErrListIndex(Val(x), n)])>>)
    [] mode = "range" ->
         PrintT(<<"CASE", ToJson([m |-> "range", a |-> Val(x), b |-> Val(y), c |-> Val(z),
                                  err |-> Range(Val(x), Val(y), Val(z)).err,
                                  val |-> Range(Val(x), Val(y), Val(z)).val])>>)
    [] mode = "dict" ->
         PrintT(<<"CASE", ToJson([m |-> "dict", n |-> n, key |-> Val(x),
                                  found |-> DictGet(0..(n - 1), Val(x)).found,
                                  err |-> DictGet(0..(n - 1), Val(x)).err])>>)
=============================================================================
