----------------------------- MODULE Positions -----------------------------
(* Editor positions vs byte offsets (src/lsp/diagnostics.rs), by DEFINITION: a document is a
   sequence of scalars, each with a UTF-8 width; a position is (line, character) where line =
   number of LF scalars before the point and character = number of scalars since the last LF
   (CR is an ordinary scalar, as the property's "counting newlines and characters" says). *)
EXTENDS Integers, Sequences, FiniteSets

Scalars == {"a", "e2", "u3", "s4", "lf", "cr"}
Width(c) == CASE c = "e2" -> 2 [] c = "u3" -> 3 [] c = "s4" -> 4 [] OTHER -> 1

RECURSIVE ByteLen(_)
ByteLen(d) == IF d = <<>> THEN 0 ELSE Width(Head(d)) + ByteLen(Tail(d))
\* byte offset at which scalar k starts (k in 1..Len+1)
StartOf(d, k) == ByteLen(SubSeq(d, 1, k - 1))
Boundaries(d) == {StartOf(d, k) : k \in 1..(Len(d) + 1)}

\* number of scalars that start strictly before the offset
ScalarsBefore(d, off) == Cardinality({k \in 1..Len(d) : StartOf(d, k) < off})
Line(d, n) == Cardinality({k \in 1..n : d[k] = "lf"})
LastLf(d, n) == LET S == {k \in 1..n : d[k] = "lf"} IN IF S = {} THEN 0 ELSE CHOOSE k \in S : \A j \in S : j <= k

Min(a, b) == IF a < b THEN a ELSE b
Max(a, b) == IF a > b THEN a ELSE b

\* offset -> position; offsets past the end are clamped to the end (documented)
OffsetToPos(d, off) == LET o == Min(off, ByteLen(d))
                           n == ScalarsBefore(d, o) IN
                       <<Line(d, n), n - LastLf(d, n)>>

\* position -> offset (documented: a character past the end of a line maps to the end of that
\* line; a position that does not exist maps to none = -1)
PosToOffset(d, pos) ==
  LET cands == {k \in 0..Len(d) : Line(d, k) = pos[1] /\ k - LastLf(d, k) = pos[2]} IN
  IF cands # {} THEN StartOf(d, (CHOOSE k \in cands : TRUE) + 1)
  ELSE LET lineEnds == {k \in 1..Len(d) : d[k] = "lf" /\ Line(d, k - 1) = pos[1]} IN
       IF lineEnds # {} THEN StartOf(d, CHOOSE k \in lineEnds : TRUE) ELSE -1

PosLess(p, q) == p[1] < q[1] \/ (p[1] = q[1] /\ p[2] < q[2])
PosLeq(p, q) == p = q \/ PosLess(p, q)

\* span -> range: the end is forced past the start (an empty or reversed span still marks one unit)
SpanToRange(d, s, e) == <<OffsetToPos(d, s), OffsetToPos(d, Max(e, s + 1))>>

\* ---------------------------------------------------------------- the property C19 on one document
RoundTrip(d) == \A off \in Boundaries(d) : PosToOffset(d, OffsetToPos(d, off)) = off
Monotone(d) == \A o1 \in Boundaries(d) : \A o2 \in Boundaries(d) :
                 o1 < o2 => PosLess(OffsetToPos(d, o1), OffsetToPos(d, o2))
CountingOK(d) == \A k \in 1..(Len(d) + 1) :
                   OffsetToPos(d, StartOf(d, k)) = <<Line(d, k - 1), (k - 1) - LastLf(d, k - 1)>>
RangeOK(d) == \A s \in 0..(ByteLen(d) + 2) : \A e \in 0..(ByteLen(d) + 2) :
                LET r == SpanToRange(d, s, e) IN
                /\ PosLeq(r[1], r[2])
                /\ PosToOffset(d, r[1]) \in Boundaries(d) /\ PosToOffset(d, r[2]) \in Boundaries(d)
=============================================================================
