CONSTANT MaxOps = 4
INIT Init
NEXT Next
INVARIANTS Sound Emit
CHECK_DEADLOCK FALSE
