-------------------------------- MODULE Core --------------------------------
(* "Core Incan": abstract syntax, the documented static rules (Accept / TypeOf) and the
   documented dynamic semantics (Run) of the modelled subset of the language:
     int / float (dyadic: fn / 2^fd, exact in f64) / bool / str (sequence of Unicode scalars) /
     List[int] / List[str]; all arithmetic, comparison and boolean operators with explicit
     grouping (Paren nodes), unary minus / not, str concatenation / indexing / slicing /
     membership, list literals / indexing / slicing / len, calls of user functions (arguments
     evaluated left to right, observable through println), builtins len / abs / range;
     statements: let / mut / inferred assignment under the documented scope rules, compound
     assignment, if / elif / else, while, for over range / list / str, break, continue, return,
     println; module-level consts.
   Sources: language/reference/numeric_semantics.md, language/explanation/scopes_and_name_resolution.md,
   language/reference/strings.md, language/reference/language.md (operator table, exceptions).
   Integer kernels come from PyArith, sequence kernels from PySeq (the same operators C04/C05 bind
   to the runtime library).
   Iteration protocols, Option helpers, sets and conversions (GenIter; section "iteration protocols" below):
     enumerate / zip (reference/language.md builtin functions, reference/imports_and_modules.md "Built-in functions"),
     tuple unpacking in `for` (tutorials/web_framework.md) and in assignments (how-to/async_programming.md `tx, rx = ...`),
     dict iteration through `for k in d` / d.keys() / d.values() (Dict methods table; the ORDER is not promised: Dict is
     a hash map, tutorials/book/08: "set iteration order is not guaranteed" - see `Reorder`), Option.unwrap_or / unwrap
     (Option methods table, explanation/error_handling.md), is_some / is_none (how-to/error_messages.md), dict.get,
     set literals / set(iterable) / len / in / not in / contains (tutorials/book/08, stdlib_traits/collection_protocols.md),
     int(s) / float(x) / str(n) with the documented ValueError texts (reference/language.md builtin exceptions). *)
EXTENDS Integers, Sequences, FiniteSets, TLC, PyArith, PySeq

\* ================================================================ values
IntV(n)      == [t |-> "int", iv |-> n]
BoolV(b)     == [t |-> "bool", bv |-> b]
StrV(s)      == [t |-> "str", sv |-> s]
ListV(xs)    == [t |-> "list", xs |-> xs]
NoneVal      == [t |-> "none"]
\* dyadic float fn / 2^fd, normalised (fn odd or fd = 0)
RECURSIVE NormF(_, _)
NormF(fn, fd) == IF fd > 0 /\ fn % 2 = 0 THEN NormF(fn \div 2, fd - 1) ELSE [t |-> "float", fn |-> fn, fd |-> fd]
RECURSIVE Pow2(_)
Pow2(n) == IF n = 0 THEN 1 ELSE 2 * Pow2(n - 1)
FloatOfInt(n) == [t |-> "float", fn |-> n, fd |-> 0]
ToF(v) == IF v.t = "int" THEN FloatOfInt(v.iv) ELSE v
\* numerators of two floats over the common denominator 2^D
MaxI(a, b) == IF a > b THEN a ELSE b
ScaledL(a, b) == a.fn * Pow2(MaxI(a.fd, b.fd) - a.fd)
ScaledR(a, b) == b.fn * Pow2(MaxI(a.fd, b.fd) - b.fd)
IsNum(v) == v.t \in {"int", "float"}
NumLt(a, b) == LET x == ToF(a)  y == ToF(b) IN ScaledL(x, y) < ScaledR(x, y)
NumEq(a, b) == LET x == ToF(a)  y == ToF(b) IN ScaledL(x, y) = ScaledR(x, y)

\* ================================================================ errors (canonical texts)
ZDE == "ZeroDivisionError: float division by zero"
Ok(v) == [ok |-> TRUE, v |-> v, err |-> ""]
Fail(msg) == [ok |-> FALSE, v |-> NoneVal, err |-> msg]
Inexact == "UNSPECIFIED: result is not an exact dyadic float"     \* outside the model (DESIGN §6)
Fuel == "UNSPECIFIED: fuel exhausted"

\* ================================================================ numeric policy (numeric_semantics.md)
ArithOps == {"+", "-", "*", "/", "//", "%", "**"}
CmpOps   == {"==", "!=", "<", "<=", ">", ">="}
\* exponent kind of an expression: a non-negative int literal, a negated int literal, or anything else
ExpKind(e, ty) == IF ty = "float" THEN "float"
                  ELSE IF e.k = "lit" /\ e.lk = "int" THEN "nonneg"
                  ELSE IF e.k = "un" /\ e.op = "-" /\ e.e.k = "lit" /\ e.e.lk = "int" THEN "neg"
                  ELSE "var"
ResultKind(op, l, r, ek) ==
  IF op = "/" THEN "float"
  ELSE IF op = "**" THEN (IF l = "int" /\ r = "int" /\ ek = "nonneg" THEN "int" ELSE "float")
  ELSE IF l = "float" \/ r = "float" THEN "float" ELSE "int"

\* ================================================================ static rules
\* scopes: sequence (outermost first) of functions name -> [ty, mut]
Lookup(scopes, x) ==
  LET idx == {i \in 1..Len(scopes) : x \in DOMAIN scopes[i]} IN
  IF idx = {} THEN [found |-> FALSE, i |-> 0, ty |-> "err", mut |-> FALSE]
  ELSE LET i == CHOOSE i \in idx : \A j \in idx : j <= i IN
       [found |-> TRUE, i |-> i, ty |-> scopes[i][x].ty, mut |-> scopes[i][x].mut]
Bind(sc, x, ty, m) == [sc EXCEPT ![Len(sc)] = (x :> [ty |-> ty, mut |-> m]) @@ @]
EmptyScope == <<>>          \* the function with empty domain

FnOf(P, f) == LET S == {i \in 1..Len(P.fns) : P.fns[i].name = f} IN
              IF S = {} THEN [found |-> FALSE] ELSE [found |-> TRUE, d |-> P.fns[CHOOSE i \in S : TRUE]]
ElemTy(ty) == IF ty = "list[int]" THEN "int" ELSE IF ty = "list[str]" THEN "str" ELSE "err"
\* pair types over the scalar types, dict[str,int], set[int] / set[str] (the collection types of the iteration subset)
ScalarTys == {"int", "str", "bool"}
TupTy(a, b) == "tuple[" \o a \o "," \o b \o "]"
IsTup(ty) == \E a, b \in ScalarTys : ty = TupTy(a, b)
TupElem(ty, i) == LET ab == CHOOSE ab \in ScalarTys \X ScalarTys : ty = TupTy(ab[1], ab[2]) IN ab[i]
DictTy == "dict[str,int]"
SetTy(a) == "set[" \o a \o "]"
ListTy(a) == "list[" \o a \o "]"

RECURSIVE TypeOf(_, _, _)
RECURSIVE TypeOfData(_, _, _)
RECURSIVE TypeOfColl(_, _, _)
RECURSIVE IterElemTy(_, _, _)
ArgsOK(args, params, sc, P) ==
  Len(args) = Len(params) /\ \A i \in 1..Len(args) : TypeOf(args[i], sc, P) = params[i].ty
TypeOf(e, sc, P) ==
  CASE e.k = "lit"   -> e.lk
    [] e.k = "ident" -> Lookup(sc, e.name).ty
    [] e.k = "paren" -> TypeOf(e.e, sc, P)
    [] e.k = "un"    -> LET a == TypeOf(e.e, sc, P) IN
                        IF e.op = "not" THEN (IF a = "bool" THEN "bool" ELSE "err")
                        ELSE (IF a \in {"int", "float"} THEN a ELSE "err")
    [] e.k = "bin"   ->
         LET a == TypeOf(e.l, sc, P)  b == TypeOf(e.r, sc, P) IN
         IF a = "err" \/ b = "err" THEN "err"
         ELSE IF e.op \in ArithOps THEN
                (IF a \in {"int", "float"} /\ b \in {"int", "float"} THEN ResultKind(e.op, a, b, ExpKind(e.r, b))
                 ELSE IF e.op = "+" /\ a = "str" /\ b = "str" THEN "str" ELSE "err")
         ELSE IF e.op \in CmpOps THEN
                (IF a \in {"int", "float"} /\ b \in {"int", "float"} THEN "bool"
                 ELSE IF a = b /\ a = "str" /\ e.op \in {"==", "!="} THEN "bool"      \* str ordering is outside the model
                 ELSE IF a = b /\ a = "bool" /\ e.op \in {"==", "!="} THEN "bool" ELSE "err")
         ELSE IF e.op \in {"and", "or"} THEN (IF a = "bool" /\ b = "bool" THEN "bool" ELSE "err")
         ELSE IF e.op \in {"in", "not in"} THEN        \* substring, or membership in a list / set / the keys of a dict
                (IF \/ (a = "str" /\ b = "str") \/ (a \in {"int", "str"} /\ b \in {ListTy(a), SetTy(a)}) \/ (a = "str" /\ b = DictTy)
                   THEN "bool" ELSE "err")
         ELSE "err"
    [] e.k = "call"  ->
         IF e.f = "len" THEN (IF Len(e.args) = 1 /\ TypeOf(e.args[1], sc, P) \in {"str", "list[int]", "list[str]", DictTy, SetTy("int"), SetTy("str")}
                                THEN "int" ELSE "err")
         ELSE IF e.f \in {"sum", "min", "max"} THEN (IF Len(e.args) = 1 /\ TypeOf(e.args[1], sc, P) = "list[int]" THEN "int" ELSE "err")
         ELSE IF e.f = "sorted" THEN (IF Len(e.args) = 1 /\ TypeOf(e.args[1], sc, P) \in {"list[int]", "list[str]"} THEN TypeOf(e.args[1], sc, P) ELSE "err")
         \* conversions (reference/language.md: Str / Int / Float "Convert a value to ..."; only the argument types the examples show)
         ELSE IF e.f = "int" THEN (IF Len(e.args) = 1 /\ TypeOf(e.args[1], sc, P) = "str" THEN "int" ELSE "err")
         ELSE IF e.f = "float" THEN (IF Len(e.args) = 1 /\ TypeOf(e.args[1], sc, P) \in {"str", "int"} THEN "float" ELSE "err")
         ELSE IF e.f = "str" THEN (IF Len(e.args) = 1 /\ TypeOf(e.args[1], sc, P) = "int" THEN "str" ELSE "err")
         ELSE IF e.f = "set" THEN (IF Len(e.args) = 1 /\ TypeOf(e.args[1], sc, P) \in {"list[int]", "list[str]"}
                                     THEN SetTy(ElemTy(TypeOf(e.args[1], sc, P))) ELSE "err")
         ELSE IF e.f = "abs" THEN (IF Len(e.args) = 1 /\ TypeOf(e.args[1], sc, P) \in {"int", "float"}
                                     THEN TypeOf(e.args[1], sc, P) ELSE "err")
         ELSE LET fd == FnOf(P, e.f) IN
              IF fd.found /\ ArgsOK(e.args, fd.d.params, sc, P) THEN fd.d.ret ELSE "err"
    [] e.k = "index" -> LET o == TypeOf(e.obj, sc, P) IN
                        IF o = DictTy THEN (IF TypeOf(e.idx, sc, P) = "str" THEN "int" ELSE "err")
                        ELSE IF TypeOf(e.idx, sc, P) # "int" THEN "err"
                        ELSE IF o = "str" THEN "str" ELSE ElemTy(o)
    [] e.k = "slice" -> LET o == TypeOf(e.obj, sc, P) IN
                        IF (\A b \in {e.start, e.end, e.step} : b = <<>> \/ TypeOf(b[1], sc, P) = "int")
                           /\ o \in {"str", "list[int]", "list[str]"} THEN o ELSE "err"
    [] e.k = "list"  -> IF e.items = <<>> THEN "err"
                        ELSE LET t1 == TypeOf(e.items[1], sc, P) IN
                             IF t1 \in {"int", "str"} /\ \A i \in 1..Len(e.items) : TypeOf(e.items[i], sc, P) = t1
                               THEN (IF t1 = "int" THEN "list[int]" ELSE "list[str]") ELSE "err"
    [] OTHER -> TypeOfData(e, sc, P)

\* ---------------------------------------------------------------- data types (models, enums, Option, Result, match, ?)
\* P.types: sequence of [k |-> "model", name, fields : Seq([name, ty])] | [k |-> "enum", name, variants : Seq([name, tys])]
\* type names are strings; the container types of the modelled subset are "opt[int]" and "res[int,str]"
TypeDecl(P, n) == LET S == {i \in 1..Len(P.types) : P.types[i].name = n} IN
                  IF S = {} THEN [k |-> "none", name |-> n] ELSE P.types[CHOOSE i \in S : TRUE]
FieldTy(td, f) == LET S == {i \in 1..Len(td.fields) : td.fields[i].name = f} IN
                  IF S = {} THEN "err" ELSE td.fields[CHOOSE i \in S : TRUE].ty
VariantOf(td, v) == LET S == {i \in 1..Len(td.variants) : td.variants[i].name = v} IN
                    IF S = {} THEN [found |-> FALSE] ELSE [found |-> TRUE, d |-> td.variants[CHOOSE i \in S : TRUE]]
\* pattern typing: returns [ok, binds : Seq([name, ty])] for a pattern against subject type ty
RECURSIVE PatTy(_, _, _)
RECURSIVE PatsTy(_, _, _, _)
PatsTy(ps, tys, P, acc) ==
  IF ps = <<>> THEN [ok |-> TRUE, binds |-> acc]
  ELSE LET r == PatTy(ps[1], tys[1], P) IN
       IF ~r.ok THEN [ok |-> FALSE, binds |-> <<>>] ELSE PatsTy(Tail(ps), Tail(tys), P, acc \o r.binds)
PatTy(p, ty, P) ==
  CASE p.k = "pwild" -> [ok |-> TRUE, binds |-> <<>>]
    [] p.k = "pbind" -> [ok |-> TRUE, binds |-> <<[name |-> p.name, ty |-> ty]>>]
    [] p.k = "plit"  -> [ok |-> p.lit.lk = ty /\ ty \in {"int", "bool", "str"}, binds |-> <<>>]
    [] p.k = "pctor" ->
         IF ty = "opt[int]" THEN
            (IF p.name = "Some" /\ Len(p.pats) = 1 THEN PatTy(p.pats[1], "int", P)
             ELSE [ok |-> p.name = "None" /\ p.pats = <<>>, binds |-> <<>>])
         ELSE IF ty = "res[int,str]" THEN
            (IF p.name = "Ok" /\ Len(p.pats) = 1 THEN PatTy(p.pats[1], "int", P)
             ELSE IF p.name = "Err" /\ Len(p.pats) = 1 THEN PatTy(p.pats[1], "str", P)
             ELSE [ok |-> FALSE, binds |-> <<>>])
         ELSE LET td == TypeDecl(P, ty) IN
              IF td.k # "enum" THEN [ok |-> FALSE, binds |-> <<>>]
              ELSE LET v == VariantOf(td, p.name) IN
                   IF ~v.found \/ Len(v.d.tys) # Len(p.pats) THEN [ok |-> FALSE, binds |-> <<>>]
                   ELSE PatsTy(p.pats, v.d.tys, P, <<>>)
    [] OTHER -> [ok |-> FALSE, binds |-> <<>>]
\* exhaustiveness (the documented rule): a wildcard / binding arm without guard, or every variant named by an unguarded arm
Irrefutable(a) == a.guard = <<>> /\ a.pat.k \in {"pwild", "pbind"}
CoversVariant(arms, v) == \E i \in 1..Len(arms) : arms[i].guard = <<>> /\ arms[i].pat.k = "pctor" /\ arms[i].pat.name = v
                                                     /\ \A j \in 1..Len(arms[i].pat.pats) : arms[i].pat.pats[j].k \in {"pwild", "pbind"}
Exhaustive(arms, ty, P) ==
  \/ \E i \in 1..Len(arms) : Irrefutable(arms[i])
  \/ (ty = "opt[int]" /\ CoversVariant(arms, "Some") /\ CoversVariant(arms, "None"))
  \/ (ty = "res[int,str]" /\ CoversVariant(arms, "Ok") /\ CoversVariant(arms, "Err"))
  \/ (TypeDecl(P, ty).k = "enum" /\ \A i \in 1..Len(TypeDecl(P, ty).variants) : CoversVariant(arms, TypeDecl(P, ty).variants[i].name))
RECURSIVE BindPats(_, _)
BindPats(sc, bs) == IF bs = <<>> THEN sc ELSE BindPats(Bind(sc, bs[1].name, bs[1].ty, FALSE), Tail(bs))
TypeOfData(e, sc, P) ==
  CASE e.k = "ctor" ->
         LET td == TypeDecl(P, e.name) IN
         IF /\ td.k = "model" /\ Len(e.fnames) = Len(td.fields)
            /\ (\A i \in 1..Len(td.fields) : \E j \in 1..Len(e.fnames) : e.fnames[j] = td.fields[i].name /\ TypeOf(e.args[j], sc, P) = td.fields[i].ty)
            /\ (\A i2, j2 \in 1..Len(e.fnames) : i2 # j2 => e.fnames[i2] # e.fnames[j2])
           THEN e.name ELSE "err"
    [] e.k = "field" -> LET td == TypeDecl(P, TypeOf(e.obj, sc, P)) IN IF td.k = "model" THEN FieldTy(td, e.field) ELSE "err"
    [] e.k = "variant" -> LET td == TypeDecl(P, e.ty) IN
                          IF td.k # "enum" THEN "err"
                          ELSE LET v == VariantOf(td, e.name) IN
                               IF v.found /\ Len(v.d.tys) = Len(e.args) /\ (\A i \in 1..Len(e.args) : TypeOf(e.args[i], sc, P) = v.d.tys[i])
                                 THEN e.ty ELSE "err"
    [] e.k = "some" -> IF TypeOf(e.e, sc, P) = "int" THEN "opt[int]" ELSE "err"
    [] e.k = "nonelit" -> "opt[int]"
    [] e.k = "ok" -> IF TypeOf(e.e, sc, P) = "int" THEN "res[int,str]" ELSE "err"
    [] e.k = "errx" -> IF TypeOf(e.e, sc, P) = "str" THEN "res[int,str]" ELSE "err"
    [] e.k = "try" -> IF TypeOf(e.e, sc, P) = "res[int,str]" /\ Lookup(sc, "$ret").ty = "res[int,str]" THEN "int" ELSE "err"
    [] e.k = "match" ->
         LET ty == TypeOf(e.subj, sc, P) IN
         IF ty = "err" \/ e.arms = <<>> \/ ~Exhaustive(e.arms, ty, P) THEN "err"
         ELSE LET armTy(a) == LET pt == PatTy(a.pat, ty, P) IN
                              IF ~pt.ok THEN "err"
                              ELSE LET sc2 == BindPats(Append(sc, EmptyScope), pt.binds) IN
                                   IF a.guard # <<>> /\ TypeOf(a.guard[1], sc2, P) # "bool" THEN "err" ELSE TypeOf(a.e, sc2, P)
                  t1 == armTy(e.arms[1]) IN
              IF t1 \notin {"err", "none"} /\ (\A i \in 1..Len(e.arms) : armTy(e.arms[i]) = t1) THEN t1 ELSE "err"
    [] OTHER -> TypeOfColl(e, sc, P)

\* ---------------------------------------------------------------- iteration protocols, tuples, dicts, sets, Option helpers (static rules)
\* element type of an expression in an ITERATION position (`for v in <it>`, comprehension source). enumerate / zip are typed only
\* here: the documentation calls them iterators ("Iterator with indices", "Pair up two iterators"), not lists.
IterElemTy(it, sc, P) ==
  IF (it.k = "call" /\ it.f = "range") \/ it.k = "range"
    THEN (IF Len(it.args) \in 1..3 /\ \A i \in 1..Len(it.args) : TypeOf(it.args[i], sc, P) = "int" THEN "int" ELSE "err")
  ELSE IF it.k = "enumerate" THEN LET t == IterElemTy(it.e, sc, P) IN IF t \in ScalarTys THEN TupTy("int", t) ELSE "err"
  ELSE IF it.k = "zip" THEN LET a == IterElemTy(it.a, sc, P)  b == IterElemTy(it.b, sc, P) IN
                            IF a \in ScalarTys /\ b \in ScalarTys THEN TupTy(a, b) ELSE "err"
  ELSE LET ty == TypeOf(it, sc, P) IN
       CASE ty = "str" -> "str" [] ty = DictTy -> "str"           \* a dict iterates over its keys
         [] ty \in {"list[int]", "set[int]"} -> "int" [] ty \in {"list[str]", "set[str]"} -> "str" [] OTHER -> "err"
TypeOfColl(e, sc, P) ==
  CASE e.k = "tuple" -> IF Len(e.items) = 2 /\ TypeOf(e.items[1], sc, P) \in ScalarTys /\ TypeOf(e.items[2], sc, P) \in ScalarTys
                          THEN TupTy(TypeOf(e.items[1], sc, P), TypeOf(e.items[2], sc, P)) ELSE "err"
    [] e.k = "tfield" -> LET o == TypeOf(e.obj, sc, P) IN IF IsTup(o) /\ e.idx \in {0, 1} THEN TupElem(o, e.idx + 1) ELSE "err"
    [] e.k = "dict" -> IF e.keys # <<>> /\ (\A i \in 1..Len(e.keys) : TypeOf(e.keys[i], sc, P) = "str" /\ TypeOf(e.vals[i], sc, P) = "int")
                         THEN DictTy ELSE "err"
    [] e.k = "setlit" -> IF e.items = <<>> THEN "err"
                         ELSE LET t1 == TypeOf(e.items[1], sc, P) IN
                              IF t1 \in {"int", "str"} /\ \A i \in 1..Len(e.items) : TypeOf(e.items[i], sc, P) = t1 THEN SetTy(t1) ELSE "err"
    [] e.k = "listcomp" ->
         LET vt == IterElemTy(e.iter, sc, P)
             sc2 == Bind(Append(sc, EmptyScope), e.var, vt, FALSE) IN
         IF vt = "err" \/ (e.cond # <<>> /\ TypeOf(e.cond[1], sc2, P) # "bool") THEN "err"
         ELSE LET t == TypeOf(e.elem, sc2, P) IN IF t \in {"int", "str"} THEN ListTy(t) ELSE "err"
    [] e.k = "fstr" -> IF \A i \in 1..Len(e.parts) : e.parts[i].pk = "s" \/ TypeOf(e.parts[i].e, sc, P) \in {"int", "bool", "str"} THEN "str" ELSE "err"
    [] e.k = "mcall" ->
         LET o == TypeOf(e.recv, sc, P)
             at(i) == TypeOf(e.args[i], sc, P)  n == Len(e.args) IN
         CASE o = DictTy /\ e.name = "keys" /\ n = 0 -> "list[str]"          \* "Return an iterable/list of keys"
           [] o = DictTy /\ e.name = "values" /\ n = 0 -> "list[int]"
           [] o = DictTy /\ e.name = "get" /\ n = 1 -> IF at(1) = "str" THEN "opt[int]" ELSE "err"
           [] o = DictTy /\ e.name = "insert" /\ n = 2 -> IF at(1) = "str" /\ at(2) = "int" /\ e.recv.k = "ident" /\ Lookup(sc, e.recv.name).mut THEN "none" ELSE "err"
           [] o = "opt[int]" /\ e.name = "unwrap_or" /\ n = 1 -> IF at(1) = "int" THEN "int" ELSE "err"
           [] o = "opt[int]" /\ e.name = "unwrap" /\ n = 0 -> "int"
           [] o = "opt[int]" /\ e.name \in {"is_some", "is_none"} /\ n = 0 -> "bool"
           [] o = "res[int,str]" /\ e.name = "unwrap" /\ n = 0 -> "int"
           [] o \in {SetTy("int"), SetTy("str"), "list[int]", "list[str]"} /\ e.name = "contains" /\ n = 1 ->
                IF (at(1) = "int" /\ o \in {SetTy("int"), "list[int]"}) \/ (at(1) = "str" /\ o \in {SetTy("str"), "list[str]"}) THEN "bool" ELSE "err"
           [] o \in {"list[int]", "list[str]"} /\ e.name = "append" /\ n = 1 ->
                IF at(1) = ElemTy(o) /\ e.recv.k = "ident" /\ Lookup(sc, e.recv.name).mut THEN "none" ELSE "err"
           [] o = "str" /\ e.name \in {"upper", "lower", "strip"} /\ n = 0 -> "str"
           [] OTHER -> "err"
    [] OTHER -> "err"

\* statements: returns [ok, sc]; ctx = [loop, ret] (inside a loop? declared return type)
RECURSIVE CheckBlock(_, _, _, _)
CheckStmt(s, sc, ctx, P) ==
  CASE s.k = "print"  -> [ok |-> TypeOf(s.e, sc, P) \in {"int", "float", "bool", "str"}, sc |-> sc]
    [] s.k = "pass"   -> [ok |-> TRUE, sc |-> sc]
    [] s.k = "break"  -> [ok |-> ctx.loop, sc |-> sc]
    [] s.k = "continue" -> [ok |-> ctx.loop, sc |-> sc]
    [] s.k = "return" -> [ok |-> IF s.e = <<>> THEN ctx.ret = "none" ELSE TypeOf(s.e[1], sc, P) = ctx.ret /\ ctx.ret # "none", sc |-> sc]
    [] s.k = "expr"   -> [ok |-> TypeOf(s.e, sc, P) # "err", sc |-> sc]
    [] s.k = "assign" ->
         LET ty == TypeOf(s.e, sc, P)
             annOK == s.ty = "" \/ s.ty = ty IN
         IF ty \in {"err", "none"} \/ ~annOK THEN [ok |-> FALSE, sc |-> sc]
         ELSE IF s.bk = "let" THEN [ok |-> TRUE, sc |-> Bind(sc, s.name, ty, FALSE)]
         ELSE IF s.bk = "mut" THEN [ok |-> TRUE, sc |-> Bind(sc, s.name, ty, TRUE)]
         ELSE LET r == Lookup(sc, s.name) IN
              IF r.found THEN [ok |-> r.mut /\ r.ty = ty, sc |-> sc]             \* reassignment of the nearest binding
              ELSE [ok |-> TRUE, sc |-> Bind(sc, s.name, ty, FALSE)]           \* new immutable binding
    [] s.k = "compound" ->
         LET r == Lookup(sc, s.name)            \* s.op is the arithmetic operator of the compound form ("+" for "+=")
             ty == TypeOf([k |-> "bin", op |-> s.op, l |-> [k |-> "ident", name |-> s.name], r |-> s.e], sc, P) IN
         [ok |-> r.found /\ r.mut /\ ty = r.ty, sc |-> sc]
    [] s.k = "if" ->
         [ok |-> /\ TypeOf(s.cond, sc, P) = "bool" /\ CheckBlock(s.then, Append(sc, EmptyScope), ctx, P)
                 /\ \A i \in 1..Len(s.elifs) : TypeOf(s.elifs[i].cond, sc, P) = "bool"
                                               /\ CheckBlock(s.elifs[i].body, Append(sc, EmptyScope), ctx, P)
                 /\ \A i \in 1..Len(s.else) : CheckBlock(s.else[i], Append(sc, EmptyScope), ctx, P),
          sc |-> sc]
    [] s.k = "while" ->
         [ok |-> TypeOf(s.cond, sc, P) = "bool" /\ CheckBlock(s.body, Append(sc, EmptyScope), [ctx EXCEPT !.loop = TRUE], P), sc |-> sc]
    [] s.k = "for" ->
         LET vty == IterElemTy(s.iter, sc, P) IN
         [ok |-> vty # "err" /\ CheckBlock(s.body, Bind(Append(sc, EmptyScope), s.var, vty, FALSE), [ctx EXCEPT !.loop = TRUE], P),
          sc |-> sc]
    [] s.k = "forun" ->         \* for a, b in <iterable of pairs>: both names are bound in the loop scope
         LET vty == IterElemTy(s.iter, sc, P) IN
         [ok |-> IsTup(vty) /\ Len(s.vars) = 2 /\ s.vars[1] # s.vars[2]
                 /\ CheckBlock(s.body, Bind(Bind(Append(sc, EmptyScope), s.vars[1], TupElem(vty, 1), FALSE), s.vars[2], TupElem(vty, 2), FALSE),
                               [ctx EXCEPT !.loop = TRUE], P),
          sc |-> sc]
    [] s.k = "unpack" ->        \* a, b = <pair>: two new immutable bindings
         LET ty == TypeOf(s.e, sc, P) IN
         IF ~IsTup(ty) \/ Len(s.names) # 2 \/ s.names[1] = s.names[2] \/ Lookup(sc, s.names[1]).found \/ Lookup(sc, s.names[2]).found
           THEN [ok |-> FALSE, sc |-> sc]
         ELSE [ok |-> TRUE, sc |-> Bind(Bind(sc, s.names[1], TupElem(ty, 1), FALSE), s.names[2], TupElem(ty, 2), FALSE)]
    [] s.k = "matchs" ->        \* statement-level match: patterns typed against the subject, exhaustive, every arm body a block
         LET ty == TypeOf(s.subj, sc, P) IN
         [ok |-> /\ ty # "err" /\ s.arms # <<>> /\ Exhaustive(s.arms, ty, P)
                 /\ \A i \in 1..Len(s.arms) :
                      LET pt == PatTy(s.arms[i].pat, ty, P)
                          sc2 == BindPats(Append(sc, EmptyScope), pt.binds) IN
                      pt.ok /\ (s.arms[i].guard = <<>> \/ TypeOf(s.arms[i].guard[1], sc2, P) = "bool") /\ CheckBlock(s.arms[i].body, sc2, ctx, P),
          sc |-> sc]
    [] s.k = "setidx" ->        \* xs[i] = e / d[k] = e (and the compound forms) on a mutable variable
         LET r == Lookup(sc, s.name)
             vt == TypeOf(IF s.op = "" THEN s.e
                          ELSE [k |-> "bin", op |-> s.op, l |-> [k |-> "index", obj |-> [k |-> "ident", name |-> s.name], idx |-> s.idx], r |-> s.e], sc, P) IN
         [ok |-> r.found /\ r.mut /\ \/ (r.ty \in {"list[int]", "list[str]"} /\ TypeOf(s.idx, sc, P) = "int" /\ vt = ElemTy(r.ty))
                                      \/ (r.ty = DictTy /\ TypeOf(s.idx, sc, P) = "str" /\ vt = "int"),
          sc |-> sc]
    [] OTHER -> [ok |-> FALSE, sc |-> sc]
CheckBlock(ss, sc, ctx, P) ==
  IF ss = <<>> THEN TRUE
  ELSE LET r == CheckStmt(Head(ss), sc, ctx, P) IN r.ok /\ CheckBlock(Tail(ss), r.sc, ctx, P)

RECURSIVE BindAll(_, _)
BindAll(sc, ps) == IF ps = <<>> THEN sc ELSE BindAll(Bind(sc, ps[1].name, ps[1].ty, ps[1].mut), Tail(ps))
\* module scope: consts (immutable)
RECURSIVE ConstScope(_, _, _)
ConstScope(cs, sc, P) == IF cs = <<>> THEN sc
                         ELSE ConstScope(Tail(cs), Bind(sc, cs[1].name, TypeOf(cs[1].e, sc, P), FALSE), P)
ModuleScope(P) == ConstScope(P.consts, <<EmptyScope>>, P)
ConstsOK(P) == \A i \in 1..Len(P.consts) :
                 LET sc == ConstScope(SubSeq(P.consts, 1, i - 1), <<EmptyScope>>, P)
                     ty == TypeOf(P.consts[i].e, sc, P) IN
                 ty \in {"int", "float", "bool", "str"} /\ (P.consts[i].ty = "" \/ P.consts[i].ty = ty)
Accept(P) ==
  /\ ConstsOK(P)
  /\ \A i \in 1..Len(P.fns) :
       LET f == P.fns[i] IN
       CheckBlock(f.body, Bind(BindAll(Append(ModuleScope(P), EmptyScope), f.params), "$ret", f.ret, FALSE), [loop |-> FALSE, ret |-> f.ret], P)
  /\ \E i \in 1..Len(P.fns) : P.fns[i].name = "main" /\ P.fns[i].params = <<>> /\ P.fns[i].ret = "none"

\* ================================================================ dynamic semantics
\* arithmetic on values; returns Ok(v) / Fail(msg)
Arith(op, a, b) ==
  LET isF == a.t = "float" \/ b.t = "float" \/ op = "/" IN
  IF ~isF THEN
     CASE op = "+"  -> Ok(IntV(a.iv + b.iv))
       [] op = "-"  -> Ok(IntV(a.iv - b.iv))
       [] op = "*"  -> Ok(IntV(a.iv * b.iv))
       [] op = "//" -> IF b.iv = 0 THEN Fail(ZDE) ELSE Ok(IntV(FloorDiv(a.iv, b.iv)))
       [] op = "%"  -> IF b.iv = 0 THEN Fail(ZDE) ELSE Ok(IntV(Mod(a.iv, b.iv)))
       [] OTHER -> Fail(Inexact)
  ELSE
     LET x == ToF(a)  y == ToF(b)  D == MaxI(x.fd, y.fd)  X == ScaledL(x, y)  Y == ScaledR(x, y) IN
     CASE op = "+"  -> Ok(NormF(X + Y, D))
       [] op = "-"  -> Ok(NormF(X - Y, D))
       [] op = "*"  -> Ok(NormF(x.fn * y.fn, x.fd + y.fd))
       [] op = "/"  -> IF Y = 0 THEN Fail(ZDE)
                       ELSE IF Mod(X * 1024, Y) = 0 THEN Ok(NormF(FloorDiv(X * 1024, Y), 10)) ELSE Fail(Inexact)
       [] op = "//" -> IF Y = 0 THEN Fail(ZDE) ELSE Ok(FloatOfInt(FloorDiv(X, Y)))
       [] op = "%"  -> IF Y = 0 THEN Fail(ZDE) ELSE Ok(NormF(Mod(X, Y), D))
       [] OTHER -> Fail(Inexact)
RECURSIVE IPow(_, _)
IPow(b, n) == IF n = 0 THEN 1 ELSE b * IPow(b, n - 1)
\* the scalars of the modelled alphabet in code point order (lib/render.py SCALAR)
CodeOrder == <<"sp", "cm", "da", "dt", "0", "1", "2", "3", "4", "5", "6", "7", "8", "9", "A", "B", "C", "D", "S",
               "a", "b", "c", "d", "e", "f", "l", "r", "s", "t", "u", "E2", "f2", "e2", "u3", "v3", "t4", "s4">>
Rank(c) == CHOOSE i \in 1..Len(CodeOrder) : CodeOrder[i] = c
RECURSIVE StrLt(_, _)
StrLt(x, y) == IF y = <<>> THEN FALSE ELSE IF x = <<>> THEN TRUE
               ELSE IF x[1] = y[1] THEN StrLt(Tail(x), Tail(y)) ELSE Rank(x[1]) < Rank(y[1])
Compare(op, a, b) ==
  IF IsNum(a) /\ IsNum(b) THEN
     CASE op = "==" -> NumEq(a, b) [] op = "!=" -> ~NumEq(a, b)
       [] op = "<" -> NumLt(a, b) [] op = "<=" -> NumLt(a, b) \/ NumEq(a, b)
       [] op = ">" -> NumLt(b, a) [] op = ">=" -> NumLt(b, a) \/ NumEq(a, b)
  ELSE IF a.t = "bool" THEN (IF op = "==" THEN a.bv = b.bv ELSE a.bv # b.bv)
  ELSE \* strings: lexicographic by Unicode code point (Python; Rust compares the UTF-8 bytes, which is the same order)
       CASE op = "==" -> a.sv = b.sv [] op = "!=" -> a.sv # b.sv
         [] op = "<" -> StrLt(a.sv, b.sv) [] op = "<=" -> StrLt(a.sv, b.sv) \/ a.sv = b.sv
         [] op = ">" -> StrLt(b.sv, a.sv) [] op = ">=" -> StrLt(b.sv, a.sv) \/ a.sv = b.sv
\* substring test on scalar sequences
IsSubSeq(n, h) == \E i \in 0..(Len(h) - Len(n)) : SubSeq(h, i + 1, i + Len(n)) = n

\* ---- strings as sequences of scalar ids: the methods of language/reference/strings.md
UpperOf(c) == CASE c = "a" -> <<"A">> [] c = "b" -> <<"B">> [] c = "c" -> <<"C">> [] c = "d" -> <<"D">> [] c = "e2" -> <<"E2">>
                [] c = "f2" -> <<"S", "S">> [] c = "s" -> <<"S">> [] OTHER -> <<c>>
LowerOf(c) == CASE c = "A" -> "a" [] c = "B" -> "b" [] c = "C" -> "c" [] c = "D" -> "d" [] c = "E2" -> "e2" [] c = "S" -> "s" [] OTHER -> c
RECURSIVE StrUpper(_)
StrUpper(sv) == IF sv = <<>> THEN <<>> ELSE UpperOf(sv[1]) \o StrUpper(Tail(sv))
StrLower(sv) == [i \in 1..Len(sv) |-> LowerOf(sv[i])]
RECURSIVE StrStripL(_)
StrStripL(sv) == IF sv # <<>> /\ sv[1] = "sp" THEN StrStripL(Tail(sv)) ELSE sv
RECURSIVE StrStripR(_)
StrStripR(sv) == IF sv # <<>> /\ sv[Len(sv)] = "sp" THEN StrStripR(SubSeq(sv, 1, Len(sv) - 1)) ELSE sv
StrStrip(sv) == StrStripR(StrStripL(sv))
\* first position (1-based) where n occurs in h, 0 if none
FindSub(n, h) == LET S == {i \in 1..(Len(h) - Len(n) + 1) : SubSeq(h, i, i + Len(n) - 1) = n} IN
                 IF S = {} THEN 0 ELSE CHOOSE i \in S : \A j \in S : i <= j
RECURSIVE StrSplit(_, _)
StrSplit(sv, sep) == LET i == FindSub(sep, sv) IN
                     IF i = 0 THEN <<sv>> ELSE <<SubSeq(sv, 1, i - 1)>> \o StrSplit(SubSeq(sv, i + Len(sep), Len(sv)), sep)
RECURSIVE StrJoin(_, _)
StrJoin(sep, xs) == IF xs = <<>> THEN <<>> ELSE IF Len(xs) = 1 THEN xs[1] ELSE xs[1] \o sep \o StrJoin(sep, Tail(xs))
RECURSIVE StrReplace(_, _, _)
StrReplace(sv, a, b) == LET i == FindSub(a, sv) IN
                        IF i = 0 THEN sv ELSE SubSeq(sv, 1, i - 1) \o b \o StrReplace(SubSeq(sv, i + Len(a), Len(sv)), a, b)
\* decimal text of an int as scalars ("-" and the digits are scalars of the alphabet)
Digit(d) == <<"0", "1", "2", "3", "4", "5", "6", "7", "8", "9">>[d + 1]
RECURSIVE NatText(_)
NatText(n) == IF n < 10 THEN <<Digit(n)>> ELSE NatText(n \div 10) \o <<Digit(n % 10)>>
IntText(n) == IF n < 0 THEN <<"da">> \o NatText(-n) ELSE NatText(n)
\* how a value is spliced into an f-string / printed: ints in decimal, bools as true / false, strs as they are
FmtV(v) == CASE v.t = "int" -> IntText(v.iv) [] v.t = "bool" -> (IF v.bv THEN <<"t", "r", "u", "e">> ELSE <<"f", "a", "l", "s", "e">>)
             [] v.t = "str" -> v.sv
\* ---- tuples and dicts (insertion-ordered here; programs never observe the iteration order of a dict)
TupleV(xs) == [t |-> "tuple", xs |-> xs]
DictV(ks, vs) == [t |-> "dict", ks |-> ks, vs |-> vs]
KeyIdx(d, k) == LET S == {i \in 1..Len(d.ks) : d.ks[i] = k} IN IF S = {} THEN 0 ELSE CHOOSE i \in S : TRUE
DictPut(d, k, v) == LET i == KeyIdx(d, k) IN IF i = 0 THEN DictV(Append(d.ks, k), Append(d.vs, v)) ELSE DictV(d.ks, [d.vs EXCEPT ![i] = v])
RECURSIVE FlatText(_)
FlatText(sv) == IF sv = <<>> THEN "" ELSE sv[1] \o FlatText(Tail(sv))      \* only for ASCII scalars whose id is the character
ErrKey(k) == "KeyError: '" \o (IF k.t = "int" THEN ToString(k.iv) ELSE FlatText(k.sv)) \o "' not found in dict"
\* insertion sort (sorted())
RECURSIVE SortInts(_)
VLe(a, b) == IF a.t = "int" THEN a.iv <= b.iv ELSE a.sv = b.sv \/ StrLt(a.sv, b.sv)        \* ints by value, strs by code point
InsertInt(x, ys) == LET n == Cardinality({i \in 1..Len(ys) : VLe(ys[i], x)}) IN SubSeq(ys, 1, n) \o <<x>> \o SubSeq(ys, n + 1, Len(ys))
SortInts(xs) == IF xs = <<>> THEN <<>> ELSE InsertInt(xs[1], SortInts(Tail(xs)))
RECURSIVE SumInts(_)
SumInts(xs) == IF xs = <<>> THEN 0 ELSE xs[1].iv + SumInts(Tail(xs))
\* ---- iteration protocols, sets, conversions (value level)
SetV(xs) == [t |-> "set", xs |-> xs]                   \* distinct elements; the sequence order is NOT observable (see Reorder)
RECURSIVE Dedup(_, _)
Dedup(xs, acc) == IF xs = <<>> THEN acc
                  ELSE Dedup(Tail(xs), IF \E i \in 1..Len(acc) : acc[i] = xs[1] THEN acc ELSE Append(acc, xs[1]))
\* The documentation does not promise an iteration order for dicts and sets (hash collections; tutorials/book/08: "set iteration
\* order is not guaranteed"). The order a program meets is the parameter P.ord; generators only emit programs whose behaviour is the
\* same under every order they try (GenIter: invariant OrderFree), so no expected output depends on it.
RECURSIVE Reverse(_)
Reverse(xs) == IF xs = <<>> THEN <<>> ELSE Append(Reverse(Tail(xs)), xs[1])
Reorder(xs, P) == IF xs = <<>> THEN xs ELSE CASE P.ord = "rev" -> Reverse(xs) [] P.ord = "rot" -> Append(Tail(xs), xs[1]) [] OTHER -> xs
\* the items a value yields when iterated: a str its Unicode scalars, a list its elements, a dict its keys, a set its elements
IterItems(v, P) == CASE v.t = "str" -> [i \in 1..Len(v.sv) |-> StrV(<<v.sv[i]>>)]
                     [] v.t = "dict" -> Reorder(v.ks, P) [] v.t = "set" -> Reorder(v.xs, P) [] OTHER -> v.xs
\* enumerate: (index, item) with indices from 0 ("Iterator with indices"; tutorials/web_framework.md uses the index with pop(i));
\* zip: "Pair up two iterators" element-wise: a pair needs an item of each, so the result has the length of the shorter one
EnumItems(xs) == [i \in 1..Len(xs) |-> TupleV(<<IntV(i - 1), xs[i]>>)]
ZipItems(xs, ys) == [i \in 1..(IF Len(xs) < Len(ys) THEN Len(xs) ELSE Len(ys)) |-> TupleV(<<xs[i], ys[i]>>)]
\* text of an ASCII scalar sequence (error messages); ids of ASCII scalars are the characters except the four named ones
CharOf(c) == CASE c = "da" -> "-" [] c = "sp" -> " " [] c = "cm" -> "," [] c = "dt" -> "." [] OTHER -> c
RECURSIVE TextOf(_)
TextOf(sv) == IF sv = <<>> THEN "" ELSE CharOf(sv[1]) \o TextOf(Tail(sv))
Digits == {"0", "1", "2", "3", "4", "5", "6", "7", "8", "9"}
DigitVal(c) == CHOOSE d \in 0..9 : Digit(d) = c
RECURSIVE NatOf(_, _)
NatOf(sv, acc) == IF sv = <<>> THEN acc ELSE NatOf(Tail(sv), acc * 10 + DigitVal(sv[1]))
AllDigits(sv) == sv # <<>> /\ \A i \in 1..Len(sv) : sv[i] \in Digits
\* int(s): an optional minus sign and decimal digits (the forms the documentation shows: int("42"), int("abc") fails); other
\* spellings Python accepts (surrounding blanks, "+", "_") are not documented for Incan and never generated
ErrConv(sv, ty) == "ValueError: cannot convert '" \o TextOf(sv) \o "' to " \o ty
ParseInt(sv) == LET neg == sv # <<>> /\ sv[1] = "da"
                    ds == IF neg THEN Tail(sv) ELSE sv IN
                IF AllDigits(ds) THEN Ok(IntV(IF neg THEN -NatOf(ds, 0) ELSE NatOf(ds, 0))) ELSE Fail(ErrConv(sv, "int"))
\* float(s): [-]digits[.digits]; the value is exact in the dyadic model only when 10^k divides out to a power of two
RECURSIVE Pow5(_)
Pow5(n) == IF n = 0 THEN 1 ELSE 5 * Pow5(n - 1)
ParseFloat(sv) == LET neg == sv # <<>> /\ sv[1] = "da"
                      ds == IF neg THEN Tail(sv) ELSE sv
                      dots == {i \in 1..Len(ds) : ds[i] = "dt"}
                      dot == IF dots = {} THEN 0 ELSE CHOOSE i \in dots : TRUE
                      ip == IF dot = 0 THEN ds ELSE SubSeq(ds, 1, dot - 1)
                      fp == IF dot = 0 THEN <<>> ELSE SubSeq(ds, dot + 1, Len(ds))
                      k == Len(fp)
                      n == NatOf(ip \o fp, 0) IN
                  IF Cardinality(dots) > 1 \/ ~AllDigits(ip) \/ (dot # 0 /\ ~AllDigits(fp)) THEN Fail(ErrConv(sv, "float"))
                  ELSE IF n % Pow5(k) # 0 THEN Fail(Inexact)
                  ELSE Ok(NormF((IF neg THEN -1 ELSE 1) * (n \div Pow5(k)), k))
\* unwrap() on None / Err(..) "panics" (explanation/error_handling.md); the message is not documented
PanicUnwrap == "PANIC (message not specified): unwrap() on None / Err"
\* machine state: [env, out, sig, err, ret, fuel]; sig in {"n", "brk", "cont", "ret", "err"}
VLookupIdx(env, x) == LET S == {j \in 1..Len(env) : x \in DOMAIN env[j]} IN CHOOSE i \in S : \A j \in S : j <= i
RECURSIVE EvalE(_, _, _)
RECURSIVE EvalArgs(_, _, _, _)
RECURSIVE ExecBlock(_, _, _)
RECURSIVE ExecWhile(_, _, _)
RECURSIVE ExecFor(_, _, _, _)
RECURSIVE EvalData(_, _, _)
RECURSIVE EvalColl(_, _, _)
RECURSIVE MatchPat(_, _)
RECURSIVE MatchPats(_, _, _)
\* result of an expression: [ok, v, err, st] (st carries out / fuel changes made by calls)
R(ok, v, err, st) == [ok |-> ok, v |-> v, err |-> err, st |-> st]
PopTo(st, n) == [st EXCEPT !.env = SubSeq(@, 1, n)]
EvalArgs(args, st, P, acc) ==
  IF args = <<>> THEN R(TRUE, ListV(acc), "", st)
  ELSE LET r == EvalE(args[1], st, P) IN
       IF ~r.ok THEN r ELSE EvalArgs(Tail(args), r.st, P, Append(acc, r.v))
EvalE(e, st, P) ==
  CASE e.k = "lit" ->
         R(TRUE, CASE e.lk = "int" -> IntV(e.iv) [] e.lk = "float" -> NormF(e.fn, e.fd)
                   [] e.lk = "bool" -> BoolV(e.bv) [] e.lk = "str" -> StrV(e.sv), "", st)
    [] e.k = "ident" -> R(TRUE, st.env[VLookupIdx(st.env, e.name)][e.name], "", st)
    [] e.k = "paren" -> EvalE(e.e, st, P)
    [] e.k = "un" -> LET a == EvalE(e.e, st, P) IN
                     IF ~a.ok THEN a
                     ELSE IF e.op = "not" THEN R(TRUE, BoolV(~a.v.bv), "", a.st)
                     ELSE IF a.v.t = "int" THEN R(TRUE, IntV(-a.v.iv), "", a.st)
                     ELSE R(TRUE, NormF(-a.v.fn, a.v.fd), "", a.st)
    [] e.k = "bin" ->
         LET a == EvalE(e.l, st, P) IN
         IF ~a.ok THEN a
         ELSE IF e.op = "and" /\ ~a.v.bv THEN a
         ELSE IF e.op = "or" /\ a.v.bv THEN a
         ELSE LET b == EvalE(e.r, a.st, P) IN
              IF ~b.ok THEN b
              ELSE IF e.op \in {"and", "or"} THEN b
              ELSE IF e.op \in CmpOps THEN R(TRUE, BoolV(Compare(e.op, a.v, b.v)), "", b.st)
              ELSE IF e.op \in {"in", "not in"} THEN
                     LET isin == CASE b.v.t = "str" -> IsSubSeq(a.v.sv, b.v.sv)
                                   [] b.v.t \in {"list", "set"} -> \E i \in 1..Len(b.v.xs) : b.v.xs[i] = a.v
                                   [] b.v.t = "dict" -> KeyIdx(b.v, a.v) # 0 IN
                     R(TRUE, BoolV(IF e.op = "in" THEN isin ELSE ~isin), "", b.st)
              ELSE IF e.op = "+" /\ a.v.t = "str" THEN R(TRUE, StrV(a.v.sv \o b.v.sv), "", b.st)
              ELSE IF e.op = "**" THEN
                     (IF a.v.t = "int" /\ b.v.t = "int" /\ e.r.k = "lit" THEN R(TRUE, IntV(IPow(a.v.iv, b.v.iv)), "", b.st)
                      ELSE R(FALSE, NoneVal, Inexact, b.st))
              ELSE LET r == Arith(e.op, a.v, b.v) IN R(r.ok, r.v, r.err, b.st)
    [] e.k = "index" ->
         LET o == EvalE(e.obj, st, P) IN
         IF ~o.ok THEN o
         ELSE LET i == EvalE(e.idx, o.st, P) IN
              IF ~i.ok THEN i
              ELSE IF o.v.t = "dict" THEN
                     LET j == KeyIdx(o.v, i.v) IN
                     IF j = 0 THEN R(FALSE, NoneVal, ErrKey(i.v), i.st) ELSE R(TRUE, o.v.vs[j], "", i.st)
              ELSE IF o.v.t = "str" THEN
                     LET j == NormIndex(Len(o.v.sv), i.v.iv) IN
                     IF j = -1 THEN R(FALSE, NoneVal, ErrStrIndex, i.st) ELSE R(TRUE, StrV(<<o.v.sv[j + 1]>>), "", i.st)
              ELSE LET j == NormIndex(Len(o.v.xs), i.v.iv) IN
                   IF j = -1 THEN R(FALSE, NoneVal, ErrListIndex(i.v.iv, Len(o.v.xs)), i.st) ELSE R(TRUE, o.v.xs[j + 1], "", i.st)
    [] e.k = "slice" ->
         LET o == EvalE(e.obj, st, P) IN
         IF ~o.ok THEN o
         ELSE LET a == IF e.start = <<>> THEN R(TRUE, NoneVal, "", o.st) ELSE EvalE(e.start[1], o.st, P) IN
              IF ~a.ok THEN a
              ELSE LET b == IF e.end = <<>> THEN R(TRUE, NoneVal, "", a.st) ELSE EvalE(e.end[1], a.st, P) IN
                   IF ~b.ok THEN b
                   ELSE LET c == IF e.step = <<>> THEN R(TRUE, NoneVal, "", b.st) ELSE EvalE(e.step[1], b.st, P) IN
                        IF ~c.ok THEN c
                        ELSE LET oa == IF e.start = <<>> THEN <<>> ELSE <<a.v.iv>>
                                 ob == IF e.end = <<>> THEN <<>> ELSE <<b.v.iv>>
                                 oc == IF e.step = <<>> THEN <<>> ELSE <<c.v.iv>>
                                 s == IF o.v.t = "str" THEN o.v.sv ELSE o.v.xs
                                 r == Slice(s, oa, ob, oc) IN
                             IF r.err # "" THEN R(FALSE, NoneVal, r.err, c.st)
                             ELSE R(TRUE, IF o.v.t = "str" THEN StrV(r.val) ELSE ListV(r.val), "", c.st)
    [] e.k = "list" -> EvalArgs(e.items, st, P, <<>>)
    [] e.k = "call" ->
         LET as == EvalArgs(e.args, st, P, <<>>) IN
         IF ~as.ok THEN as
         ELSE LET av == as.v.xs IN
              IF e.f = "len" THEN R(TRUE, IntV(CASE av[1].t = "str" -> Len(av[1].sv) [] av[1].t = "dict" -> Len(av[1].ks) [] OTHER -> Len(av[1].xs)), "", as.st)
              ELSE IF e.f = "sum" THEN R(TRUE, IntV(SumInts(av[1].xs)), "", as.st)
              ELSE IF e.f = "sorted" THEN R(TRUE, ListV(SortInts(av[1].xs)), "", as.st)
              ELSE IF e.f \in {"min", "max"} THEN
                     (IF av[1].xs = <<>> THEN R(FALSE, NoneVal, "UNSPECIFIED: min / max of an empty list", as.st)
                      ELSE LET srt == SortInts(av[1].xs) IN R(TRUE, IF e.f = "min" THEN srt[1] ELSE srt[Len(srt)], "", as.st))
              ELSE IF e.f = "range" THEN        \* range(...) in an iteration position other than a `for` header (enumerate / zip operand)
                     LET r == Range(IF Len(av) = 1 THEN 0 ELSE av[1].iv, IF Len(av) = 1 THEN av[1].iv ELSE av[2].iv, IF Len(av) = 3 THEN av[3].iv ELSE 1) IN
                     IF r.err # "" THEN R(FALSE, NoneVal, r.err, as.st) ELSE R(TRUE, ListV([i \in 1..Len(r.val) |-> IntV(r.val[i])]), "", as.st)
              ELSE IF e.f = "int" THEN LET r == ParseInt(av[1].sv) IN R(r.ok, r.v, r.err, as.st)
              ELSE IF e.f = "float" THEN (IF av[1].t = "int" THEN R(TRUE, FloatOfInt(av[1].iv), "", as.st)
                                          ELSE LET r == ParseFloat(av[1].sv) IN R(r.ok, r.v, r.err, as.st))
              ELSE IF e.f = "str" THEN R(TRUE, StrV(IntText(av[1].iv)), "", as.st)
              ELSE IF e.f = "set" THEN R(TRUE, SetV(Dedup(av[1].xs, <<>>)), "", as.st)
              ELSE IF e.f = "abs" THEN R(TRUE, IF av[1].t = "int" THEN IntV(Abs(av[1].iv)) ELSE NormF(Abs(av[1].fn), av[1].fd), "", as.st)
              ELSE LET f == FnOf(P, e.f).d IN
                   IF as.st.fuel = 0 THEN R(FALSE, NoneVal, Fuel, as.st)
                   ELSE LET env0 == <<[i \in {} |-> 0]>>
                            frame == [p \in {f.params[i].name : i \in 1..Len(f.params)} |->
                                         av[CHOOSE i \in 1..Len(f.params) : f.params[i].name = p]]
                            inner == ExecBlock(f.body, [as.st EXCEPT !.env = <<P.cenv, frame>>, !.fuel = @ - 1, !.sig = "n",
                                                                     !.ret = NoneVal], P) IN
                        IF inner.sig = "err" THEN R(FALSE, NoneVal, inner.err, inner)
                        ELSE R(TRUE, inner.ret, "", [inner EXCEPT !.env = as.st.env, !.sig = "n", !.ret = as.st.ret])
    [] OTHER -> EvalData(e, st, P)

\* ---- data values: [t |-> "model", ty, fs (function field -> value)], [t |-> "enum", ty, var, pay (Seq)],
\*      [t |-> "some", pv], [t |-> "nonev"], [t |-> "okv", pv], [t |-> "errv", pv]
\* pattern matching: [ok, binds (function name -> value)]
MatchPats(ps, vs, acc) ==
  IF ps = <<>> THEN [ok |-> TRUE, binds |-> acc]
  ELSE LET r == MatchPat(ps[1], vs[1]) IN
       IF ~r.ok THEN [ok |-> FALSE, binds |-> acc] ELSE MatchPats(Tail(ps), Tail(vs), r.binds @@ acc)
MatchPat(p, v) ==
  CASE p.k = "pwild" -> [ok |-> TRUE, binds |-> <<>>]
    [] p.k = "pbind" -> [ok |-> TRUE, binds |-> (p.name :> v)]
    [] p.k = "plit"  -> [ok |-> (CASE p.lit.lk = "int" -> v.iv = p.lit.iv [] p.lit.lk = "bool" -> v.bv = p.lit.bv
                                   [] p.lit.lk = "str" -> v.sv = p.lit.sv), binds |-> <<>>]
    [] p.k = "pctor" ->
         IF v.t = "some" THEN (IF p.name = "Some" THEN MatchPat(p.pats[1], v.pv) ELSE [ok |-> FALSE, binds |-> <<>>])
         ELSE IF v.t = "nonev" THEN [ok |-> p.name = "None", binds |-> <<>>]
         ELSE IF v.t = "okv" THEN (IF p.name = "Ok" THEN MatchPat(p.pats[1], v.pv) ELSE [ok |-> FALSE, binds |-> <<>>])
         ELSE IF v.t = "errv" THEN (IF p.name = "Err" THEN MatchPat(p.pats[1], v.pv) ELSE [ok |-> FALSE, binds |-> <<>>])
         ELSE IF v.var = p.name THEN MatchPats(p.pats, v.pay, <<>>) ELSE [ok |-> FALSE, binds |-> <<>>]
EvalData(e, st, P) ==
  CASE e.k = "ctor" ->
         LET as == EvalArgs(e.args, st, P, <<>>) IN
         IF ~as.ok THEN as
         ELSE R(TRUE, [t |-> "model", ty |-> e.name,
                       fs |-> [f \in {e.fnames[i] : i \in 1..Len(e.fnames)} |-> as.v.xs[CHOOSE i \in 1..Len(e.fnames) : e.fnames[i] = f]]], "", as.st)
    [] e.k = "field" -> LET o == EvalE(e.obj, st, P) IN IF ~o.ok THEN o ELSE R(TRUE, o.v.fs[e.field], "", o.st)
    [] e.k = "variant" -> LET as == EvalArgs(e.args, st, P, <<>>) IN
                          IF ~as.ok THEN as ELSE R(TRUE, [t |-> "enum", ty |-> e.ty, var |-> e.name, pay |-> as.v.xs], "", as.st)
    [] e.k = "some" -> LET a == EvalE(e.e, st, P) IN IF ~a.ok THEN a ELSE R(TRUE, [t |-> "some", pv |-> a.v], "", a.st)
    [] e.k = "nonelit" -> R(TRUE, [t |-> "nonev"], "", st)
    [] e.k = "ok" -> LET a == EvalE(e.e, st, P) IN IF ~a.ok THEN a ELSE R(TRUE, [t |-> "okv", pv |-> a.v], "", a.st)
    [] e.k = "errx" -> LET a == EvalE(e.e, st, P) IN IF ~a.ok THEN a ELSE R(TRUE, [t |-> "errv", pv |-> a.v], "", a.st)
    [] e.k = "try" -> LET a == EvalE(e.e, st, P) IN
                      IF ~a.ok THEN a
                      ELSE IF a.v.t = "okv" THEN R(TRUE, a.v.pv, "", a.st)
                      ELSE R(FALSE, a.v, "$EARLY-RETURN", a.st)            \* `?` on Err: the function returns the Err value
    [] e.k = "match" ->
         LET s0 == EvalE(e.subj, st, P) IN
         IF ~s0.ok THEN s0
         ELSE LET n == Len(s0.st.env)
                  RECURSIVE Arms(_, _)
                  Arms(k, cur) ==
                    IF k > Len(e.arms) THEN R(FALSE, NoneVal, "UNSPECIFIED: no arm matched", cur)
                    ELSE LET m == MatchPat(e.arms[k].pat, s0.v) IN
                         IF ~m.ok THEN Arms(k + 1, cur)
                         ELSE LET inner == [cur EXCEPT !.env = Append(@, m.binds)] IN
                              IF e.arms[k].guard = <<>> THEN
                                 LET r == EvalE(e.arms[k].e, inner, P) IN [r EXCEPT !.st = PopTo(r.st, n)]
                              ELSE LET g == EvalE(e.arms[k].guard[1], inner, P) IN
                                   IF ~g.ok THEN [g EXCEPT !.st = PopTo(g.st, n)]
                                   ELSE IF g.v.bv THEN LET r == EvalE(e.arms[k].e, g.st, P) IN [r EXCEPT !.st = PopTo(r.st, n)]
                                   ELSE Arms(k + 1, PopTo(g.st, n)) IN
              Arms(1, s0.st)
    [] OTHER -> EvalColl(e, st, P)

\* ---- tuples, dicts, methods of str / list / dict, comprehensions, closures, f-strings
SetVar(st, x, v) == [st EXCEPT !.env[VLookupIdx(st.env, x)] = (x :> v) @@ @]
\* ---- user-defined methods (models_and_classes.md, derives_and_traits.md): a type's own method wins, then the methods it
\*      inherits through `extends`, then the default methods of the traits it adopts (in `with` order)
TraitDecl(P, n) == P.traits[CHOOSE i \in 1..Len(P.traits) : P.traits[i].name = n]
MethodIn(ms, m) == LET S == {i \in 1..Len(ms) : ms[i].name = m /\ ms[i].body # <<>>} IN
                   IF S = {} THEN [found |-> FALSE] ELSE [found |-> TRUE, d |-> ms[CHOOSE i \in S : TRUE]]
RECURSIVE FindMethod(_, _, _)
RECURSIVE FindInTraits(_, _, _)
FindInTraits(P, ts, m) == IF ts = <<>> THEN [found |-> FALSE]
                          ELSE LET r == MethodIn(TraitDecl(P, ts[1]).methods, m) IN IF r.found THEN r ELSE FindInTraits(P, Tail(ts), m)
FindMethod(P, tn, m) ==
  LET td == TypeDecl(P, tn)
      own == MethodIn(td.methods, m) IN
  IF own.found THEN own
  ELSE LET up == IF td.parent = "" THEN [found |-> FALSE] ELSE FindMethod(P, td.parent, m) IN
       IF up.found THEN up ELSE FindInTraits(P, td.traits, m)
\* store v at the place denoted by an lvalue path (a variable, or a field of a path)
RECURSIVE WritePath(_, _, _, _)
WritePath(st, lv, v, P) ==
  IF lv.k = "ident" THEN SetVar(st, lv.name, v)
  ELSE LET o == EvalE(lv.obj, st, P) IN WritePath(st, lv.obj, [o.v EXCEPT !.fs[lv.field] = v], P)
EvalColl(e, st, P) ==
  CASE e.k = "tuple" -> LET as == EvalArgs(e.items, st, P, <<>>) IN IF ~as.ok THEN as ELSE R(TRUE, TupleV(as.v.xs), "", as.st)
    [] e.k = "tfield" -> LET o == EvalE(e.obj, st, P) IN IF ~o.ok THEN o ELSE R(TRUE, o.v.xs[e.idx + 1], "", o.st)
    [] e.k = "dict" ->        \* k1, v1, k2, v2, ... are evaluated in that order; a repeated key keeps the last value
         LET RECURSIVE Pairs(_, _, _)
             Pairs(i, cur, d) ==
               IF i > Len(e.keys) THEN R(TRUE, d, "", cur)
               ELSE LET kk == EvalE(e.keys[i], cur, P) IN
                    IF ~kk.ok THEN kk
                    ELSE LET vv == EvalE(e.vals[i], kk.st, P) IN
                         IF ~vv.ok THEN vv ELSE Pairs(i + 1, vv.st, DictPut(d, kk.v, vv.v)) IN
         Pairs(1, st, DictV(<<>>, <<>>))
    [] e.k = "mcall" ->       \* receiver, then arguments left to right, then the method
         LET o == EvalE(e.recv, st, P) IN
         IF ~o.ok THEN o
         ELSE LET as == EvalArgs(e.args, o.st, P, <<>>) IN
              IF ~as.ok THEN as
              ELSE LET av == as.v.xs  m == e.name  rv == o.v IN
                   CASE rv.t = "model" ->      \* user-defined method: `self` is the receiver; a `mut self` method stores self back
                          LET md == FindMethod(P, rv.ty, m).d IN
                          IF as.st.fuel = 0 THEN R(FALSE, NoneVal, Fuel, as.st)
                          ELSE LET frame == ("self" :> rv) @@ [p \in {md.params[i].name : i \in 1..Len(md.params)} |->
                                                               av[CHOOSE i \in 1..Len(md.params) : md.params[i].name = p]]
                                   inner == ExecBlock(md.body, [as.st EXCEPT !.env = <<P.cenv, frame>>, !.fuel = @ - 1, !.sig = "n",
                                                                            !.ret = NoneVal], P) IN
                               IF inner.sig = "err" THEN R(FALSE, NoneVal, inner.err, inner)
                               ELSE LET back == [inner EXCEPT !.env = as.st.env, !.sig = "n", !.ret = as.st.ret] IN
                                    R(TRUE, inner.ret, "", IF md.recv = "mutself" THEN WritePath(back, e.recv, inner.env[2]["self"], P) ELSE back)
                     [] rv.t = "str" /\ m = "upper" -> R(TRUE, StrV(StrUpper(rv.sv)), "", as.st)
                     [] rv.t = "str" /\ m = "lower" -> R(TRUE, StrV(StrLower(rv.sv)), "", as.st)
                     [] rv.t = "str" /\ m = "strip" -> R(TRUE, StrV(StrStrip(rv.sv)), "", as.st)
                     [] rv.t = "str" /\ m = "split" ->
                          (IF av[1].sv = <<>> THEN R(FALSE, NoneVal, "UNSPECIFIED: split with an empty separator", as.st)
                           ELSE LET ps == StrSplit(rv.sv, av[1].sv) IN R(TRUE, ListV([i \in 1..Len(ps) |-> StrV(ps[i])]), "", as.st))
                     [] rv.t = "str" /\ m = "join" -> R(TRUE, StrV(StrJoin(rv.sv, [i \in 1..Len(av[1].xs) |-> av[1].xs[i].sv])), "", as.st)
                     [] rv.t = "str" /\ m = "replace" ->
                          (IF av[1].sv = <<>> THEN R(FALSE, NoneVal, "UNSPECIFIED: replace of the empty string", as.st)
                           ELSE R(TRUE, StrV(StrReplace(rv.sv, av[1].sv, av[2].sv)), "", as.st))
                     [] rv.t = "str" /\ m = "contains" -> R(TRUE, BoolV(IsSubSeq(av[1].sv, rv.sv)), "", as.st)
                     [] rv.t = "str" /\ m = "startswith" -> R(TRUE, BoolV(Len(av[1].sv) <= Len(rv.sv) /\ SubSeq(rv.sv, 1, Len(av[1].sv)) = av[1].sv), "", as.st)
                     [] rv.t = "str" /\ m = "endswith" ->
                          R(TRUE, BoolV(Len(av[1].sv) <= Len(rv.sv) /\ SubSeq(rv.sv, Len(rv.sv) - Len(av[1].sv) + 1, Len(rv.sv)) = av[1].sv), "", as.st)
                     [] rv.t = "list" /\ m = "contains" -> R(TRUE, BoolV(\E i \in 1..Len(rv.xs) : rv.xs[i] = av[1]), "", as.st)
                     \* mutating methods: the receiver is a variable; the new collection is stored back
                     [] rv.t = "list" /\ m = "append" -> R(TRUE, NoneVal, "", SetVar(as.st, e.recv.name, ListV(Append(rv.xs, av[1]))))
                     [] rv.t = "list" /\ m = "pop" ->
                          (IF rv.xs = <<>> THEN R(FALSE, NoneVal, "UNSPECIFIED: pop from an empty list", as.st)
                           ELSE R(TRUE, rv.xs[Len(rv.xs)], "", SetVar(as.st, e.recv.name, ListV(SubSeq(rv.xs, 1, Len(rv.xs) - 1)))))
                     [] rv.t = "list" /\ m = "swap" ->
                          LET i == av[1].iv + 1  j == av[2].iv + 1 IN
                          (IF i \notin 1..Len(rv.xs) \/ j \notin 1..Len(rv.xs) THEN R(FALSE, NoneVal, "UNSPECIFIED: swap out of range", as.st)
                           ELSE R(TRUE, NoneVal, "", SetVar(as.st, e.recv.name, ListV([rv.xs EXCEPT ![i] = rv.xs[j], ![j] = rv.xs[i]]))))
                     [] rv.t = "dict" /\ m = "insert" -> R(TRUE, NoneVal, "", SetVar(as.st, e.recv.name, DictPut(rv, av[1], av[2])))
                     \* keys() / values(): the keys / values in the (unspecified) iteration order of the dict, the same order for both
                     [] rv.t = "dict" /\ m = "keys" -> R(TRUE, ListV(Reorder(rv.ks, P)), "", as.st)
                     [] rv.t = "dict" /\ m = "values" -> R(TRUE, ListV(Reorder(rv.vs, P)), "", as.st)
                     [] rv.t = "dict" /\ m = "get" -> LET j == KeyIdx(rv, av[1]) IN
                                                      R(TRUE, IF j = 0 THEN [t |-> "nonev"] ELSE [t |-> "some", pv |-> rv.vs[j]], "", as.st)
                     [] rv.t = "set" /\ m = "contains" -> R(TRUE, BoolV(\E i \in 1..Len(rv.xs) : rv.xs[i] = av[1]), "", as.st)
                     \* Option helpers: the receiver, then the argument (unwrap_or's default is an ordinary argument: always evaluated;
                     \* how-to/error_handling_recipes.md: "If computing the default is expensive, prefer unwrap_or_else")
                     [] rv.t \in {"some", "nonev"} /\ m = "unwrap_or" -> R(TRUE, IF rv.t = "some" THEN rv.pv ELSE av[1], "", as.st)
                     [] rv.t \in {"some", "nonev"} /\ m = "unwrap" -> IF rv.t = "some" THEN R(TRUE, rv.pv, "", as.st) ELSE R(FALSE, NoneVal, PanicUnwrap, as.st)
                     [] rv.t \in {"okv", "errv"} /\ m = "unwrap" -> IF rv.t = "okv" THEN R(TRUE, rv.pv, "", as.st) ELSE R(FALSE, NoneVal, PanicUnwrap, as.st)
                     [] rv.t \in {"some", "nonev"} /\ m = "is_some" -> R(TRUE, BoolV(rv.t = "some"), "", as.st)
                     [] rv.t \in {"some", "nonev"} /\ m = "is_none" -> R(TRUE, BoolV(rv.t = "nonev"), "", as.st)
                     [] OTHER -> R(FALSE, NoneVal, "UNSPECIFIED: unknown expression kind", as.st)
    [] e.k = "ctord" ->       \* constructor with named arguments (in source order); omitted fields take their declared defaults
         LET as == EvalArgs(e.args, st, P, <<>>) IN
         IF ~as.ok THEN as
         ELSE LET td == TypeDecl(P, e.name)
                  given == [f \in {e.fnames[i] : i \in 1..Len(e.fnames)} |-> as.v.xs[CHOOSE i \in 1..Len(e.fnames) : e.fnames[i] = f]]
                  dflt == [f \in {td.defaults[i].name : i \in 1..Len(td.defaults)} |->
                             EvalE(td.defaults[CHOOSE i \in 1..Len(td.defaults) : td.defaults[i].name = f].e, as.st, P).v] IN
              R(TRUE, [t |-> "model", ty |-> e.name, fs |-> given @@ dflt], "", as.st)
    [] e.k = "closure" -> R(TRUE, [t |-> "clos", params |-> e.params, body |-> e.body], "", st)
    [] e.k = "callv" ->       \* call of a closure held in a variable: arguments left to right, then the body with the parameters bound;
                              \* captured names are immutable bindings of the enclosing function (same value at creation and at the call)
         LET c == st.env[VLookupIdx(st.env, e.f)][e.f]
             as == EvalArgs(e.args, st, P, <<>>) IN
         IF ~as.ok THEN as
         ELSE LET n == Len(as.st.env)
                  frame == [p \in {c.params[i] : i \in 1..Len(c.params)} |-> as.v.xs[CHOOSE i \in 1..Len(c.params) : c.params[i] = p]]
                  r == EvalE(c.body, [as.st EXCEPT !.env = Append(@, frame)], P) IN
              [r EXCEPT !.st = PopTo(r.st, n)]
    [] e.k \in {"listcomp", "dictcomp"} ->   \* per item, in order: bind, condition (if any), then the element (key, then value)
         LET it == EvalE(e.iter, st, P) IN
         IF ~it.ok THEN it
         ELSE LET n == Len(it.st.env)
                  items == IterItems(it.v, P)
                  RECURSIVE Step(_, _, _)
                  Step(i, cur, acc) ==
                    IF i > Len(items) THEN R(TRUE, acc, "", cur)
                    ELSE LET inner == [cur EXCEPT !.env = Append(@, (e.var :> items[i]))]
                             c == IF e.cond = <<>> THEN R(TRUE, BoolV(TRUE), "", inner) ELSE EvalE(e.cond[1], inner, P) IN
                         IF ~c.ok THEN [c EXCEPT !.st = PopTo(c.st, n)]
                         ELSE IF ~c.v.bv THEN Step(i + 1, PopTo(c.st, n), acc)
                         ELSE IF e.k = "listcomp" THEN
                                LET x == EvalE(e.elem, c.st, P) IN
                                IF ~x.ok THEN [x EXCEPT !.st = PopTo(x.st, n)] ELSE Step(i + 1, PopTo(x.st, n), ListV(Append(acc.xs, x.v)))
                         ELSE LET kk == EvalE(e.key, c.st, P) IN
                              IF ~kk.ok THEN [kk EXCEPT !.st = PopTo(kk.st, n)]
                              ELSE LET vv == EvalE(e.val, kk.st, P) IN
                                   IF ~vv.ok THEN [vv EXCEPT !.st = PopTo(vv.st, n)] ELSE Step(i + 1, PopTo(vv.st, n), DictPut(acc, kk.v, vv.v)) IN
              Step(1, it.st, IF e.k = "listcomp" THEN ListV(<<>>) ELSE DictV(<<>>, <<>>))
    [] e.k = "fstr" ->        \* holes are evaluated left to right and spliced in as FmtV
         LET RECURSIVE Parts(_, _, _)
             Parts(i, cur, acc) ==
               IF i > Len(e.parts) THEN R(TRUE, StrV(acc), "", cur)
               ELSE IF e.parts[i].pk = "s" THEN Parts(i + 1, cur, acc \o e.parts[i].sv)
               ELSE LET x == EvalE(e.parts[i].e, cur, P) IN IF ~x.ok THEN x ELSE Parts(i + 1, x.st, acc \o FmtV(x.v)) IN
         Parts(1, st, <<>>)
    [] e.k = "range" ->       \* range(...) as a value (comprehension source)
         LET as == EvalArgs(e.args, st, P, <<>>) IN
         IF ~as.ok THEN as
         ELSE LET av == as.v.xs
                  a == IF Len(av) = 1 THEN 0 ELSE av[1].iv
                  b == IF Len(av) = 1 THEN av[1].iv ELSE av[2].iv
                  c == IF Len(av) = 3 THEN av[3].iv ELSE 1
                  r == Range(a, b, c) IN
              IF r.err # "" THEN R(FALSE, NoneVal, r.err, as.st) ELSE R(TRUE, ListV([i \in 1..Len(r.val) |-> IntV(r.val[i])]), "", as.st)
    [] e.k = "enumerate" -> LET a == EvalE(e.e, st, P) IN IF ~a.ok THEN a ELSE R(TRUE, ListV(EnumItems(IterItems(a.v, P))), "", a.st)
    [] e.k = "zip" ->         \* the arguments left to right, then the pairs
         LET a == EvalE(e.a, st, P) IN
         IF ~a.ok THEN a
         ELSE LET b == EvalE(e.b, a.st, P) IN
              IF ~b.ok THEN b ELSE R(TRUE, ListV(ZipItems(IterItems(a.v, P), IterItems(b.v, P))), "", b.st)
    [] e.k = "setlit" -> LET as == EvalArgs(e.items, st, P, <<>>) IN IF ~as.ok THEN as ELSE R(TRUE, SetV(Dedup(as.v.xs, <<>>)), "", as.st)
    [] OTHER -> R(FALSE, NoneVal, "UNSPECIFIED: unknown expression kind", st)

ErrSt(st, r) == IF r.err = "$EARLY-RETURN" THEN [r.st EXCEPT !.sig = "ret", !.ret = r.v]
                ELSE [r.st EXCEPT !.sig = "err", !.err = r.err]
ExecStmt(s, st, P) ==
  CASE s.k = "print" -> LET r == EvalE(s.e, st, P) IN
                        IF r.ok THEN [r.st EXCEPT !.out = Append(@, r.v)] ELSE ErrSt(st, r)
    [] s.k = "pass"  -> st
    [] s.k = "break" -> [st EXCEPT !.sig = "brk"]
    [] s.k = "continue" -> [st EXCEPT !.sig = "cont"]
    [] s.k = "return" -> IF s.e = <<>> THEN [st EXCEPT !.sig = "ret"]
                         ELSE LET r == EvalE(s.e[1], st, P) IN
                              IF r.ok THEN [r.st EXCEPT !.sig = "ret", !.ret = r.v] ELSE ErrSt(st, r)
    [] s.k = "expr" -> LET r == EvalE(s.e, st, P) IN IF r.ok THEN r.st ELSE ErrSt(st, r)
    [] s.k = "assign" ->
         LET r == EvalE(s.e, st, P) IN
         IF ~r.ok THEN ErrSt(st, r)
         ELSE LET env == r.st.env  n == Len(env)
                  isNew == s.bk \in {"let", "mut"} \/ ~(\E j \in 1..n : s.name \in DOMAIN env[j]) IN
              IF isNew THEN [r.st EXCEPT !.env[n] = (s.name :> r.v) @@ @]
              ELSE [r.st EXCEPT !.env[VLookupIdx(env, s.name)] = (s.name :> r.v) @@ @]
    [] s.k = "compound" ->
         LET r == EvalE([k |-> "bin", op |-> s.op, l |-> [k |-> "ident", name |-> s.name], r |-> s.e], st, P) IN
         IF ~r.ok THEN ErrSt(st, r)
         ELSE [r.st EXCEPT !.env[VLookupIdx(r.st.env, s.name)] = (s.name :> r.v) @@ @]
    [] s.k = "if" ->
         LET n == Len(st.env)
             c == EvalE(s.cond, st, P) IN
         IF ~c.ok THEN ErrSt(st, c)
         ELSE IF c.v.bv THEN PopTo(ExecBlock(s.then, [c.st EXCEPT !.env = Append(@, <<>>)], P), n)
         ELSE LET RECURSIVE Elifs(_, _)
                  Elifs(k, cur) ==
                    IF k > Len(s.elifs)
                      THEN (IF s.else = <<>> THEN cur ELSE PopTo(ExecBlock(s.else[1], [cur EXCEPT !.env = Append(@, <<>>)], P), n))
                    ELSE LET ck == EvalE(s.elifs[k].cond, cur, P) IN
                         IF ~ck.ok THEN ErrSt(cur, ck)
                         ELSE IF ck.v.bv THEN PopTo(ExecBlock(s.elifs[k].body, [ck.st EXCEPT !.env = Append(@, <<>>)], P), n)
                         ELSE Elifs(k + 1, ck.st) IN
              Elifs(1, c.st)
    [] s.k = "setidx" ->        \* xs[i] = e / d[k] = e on a variable: the value, then the index; the element is replaced / the key inserted
         \* (xs[i] <op>= e is xs[i] = xs[i] <op> e, as the parser desugars it)
         LET v == EvalE(IF s.op = "" THEN s.e
                        ELSE [k |-> "bin", op |-> s.op, l |-> [k |-> "index", obj |-> [k |-> "ident", name |-> s.name], idx |-> s.idx], r |-> s.e], st, P) IN
         IF ~v.ok THEN ErrSt(st, v)
         ELSE LET i == EvalE(s.idx, v.st, P) IN
              IF ~i.ok THEN ErrSt(st, i)
              ELSE LET cur == i.st.env[VLookupIdx(i.st.env, s.name)][s.name] IN
                   IF cur.t = "dict" THEN SetVar(i.st, s.name, DictPut(cur, i.v, v.v))
                   ELSE LET j == NormIndex(Len(cur.xs), i.v.iv) IN
                        IF j = -1 THEN [i.st EXCEPT !.sig = "err", !.err = ErrListIndex(i.v.iv, Len(cur.xs))]     \* the documented IndexError, as for reads
                        ELSE SetVar(i.st, s.name, ListV([cur.xs EXCEPT ![j + 1] = v.v]))
    [] s.k = "setfield" ->      \* path.f = e / path.f <op>= e : the right-hand side, then the store into the place
         LET v == EvalE(IF s.op = "" THEN s.e ELSE [k |-> "bin", op |-> s.op, l |-> s.target, r |-> s.e], st, P) IN
         IF ~v.ok THEN ErrSt(st, v) ELSE WritePath(v.st, s.target, v.v, P)
    [] s.k = "matchs" ->        \* statement-level match: the FIRST arm whose pattern matches and whose guard holds runs its block
         LET n == Len(st.env)
             s0 == EvalE(s.subj, st, P) IN
         IF ~s0.ok THEN ErrSt(st, s0)
         ELSE LET RECURSIVE SArms(_, _)
                  SArms(k, cur) ==
                    IF k > Len(s.arms) THEN [cur EXCEPT !.sig = "err", !.err = "UNSPECIFIED: no arm matched"]
                    ELSE LET m == MatchPat(s.arms[k].pat, s0.v) IN
                         IF ~m.ok THEN SArms(k + 1, cur)
                         ELSE LET inner == [cur EXCEPT !.env = Append(@, m.binds)] IN
                              IF s.arms[k].guard = <<>> THEN PopTo(ExecBlock(s.arms[k].body, inner, P), n)
                              ELSE LET g == EvalE(s.arms[k].guard[1], inner, P) IN
                                   IF ~g.ok THEN PopTo(ErrSt(inner, g), n)
                                   ELSE IF g.v.bv THEN PopTo(ExecBlock(s.arms[k].body, g.st, P), n)
                                   ELSE SArms(k + 1, PopTo(g.st, n)) IN
              SArms(1, s0.st)
    [] s.k = "while" -> ExecWhile(s, st, P)
    [] s.k = "for" ->
         LET it == s.iter IN
         IF it.k = "call" /\ it.f = "range" THEN
            LET as == EvalArgs(it.args, st, P, <<>>) IN
            IF ~as.ok THEN ErrSt(st, as)
            ELSE LET av == as.v.xs
                     a == IF Len(av) = 1 THEN 0 ELSE av[1].iv
                     b == IF Len(av) = 1 THEN av[1].iv ELSE av[2].iv
                     c == IF Len(av) = 3 THEN av[3].iv ELSE 1
                     r == Range(a, b, c) IN
                 IF r.err # "" THEN [as.st EXCEPT !.sig = "err", !.err = r.err]
                 ELSE ExecFor(s, [i \in 1..Len(r.val) |-> IntV(r.val[i])], as.st, P)
         ELSE LET r == EvalE(it, st, P) IN
              IF ~r.ok THEN ErrSt(st, r)
              ELSE ExecFor(s, IterItems(r.v, P), r.st, P)
    [] s.k = "forun" ->         \* for a, b in <pairs>: per item, both names are bound to the components
         LET r == EvalE(s.iter, st, P) IN
         IF ~r.ok THEN ErrSt(st, r) ELSE ExecFor(s, IterItems(r.v, P), r.st, P)
    [] s.k = "unpack" ->        \* a, b = e : the right-hand side once, then both bindings
         LET r == EvalE(s.e, st, P) IN
         IF ~r.ok THEN ErrSt(st, r)
         ELSE LET n == Len(r.st.env) IN [r.st EXCEPT !.env[n] = (s.names[1] :> r.v.xs[1]) @@ (s.names[2] :> r.v.xs[2]) @@ @]
    [] OTHER -> [st EXCEPT !.sig = "err", !.err = "UNSPECIFIED: unknown statement kind"]
ExecWhile(s, st, P) ==
  IF st.fuel = 0 THEN [st EXCEPT !.sig = "err", !.err = Fuel]
  ELSE LET n == Len(st.env)
           c == EvalE(s.cond, st, P) IN
       IF ~c.ok THEN ErrSt(st, c)
       ELSE IF ~c.v.bv THEN c.st
       ELSE LET back == PopTo(ExecBlock(s.body, [c.st EXCEPT !.env = Append(@, <<>>), !.fuel = @ - 1], P), n) IN
            IF back.sig = "brk" THEN [back EXCEPT !.sig = "n"]
            ELSE IF back.sig \in {"ret", "err"} THEN back
            ELSE ExecWhile(s, [back EXCEPT !.sig = "n"], P)
ExecFor(s, items, st, P) ==
  IF items = <<>> THEN st
  ELSE LET n == Len(st.env)
           frame == IF s.k = "forun" THEN (s.vars[1] :> items[1].xs[1]) @@ (s.vars[2] :> items[1].xs[2]) ELSE (s.var :> items[1])
           back == PopTo(ExecBlock(s.body, [st EXCEPT !.env = Append(@, frame)], P), n) IN
       IF back.sig = "brk" THEN [back EXCEPT !.sig = "n"]
       ELSE IF back.sig \in {"ret", "err"} THEN back
       ELSE ExecFor(s, Tail(items), [back EXCEPT !.sig = "n"], P)
ExecBlock(ss, st, P) ==
  IF ss = <<>> \/ st.sig # "n" THEN st
  ELSE ExecBlock(Tail(ss), ExecStmt(Head(ss), st, P), P)

\* consts are evaluated once, in declaration order, into the module environment
RECURSIVE ConstEnv(_, _, _)
ConstEnv(cs, env, P) ==
  IF cs = <<>> THEN [ok |-> TRUE, env |-> env, err |-> ""]
  ELSE LET st == [env |-> <<env>>, out |-> <<>>, sig |-> "n", err |-> "", ret |-> NoneVal, fuel |-> 0]
           r == EvalE(cs[1].e, st, [P EXCEPT !.cenv = env]) IN
       IF ~r.ok THEN [ok |-> FALSE, env |-> env, err |-> r.err]
       ELSE ConstEnv(Tail(cs), (cs[1].name :> r.v) @@ env, P)

Run(P0) ==
  LET P1 == [consts |-> P0.consts, fns |-> P0.fns, cenv |-> <<>>,
             types |-> IF "types" \in DOMAIN P0 THEN P0.types ELSE <<>>,
             traits |-> IF "traits" \in DOMAIN P0 THEN P0.traits ELSE <<>>,
             ord |-> IF "ord" \in DOMAIN P0 THEN P0.ord ELSE "fwd"]
      ce == ConstEnv(P1.consts, <<>>, P1) IN
  IF ~ce.ok THEN [out |-> <<>>, status |-> "consterr", err |-> ce.err]
  ELSE LET P == [P1 EXCEPT !.cenv = ce.env]
           m == FnOf(P, "main").d
           r == ExecBlock(m.body, [env |-> <<ce.env, <<>>>>, out |-> <<>>, sig |-> "n", err |-> "", ret |-> NoneVal, fuel |-> 60], P) IN
       [out |-> r.out, status |-> IF r.sig = "err" THEN "error" ELSE "done", err |-> r.err]
Unspecified == {Inexact, Fuel, "UNSPECIFIED: unknown expression kind", "UNSPECIFIED: unknown statement kind",
                "UNSPECIFIED: no arm matched", "UNSPECIFIED: min / max of an empty list", "UNSPECIFIED: split with an empty separator",
                "UNSPECIFIED: replace of the empty string", "UNSPECIFIED: pop from an empty list", "UNSPECIFIED: swap out of range",
                "UNSPECIFIED: list assignment index out of range"}
Specified(res) == ~(res.status \in {"error", "consterr"} /\ res.err \in Unspecified)
\* ================================================================ feature tags (known-finding signatures, DESIGN §7)
\* Computed by the specification from the case itself: operator x operand types, grouping
\* relations (a Paren child whose content binds less tightly than / as tightly as its parent), node kinds.
OpClass(op) == CASE op \in {"+", "-"} -> "add" [] op \in {"*", "/", "//", "%"} -> "mul" [] op = "**" -> "pow"
                 [] op \in CmpOps -> "cmp" [] op \in {"and", "or"} -> "bool" [] OTHER -> "in"
Inner(e) == IF e.k = "bin" THEN "bin-" \o OpClass(e.op) ELSE IF e.k = "un" THEN "un" \o (IF e.op = "not" THEN "not" ELSE "neg") ELSE e.k
RECURSIVE Feats(_, _, _)
RECURSIVE FeatsSeq(_, _, _)
FeatsSeq(es, sc, P) == IF es = <<>> THEN {} ELSE Feats(es[1], sc, P) \cup FeatsSeq(Tail(es), sc, P)
\* the operand that stands immediately before the operator of a binary expression
RECURSIVE RightmostLeaf(_)
RightmostLeaf(e) == IF e.k = "bin" THEN RightmostLeaf(e.r) ELSE IF e.k \in {"paren", "un"} THEN RightmostLeaf(e.e) ELSE e
Feats(e, sc, P) ==
  CASE e.k = "lit" -> {"lit:" \o e.lk}
    [] e.k = "ident" -> {"ident:" \o TypeOf(e, sc, P)}
    [] e.k = "paren" -> {"paren:" \o Inner(e.e)} \cup Feats(e.e, sc, P)
    [] e.k = "un" -> {"un:" \o e.op \o ":" \o TypeOf(e.e, sc, P)}
                     \cup (IF e.e.k = "paren" THEN {"grp:un-" \o e.op \o ":" \o Inner(e.e.e)} ELSE {})
                     \cup Feats(e.e, sc, P)
    [] e.k = "bin" -> {"bin:" \o e.op \o ":" \o TypeOf(e.l, sc, P) \o ":" \o TypeOf(e.r, sc, P),
                       "binshape:" \o e.op \o ":" \o Inner(e.l) \o ":" \o Inner(e.r)}
                      \cup (IF e.l.k = "ident" /\ e.l = e.r THEN {"bin-same-ident:" \o e.op \o ":" \o TypeOf(e.l, sc, P)} ELSE {})
                      \* `<` of float kind whose left operand ENDS in an int (promoted where it stands, immediately before the `<`)
                      \cup (IF e.op = "<" /\ e.l.k = "bin" /\ TypeOf(e.l, sc, P) = "float" /\ TypeOf(RightmostLeaf(e.l), sc, P) = "int"
                            THEN {"promoted-int-before-lt"} ELSE {})
                      \cup (IF e.l.k = "paren" THEN {"grp:" \o OpClass(e.op) \o ":L:" \o Inner(e.l.e)} ELSE {})
                      \cup (IF e.r.k = "paren" THEN {"grp:" \o OpClass(e.op) \o ":R:" \o Inner(e.r.e)} ELSE {})
                      \cup Feats(e.l, sc, P) \cup Feats(e.r, sc, P)
    [] e.k = "call" -> {"call:" \o e.f \o ":" \o (IF e.args = <<>> THEN "" ELSE TypeOf(e.args[1], sc, P))} \cup FeatsSeq(e.args, sc, P)
                       \* a builtin applied to an operator expression: the argument is a group (no parenthesis is written)
                       \cup (IF e.f \in {"abs"} /\ e.args # <<>> /\ e.args[1].k \in {"bin", "un"} THEN {"builtin-arg-group:" \o e.f} ELSE {})
    [] e.k = "index" -> {"index:" \o TypeOf(e.obj, sc, P)} \cup Feats(e.obj, sc, P) \cup Feats(e.idx, sc, P)
    [] e.k = "slice" -> {"slice:" \o TypeOf(e.obj, sc, P),
                         "slice-shape:" \o (IF e.start = <<>> THEN "_" ELSE "a") \o (IF e.end = <<>> THEN "_" ELSE "b")
                                       \o (IF e.step = <<>> THEN "_" ELSE "c")}
                        \cup Feats(e.obj, sc, P) \cup FeatsSeq(e.start \o e.end \o e.step, sc, P)
    [] e.k = "list" -> {"list"} \cup FeatsSeq(e.items, sc, P)
    [] OTHER -> {"other:" \o e.k}
\* statement-level tags; sc = static scope stack at the statement
RECURSIVE SFeats(_, _, _, _)
RECURSIVE BFeats(_, _, _, _)
BFeats(ss, sc, P, d) ==
  IF ss = <<>> THEN {}
  ELSE SFeats(ss[1], sc, P, d) \cup BFeats(Tail(ss), CheckStmt(ss[1], sc, [loop |-> TRUE, ret |-> "int"], P).sc, P, d)
Depth2(d) == IF d = 0 THEN "0" ELSE IF d = 1 THEN "1" ELSE "2+"
SFeats(s, sc, P, d) ==
  CASE s.k = "print" -> {"stmt:print:" \o TypeOf(s.e, sc, P)} \cup Feats(s.e, sc, P)
    [] s.k \in {"pass", "break", "continue"} -> {"stmt:" \o s.k}
    [] s.k = "return" -> {"stmt:return"} \cup FeatsSeq(s.e, sc, P)
    [] s.k = "expr" -> {"stmt:expr"} \cup Feats(s.e, sc, P)
    [] s.k = "assign" ->
         LET r == Lookup(sc, s.name) IN
         {"stmt:assign:" \o s.bk \o ":" \o TypeOf(s.e, sc, P) \o (IF s.ty = "" THEN "" ELSE ":annotated"),
          IF s.bk = "inferred" /\ r.found THEN "reassign:scope-distance-" \o Depth2(Len(sc) - r.i)
          ELSE IF r.found THEN "shadow:scope-distance-" \o Depth2(Len(sc) - r.i) ELSE "bind:new"}
         \cup Feats(s.e, sc, P)
    [] s.k = "compound" -> {"stmt:compound:" \o s.op \o ":" \o Lookup(sc, s.name).ty \o ":" \o TypeOf(s.e, sc, P),
                            "compound:scope-distance-" \o Depth2(Len(sc) - Lookup(sc, s.name).i)} \cup Feats(s.e, sc, P)
    [] s.k = "if" -> {"stmt:if", "if:elifs-" \o Depth2(Len(s.elifs)), "if:else-" \o Depth2(Len(s.else)), "nest:" \o Depth2(d)}
                     \cup Feats(s.cond, sc, P) \cup BFeats(s.then, Append(sc, EmptyScope), P, d + 1)
                     \cup UNION {Feats(s.elifs[i].cond, sc, P) \cup BFeats(s.elifs[i].body, Append(sc, EmptyScope), P, d + 1) : i \in 1..Len(s.elifs)}
                     \cup UNION {BFeats(s.else[i], Append(sc, EmptyScope), P, d + 1) : i \in 1..Len(s.else)}
    [] s.k = "while" -> {"stmt:while", "nest:" \o Depth2(d)} \cup Feats(s.cond, sc, P) \cup BFeats(s.body, Append(sc, EmptyScope), P, d + 1)
    [] s.k = "for" -> {"stmt:for:" \o (IF s.iter.k = "call" /\ s.iter.f = "range" THEN "range" ELSE TypeOf(s.iter, sc, P)), "nest:" \o Depth2(d)}
                      \cup Feats(s.iter, sc, P)
                      \cup BFeats(s.body, Bind(Append(sc, EmptyScope), s.var,
                                   IF s.iter.k = "call" /\ s.iter.f = "range" THEN "int"
                                   ELSE IF TypeOf(s.iter, sc, P) = "str" THEN "str" ELSE ElemTy(TypeOf(s.iter, sc, P)), FALSE), P, d + 1)
    [] OTHER -> {"stmt:other"}
=============================================================================
