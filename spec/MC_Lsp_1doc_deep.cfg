CONSTANTS Docs = {"d1"}
          MaxVer = 4
          Classes = {"ok","bad"}
          DepDocs = {"d1"}
          AllowClose = TRUE
          Guarded = TRUE
          MaxConc = 4
          MaxMsgs = 5
SPECIFICATION MCSpec
VIEW View
INVARIANTS Converged DiagFromSameVersion LatestDiagFromLatestText LockSane
PROPERTIES NoStaleOverwrite
CHECK_DEADLOCK TRUE
