CONSTANT Orders <- Perms3
SPECIFICATION Spec
INVARIANTS RewrittenIffMust Emit
CHECK_DEADLOCK FALSE
