------------------------------- MODULE Format -------------------------------
(* The formatter CONTRACT (C08 / C09) and the `incan fmt` mode machine.

   Contract on one formatter run, over abstract observations of the real run:
     parse2      the output parses
     astEqual    Parse(Fmt(s)) = Parse(s) modulo spans and the documented spelling equivalences
     idempotent  Fmt(Fmt(s)) = Fmt(s)
     lines       the output as a sequence of [tab, trail, instr]: does the line contain a tab /
                 end in whitespace, and does it lie inside a string or docstring token
     finalNl     number of newline characters at the end of the output
   Canonical (C09): exactly one final newline; outside string and docstring contents no tab and no
   trailing whitespace - nothing more (the property lists nothing more).

   Mode machine (src/cli/commands.rs format_files): a file is `dirty` (fmt would change it) or
   `clean`; `fmt` rewrites a dirty file; `--check` and `--diff` are read-only (the exit status of `--diff` is left open); `--check` exits 0 iff
   clean. After `fmt`, `--check` exits 0. *)
EXTENDS Integers, Sequences

Canonical(lines, finalNl) ==
  /\ finalNl = 1
  /\ \A i \in 1..Len(lines) : lines[i].instr \/ (~lines[i].tab /\ ~lines[i].trail)

RunOK(r) == r.parse2 /\ r.astEqual                       \* C08
RunStable(r) == r.idempotent /\ Canonical(r.lines, r.finalNl)   \* C09

\* ---------------------------------------------------------------- mode machine
VARIABLES file,      \* "dirty" | "clean"
          writes,    \* number of times the file was written
          lastExit
mvars == <<file, writes, lastExit>>
MInit == file \in {"dirty", "clean"} /\ writes = 0 /\ lastExit = 0
Fmt == /\ file' = "clean" /\ writes' = (IF file = "dirty" THEN writes + 1 ELSE writes) /\ lastExit' = 0
Check == /\ UNCHANGED <<file, writes>> /\ lastExit' = (IF file = "clean" THEN 0 ELSE 1)
Diff == /\ UNCHANGED <<file, writes>> /\ lastExit' \in {0, 1}     \* the exit status of --diff is not fixed by the documentation
\* both read-only flags together are still read-only; the verdict is --check's
CheckDiff == Check
MNext == Fmt \/ Check \/ Diff \/ CheckDiff
MSpec == MInit /\ [][MNext]_mvars
\* ---- the same modes on a DIRECTORY (format_files walks every .incn file below the path): the product machine.
\* dstate: a function file -> "dirty" | "clean". `fmt DIR` rewrites exactly the dirty files; `--check DIR` is read-only and
\* exits 0 iff every file is clean (one dirty file anywhere in the walk is enough for 1).
DirCheckExit(dstate) == IF \E f \in DOMAIN dstate : dstate[f] = "dirty" THEN 1 ELSE 0
DirAfterFmt(dstate) == [f \in DOMAIN dstate |-> "clean"]
DirWritten(dstate) == {f \in DOMAIN dstate : dstate[f] = "dirty"}
ReadOnlyModes == [][(Check \/ Diff \/ CheckDiff) => (file' = file /\ writes' = writes)]_mvars
CheckAfterFmt == [][Fmt => (file' = "clean")]_mvars
=============================================================================
