-------------------------------- MODULE GenNum --------------------------------
(* C07 generator: the numeric-result-type table (numeric_semantics.md) walked exhaustively:
   operator x operand kinds x exponent kinds, nested to Depth, in every binding position.
   TypeOf / ResultKind / ExpKind are Core's (the single statement of the policy in the spec). *)
EXTENDS Core, Json

EInt(n)     == [k |-> "lit", lk |-> "int", iv |-> n]
EFloat(n,d) == [k |-> "lit", lk |-> "float", fn |-> n, fd |-> d]
EId(x)      == [k |-> "ident", name |-> x]
EPar(e)     == [k |-> "paren", e |-> e]
EUn(o, e)   == [k |-> "un", op |-> o, e |-> e]
EBin(o,l,r) == [k |-> "bin", op |-> o, l |-> l, r |-> r]

\* the typing environment of every case: a, n : int   u : float  (function parameters in the rendered program)
Scope == << (("a" :> [ty |-> "int", mut |-> FALSE]) @@ ("n" :> [ty |-> "int", mut |-> FALSE]) @@ ("u" :> [ty |-> "float", mut |-> FALSE])) >>
NoProg == [consts |-> <<>>, fns |-> <<>>]
Ty(e) == TypeOf(e, Scope, NoProg)

IntLeaves == {EId("a"), EInt(2)}
FloatLeaves == {EId("u"), EFloat(3, 1)}
Leaves == IntLeaves \cup FloatLeaves
\* exponent forms: non-negative literal, negated literal, parenthesised literal, int variable, float
\* ... and a literal under unary minus AND parentheses: `-(1)`, `-(-2)` are expressions, not literals (result float)
Exps == {EInt(2), EInt(0), EUn("-", EInt(1)), EPar(EInt(2)), EId("n"), EFloat(3, 1), EId("u"),
         EUn("-", EPar(EInt(1))), EUn("-", EPar(EUn("-", EInt(2))))}
Ops == ArithOps \cup CmpOps
Prec(op) == CASE op \in CmpOps -> 40 [] op \in {"+", "-"} -> 50 [] op \in {"*", "/", "//", "%"} -> 60 [] op = "**" -> 70
PrecOf(e) == IF e.k = "bin" THEN Prec(e.op) ELSE IF e.k = "un" THEN 65 ELSE 100
WrapL(op, e) == IF PrecOf(e) < Prec(op) \/ (PrecOf(e) = Prec(op) /\ op = "**") THEN EPar(e) ELSE e
WrapR(op, e) == IF PrecOf(e) < Prec(op) \/ (PrecOf(e) = Prec(op) /\ op # "**") THEN EPar(e) ELSE e

D1 == {EBin(o, l, r) : o \in Ops \ {"**"}, l \in Leaves, r \in Leaves} \cup {EBin("**", l, x) : l \in Leaves, x \in Exps}
\* compound positions: the target is a variable, a list element or a field (each target form is desugared by its own code)
Positions == {"let-int", "let-float", "let-bool", "return-int", "return-float", "arg-int", "arg-float",
              "compound-int", "compound-float", "compound-elem-int", "compound-elem-float", "compound-field-int", "compound-field-float",
              "const-int", "const-float",
              \* constfwd: the const is referenced by a const declared BEFORE it (so it is evaluated on demand, out of file order)
              "constfwd-int", "constfwd-float"}
CompoundPos == {"compound-int", "compound-float", "compound-elem-int", "compound-elem-float", "compound-field-int", "compound-field-float"}
CONSTANT Depth
\* cop: the operator of the compound assignment `m <cop>= e` (compound positions; "+" elsewhere)
CompoundOps == {"+", "-", "*", "/", "//", "%"}
VARIABLES e, dep, pos, cop
Init == pos \in Positions /\ dep = 1
        /\ e \in (IF pos \in CompoundPos THEN D1 \cup Leaves ELSE D1)      \* `m /= 2` as well as `m -= a - u`
        /\ cop \in (IF pos \in CompoundPos THEN CompoundOps ELSE {"+"})
Next == /\ dep < Depth /\ dep' = dep + 1 /\ UNCHANGED <<pos, cop>>
        /\ \/ \E o \in Ops \ {"**"}, l \in Leaves : e' = EBin(o, WrapL(o, e), WrapR(o, l)) \/ e' = EBin(o, WrapL(o, l), WrapR(o, e))
           \/ \E x \in {EInt(2), EId("n")} : e' = EBin("**", WrapL("**", e), x)
        /\ Ty(e') # "err"

Declared == CASE pos \in {"let-int", "return-int", "arg-int", "compound-int", "compound-elem-int", "compound-field-int", "const-int", "constfwd-int"} -> "int"
              [] pos \in {"let-float", "return-float", "arg-float", "compound-float", "compound-elem-float", "compound-field-float", "const-float", "constfwd-float"} -> "float"
              [] OTHER -> "bool"
\* compound position: `m <cop>= e` with m of the declared kind is `m = m <cop> e`: the result kind of the table must be
\* the kind of m (so `m /= e` is rejected for every int m); all other positions: declared type must equal the expression's
AcceptBinding ==
  IF pos \in CompoundPos
    THEN Ty(e) \in {"int", "float"} /\ ResultKind(cop, Declared, Ty(e), "var") = Declared
  ELSE Ty(e) = Declared
RECURSIVE UsesVar(_)
UsesVar(x) == CASE x.k = "ident" -> TRUE [] x.k = "lit" -> FALSE [] x.k \in {"paren", "un"} -> UsesVar(x.e)
                [] x.k = "bin" -> UsesVar(x.l) \/ UsesVar(x.r) [] OTHER -> TRUE
\* const positions only take literal-only expressions without parentheses
RECURSIVE HasParen(_)
HasParen(x) == CASE x.k = "paren" -> TRUE [] x.k = "un" -> HasParen(x.e) [] x.k = "bin" -> HasParen(x.l) \/ HasParen(x.r) [] OTHER -> FALSE
PosOK == (pos \in {"const-int", "const-float", "constfwd-int", "constfwd-float"}) => (~UsesVar(e) /\ ~HasParen(e))
Root == IF e.k = "bin" THEN [op |-> e.op, l |-> Ty(e.l), r |-> Ty(e.r), ek |-> IF e.op = "**" THEN ExpKind(e.r, Ty(e.r)) ELSE "none"]
        ELSE [op |-> "", l |-> "", r |-> "", ek |-> "none"]
\* value of e for a = 7, n = 2, u = 2.5 (absent when outside the exact model, e.g. float powers)
SLet(x, ex) == [k |-> "assign", bk |-> "let", name |-> x, ty |-> "", e |-> ex]
MInit == IF Declared = "int" THEN EInt(1) ELSE EFloat(3, 1)          \* m: int = 1  /  m: float = 1.5
ValProg == [consts |-> <<>>, fns |-> << [name |-> "main", params |-> <<>>, ret |-> "none",
              body |-> << SLet("a", EInt(7)), SLet("n", EInt(2)), SLet("u", EFloat(5, 1)) >> \o
                       (IF pos \in CompoundPos /\ AcceptBinding
                          THEN << [k |-> "assign", bk |-> "mut", name |-> "m", ty |-> "", e |-> MInit],
                                  [k |-> "compound", name |-> "m", op |-> cop, e |-> e], [k |-> "print", e |-> EId("m")] >>
                        ELSE << [k |-> "print", e |-> e] >>)] >>]
CaseVal == LET r == Run(ValProg) IN IF r.status = "done" THEN <<r.out[1]>> ELSE <<>>
ValErr == LET r == Run(ValProg) IN IF r.status = "error" /\ Specified(r) THEN r.err ELSE ""
\* `m <cop>= l <op> r` means m <cop> (l <op> r): the right-hand side is a group although no parenthesis is written
CompoundNeedsGrouping == pos \in CompoundPos /\ e.k = "bin" /\ Prec(e.op) <= Prec(cop)
ParenExp == e.k = "bin" /\ e.op = "**" /\ e.r.k = "paren"
Emit == (Ty(e) # "err" /\ PosOK) =>
          PrintT(<<"CASE", ToJson([e |-> e, ty |-> Ty(e), pos |-> pos, declared |-> Declared, accept |-> AcceptBinding, cop |-> cop, cgroup |-> CompoundNeedsGrouping,
                                   root |-> Root, feats |-> Feats(e, Scope, NoProg), val |-> CaseVal, verr |-> ValErr,
                                   parenexp |-> ParenExp])>>)
=============================================================================
