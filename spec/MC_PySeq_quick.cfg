CONSTANTS MaxN = 3
          W = 5
          RW = 5
INIT Init
NEXT Next
INVARIANTS SliceOK ImplEqualsDef SaturationOK ZeroStep IndexOK RangeOK Emit
CHECK_DEADLOCK FALSE
