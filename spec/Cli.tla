--------------------------------- MODULE Cli ---------------------------------
(* The command-line contract of the front-end modes (src/main.rs / src/cli): what the user of `incan` observes for a
   file, as a function of what the library decides about it.
     pipeline facts of a file:  parses, accepted (type-checks), emits (code generation succeeds)
     modes:  --parse   exit 0 iff parses
             --check   exit 0 iff parses /\ accepted                       (C03: an ill-typed program is never accepted;
                                                                            C02's antecedent is THIS verdict)
             --emit-rust  exit 0 iff parses /\ accepted /\ emits
   In every mode: the exit status is 0 or 1 (never a panic / abort / signal status, C11), a failing run prints at least
   one diagnostic on stderr and nothing on stdout, a successful run prints its result on stdout and no diagnostic. *)
EXTENDS Integers, TLC
Modes == {"parse", "check", "emit"}
Succeeds(mode, f) == CASE mode = "parse" -> f.parses
                       [] mode = "check" -> f.parses /\ f.accepted
                       [] mode = "emit" -> f.parses /\ f.accepted /\ f.emits
Facts == {f \in [parses : BOOLEAN, accepted : BOOLEAN, emits : BOOLEAN] : (f.accepted => f.parses) /\ (f.emits => f.accepted)}
\* an observed invocation
ObsOK(mode, f, o) ==
  /\ o.exit = (IF Succeeds(mode, f) THEN 0 ELSE 1)
  /\ (o.exit = 0 => o.stdout /\ ~o.diag)
  /\ (o.exit = 1 => o.diag /\ ~o.stdout)
\* the modes are monotone: what --emit-rust accepts --check accepts, what --check accepts --parse accepts
Monotone == \A f \in Facts : (Succeeds("emit", f) => Succeeds("check", f)) /\ (Succeeds("check", f) => Succeeds("parse", f))
ASSUME Monotone
=============================================================================
