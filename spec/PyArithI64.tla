----------------------------- MODULE PyArithI64 -----------------------------
(* 64-bit obligations of the integer kernels (Apalache only: TLC cannot hold i64 literals).
   Used by MC_PyArithI64 (all admissible pairs) and KernelTrace (recorded calls). *)
EXTENDS PyArith

I64Min == -9223372036854775808
I64Max == 9223372036854775807
\* @type: Int => Bool;
InI64(x) == I64Min <= x /\ x <= I64Max

\* every intermediate value of the kernels stays inside i64 (no overflow panic / wrap)
\* @type: (Int, Int) => Bool;
NoOverflow(a, b) ==
  LET q == TruncDiv(a, b)  r == TruncRem(a, b) IN
  /\ InI64(q) /\ InI64(r)
  /\ InI64(ImplMod(a, b)) /\ InI64(CoreFloorDiv(a, b)) /\ InI64(StdFloorDiv(a, b))
  \* `q - 1` and `r + b` are only computed on the correction branch
  /\ (((r > 0 /\ b < 0) \/ (r < 0 /\ b > 0)) => (InI64(r + b) /\ InI64(q - 1)))

\* the operand pairs C04 quantifies over
\* @type: (Int, Int) => Bool;
Admissible(a, b) == InI64(a) /\ InI64(b) /\ b # 0 /\ ~(a = I64Min /\ b = -1)


=============================================================================
