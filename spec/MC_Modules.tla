----------------------------- MODULE MC_Modules -----------------------------
(* TLC: the bounded universe of C14 resolution, spelling and visibility cases. Every initial state
   is one case; the invariants check the lemmas of Modules on it and `Emit` prints it as a CASE
   line: the layout to materialise, the importing file, the import, what each transcription
   answers, what the documentation fixes, and the signature of every disagreement.

   Layout universe (mode "resolve"): the project lives below R = w0/w1 (two pad directories so
   that `..`/`super` never leaves the materialised tree). The entry is R/e1/e2/main.incn (or
   R/src/e2/main.incn when the root marker is a src/ directory); root markers: none, Cargo.toml
   in R, Cargo.toml in R/e1, src/, Cargo.toml + src/, Cargo.toml beside a nested importer. The import under test sits in the entry
   ("direct") or in a module the entry imports: h/f.incn below the entry ("down") or ../g.incn
   above it ("up") - there the CLI resolves relative to the entry, the LSP relative to the
   importer. Import: `import` / `from`, 1..3 segments p, q, r, parent levels 0..2 or `crate`.
   Candidate files: for each base directory a resolver may use, for the all-segments path and the
   drop-last path, the five shapes .incn .incan mod.incn mod.incan __init__.incn; every subset
   of at most MaxDirect (direct) / MaxNested (nested) candidates is a layout. *)
EXTENDS Modules, Json, FiniteSetsExt, SequencesExt
CONSTANTS MaxDirect, MaxNested, Modes
VARIABLES mode, c

R == <<"w0", "w1">>
Names == <<"p", "q", "r">>
Markers == {"none", "cargo", "cargomid", "src", "both", "cargohop"}
EntryDirOf(marker) == IF marker \in {"src", "both"} THEN R \o <<"src", "e2">> ELSE R \o <<"e1", "e2">>
MarkerFiles(marker) == CASE marker = "cargo" -> {Append(R, "Cargo.toml")}
                         [] marker = "cargomid" -> {R \o <<"e1", "Cargo.toml">>}
                         [] marker = "both" -> {Append(R, "Cargo.toml")}
                         [] marker = "cargohop" -> {EntryDirOf(marker) \o <<"h", "Cargo.toml">>}   \* beside the importer
                         [] OTHER -> {}
ImporterOf(marker, hop) == CASE hop = "direct" -> Append(EntryDirOf(marker), "main.incn")
                             [] hop = "down" -> EntryDirOf(marker) \o <<"h", "f.incn">>
                             [] hop = "up" -> Append(Parent(EntryDirOf(marker)), "g.incn")
HopImport(hop) == IF hop = "down" THEN [kind |-> "from", levels |-> 0, abs |-> FALSE, segs |-> <<"h", "f">>]
                  ELSE [kind |-> "from", levels |-> 1, abs |-> FALSE, segs |-> <<"g">>]

\* ---- rendering of an import (the concrete spelling is a parameter of the case)
RECURSIVE JoinStr(_, _)
JoinStr(s, sep) == IF s = <<>> THEN "" ELSE IF Len(s) = 1 THEN s[1] ELSE s[1] \o sep \o JoinStr(Tail(s), sep)
RECURSIVE Rep(_, _)
Rep(str, n) == IF n = 0 THEN "" ELSE str \o Rep(str, n - 1)
\* style: [sep "::" | ".", up "super" | "dots"]; dots: `..` = parent, `...` = grandparent (documented)
Prefix(imp, st) == IF imp.abs THEN "crate" \o st.sep
                   ELSE IF st.up = "super" THEN Rep("super" \o st.sep, imp.levels)
                   ELSE IF imp.levels = 0 THEN "" ELSE Rep(".", imp.levels + 1)
Render(imp, st, item, alias) ==
  IF imp.kind = "from"
  THEN "from " \o Prefix(imp, st) \o JoinStr(imp.segs, st.sep) \o " import " \o item
       \o (IF alias = "" THEN "" ELSE " as " \o alias)
  ELSE "import " \o Prefix(imp, st) \o JoinStr(imp.segs, st.sep) \o (IF alias = "" THEN "" ELSE " as " \o alias)
Canon(imp) == Render(imp, [sep |-> IF imp.kind = "from" THEN "." ELSE "::",
                           up |-> IF imp.kind = "from" /\ imp.levels = 1 THEN "dots" ELSE "super"], "helper", "")

\* ---- the universe
Navs == {[levels |-> 0, abs |-> FALSE], [levels |-> 1, abs |-> FALSE], [levels |-> 2, abs |-> FALSE],
         [levels |-> 0, abs |-> TRUE]}
ImportsUT == {[kind |-> k, levels |-> nv.levels, abs |-> nv.abs, segs |-> SubSeq(Names, 1, n)] :
              k \in {"mod", "from"}, nv \in Navs, n \in 1..3}
BaseFiles(marker, hop) == MarkerFiles(marker) \cup {Append(EntryDirOf(marker), "main.incn"), ImporterOf(marker, hop)}
ModulePaths(F0, marker, hop, imp) ==
  LET te == TargetDir(F0, EntryDirOf(marker), imp)
      ti == TargetDir(F0, DirOf(ImporterOf(marker, hop)), imp)
      ts == {t \in {te, ti} : t # <<>>}            \* <<>> is outside the materialised project
      tails == IF imp.kind = "mod" /\ Len(imp.segs) > 1 THEN {imp.segs, DropLast(imp.segs)} ELSE {imp.segs} IN
  {t \o tl : t \in ts, tl \in tails}
CandSet(F0, marker, hop, imp) ==
  {CandFile(P, Cands[i]) : P \in ModulePaths(F0, marker, hop, imp), i \in 1..Len(Cands)}
UpTo(S, k) == IF k >= Cardinality(S) THEN SUBSET S ELSE UNION {kSubset(j, S) : j \in 0..k}

\* visibility universe
KindUses == {<<"const", "lax">>, <<"const", "typed">>, <<"def", "call">>, <<"model", "ctor">>, <<"model", "type">>,
             <<"class", "ctor">>, <<"class", "type">>, <<"newtype", "ctor">>, <<"newtype", "type">>,
             <<"enum", "variant">>, <<"trait", "with">>,
             \* "variant": the importer names a VARIANT of the module's enum (`from m import Red`); `pub` is the enum's marker -
             \* a variant is exported exactly when its enum is
             <<"variant", "lax">>}
Refs == {"from", "from_alias", "item", "item_alias", "none", "qualified"}
DeclName(kind) == CASE kind = "const" -> "LIMIT" [] kind = "def" -> "helper" [] kind = "model" -> "Thing"
                    [] kind = "class" -> "Box" [] kind = "newtype" -> "UserId" [] kind = "enum" -> "Color"
                    [] kind = "trait" -> "Named" [] kind = "variant" -> "Red"
\* route: how the importer reaches the module - "same" directory, through its parent (`..m` / `super::m`, the entry
\* lives in a sub-directory), or from the crate root (`crate.m`, the entry lives under src/sub/ and the module in src/)
Routes == {"same", "up", "crate"}
RLevels(route) == IF route = "up" THEN 1 ELSE 0
VisImport(ref, msegs, name, route) ==
  CASE ref \in {"from", "from_alias"} -> [kind |-> "from", levels |-> RLevels(route), abs |-> route = "crate", segs |-> msegs]
    [] ref \in {"item", "item_alias"} -> [kind |-> "mod", levels |-> RLevels(route), abs |-> route = "crate", segs |-> Append(msegs, name)]
    [] ref = "none" -> [kind |-> "from", levels |-> RLevels(route), abs |-> route = "crate", segs |-> msegs]      \* `from M import other`
    [] ref = "qualified" -> [kind |-> "mod", levels |-> RLevels(route), abs |-> route = "crate", segs |-> msegs]

\* spelling universe
Styles == {[sep |-> s, up |-> u] : s \in {"::", "."}, u \in {"super", "dots"}}

\* One root state per mode; its successors are the case groups (context x import), theirs the cases
\* (one per candidate subset), so that TLC's workers evaluate the cases in parallel.
Init ==
  /\ mode \in Modes /\ c = [stage |-> "root"]
  \* the machine variables of Modules are not used here
  /\ files = {} /\ imports = <<>> /\ entry = <<>> /\ m = "none" /\ stack = <<>> /\ seen = {} /\ loading = {}
  /\ visited = <<>> /\ status = "done" /\ diag = FALSE
Next ==
  /\ UNCHANGED <<vars, mode>>
  /\ \/ /\ mode = "resolve" /\ c.stage = "root"
        /\ \E mk \in Markers, hp \in {"direct", "down", "up"}, im \in ImportsUT :
             /\ (mk # "none" => im.abs)                       \* markers only matter to `crate`
             /\ (mk \in {"src", "both"} => hp # "up")
             /\ (mk = "cargohop" => hp = "down")
             /\ c' = [stage |-> "group", marker |-> mk, hop |-> hp, imp |-> im]
     \/ /\ mode = "resolve" /\ c.stage = "group"
        /\ LET CS == CandSet(BaseFiles(c.marker, c.hop), c.marker, c.hop, c.imp) IN
           \E ps \in UpTo(CS, IF c.hop = "direct" THEN MaxDirect ELSE MaxNested) :
             c' = [stage |-> "case", marker |-> c.marker, hop |-> c.hop, imp |-> c.imp, pres |-> ps]
     \/ /\ mode = "spell" /\ c.stage = "root"
        /\ \E im \in ImportsUT, st \in Styles, al \in {"", "Al"} :
             c' = [stage |-> "case", imp |-> im, style |-> st, alias |-> al]
     \/ /\ mode = "vis" /\ c.stage = "root"
        /\ \E ku \in KindUses, pb \in BOOLEAN, rf \in Refs, ms \in {<<"m">>, <<"p", "q">>}, rt \in Routes :
             /\ (rf = "qualified" => ku[2] \in {"call", "ctor"})     \* the docs promise no `M.const` / `M.Enum.V`
             /\ c' = [stage |-> "case", kind |-> ku[1], use |-> ku[2], pub |-> pb, ref |-> rf, msegs |-> ms, route |-> rt]
IsCase(md) == mode = md /\ c.stage = "case"

\* ---- a resolve case, unfolded
EntryF == Append(EntryDirOf(c.marker), "main.incn")
ImporterF == ImporterOf(c.marker, c.hop)
FilesOf == BaseFiles(c.marker, c.hop) \cup c.pres
AnsCli == CliAns(FilesOf, EntryF, ImporterF, c.imp)
AnsLib == LibAns(FilesOf, EntryF, ImporterF, c.imp)
AnsLsp == LspAns(FilesOf, EntryF, ImporterF, c.imp)
AnsCol == ColAns(FilesOf, EntryF, ImporterF, c.imp)
DocAns == Resolve(FilesOf, ImporterF, c.imp)
G(o) == Gen(FilesOf, DirOf(EntryF), DirOf(ImporterF), c.imp, o)
Cz(x, y) == Cause(FilesOf, EntryF, ImporterF, c.imp, x, y)
Pair(name, x, y) == LET cz == Cz(x, y) IN IF cz = "agree" THEN {} ELSE {"resolve:" \o name \o ":" \o cz}
Sigs == Pair("cli!=lsp", CliOpts, LspOpts) \cup Pair("cli!=lib", CliOpts, LibOpts) \cup Pair("lib!=lsp", LibOpts, LspOpts)
        \cup (IF DocAns.fixed /\ ~Skipped(c.imp)
              THEN Pair("cli!=doc", CliOpts, DocOpts(c.imp, 0)) \cup Pair("lsp!=doc", LspOpts, DocOpts(c.imp, 0))
                   \cup Pair("lib!=doc", LibOpts, DocOpts(c.imp, 0))
              ELSE {})

\* lemmas (TLC checks them on every case)
GenIsCli == IsCase("resolve") => G(CliOpts) = AnsCli
GenIsLib == IsCase("resolve") => G(LibOpts) = AnsLib
GenIsLsp == IsCase("resolve") => G(LspOpts) = AnsLsp
GenIsCol == IsCase("resolve") => G(ColOpts) = AnsCol
DocIsGen == (IsCase("resolve") /\ DocAns.fixed) => G(DocOpts(c.imp, 0)) = DocAns.file
AnswersExist == IsCase("resolve") => \A a \in {AnsCli, AnsLib, AnsLsp, AnsCol} : a = NoFile \/ a \in FilesOf
\* a case without a signature is a case in which everybody agrees (and agrees with the documentation)
SigSound == IsCase("resolve") =>
   (Sigs = {} <=> (AnsCli = AnsLsp /\ AnsLib = AnsLsp /\ (DocAns.fixed => DocAns.file = AnsCli)))
\* direct imports of `from`/one-segment form with only .incn/.incan files: CLI and LSP agree (the agreeing core)
AgreeCore == (IsCase("resolve") /\ c.hop = "direct" /\ (c.imp.kind = "from" \/ Len(c.imp.segs) = 1)
              /\ \A f \in c.pres : f[Len(f)] \notin {"mod.incn", "mod.incan", "__init__.incn"}) => AnsCli = AnsLsp

\* ---- a visibility case, unfolded
VName == DeclName(c.kind)
VMainDir == CASE c.route = "same" -> R [] c.route = "up" -> Append(R, "app") [] c.route = "crate" -> R \o <<"src", "sub">>
VModBase == IF c.route = "crate" THEN Append(R, "src") ELSE R
VModFile == WithExt(VModBase \o c.msegs, "incn")
VMain == Append(VMainDir, "main.incn")
VImp == VisImport(c.ref, c.msegs, VName, c.route)
VFiles == {VMain, VModFile}
VCliLoaded == CliResolve(VFiles, VMainDir, VImp) = VModFile
VLspLoaded == SharedResolve(VFiles, VMainDir, VImp) = VModFile
\* validate_import_visibility looks the module up under segs.join("_"); the CLI names a dependency
\* module_segments.join("_"), the LSP names it by the file stem
VCliKeyed == TRUE
VLspKeyed == TRUE     \* (fix 631bef4: the LSP names dependencies like the CLI; was Len(c.msegs) = 1)
VCli == CheckerVerdict(c.kind, c.pub, c.ref, c.use, VCliLoaded, VCliKeyed)
VLsp == CheckerVerdict(c.kind, c.pub, c.ref, c.use, VLspLoaded, VLspKeyed)
\* the only way a private item is refused is the `from` check; demanded = transcribed exactly there
VisCore == (IsCase("vis") /\ c.ref \in {"from", "from_alias"} /\ ~c.pub) => VCli = "reject"
PubFromUsable == (IsCase("vis") /\ c.ref = "from" /\ c.pub /\ c.kind # "const") => (VCli = "accept" /\ VLsp = "accept")

PathSeq(S) == SetToSeq(S)
FileRec(f) == [path |-> f,
               imps |-> IF f = ImporterF THEN <<Canon(c.imp)>>
                        ELSE IF f = EntryF THEN <<Canon(HopImport(c.hop))>> ELSE <<>>]
Emit ==
  CASE c.stage # "case" -> TRUE
    [] mode = "resolve" ->
         PrintT(<<"CASE", ToJson([mode |-> "resolve", marker |-> c.marker, hop |-> c.hop, imp |-> c.imp,
                                  text |-> Canon(c.imp), entry |-> EntryF, importer |-> ImporterF,
                                  files |-> [i \in 1..Cardinality(FilesOf) |-> FileRec(PathSeq(FilesOf)[i])],
                                  pres |-> PathSeq(c.pres),
                                  cli |-> AnsCli, lib |-> AnsLib, lsp |-> AnsLsp, col |-> AnsCol,
                                  docfixed |-> DocAns.fixed, doc |-> DocAns.file,
                                  sigs |-> PathSeq(Sigs)])>>)
    [] mode = "spell" ->
         PrintT(<<"CASE", ToJson([mode |-> "spell", imp |-> c.imp, sep |-> c.style.sep, up |-> c.style.up, alias |-> c.alias,
                                  text |-> Render(c.imp, c.style, "Item", c.alias)])>>)
    [] mode = "vis" ->
         PrintT(<<"CASE", ToJson([mode |-> "vis", kind |-> c.kind, use |-> c.use, pub |-> c.pub, ref |-> c.ref,
                                  msegs |-> c.msegs, route |-> c.route, name |-> VName, main |-> VMain, modfile |-> VModFile,
                                  demanded |-> Demanded(c.pub), cli |-> VCli, lsp |-> VLsp,
                                  cli_loaded |-> VCliLoaded, lsp_loaded |-> VLspLoaded])>>)
=============================================================================
