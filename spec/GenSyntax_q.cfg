CONSTANTS Depth = 1
          Profiles = {"min", "one", "need"}
          FreeAnc = FALSE
          RootKinds = {"decl", "stmt", "expr", "type", "pat", "member"}
INIT Init
NEXT Next
INVARIANTS WellFormed Emit
CHECK_DEADLOCK FALSE
