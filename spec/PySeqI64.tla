------------------------------ MODULE PySeqI64 ------------------------------
(* 64-bit obligations of the sequence kernels (Apalache only).
   The real loops advance an i64 cursor with `saturating_add`:
     PyRange::next          cur = cur.saturating_add(step)
     str_slice / list_slice i   = i.saturating_add(step)
   The step lemma: for ALL i64 cursor/end/step, after emitting the current element the
   saturated cursor continues exactly when the unbounded (Python) cursor continues, and
   then equals it. By induction the real iteration is Python's, for every argument. *)
EXTENDS Integers

I64Min == -9223372036854775808
I64Max == 9223372036854775807
\* @type: Int => Bool;
InI64(x) == I64Min <= x /\ x <= I64Max
\* @type: (Int, Int) => Int;
SatAdd(x, y) == IF x + y > I64Max THEN I64Max ELSE IF x + y < I64Min THEN I64Min ELSE x + y
\* @type: (Int, Int, Int) => Bool;
Continues(cur, end, step) == (step > 0 /\ cur < end) \/ (step < 0 /\ cur > end)

VARIABLES
  \* @type: Int;
  cur,
  \* @type: Int;
  end,
  \* @type: Int;
  step

Init == /\ cur \in Int /\ end \in Int /\ step \in Int
        /\ InI64(cur) /\ InI64(end) /\ InI64(step) /\ step # 0
        /\ Continues(cur, end, step)           \* an element is being emitted
Next == UNCHANGED <<cur, end, step>>

StepLemma == LET real == SatAdd(cur, step)  ideal == cur + step IN
             /\ InI64(real)
             /\ Continues(real, end, step) = Continues(ideal, end, step)
             /\ (Continues(ideal, end, step) => real = ideal)

\* What the loops did before the fix (`cur += step` in a release build wraps): kept as a
\* regression obligation that must FAIL, so the lemma is shown to be non-vacuous.
\* @type: (Int, Int) => Int;
WrapAdd(x, y) == LET s == x + y IN IF s > I64Max THEN s - 18446744073709551616 ELSE IF s < I64Min THEN s + 18446744073709551616 ELSE s
WrapLemma == LET real == WrapAdd(cur, step)  ideal == cur + step IN
             Continues(real, end, step) = Continues(ideal, end, step)
=============================================================================
