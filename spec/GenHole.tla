-------------------------------- MODULE GenHole --------------------------------
(* C03, completeness of the checker's traversal: an ill-typed expression is rejected WHEREVER it stands.
   The static rules are compositional: an expression that breaks a rule (an unknown name, an operand of the wrong
   type, an argument of the wrong type, an unknown field, an unknown function) makes every program that contains it
   ill-typed, whatever surrounds it. The specification enumerates the surroundings: expression contexts (every
   syntactic position an int-typed expression can occupy - operands, arguments, collection items and keys, indices and
   slice bounds, f-string holes, comprehension elements / filters / sources, Option / Result constructors, constructor
   fields), composed up to Depth, inside statement contexts (every statement form and declaration-level initialiser
   that holds an expression). Every context maps an int to an int, so they compose freely.
   Verdict: Accept = (the hole holds the well-typed twin `n`); with an offender the program must be rejected and a
   diagnostic must lie inside the offender (marked @< >@ in the emitted text). *)
EXTENDS Integers, Sequences, TLC, Json

C(pre, post) == [pre |-> pre, post |-> post]
ECtx == { C("", " + 1"), C("1 + ", ""), C("2 * ", ""), C("-", ""), C("(", ")"), C("7 // ", ""), C("", " % 3"),
          C("abs(", ")"), C("g(", ")"), C("g2(1, ", ")"), C("bx.put(", ")"), C("len([", "])"), C("[", "][0]"), C("[1, ", "][1]"),
          C("(", ", 1).0"), C("(1, ", ").1"), C("{\"a\": ", "}[\"a\"]"), C("len({", ": 1})"),
          C("xs[", "]"), C("len(xs[", ":])"), C("len(xs[:", "])"), C("len(xs[::", "])"), C("len(\"abc\"[", ":])"),
          C("len(f\"{", "}\")"), C("len(f\"a{1}b{", "}\")"),
          C("len([", " for i in xs])"), C("len([i for i in xs if ", " > 0])"), C("len([i for i in [", "]])"),
          C("len([i for i in range(", ")])"), C("len({i: ", " for i in xs})"), C("len({i: i for i in xs if ", " > 0})"), C("len({i: i for i in [", "]})"), C("len({", ": i for i in xs})"),
          C("unwrap_some(Some(", "))"), C("unwrap_ok(Ok(", "))"), C("P(x=", ").x"), C("P(x=1, y=", ").y"),
          C("sum([", "])"), C("min([", ", 2])"), C("pick(", " > 0)"), C("pick(not (", " > 0))"), C("pick(true and ", " > 0)"),
          C("pick(", " in xs)"), C("pick(1 < ", ")") }
\* statement contexts: the text of the function body (and declarations) around ONE int-typed expression; <NL> = line break
S(decl, pre, post) == [decl |-> decl, pre |-> pre, post |-> post]
SCtx == { S("", "    println(", ")<NL>"),
          S("", "    let v = ", "<NL>    println(v)<NL>"),
          S("", "    let v: int = ", "<NL>    println(v)<NL>"),
          S("", "    mut m = 0<NL>    m = ", "<NL>"),
          S("", "    mut m = 0<NL>    m += ", "<NL>"),
          S("", "    return ", "<NL>"),
          S("", "    if ", " > 0:<NL>        println(1)<NL>"),
          S("", "    if n > 5:<NL>        println(1)<NL>    elif ", " > 0:<NL>        println(2)<NL>"),
          S("", "    while ", " > 100:<NL>        break<NL>"),
          S("", "    for i in range(", "):<NL>        println(i)<NL>"),
          S("", "    for i in [", "]:<NL>        println(i)<NL>"),
          S("", "    mut ys = [1, 2]<NL>    ys[0] = ", "<NL>"),
          S("", "    mut ys = [1, 2]<NL>    ys[", "] = 5<NL>"),
          S("", "    mut q = P(x=1)<NL>    q.x = ", "<NL>"),
          S("", "    g(", ")<NL>"),
          S("", "    cl = (a) => a + ", "<NL>    println(cl(1))<NL>"),
          S("", "    match n:<NL>        0 => println(", ")<NL>        _ => println(0)<NL>"),
          S("", "    match ", ":<NL>        0 => println(1)<NL>        _ => println(0)<NL>"),
          S("", "    match n:<NL>        case k if k > ", ":<NL>            println(1)<NL>        case _:<NL>            println(0)<NL>"),
          S("", "    let w = match n:<NL>        0 => ", "<NL>        _ => 0<NL>    println(w)<NL>"),
          S("", "    let r: Result[int, str] = Ok(", ")<NL>"),
          S("", "    println(bx.put(", "))<NL>"),
          S("", "    if n > 0:<NL>        for i in xs:<NL>            while i > 5:<NL>                println(", ")<NL>                break<NL>"),
          S("const KK: int = ", "    println(KK)<NL>", ""),                                   \* hole in the declaration part
          S("def dflt(a: int = ", "    println(dflt(1))<NL>", ""),
          S("model WithDefault:<NL>    f: int = ", "    println(WithDefault().f)<NL>", ""),
          S("class Holder:<NL>    k: int<NL><NL>    def m(self, n: int, xs: list[int]) -> int:<NL>        return ", "    println(Holder(k=1).m(n, xs))<NL>", "") }
Offenders == { [id |-> "unknown-name", text |-> "nope"], [id |-> "unknown-function", text |-> "nofn(1)"],
               [id |-> "str-operand", text |-> "(1 + \"s\")"], [id |-> "wrong-argument-type", text |-> "g(\"s\")"],
               [id |-> "unknown-field", text |-> "p.nofield"], [id |-> "unknown-method", text |-> "bx.nomethod()"],
               [id |-> "twin", text |-> "n"] }
CONSTANT Depth
VARIABLES off, ectx, sctx, phase
vars == <<off, ectx, sctx, phase>>
Init == off \in Offenders /\ ectx = <<>> /\ sctx \in SCtx /\ phase = "build"
Add == phase = "build" /\ Len(ectx) < Depth /\ \E c \in ECtx : ectx' = Append(ectx, c) /\ UNCHANGED <<off, sctx, phase>>
Finish == phase = "build" /\ phase' = "done" /\ UNCHANGED <<off, ectx, sctx>>
Next == Add \/ Finish
RECURSIVE Wrap(_, _)
Wrap(cs, s) == IF cs = <<>> THEN s ELSE cs[1].pre \o Wrap(Tail(cs), s) \o cs[1].post
Expr == Wrap(ectx, "@<" \o off.text \o ">@")
\* declaration-level holes close their own line: `const KK: int = <e>`, `def dflt(a: int = <e>) -> int: return a`, ...
DeclTail == CASE sctx.decl = "" -> ""
              [] sctx.decl = "def dflt(a: int = " -> ") -> int:<NL>    return a<NL>"
              [] OTHER -> "<NL>"
Accept == off.id = "twin"
Emit == phase = "done" =>
          PrintT(<<"CASE", ToJson([decl |-> IF sctx.decl = "" THEN "" ELSE sctx.decl \o Expr \o DeclTail,
                                   body |-> IF sctx.decl = "" THEN sctx.pre \o Expr \o sctx.post ELSE sctx.pre,
                                   off |-> off.id, accept |-> Accept, depth |-> Len(ectx),
                                   infstr |-> \E i \in 1..Len(ectx) : ectx[i].pre \in {"len(f\"{", "len(f\"a{1}b{"},
                                   inner |-> IF ectx = <<>> THEN "" ELSE ectx[Len(ectx)].pre \o "_" \o ectx[Len(ectx)].post,
                                   stmt |-> IF sctx.decl = "" THEN sctx.pre ELSE sctx.decl])>>)
=============================================================================
