--------------------------- MODULE MC_ModulesWork ---------------------------
(* TLC: the four collector worklist machines of Modules on every import graph of a bounded
   universe, including cyclic graphs, self-imports, missing modules and imports that the
   collectors resolve differently (nested base directory, `import a::item`).

   Universe: files R/main.incn (entry), R/a.incn, R/d/b.incn, optionally R/d/a.incn (leaf);
   each of the first three carries a sequence of distinct imports from the vocabulary Vocab
   (at most MaxMain for the entry, MaxOther for the others).

   Checked on every behaviour: Decreases (termination measure), deadlock freedom before the end,
   VisitOnce, VisitedExist. `DiagWhenDue` (a cycle or a missing module ends with a diagnostic) is
   what the property demands; the transcribed machines do NOT have it (cfg *_due expects the
   counterexample). `Emit` prints one CASE per (layout, machine) at the end of the run: the
   visited sequence, status, whether a diagnostic was produced and whether one was due. *)
EXTENDS Modules, Json, SequencesExt
CONSTANTS Vocab, MaxMain, MaxOther, Machines

R == <<"w0", "w1">>
Main == Append(R, "main.incn")
FA == Append(R, "a.incn")
FB == R \o <<"d", "b.incn">>
FDA == R \o <<"d", "a.incn">>
From(levels, segs) == [kind |-> "from", levels |-> levels, abs |-> FALSE, segs |-> segs]
V(id) == CASE id = "a" -> From(0, <<"a">>)              \* from a import helper
           [] id = "db" -> From(0, <<"d", "b">>)         \* from d.b import helper
           [] id = "main" -> From(0, <<"main">>)         \* from main import helper (back to the entry)
           [] id = "zz" -> From(0, <<"zz">>)             \* missing
           [] id = "upa" -> From(1, <<"a">>)             \* from ..a import helper
           [] id = "b" -> From(0, <<"b">>)               \* from b import helper (d/b.incn seen from d/)
           [] id = "item" -> [kind |-> "mod", levels |-> 0, abs |-> FALSE, segs |-> <<"a", "helper_a">>]  \* import a::helper_a
           [] id = "std" -> [kind |-> "mod", levels |-> 0, abs |-> FALSE, segs |-> <<"std", "fs">>]     \* import std::fs
\* the imported item names match what the driver puts into the files (helper_a in a.incn, ...)
VText(id) == CASE id = "a" -> "from a import helper_a" [] id = "db" -> "from d.b import helper_b"
               [] id = "main" -> "from main import entry_helper" [] id = "zz" -> "from zz import helper_z"
               [] id = "upa" -> "from ..a import helper_a" [] id = "b" -> "from b import helper_b"
               [] id = "item" -> "import a::helper_a" [] id = "std" -> "import std::fs"
\* sequences of distinct vocabulary ids of length <= k
SeqsUpTo(k) == UNION {{s \in [1..n -> Vocab] : \A i, j \in 1..n : i # j => s[i] # s[j]} : n \in 0..k}

VARIABLES ids      \* the layout as vocabulary ids per file (for printing)
MCInit ==
  /\ \E sm \in SeqsUpTo(MaxMain), sa \in SeqsUpTo(MaxOther), sb \in SeqsUpTo(MaxOther), extra \in BOOLEAN :
       /\ ids = [main |-> sm, a |-> sa, b |-> sb, da |-> extra]
       /\ files = {Main, FA, FB} \cup (IF extra THEN {FDA} ELSE {})
       /\ imports = (Main :> [i \in 1..Len(sm) |-> V(sm[i])]) @@ (FA :> [i \in 1..Len(sa) |-> V(sa[i])])
                    @@ (FB :> [i \in 1..Len(sb) |-> V(sb[i])])
       /\ entry = Main
  /\ \E mm \in Machines : MInit(mm)
MCNext == (MNext /\ UNCHANGED ids) \/ (status # "run" /\ UNCHANGED <<vars, ids>>)
MCSpec == MCInit /\ [][MCNext]_<<vars, ids>>

TextOf(s) == [i \in 1..Len(s) |-> VText(s[i])]
Emit == status # "run" =>
  PrintT(<<"CASE", ToJson([mode |-> "work", m |-> m, main |-> TextOf(ids.main), a |-> TextOf(ids.a), b |-> TextOf(ids.b),
                           da |-> ids.da, imps |-> [main |-> imports[Main], a |-> imports[FA], b |-> imports[FB]],
                           visited |-> visited, status |-> status, diag |-> diag,
                           cycle |-> HasCycle(m), missing |-> HasMissing(m)])>>)
=============================================================================
