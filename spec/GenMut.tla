-------------------------------- MODULE GenMut --------------------------------
(* C03 generator (Core-expressible rules): a well-typed program p, ONE mutation operator applied at
   ONE position inside a context, and the specification's verdict: the mutant is emitted only if
   Accept(p') = FALSE while the unmutated twin is accepted. The offending statement carries the
   field `off` so that the renderer can report its source range.
   Rules: R1 use of an unknown name; R2 wrong-typed value in an annotated binding; R3 wrong-typed
   return; R4 wrong-typed argument; R5 plain reassignment of a binding not declared `mut` (declared
   with let / by inference, at scope distance 0..3); R6 compound assignment to such a binding.
   Contexts: the position is reached through 0..3 nested blocks drawn from if-then / elif / else /
   while / for - every block kind the checker walks with separate code. *)
EXTENDS Core, Json

EInt(n)     == [k |-> "lit", lk |-> "int", iv |-> n]
EFloat(n,d) == [k |-> "lit", lk |-> "float", fn |-> n, fd |-> d]
EBool(b)    == [k |-> "lit", lk |-> "bool", bv |-> b]
EStr(s)     == [k |-> "lit", lk |-> "str", sv |-> s]
EId(x)      == [k |-> "ident", name |-> x]
EBin(o,l,r) == [k |-> "bin", op |-> o, l |-> l, r |-> r]
ECall(f, a) == [k |-> "call", f |-> f, args |-> a]
SAssign(bk, x, ty, ex) == [k |-> "assign", bk |-> bk, name |-> x, ty |-> ty, e |-> ex]
SCompound(x, o, ex)    == [k |-> "compound", name |-> x, op |-> o, e |-> ex]
SPrint(ex)             == [k |-> "print", e |-> ex]
SRet(ex)               == [k |-> "return", e |-> ex]
SIf(c, t, el, e)       == [k |-> "if", cond |-> c, then |-> t, elifs |-> el, else |-> e]
SWhile(c, b)           == [k |-> "while", cond |-> c, body |-> b]
SFor(v, it, b)         == [k |-> "for", var |-> v, iter |-> it, body |-> b]
Mark(s) == s @@ [off |-> TRUE]

Blocks == {"if", "elif", "else", "while", "for"}
Cond == EBin("<", EId("n"), EInt(3))
\* wrap the statements `ss` in one block of the given kind (other branches hold a harmless statement)
Wrap1(kind, ss) ==
  CASE kind = "if"    -> <<SIf(Cond, ss, <<>>, <<>>)>>
    [] kind = "elif"  -> <<SIf(EBool(FALSE), <<SPrint(EInt(0))>>, <<[cond |-> Cond, body |-> ss]>>, <<>>)>>
    [] kind = "else"  -> <<SIf(Cond, <<SPrint(EInt(0))>>, <<>>, <<ss>>)>>
    [] kind = "while" -> <<SWhile(Cond, ss \o <<[k |-> "break"]>>)>>
    [] kind = "for"   -> <<SFor("i", ECall("range", <<EInt(2)>>), ss)>>
RECURSIVE WrapAll(_, _)
WrapAll(kinds, ss) == IF kinds = <<>> THEN ss ELSE Wrap1(kinds[1], WrapAll(Tail(kinds), ss))

Rules == {"R1", "R2", "R3", "R4", "R5let", "R5inf", "R6let", "R6inf"}
\* [decl, bad, good]: outer declaration(s), offending statement, its well-typed twin
RuleDef(r) ==
  CASE r = "R1"    -> [decl |-> <<>>, bad |-> SPrint(EId("nope")), good |-> SPrint(EId("n"))]
    [] r = "R2"    -> [decl |-> <<>>, bad |-> SAssign("let", "v", "int", EFloat(3, 1)), good |-> SAssign("let", "v", "int", EInt(1))]
    [] r = "R3"    -> [decl |-> <<>>, bad |-> SRet(<<EStr(<<"a">>)>>), good |-> SRet(<<EInt(1)>>)]
    [] r = "R4"    -> [decl |-> <<>>, bad |-> SPrint(ECall("g", <<EStr(<<"a">>)>>)), good |-> SPrint(ECall("g", <<EInt(1)>>))]
    [] r = "R5let" -> [decl |-> <<SAssign("let", "x", "", EInt(1))>>, bad |-> SAssign("inferred", "x", "", EInt(2)), good |-> SAssign("let", "x", "", EInt(2))]
    [] r = "R5inf" -> [decl |-> <<SAssign("inferred", "x", "", EInt(1))>>, bad |-> SAssign("inferred", "x", "", EInt(2)), good |-> SAssign("mut", "x", "", EInt(2))]
    [] r = "R6let" -> [decl |-> <<SAssign("let", "x", "", EInt(1))>>, bad |-> SCompound("x", "+", EInt(1)), good |-> SPrint(EId("x"))]
    [] r = "R6inf" -> [decl |-> <<SAssign("inferred", "x", "", EInt(1))>>, bad |-> SCompound("x", "+", EInt(1)), good |-> SPrint(EId("x"))]

G == [name |-> "g", params |-> <<[name |-> "a", ty |-> "int", mut |-> FALSE]>>, ret |-> "int", body |-> <<SRet(<<EId("a")>>)>>]
\* the case function: `def c(n: int) -> int:` <decl> <context(bad)> return 0
ProgWith(r, kinds, stmt) ==
  [consts |-> <<>>,
   fns |-> << G,
              [name |-> "c", params |-> <<[name |-> "n", ty |-> "int", mut |-> FALSE]>>, ret |-> "int",
               body |-> RuleDef(r).decl \o WrapAll(kinds, <<stmt>>) \o <<SRet(<<EInt(0)>>)>>],
              [name |-> "main", params |-> <<>>, ret |-> "none", body |-> <<SPrint(ECall("c", <<EInt(1)>>))>>] >>]

CONSTANT MaxNest
VARIABLES rule, kinds
Init == rule \in Rules /\ kinds = <<>>
Next == Len(kinds) < MaxNest /\ \E b \in Blocks : kinds' = Append(kinds, b) /\ UNCHANGED rule

Bad == ProgWith(rule, kinds, Mark(RuleDef(rule).bad))
Good == ProgWith(rule, kinds, RuleDef(rule).good)
\* every emitted mutant is ill-typed by the specification and its twin is well-typed
MutantsAreIllTyped == ~Accept(Bad) /\ Accept(Good)
Emit == PrintT(<<"CASE", ToJson([rule |-> rule, kinds |-> kinds, bad |-> Bad.fns[2].body, good |-> Good.fns[2].body,
                                 distance |-> Len(kinds)])>>)
=============================================================================
