------------------------------- MODULE CliTrace -------------------------------
(* B2: recorded real CLI invocations validated against Cli.
   Events (ndjson, TRACE): {mode, parses, accepted, emits (the library's verdicts, observed in process),
                            exit, stdout (non-empty), diag (stderr carries a diagnostic)} *)
EXTENDS Cli, Sequences, Json, IOUtils
Rec == ndJsonDeserialize(IOEnv.TRACE)
VARIABLE l
E == Rec[l]
TStep == ObsOK(E.mode, [parses |-> E.parses, accepted |-> E.accepted, emits |-> E.emits], [exit |-> E.exit, stdout |-> E.stdout, diag |-> E.diag])
TInit == l = 1
TNext == l <= Len(Rec) /\ TStep /\ l' = l + 1
TSpec == TInit /\ [][TNext]_l
Accepted == IF TLCGet("stats").diameter - 1 = Len(Rec) THEN TRUE
            ELSE PrintT(<<"REJECT", ToJson([at |-> TLCGet("stats").diameter])>>) /\ FALSE
=============================================================================
