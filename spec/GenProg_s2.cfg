CONSTANTS MaxStmts = 2
          MaxDepth = 1
INIT Init
NEXT Next
INVARIANTS Emit Sound
CHECK_DEADLOCK FALSE
