----------------------------- MODULE ConstEval -----------------------------
(* The cycle-detection machine of src/frontend/typechecker/const_eval.rs
     eval_const_by_name (cache lookup; NotStarted / InProgress / Done; stack; cycle report)
   driven in declaration order by check_program. Initializers are abstracted to their ordered
   list of const references (a binary-operator chain `r1 + r2 + ..`: operands are evaluated left to
   right and `?` short-circuits on the first failing reference). *)
EXTENDS Integers, Sequences, FiniteSets, TLC

CONSTANTS N, MaxRefs
Names == 1..N
RefLists == UNION {[1..k -> Names] : k \in 0..MaxRefs}

VARIABLES refs,    \* Names -> sequence of referenced names (all graphs are initial states)
          cstate,  \* Names -> "NS" | "IP" | "D"          (const_eval_state)
          cache,   \* names with a cached successful result  (const_eval_cache)
          frames,  \* call stack: Seq([name, k, ok]); k = next reference to evaluate
          next,    \* next declaration check_program starts
          errs,    \* reported cycle paths
          starts   \* ghost: how many times each name entered InProgress
vars == <<refs, cstate, cache, frames, next, errs, starts>>

Init == /\ refs \in [Names -> RefLists]
        /\ cstate = [n \in Names |-> "NS"] /\ cache = {} /\ frames = <<>>
        /\ next = 1 /\ errs = {} /\ starts = [n \in Names |-> 0]

Top == frames[Len(frames)]
\* the result of a finished call is delivered to the caller's frame
Deliver(fs, ok) == IF fs = <<>> THEN fs
                   ELSE [fs EXCEPT ![Len(fs)] = [@ EXCEPT !.k = @ + 1, !.ok = @ /\ ok]]

\* eval_const_by_name(n) called with call stack fs
Call(n, fs) ==
  IF n \in cache THEN /\ frames' = Deliver(fs, TRUE) /\ UNCHANGED <<cstate, errs, starts>>
  ELSE IF cstate[n] = "D" THEN /\ frames' = Deliver(fs, FALSE) /\ UNCHANGED <<cstate, errs, starts>>   \* failed earlier: no new report
  ELSE IF cstate[n] = "IP" THEN /\ errs' = errs \cup {[i \in 1..Len(fs) |-> fs[i].name] \o <<n>>}      \* cycle: stack + name
                                /\ frames' = Deliver(fs, FALSE) /\ UNCHANGED <<cstate, starts>>
  ELSE /\ cstate' = [cstate EXCEPT ![n] = "IP"]
       /\ starts' = [starts EXCEPT ![n] = @ + 1]
       /\ frames' = Append(fs, [name |-> n, k |-> 1, ok |-> TRUE])
       /\ UNCHANGED errs

TopLevel == /\ frames = <<>> /\ next <= N
            /\ Call(next, <<>>) /\ next' = next + 1 /\ UNCHANGED <<refs, cache>>
VisitRef == /\ frames # <<>> /\ Top.ok /\ Top.k <= Len(refs[Top.name])
            /\ Call(refs[Top.name][Top.k], frames) /\ UNCHANGED <<refs, cache, next>>
Return == /\ frames # <<>> /\ (~Top.ok \/ Top.k > Len(refs[Top.name]))
          /\ cstate' = [cstate EXCEPT ![Top.name] = "D"]
          /\ cache' = IF Top.ok THEN cache \cup {Top.name} ELSE cache
          /\ frames' = Deliver(SubSeq(frames, 1, Len(frames) - 1), Top.ok)
          /\ UNCHANGED <<refs, next, errs, starts>>

Next == TopLevel \/ VisitRef \/ Return
Spec == Init /\ [][Next]_vars /\ WF_vars(Next)

AllDone == frames = <<>> /\ next > N
Succ(n) == {refs[n][i] : i \in 1..Len(refs[n])}
RECURSIVE Reach(_, _)
Reach(S, k) == IF k = 0 THEN S ELSE Reach(S \cup UNION {Succ(m) : m \in S}, k - 1)
Cyclic == \E n \in Names : n \in Reach(Succ(n), N)

\* ---- C06 (second sentence): cycles are always reported, evaluation never loops
NoStuck == ENABLED Next \/ AllDone
EachOnce == \A n \in Names : starts[n] <= 1
CycleReported == AllDone => ((errs # {}) <=> Cyclic)
PathsAreCycles == \A p \in errs : \E i \in 1..(Len(p) - 1) : p[i] = p[Len(p)]
AllFinish == AllDone => \A n \in Names : cstate[n] = "D"
Termination == <>AllDone
=============================================================================
