-------------------------- MODULE DeterminismTrace --------------------------
(* B2 for C12: K observations of each program (fresh process, own working directory, perturbed
   environment) through `--check`, `--emit-rust`, `fmt --diff`, project generation by the real CLI
   (stub cargo) and by the in-process call sequence. ndjson events (TRACE environment variable):

     {"e":"prog","prog":id,"rank":{name:int..},"decl":{"main.uses":[..],"cargo.rustdeps":[..],
                                                        "diag.ctor":[..],"diag.trait":[..]}}
         starts a program: rank = alphabetical rank of every name that occurs in an order,
         decl = the declaration order of the components that have one
     {"e":"obs","prog":id,"k":n,"path":p,"digest":{output:hash-of-sorted-lines..},
      "raw":{output:hash-of-bytes..},"orders":{component:[names..]..},"nested":[[names..]..]}
         one observation: every output (file, stdout, stderr, exit code), and the order of the
         components of Determinism.tla that the output exposes

   An observation is accepted iff
     (1) it equals the FIRST observation of the same program through the same path: same outputs,
         byte for byte (raw), and
     (2) every recorded order is the one the specification derives for that component from its
         order source in Determinism!Flow: declaration order for "decl" components; for components
         fed by an unordered collection the sorted order (what the repaired sites produce) - the
         declaration order is accepted too, since it is also a function of the program alone.
   Every rejection reason is collected (not only the first) so that a catalogued deviation cannot
   mask another one; AllAccepted prints them in one REJECT line at the end of the trace. *)
EXTENDS Determinism, Json, IOUtils
Rec == ndJsonDeserialize(IOEnv.TRACE)
TEmpty == <<>>
VARIABLES l, cur, first, bad
tvars == <<l, cur, first, bad, pc, out>>

NoProg == [prog |-> "", rank |-> [none |-> 0], decl |-> [none |-> <<>>]]
TInit == Init /\ l = 1 /\ cur = NoProg /\ first = [p \in {} |-> NoProg] /\ bad = {}

RankOf(x) == IF x \in DOMAIN cur.rank THEN cur.rank[x] ELSE 0
Sorted(o) == SortedBy(o, RankOf)
NoDup(o) == \A i, j \in 1..Len(o) : i # j => o[i] # o[j]
DeclOrder(c, o) == c \in DOMAIN cur.decl /\ o = cur.decl[c]
\* the order check for one component, by the order source Determinism.tla assigns to it
OrderOK(c, o) ==
  IF c \notin Components THEN FALSE
  ELSE IF Flow[c].source = "decl" THEN DeclOrder(c, o)
  ELSE NoDup(o) /\ (Sorted(o) \/ DeclOrder(c, o))

Reasons(e) ==
  LET ordBad == {c \in DOMAIN e.orders : c # "none" /\ ~OrderOK(c, e.orders[c])}
      nestBad == IF \E i \in 1..Len(e.nested) : ~(NoDup(e.nested[i]) /\ Sorted(e.nested[i])) THEN {"order:modrs.mods"} ELSE {}
      f == IF e.path \in DOMAIN first THEN first[e.path] ELSE e
      keysBad == IF DOMAIN f.raw # DOMAIN e.raw THEN {"unequal:output-set"} ELSE {}
      common == DOMAIN f.raw \cap DOMAIN e.raw
      contBad == {k \in common : f.digest[k] # e.digest[k]}
      ordOnly == {k \in common : f.digest[k] = e.digest[k] /\ f.raw[k] # e.raw[k]}
  IN {"order:" \o c : c \in ordBad} \cup nestBad \cup keysBad
     \cup {"unequal:" \o k : k \in contBad} \cup {"unequal-order-only:" \o k : k \in ordOnly}

IsProg(e) == e.e = "prog"
IsObs(e)  == e.e = "obs" /\ e.prog = cur.prog
TNext ==
  /\ l <= Len(Rec)
  /\ l' = l + 1
  /\ UNCHANGED vars      \* the model's own variables are not used by the trace (operators and Flow are)
  /\ LET e == Rec[l] IN
       \/ /\ IsProg(e)
          /\ cur' = [prog |-> e.prog, rank |-> e.rank, decl |-> e.decl]
          /\ first' = [p \in {} |-> NoProg]
          /\ bad' = bad
       \/ /\ IsObs(e)
          /\ bad' = bad \cup {[prog |-> e.prog, path |-> e.path, k |-> e.k, reason |-> r] : r \in Reasons(e)}
          /\ first' = IF e.path \in DOMAIN first THEN first ELSE (e.path :> e) @@ first
          /\ cur' = cur
TSpec == TInit /\ [][TNext]_tvars

AtEnd == l = Len(Rec) + 1
\* (reports through a REJECT line instead of failing, so that TLC does not print the whole behaviour;
\*  the driver treats any REJECT line as a rejected trace)
AllAccepted == AtEnd => (bad = {} \/ PrintT(<<"REJECT", ToJson([n |-> Cardinality(bad), bad |-> bad])>>))
Accepted == IF TLCGet("stats").diameter - 1 = Len(Rec) THEN TRUE
            ELSE PrintT(<<"REJECT", ToJson([n |-> 0, at |-> TLCGet("stats").diameter,
                                            malformed |-> Rec[TLCGet("stats").diameter]])>>) /\ FALSE
=============================================================================
