-------------------------------- MODULE GenDiv --------------------------------
(* C04 (and C01 / C07), end to end: the division family `/ // %` and its compound-assignment forms on every kind of
   TARGET - a variable, a list element, a dict value, a model field, a field reached through `self` in a `mut self`
   method - for every sign combination and a zero divisor, on int and float (dyadic) operands with promotion.
   The kernels (PyArith) are what C04 binds to the runtime library directly; this generator walks the ROUTES by which the
   compiler reaches them: each target form is lowered by its own code. Behaviour = Core's Run. *)
EXTENDS Core, Json
EInt(n)     == [k |-> "lit", lk |-> "int", iv |-> n]
EFloat(n,d) == [k |-> "lit", lk |-> "float", fn |-> n, fd |-> d]
EStr(s)     == [k |-> "lit", lk |-> "str", sv |-> s]
EId(x)      == [k |-> "ident", name |-> x]
EUn(o, e)   == [k |-> "un", op |-> o, e |-> e]
EBin(o,l,r) == [k |-> "bin", op |-> o, l |-> l, r |-> r]
EList(xs)   == [k |-> "list", items |-> xs]
EIdx(o, i)  == [k |-> "index", obj |-> o, idx |-> i]
EDict(ks, vs) == [k |-> "dict", keys |-> ks, vals |-> vs]
EF(o, f)    == [k |-> "field", obj |-> o, field |-> f]
EM(o, m, a) == [k |-> "mcall", recv |-> o, name |-> m, args |-> a]
ECtor(n, fs, as) == [k |-> "ctord", name |-> n, fnames |-> fs, args |-> as]
SAssign(bk, x, ty, ex) == [k |-> "assign", bk |-> bk, name |-> x, ty |-> ty, e |-> ex]
SCompound(x, o, ex)    == [k |-> "compound", name |-> x, op |-> o, e |-> ex]
SPrint(ex)  == [k |-> "print", e |-> ex]
SExpr(ex)   == [k |-> "expr", e |-> ex]
SSetIdxOp(x, i, o, ex) == [k |-> "setidx", name |-> x, idx |-> i, op |-> o, e |-> ex]
SSetF(t, o, ex) == [k |-> "setfield", target |-> t, op |-> o, e |-> ex]
Lit(kind, v) == IF kind = "int" THEN (IF v < 0 THEN EUn("-", EInt(-v)) ELSE EInt(v))
                ELSE (IF v < 0 THEN EUn("-", EFloat(-v, 1)) ELSE EFloat(v, 1))       \* floats are v / 2: 7.5 = 15/2, 2.5 = 5/2
\* values: ints 7, -7, 2, -2, 0; floats 7.5, -7.5, 2.5, -2.5, 0.0 (as numerators over 2)
AVals(kind) == IF kind = "int" THEN {7, -7} ELSE {15, -15}
BVals(kind) == IF kind = "int" THEN {2, -2, 0} ELSE {5, -5, 0}
Ops == {"/", "//", "%"}
Targets == {"var", "elem", "dictval", "field", "self-field", "binary"}
\* the cell type: the model Cell holds one number of the target's kind; `scale` applies the operator through `self`
M(n, rk, ps, ret, body) == [name |-> n, recv |-> rk, params |-> ps, ret |-> ret, body |-> body]
CellTypes(kind, op) ==
  << [name |-> "Cell", kind |-> "class", parent |-> "", traits |-> <<>>, fields |-> <<[name |-> "v", ty |-> kind]>>, defaults |-> <<>>,
      methods |-> << M("apply", "mutself", <<[name |-> "b", ty |-> kind, mut |-> FALSE]>>, "none",
                       <<SSetF(EF(EId("self"), "v"), op, EId("b"))>>) >>] >>
VARIABLES tk, bk, op, target, a, b
vars == <<tk, bk, op, target, a, b>>
\* tk: kind of the target / left operand; bk: kind of the right operand (an int target only takes int right operands)
Init == /\ tk \in {"int", "float"} /\ bk \in {"int", "float"} /\ op \in Ops /\ target \in Targets
        /\ a \in AVals(tk) /\ b \in BVals(bk)
        /\ (target # "binary" => (tk = "float" \/ (bk = "int" /\ op # "/")))      \* compound forms must keep the target's kind (C07)
        /\ (target = "self-field" => bk = tk)
Next == UNCHANGED vars
A == Lit(tk, a)
B == Lit(bk, b)
Body ==
  CASE target = "binary" -> <<SAssign("inferred", "x", "", A), SAssign("inferred", "y", "", B), SPrint(EBin(op, EId("x"), EId("y")))>>
    [] target = "var" -> <<SAssign("mut", "x", "", A), SCompound("x", op, B), SPrint(EId("x"))>>
    [] target = "elem" -> <<SAssign("mut", "xs", "", EList(<<A, A>>)), SSetIdxOp("xs", EInt(1), op, B), SPrint(EIdx(EId("xs"), EInt(1))), SPrint(EIdx(EId("xs"), EInt(0)))>>
    [] target = "dictval" -> <<SAssign("mut", "d", "", EDict(<<EStr(<<"a">>)>>, <<A>>)), SSetIdxOp("d", EStr(<<"a">>), op, B), SPrint(EIdx(EId("d"), EStr(<<"a">>)))>>
    [] target = "field" -> <<SAssign("mut", "c", "", ECtor("Cell", <<"v">>, <<A>>)), SSetF(EF(EId("c"), "v"), op, B), SPrint(EF(EId("c"), "v"))>>
    [] target = "self-field" -> <<SAssign("mut", "c", "", ECtor("Cell", <<"v">>, <<A>>)), SExpr(EM(EId("c"), "apply", <<B>>)), SPrint(EF(EId("c"), "v"))>>
Prog == [consts |-> <<>>, types |-> CellTypes(tk, IF target = "self-field" THEN op ELSE "+"), traits |-> <<>>,
         fns |-> <<[name |-> "main", params |-> <<>>, ret |-> "none", body |-> Body]>>]
Res == Run(Prog)
\* the division family never fails otherwise than by a zero divisor, and then with the documented text
OnlyZeroDivision == Specified(Res) => ((Res.status = "error") <=> (b = 0))      \* (quotients outside the exact dyadic model are not judged)
ZeroText == (b = 0) => Res.err = ZDE
Emit == Specified(Res) =>
          PrintT(<<"CASE", ToJson([body |-> Body, types |-> CellTypes(tk, IF target = "self-field" THEN op ELSE "+"), out |-> Res.out, status |-> Res.status, err |-> Res.err,
                                   feats |-> {"div:" \o op, "target:" \o target, "lhs:" \o tk, "rhs:" \o bk,
                                              "sign:" \o (IF a < 0 THEN "-" ELSE "+") \o (IF b < 0 THEN "-" ELSE IF b = 0 THEN "0" ELSE "+")}])>>)
=============================================================================
