------------------------------ MODULE Manifest ------------------------------
(* C15 - the generated Cargo project declares exactly what the code needs, pinned.

   The project-preparation step of `incan build` / `incan run` (prepare_project in
   src/cli/commands.rs, ProjectGenerator in src/backend/project.rs, the feature scanners in
   src/backend/ir/scanners.rs and the `use`-line insertion in src/backend/ir/emit/program.rs)
   as a state machine, one action per step of the real code:

     Collect     collect_modules: entry file + every module it imports
     Scan        scan_for_serde / scan_for_async / scan_for_web  -> needs (flags handed to the
                 ProjectGenerator)
     AddCrates   collect_rust_crates + add_rust_crate for every `rust::` import: known-good table
                 lookup; an unknown crate is REFUSED (documented strict policy)
     Emit        IrCodegen::try_generate[_multi_file_nested]: generated files and the external
                 crate roots they refer to (`use x::..`, `x::path`)
     Write       generate_cargo_toml: runtime crates, feature crates, rust:: crates (deduplicated)

   A program is abstracted to WHERE each feature-triggering construct occurs (not at all / in
   the entry file / only in an imported module), the project (file) name and the module layout.

   Two constants select the variant:
     ScanDepModules = TRUE, StrictUnknown = TRUE   the behaviour the property demands
     ScanDepModules = FALSE                        as written: Scan/AddCrates look at the entry
                                                   module only (commands.rs:79-87)
     StrictUnknown  = FALSE                        as written: an unknown crate is written as
                                                   `name = "*"` (project.rs:636-641)
   The invariants hold for (TRUE, TRUE); TLC finds counterexamples for the as-written variant
   (MC_Manifest_aswritten.cfg), which is how the two catalogued defects show on the model. *)
EXTENDS Naturals, FiniteSets, Sequences, TLC

CONSTANTS ScanDepModules, StrictUnknown

\* ---------------------------------------------------------------- feature constructs
Feat == {"dser",      \* @derive(Serialize) on a model
         "dde",       \* @derive(Deserialize) on a model
         "json",      \* json_stringify(..) in a function body
         "async",     \* async def / await / sleep
         "web",       \* from web import ..; @route(..) handler
         "rk_rand",   \* import rust::rand                       (known-good, plain import)
         "rk_regex",  \* from rust::regex import Regex           (known-good, from-import)
         "rk_tokio",  \* import rust::tokio                      (known-good, overlaps the async feature)
         "rk_sj",     \* from rust::serde_json import Value as JsonValue   (overlaps the serde feature)
         "ru",        \* from rust::fancy_crate import thing     (NOT in the known-good table)
         "std"}       \* import rust::std::fs; from rust::std::env import var   (never a dependency)
Place == {"none", "main", "mod"}

SerdeFeat == {"dser", "dde", "json", "web"}       \* detect_serde_usage; web implies serde (codegen.rs:254-260)
TokioFeat == {"async", "web"}
AxumFeat  == {"web"}
RustImport == [rk_rand |-> "rand", rk_regex |-> "regex", rk_tokio |-> "tokio", rk_sj |-> "serde_json",
               ru |-> "fancy_crate"]
RustFeat == DOMAIN RustImport

\* known-good table of ProjectGenerator::add_rust_crate (project.rs:322-346): crate |-> <<req, features>>
KnownGood ==
  [serde |-> <<"1.0", {"derive"}>>, serde_json |-> <<"1.0", {}>>,
   tokio |-> <<"1", {"rt-multi-thread", "macros", "time", "sync"}>>,
   time |-> <<"0.3", {"formatting", "macros"}>>, chrono |-> <<"0.4", {"serde"}>>,
   reqwest |-> <<"0.11", {"json"}>>, uuid |-> <<"1.0", {"v4", "serde"}>>, rand |-> <<"0.8", {}>>,
   regex |-> <<"1.0", {}>>, anyhow |-> <<"1.0", {}>>, thiserror |-> <<"1.0", {}>>, tracing |-> <<"0.1", {}>>,
   clap |-> <<"4.0", {"derive"}>>, log |-> <<"0.4", {}>>, env_logger |-> <<"0.10", {}>>,
   sqlx |-> <<"0.7", {"runtime-tokio-native-tls", "postgres"}>>, futures |-> <<"0.3", {}>>,
   bytes |-> <<"1.0", {}>>, itertools |-> <<"0.12", {}>>]
IsKnown(c) == c \in DOMAIN KnownGood

Dep(c, kind, req, feats) == [crate |-> c, kind |-> kind, req |-> req, feats |-> feats]
VerDep(c) == Dep(c, "version", KnownGood[c][1], KnownGood[c][2])
TokioWeb == Dep("tokio", "version", "1", {"rt-multi-thread", "macros", "time", "sync", "net"})
AxumDep == Dep("axum", "version", "0.8", {})

\* ---------------------------------------------------------------- programs
Present(p) == {f \in Feat : p[f] # "none"}
InMain(p)  == {f \in Feat : p[f] = "main"}
InMod(p)   == {f \in Feat : p[f] = "mod"}
HasMod(p)  == InMod(p) # {}
Uniform(p) == InMain(p) = {} \/ InMod(p) = {}

\* ---------------------------------------------------------------- what the property demands
NeedsSerde(fs) == fs \cap SerdeFeat # {}
NeedsTokio(fs) == fs \cap TokioFeat # {}
NeedsAxum(fs)  == fs \cap AxumFeat # {}
ImportsOf(fs)  == {RustImport[f] : f \in fs \cap RustFeat}
UnknownIn(fs)  == {c \in ImportsOf(fs) : ~IsKnown(c)}

\* The dependency list generate_cargo_toml must produce from (flags, crates): in order, no duplicates.
StdlibFeats(fs) == (IF NeedsAxum(fs) THEN {"web"} ELSE {}) \cup (IF NeedsSerde(fs) THEN {"json"} ELSE {})
FeatureDeps(fs) ==
  (IF NeedsSerde(fs) THEN <<VerDep("serde"), VerDep("serde_json")>> ELSE <<>>)
  \o (IF NeedsAxum(fs) THEN <<AxumDep, TokioWeb>> ELSE IF NeedsTokio(fs) THEN <<VerDep("tokio")>> ELSE <<>>)
RuntimeDeps(fs) == <<Dep("incan_stdlib", "path", "crates/incan_stdlib", StdlibFeats(fs)),
                     Dep("incan_derive", "path", "crates/incan_derive", {})>>
NamesOf(s) == {s[i].crate : i \in 1..Len(s)}

\* Needed(p): the set of crates a correct manifest declares - a function of ALL modules of p.
Needed(p) == {"incan_stdlib", "incan_derive"} \cup NamesOf(FeatureDeps(Present(p))) \cup ImportsOf(Present(p))
MustRefuse(p) == UnknownIn(Present(p)) # {}

\* Crate roots the generated Rust refers to (emit/program.rs:262-290 + expression emitters):
\* the entry file gets the `use` lines for serde/tokio/axum when ANY module triggers them (codegen
\* scans dependency modules itself); a module file refers to what its own constructs expand to.
RefsOfConstruct(f) ==
  CASE f = "dser" -> {"serde", "serde_json"}   [] f = "dde" -> {"serde", "serde_json"}
    [] f = "json" -> {"serde_json"}            [] f = "async" -> {"tokio"}
    [] f = "rk_regex" -> {"regex"}             \* (@route handlers refer to incan_stdlib::web only)
    [] f = "rk_sj" -> {"serde_json"}           [] f = "ru" -> {"fancy_crate"}
    [] OTHER -> {}                              \* plain `import rust::c` and rust::std emit no external path
Refs(p) ==
  [main |-> {"incan_stdlib", "incan_derive"}
            \cup (IF NeedsSerde(Present(p)) THEN {"serde"} ELSE {})
            \cup (IF NeedsTokio(Present(p)) THEN {"tokio"} ELSE {})
            \cup (IF NeedsAxum(Present(p)) THEN {"axum"} ELSE {})
            \cup UNION {RefsOfConstruct(f) : f \in InMain(p)},
   mod  |-> IF HasMod(p) THEN {"incan_stdlib", "incan_derive"} \cup UNION {RefsOfConstruct(f) : f \in InMod(p)}
            ELSE {}]

\* ---------------------------------------------------------------- the state machine
VARIABLES prog,      \* [place : [Feat -> Place], name : STRING, layout : {"flat","nested"}]
          pc,        \* "start","collected","scanned","crates","emitted","done","refused"
          mods,      \* modules returned by collect_modules
          needs,     \* flags handed to the ProjectGenerator: subset of {"serde","tokio","axum"}
          crates,    \* rust_crate_deps: set of <<crate, "known"|"wild">>
          refs,      \* [main |-> set, mod |-> set] crate roots referenced by the generated files
          deps,      \* sequence of dependency records written to [dependencies]
          pkg        \* [package |-> name, bin |-> name]
vars == <<prog, pc, mods, needs, crates, refs, deps, pkg>>

Scope == IF ScanDepModules THEN Present(prog.place) ELSE InMain(prog.place)

Collect == /\ pc = "start"
           /\ mods' = IF HasMod(prog.place) THEN {"main", "mod"} ELSE {"main"}
           /\ pc' = "collected"
           /\ UNCHANGED <<prog, needs, crates, refs, deps, pkg>>

Scan == /\ pc = "collected"
        /\ needs' = (IF NeedsSerde(Scope) THEN {"serde"} ELSE {}) \cup (IF NeedsTokio(Scope) THEN {"tokio"} ELSE {})
                    \cup (IF NeedsAxum(Scope) THEN {"axum"} ELSE {})
        /\ pc' = "scanned"
        /\ UNCHANGED <<prog, mods, crates, refs, deps, pkg>>

AddCrates == /\ pc = "scanned"
             /\ IF StrictUnknown /\ UnknownIn(Scope) # {}
                  THEN /\ pc' = "refused"            \* Err(UnknownCrateError{crate_name}) before anything is written
                       /\ UNCHANGED crates
                  ELSE /\ crates' = {<<c, IF IsKnown(c) THEN "known" ELSE "wild">> : c \in ImportsOf(Scope)}
                       /\ pc' = "crates"
             /\ UNCHANGED <<prog, mods, needs, refs, deps, pkg>>

Emit == /\ pc = "crates"
        /\ refs' = Refs(prog.place)
        /\ pc' = "emitted"
        /\ UNCHANGED <<prog, mods, needs, crates, deps, pkg>>

\* generate_cargo_toml from the generator's own fields (needs, crates) - not from the program
FlagFeats == (IF "axum" \in needs THEN {"web"} ELSE {}) \cup (IF "serde" \in needs THEN {"json"} ELSE {})
FlagDeps ==
  (IF "serde" \in needs THEN <<VerDep("serde"), VerDep("serde_json")>> ELSE <<>>)
  \o (IF "axum" \in needs THEN <<AxumDep, TokioWeb>> ELSE IF "tokio" \in needs THEN <<VerDep("tokio")>> ELSE <<>>)
SetToSeq(S) == CHOOSE s \in [1..Cardinality(S) -> S] : \A i, j \in 1..Cardinality(S) : i # j => s[i] # s[j]
CrateDeps(already) ==
  LET rest == {c \in crates : c[1] \notin already}
      line(c) == IF c[2] = "known" THEN VerDep(c[1]) ELSE Dep(c[1], "version", "*", {})
      s == SetToSeq(rest)
  IN [i \in 1..Len(s) |-> line(s[i])]
Write == /\ pc = "emitted"
         /\ LET fixed == <<Dep("incan_stdlib", "path", "crates/incan_stdlib", FlagFeats),
                           Dep("incan_derive", "path", "crates/incan_derive", {})>> \o FlagDeps
            IN deps' = fixed \o CrateDeps(NamesOf(fixed))
         /\ pkg' = [package |-> prog.name, bin |-> prog.name]
         /\ pc' = "done"
         /\ UNCHANGED <<prog, mods, needs, crates, refs>>

Next == Collect \/ Scan \/ AddCrates \/ Emit \/ Write
Final == pc \in {"done", "refused"}

\* ---------------------------------------------------------------- the property
Declared == NamesOf(deps)
RefusedIffUnknown == Final => ((pc = "refused") <=> MustRefuse(prog.place))
DeclaredIsNeeded  == pc = "done" => Declared = Needed(prog.place)
RefsDeclared      == pc = "done" => (refs.main \cup refs.mod) \subseteq Declared
NoDuplicates      == pc = "done" => \A i, j \in 1..Len(deps) : i # j => deps[i].crate # deps[j].crate
Pinned            == pc = "done" => \A i \in 1..Len(deps) :
                        deps[i].kind = "path" \/ (deps[i].kind = "version" /\ deps[i].req \notin {"*", ""})
StdlibFeaturesOK  == pc = "done" => deps[1].feats = StdlibFeats(Present(prog.place))
WebTokioHasNet    == (pc = "done" /\ NeedsAxum(Present(prog.place))) =>
                        \E i \in 1..Len(deps) : deps[i].crate = "tokio" /\ "net" \in deps[i].feats
NamesOK           == pc = "done" => pkg = [package |-> prog.name, bin |-> prog.name]
\* the manifest a correct generator writes, for the B1 comparison (order of the rust:: crates is C12's business)
ExpectedDeps(p) ==
  LET fixed == RuntimeDeps(Present(p)) \o FeatureDeps(Present(p))
  IN {fixed[i] : i \in 1..Len(fixed)}
     \cup {VerDep(c) : c \in {d \in ImportsOf(Present(p)) : IsKnown(d)} \ NamesOf(fixed)}
DepsAreExpected == (pc = "done" /\ ~MustRefuse(prog.place)) => {deps[i] : i \in 1..Len(deps)} = ExpectedDeps(prog.place)
=============================================================================
