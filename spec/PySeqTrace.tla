----------------------------- MODULE PySeqTrace -----------------------------
(* B2: validate calls recorded from the real sequence kernels against PySeq. One event per
   line of the ndjson file named by the TRACE environment variable:
     {m:"slice", n, start:[..], stop:[..], step:[..], err, idx:[..]}   (observed index list)
     {m:"index", n, i, j}       j = observed 0-based position or -1 on the canonical error
     {m:"range", a, b, c, err, val}
   The specification recomputes the answer from the event's own arguments. *)
EXTENDS PySeq, TLC, Json, IOUtils
Rec == ndJsonDeserialize(IOEnv.TRACE)
VARIABLE l
TInit == l = 1
EvOK(e) ==
  CASE e.m = "slice" -> IF StepOf(e.step) = 0 THEN e.err = ErrSliceStep
                        ELSE e.err = "" /\ e.idx = SliceIdx(e.n, e.start, e.stop, e.step)
    [] e.m = "index" -> e.j = NormIndex(e.n, e.i)
    [] e.m = "range" -> e.err = Range(e.a, e.b, e.c).err /\ e.val = Range(e.a, e.b, e.c).val
    [] OTHER -> FALSE
TNext == l <= Len(Rec) /\ EvOK(Rec[l]) /\ l' = l + 1
TSpec == TInit /\ [][TNext]_l
Accepted == IF TLCGet("stats").diameter - 1 = Len(Rec) THEN TRUE
            ELSE PrintT(<<"REJECT", ToJson([at |-> TLCGet("stats").diameter,
                                            ev |-> Rec[TLCGet("stats").diameter]])>>) /\ FALSE
=============================================================================
