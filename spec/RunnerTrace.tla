----------------------------- MODULE RunnerTrace -----------------------------
(* B2 for C16: validate recorded sessions of the REAL `incan test` (harness/bin/incan_cli, built from
   /repo) against TestRunner. The ndjson file named by TRACE holds the sessions one after the other;
   every event is one step of run_tests together with what was observed of it:

     {e:"scenario", id, truth:[..], marks:[[..]..], matches:[..], opt:{..}, harness:[..]}
            a new session on the generated test directory that realises this ground truth. harness[t] is
            "empty" iff the runner printed an executed verdict (PASSED/FAILED/XFAIL/XPASS) for t although
            the independent evidence shows that the body of t never started; "runs" otherwise. Every
            "empty" entry has been reported by the driver as a failing case of its own (signature
            `verdict-without-running: ...`): catalogued or a VIOLATION.
     {e:"discover"}                     test files were found (no "No test files found" error)
     {e:"select", n}                    n = N of "collected N item(s)", 0 for "No tests collected"
     {e:"nocollect", code}              "No tests collected", process exit status
     {e:"session", n}                   the "collected N item(s)" line
     {e:"skip", t, v}                   verdict line `file::name SKIPPED` for test t
     {e:"run", t, begin, end}           a verdict line other than SKIPPED was printed for t: run_single_test
                                        was called; begin/end = the marker files that the FIRST / LAST
                                        statement of the body of t write exist
     {e:"judge", t, v}                  the verdict printed for t
     {e:"summary", c:{passed,..}, begins:[..]}   the counts of the summary line; begins[t] = begin marker
                                        of t exists (for ALL tests: a test without verdict line must not have run)
     {e:"exit", code}                   process exit status

   Each event must be the corresponding action of TestRunner, enabled in the current state, and the
   observation must equal the specification's state after it. The C16 invariants are evaluated in
   every state of every session; PassedMeansRanAndPassed / XfailInverts are stated per test for the
   tests whose harness "runs" (for the others the driver has already reported the violation).   *)
EXTENDS TestRunner, Json, IOUtils
Rec == ndJsonDeserialize(IOEnv.TRACE)
VARIABLE l
tvars == <<vars, l>>
E == Rec[l]
ToSet(s) == {s[i] : i \in DOMAIN s}

TScenario ==
  /\ E.e = "scenario"
  /\ truth' = [t \in Tests |-> E.truth[t]]
  /\ marks' = [t \in Tests |-> ToSet(E.marks[t])]
  /\ matches' = [t \in Tests |-> E.matches[t]]
  /\ opt' = [filter |-> E.opt.filter, includeSlow |-> E.opt.includeSlow,
             stopOnFail |-> E.opt.stopOnFail, failOnEmpty |-> E.opt.failOnEmpty]
  /\ xpassStops' \in (IF E.opt.stopOnFail THEN BOOLEAN ELSE {FALSE})   \* left open by the documentation
  /\ harness' = [t \in Tests |-> E.harness[t]]
  /\ \A t \in Tests : E.truth[t] \in Outcomes /\ E.harness[t] \in HarnessModes
  /\ pc' = "discover" /\ all' = <<>> /\ sel' = <<>> /\ idx' = 1 /\ raw' = "none"
  /\ verdict' = [t \in Tests |-> "none"] /\ cnt' = ZeroCnt /\ out' = <<>>
  /\ ran' = [t \in Tests |-> FALSE] /\ fin' = [t \in Tests |-> FALSE] /\ exit' = -1

TDiscover == E.e = "discover" /\ Discover
TSelect == E.e = "select" /\ Select /\ Len(sel') = E.n
TNoCollect == E.e = "nocollect" /\ NoTestsCollected /\ exit' = E.code
TSession == E.e = "session" /\ SessionStart /\ E.n = Len(sel)
TSkip == E.e = "skip" /\ SkipTest /\ E.t = sel[idx] /\ E.v = "SKIPPED"
TRun == E.e = "run" /\ RunSingleTest /\ E.t = sel[idx] /\ ran'[E.t] = E.begin /\ fin'[E.t] = E.end
TJudge == E.e = "judge" /\ Judge /\ E.t = sel[idx] /\ verdict'[E.t] = E.v
TSummary == /\ E.e = "summary" /\ Summarise
            /\ E.c = cnt
            /\ \A t \in Tests : E.begins[t] = ran[t]
TExit == E.e = "exit" /\ Exit /\ exit' = E.code

\* before the first session: an idle, finished runner (every session starts with a "scenario" event)
TInit == /\ l = 1
         /\ truth = [t \in Tests |-> "pass"] /\ marks = [t \in Tests |-> {}] /\ matches = [t \in Tests |-> TRUE]
         /\ opt = [filter |-> FALSE, includeSlow |-> FALSE, stopOnFail |-> FALSE, failOnEmpty |-> FALSE]
         /\ xpassStops = FALSE /\ harness = [t \in Tests |-> "runs"]
         /\ pc = "done" /\ all = <<>> /\ sel = <<>> /\ idx = 1 /\ raw = "none"
         /\ verdict = [t \in Tests |-> "none"] /\ cnt = ZeroCnt /\ out = <<>>
         /\ ran = [t \in Tests |-> FALSE] /\ fin = [t \in Tests |-> FALSE] /\ exit = 0
TNext == /\ l <= Len(Rec) /\ l' = l + 1
         /\ (TScenario \/ TDiscover \/ TSelect \/ TNoCollect \/ TSession \/ TSkip \/ TRun \/ TJudge \/ TSummary \/ TExit)
TSpec == TInit /\ [][TNext]_tvars

\* the per-test form of the two invariants that the catalogued defect breaks
TPassedMeansRan == \A t \in Tests : harness[t] = "runs" => (verdict[t] = "PASSED" => fin[t] /\ truth[t] = "pass")
TXfailInverts == \A t \in Tests :
   /\ harness[t] = "runs" => (verdict[t] = "XPASS" => "xfail" \in marks[t] /\ fin[t])
   /\ verdict[t] = "XPASS" => "xfail" \in marks[t]
   /\ verdict[t] = "XFAIL" => "xfail" \in marks[t] /\ ~fin[t] /\ truth[t] # "pass"
   /\ verdict[t] \in {"PASSED", "FAILED"} => "xfail" \notin marks[t]

Accepted == IF TLCGet("stats").diameter - 1 = Len(Rec) THEN TRUE
            ELSE PrintT(<<"REJECT", ToJson([at |-> TLCGet("stats").diameter,
                                            ev |-> Rec[TLCGet("stats").diameter]])>>) /\ FALSE
=============================================================================
