CONSTANTS N = 3
          MaxRefs = 2
SPECIFICATION Spec
INVARIANTS NoStuck EachOnce CycleReported PathsAreCycles AllFinish Emit
PROPERTIES Termination
CHECK_DEADLOCK FALSE
