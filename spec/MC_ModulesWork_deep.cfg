CONSTANTS Vocab = {"a", "db", "main", "zz", "upa", "b"}
          MaxMain = 2
          MaxOther = 2
          Machines = {"cli", "lib", "lsp", "col"}
SPECIFICATION MCSpec
INVARIANTS VisitOnce VisitedExist
PROPERTIES Decreases
CHECK_DEADLOCK TRUE
