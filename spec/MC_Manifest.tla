---------------------------- MODULE MC_Manifest ----------------------------
(* TLC: every admissible program (feature placement x project name x module layout) is run
   through the project-preparation machine of Manifest.tla; the property's invariants are
   checked in every state and one CASE line per program is printed at its final state with what
   the specification demands (ExpectedDeps / Refused / names / referenced crate roots). *)
EXTENDS Manifest, Json
CONSTANTS MaxMixed,     \* programs mixing entry-file and module placement have at most this many features
          MaxUniform,   \* all-in-entry-file / all-in-module programs: up to this many features, or (nearly) all of them
          Names, Layouts

Sized(p) == \/ Cardinality(Present(p)) <= MaxMixed
            \/ Uniform(p) /\ (Cardinality(Present(p)) <= MaxUniform \/ Cardinality(Present(p)) >= Cardinality(Feat) - 1)
Admissible(p, n, l) ==
  /\ Sized(p)
  /\ (n # "main" => Cardinality(Present(p)) <= 1)
  /\ (l # "flat" => HasMod(p))

\* How a serde derive is WRITTEN is not part of what the property quantifies over: alone (`@derive(Serialize)`), listed
\* after other derives (`@derive(Debug, Clone, Serialize)`), on a second decorator line (`@derive(Debug)` / `@derive(Serialize)`)
\* or on a class instead of a model - the demanded manifest is the same (no operator of Manifest reads prog.form).
DeriveForms == {"alone", "listed", "stacked", "class"}
Init == /\ \E p \in {q \in [Feat -> Place] : Sized(q)} :
             \E n \in Names : \E l \in Layouts :
             \E fm \in (IF p["dser"] # "none" \/ p["dde"] # "none" THEN DeriveForms ELSE {"alone"}) :
                Admissible(p, n, l) /\ prog = [place |-> p, name |-> n, layout |-> l, form |-> fm]
        /\ pc = "start" /\ mods = {} /\ needs = {} /\ crates = {} /\ refs = [main |-> {}, mod |-> {}]
        /\ deps = <<>> /\ pkg = [package |-> "", bin |-> ""]
MCNext == Next \/ (Final /\ UNCHANGED vars)
Spec == Init /\ [][MCNext]_vars

\* which placed features make a crate necessary (for finding signatures computed by the spec)
WhyNeeded(p, c) ==
  {f \in Present(p) :
     \/ (c \in {"serde", "serde_json"} /\ f \in SerdeFeat)
     \/ (c = "tokio" /\ f \in TokioFeat)
     \/ (c = "axum" /\ f \in AxumFeat)
     \/ (f \in RustFeat /\ RustImport[f] = c)}
Origin(p, c) == IF WhyNeeded(p, c) = {} THEN "runtime"
                ELSE IF WhyNeeded(p, c) \subseteq InMod(p) THEN "module-only" ELSE "main"
\* names of the property invariants violated in the current (final) state - used by the as-written
\* configuration, where TLC reports every deviating program instead of stopping at the first
Violated ==
  {n \in {"RefusedIffUnknown", "DeclaredIsNeeded", "RefsDeclared", "NoDuplicates", "Pinned", "StdlibFeaturesOK",
          "WebTokioHasNet", "NamesOK", "DepsAreExpected"} :
     CASE n = "RefusedIffUnknown" -> ~RefusedIffUnknown [] n = "DeclaredIsNeeded" -> ~DeclaredIsNeeded
       [] n = "RefsDeclared" -> ~RefsDeclared           [] n = "NoDuplicates" -> ~NoDuplicates
       [] n = "Pinned" -> ~Pinned                       [] n = "StdlibFeaturesOK" -> ~StdlibFeaturesOK
       [] n = "WebTokioHasNet" -> ~WebTokioHasNet       [] n = "NamesOK" -> ~NamesOK
       [] n = "DepsAreExpected" -> ~DepsAreExpected}
CaseRec ==
  LET p == prog.place
      exp == IF MustRefuse(p) THEN {} ELSE ExpectedDeps(p)
  IN [name |-> prog.name, layout |-> prog.layout, place |-> p, form |-> prog.form,
      refused |-> MustRefuse(p), unknown |-> UnknownIn(Present(p)),
      unknown_origin |-> IF UnknownIn(Present(p)) = {} THEN "" ELSE Origin(p, "fancy_crate"),
      deps |-> exp, origin |-> [c \in {d.crate : d \in exp} |-> Origin(p, c)],
      needed |-> Needed(p), refs_main |-> Refs(p).main, refs_mod |-> Refs(p).mod,
      stdlib_feats |-> StdlibFeats(Present(p)),
      json_origin |-> IF NeedsSerde(Present(p)) THEN (IF Present(p) \cap SerdeFeat \subseteq InMod(p) THEN "module-only" ELSE "main") ELSE "",
      web_origin |-> IF NeedsAxum(Present(p)) THEN (IF Present(p) \cap AxumFeat \subseteq InMod(p) THEN "module-only" ELSE "main") ELSE "",
      model_outcome |-> pc, model_declared |-> Declared, model_violated |-> Violated]
Emit1 == Final => PrintT(<<"CASE", ToJson(CaseRec)>>)
=============================================================================
