---------------------------- MODULE MC_PyArithI64 ----------------------------
(* C04 over ALL admissible 64-bit operand pairs (symbolic):
     apalache-mc check --init=Init --next=Next --inv=Inv --length=0 MC_PyArithI64.tla *)
EXTENDS PyArithI64

VARIABLES
  \* @type: Int;
  a,
  \* @type: Int;
  b

Init == a \in Int /\ b \in Int /\ Admissible(a, b)
Next == UNCHANGED <<a, b>>
\* C04 over all 64-bit operands: the law, agreement of the copies, no overflow anywhere
Inv == KernelsOK(a, b) /\ NoOverflow(a, b)
\* wrapping_rem(i64::MIN, -1) = 0: the one pair outside Admissible still has a defined modulo
=============================================================================
