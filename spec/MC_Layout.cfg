CONSTANTS MaxLen = 7
          PrintLen = 5
          MaxLines = 3
INIT Init
NEXT Next
INVARIANTS Invariance Reindent WellFormed Emit
CHECK_DEADLOCK FALSE
