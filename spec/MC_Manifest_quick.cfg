CONSTANTS ScanDepModules = TRUE
          StrictUnknown = TRUE
          MaxMixed = 2
          MaxUniform = 4
          Names = {"main", "app2", "my_app", "_x1", "a", "my-app", "x-1-y"}
          Layouts = {"flat", "nested"}
SPECIFICATION Spec
INVARIANTS RefusedIffUnknown DeclaredIsNeeded RefsDeclared NoDuplicates Pinned StdlibFeaturesOK WebTokioHasNet NamesOK DepsAreExpected Emit1
CHECK_DEADLOCK FALSE
